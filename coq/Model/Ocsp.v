(* Model/Ocsp.v — the decision logic around OCSP responses, branch by branch:

     sdk/src/crypto/ocsp/mod.rs    OcspResponse::from_der_checked (responder signature, certId binding, per-status time rules),
                                   cert_id_matches_signer
     sdk/src/crypto/cose/ocsp.rs   check_stapled_ocsp_response (responder profile with the OCSPSigning EKU, responder trust),
                                   process_ocsp_responses, check_ocsp_status (override / stapled / fetch / supplied)
     sdk/src/claim.rs              check_ocsp_status (fetch policy from settings), verify_claim: `?` on the result
     sdk/src/store.rs              certificate-status assertions bound to the chain of the manifest whose signer they name

   ASN.1 decoding, the hash of the certId, the responder signature check and certificate path building are oracles
   (Section variables).  The responder certificate reuses the certificate record and the EKU gate of Model/Timestamp.v
   (the same check_end_entity_certificate_profile, with the EKU list reduced to id-kp-OCSPSigning). *)
From Coq Require Import List NArith ZArith Bool.
From C2PA Require Import Base.Bytes Generated.C36_facts Generated.C37_facts Model.Timestamp.
Import ListNotations.
Open Scope Z_scope.

Inductive ocsp_code := OcRevoked | OcNotRevoked | OcUnknown | OcInaccessible.

Definition ocsp_code_eqb (a b : ocsp_code) : bool :=
  match a, b with
  | OcRevoked, OcRevoked | OcNotRevoked, OcNotRevoked | OcUnknown, OcUnknown | OcInaccessible, OcInaccessible => true
  | _, _ => false
  end.

Definition has_code (c : ocsp_code) (l : list ocsp_code) : bool := existsb (ocsp_code_eqb c) l.

Inductive id_hash := IdSha1 | IdSha256.

Record cert_id := {
  ci_alg : option id_hash;             (* hash_by_oid: None = not SHA-1 / SHA-256 *)
  ci_name_hash : bytes; ci_key_hash : bytes;
  ci_serial : N }.

(* the signing certificate chain as cert_id_matches_signer reads it: None = fewer than two certificates or one does not decode *)
Record signer_chain := { sc_serial : N; sc_issuer_name : bytes; sc_issuer_key : bytes }.

Inductive crl_reason := RemoveFromCRL | OtherReason.

Inductive cert_status :=
| Good
| Revoked (rt : Z) (reason : option crl_reason)
| UnknownStatus.

Record single_response := {
  sr_id : cert_id;
  sr_status : cert_status;
  sr_this_update : Z;
  sr_next_update : option Z }.

Record response := {
  rp_decodes : bool;                   (* OCSPResponse decodes, status = successful, responseBytes present, BasicOCSPResponse decodes *)
  rp_certs : option (list tsa_cert);   (* BasicOCSPResponse.certs *)
  rp_sig_alg_ok : bool;                (* the signature algorithm OID parses and maps to a hash (hash_alg_for_sig_alg) *)
  rp_tbs : bytes; rp_signature : bytes;
  rp_produced_at : Z;
  rp_singles : list single_response }.

(* the fields of OcspResponse that the callers look at *)
Record checked := {
  ck_certs : option (list tsa_cert);   (* ocsp_certs: Some only when the responder signature verified *)
  ck_bound : bool;                     (* certificate_serial_num non-empty: some single response matched the signer *)
  ck_revoked_at : option Z }.

Definition ck_default : checked := {| ck_certs := None; ck_bound := false; ck_revoked_at := None |}.

Section Oracles.
  Variable IH : id_hash -> bytes -> bytes.                            (* hash of the certId *)
  Variable VerifyR : N -> bytes -> bytes -> bool.                     (* responder key, signature, tbsResponseData *)
  Variable profile_rest : tsa_cert -> option cred_code.               (* as in Model/Timestamp.v *)
  Variable trusted : tsa_cert -> option Z -> bool.                    (* check_certificate_trust(extended chain, responder, signing time) *)

  Definition cert_id_matches_signer (ci : cert_id) (ch : option signer_chain) : bool :=
    match ch with
    | None => false
    | Some c =>
      if negb (N.eqb (ci_serial ci) (sc_serial c)) then false
      else match ci_alg ci with
           | None => false
           | Some h => bytes_eqb (ci_name_hash ci) (IH h (sc_issuer_name c)) && bytes_eqb (ci_key_hash ci) (IH h (sc_issuer_key c))
           end
    end.

  (* "Was signing time within the acceptable range?" for a good status *)
  Definition good_in_range (s : single_response) (produced_at : Z) (st : option Z) (now : Z) : bool :=
    let nu := match sr_next_update s with Some n => n | None => produced_at + NO_NEXT_UPDATE_GRACE end in
    match st with
    | Some t => (t <? sr_this_update s) || ((sr_this_update s <=? t) && (t <=? nu))
    | None => sr_this_update s <=? now
    end.

  (* the loop over tbsResponseData.responses: Stop* = the early returns (the internal log is dropped) *)
  Inductive scan_result :=
  | StopNotRevoked (bound : bool)                 (* notRevoked logged, return *)
  | StopQuiet                                     (* revoked later than the signing time: return, nothing logged *)
  | ScanEnd (bound : bool) (revoked_at : option Z) (internal : list ocsp_code).

  Fixpoint scan (ch : option signer_chain) (produced_at : Z) (st : option Z) (now : Z)
           (ss : list single_response) (bound : bool) (rev : option Z) (internal : list ocsp_code) : scan_result :=
    match ss with
    | [] => ScanEnd bound rev internal
    | s :: r =>
      if negb (cert_id_matches_signer (sr_id s) ch) then scan ch produced_at st now r bound rev internal
      else
        match sr_status s with
        | Good =>
          if good_in_range s produced_at st now then StopNotRevoked true
          else scan ch produced_at st now r true rev (internal ++ [OcRevoked])
        | Revoked rt (Some RemoveFromCRL) =>
          let in_range := match st with Some t => t <? rt | None => now <? rt end in
          if in_range then scan ch produced_at st now r true rev internal
          else scan ch produced_at st now r true (Some rt) (internal ++ [OcRevoked])
        | Revoked rt (Some OtherReason) =>
          let in_range := match st with Some t => t <? rt | None => false end in
          if in_range then StopQuiet
          else scan ch produced_at st now r true (Some rt) (internal ++ [OcRevoked])
        | Revoked rt None => scan ch produced_at st now r true (Some rt) (internal ++ [OcRevoked])
        | UnknownStatus => scan ch produced_at st now r true rev (internal ++ [OcUnknown])
        end
    end.

  (* OcspResponse::from_der_checked: the value and what it appends to the caller's log *)
  Definition from_der_checked (r : response) (ch : option signer_chain) (st : option Z) (now : Z) : checked * list ocsp_code :=
    if negb (rp_decodes r) then (ck_default, [])
    else match rp_certs r with
         | None => (ck_default, [])                                   (* "we cannot validate the OCSP response signature" *)
         | Some cs =>
           if negb (rp_sig_alg_ok r) then (ck_default, [])
           else match cs with
                | [] => (ck_default, [])
                | first :: _ =>
                  if negb (VerifyR (tc_key first) (rp_signature r) (rp_tbs r)) then (ck_default, [])
                  else match scan ch (rp_produced_at r) st now (rp_singles r) false None [] with
                       | StopNotRevoked b => ({| ck_certs := Some cs; ck_bound := b; ck_revoked_at := None |}, [OcNotRevoked])
                       | StopQuiet => ({| ck_certs := Some cs; ck_bound := true; ck_revoked_at := None |}, [])
                       | ScanEnd b rev internal => ({| ck_certs := Some cs; ck_bound := b; ck_revoked_at := rev |}, internal)
                       end
                end
         end.

  (* check_end_entity_certificate_profile(responder, ekus = {OCSPSigning}, log, tst): validity at the signing time, else now *)
  Definition responder_profile (c : tsa_cert) (st : option Z) (now : Z) : option cred_code :=
    tsa_profile profile_rest c (match st with Some t => t | None => now end).

  (* check_stapled_ocsp_response: the log is appended only for a usable response *)
  Definition check_response (r : response) (ch : option signer_chain) (st : option Z) (now : Z) : checked * list ocsp_code :=
    let '(ck, l) := from_der_checked r ch st now in
    match ck_certs ck with
    | Some (first :: _) =>
      if negb (has_ocsp_eku first) then (ck_default, [])           (* has_ocsp_signing_eku (fix b2c9a9e81) *)
      else match responder_profile first st now with
           | Some _ => (ck_default, [])
           | None => if negb (trusted first st) then (ck_default, []) else (ck, l)
           end
    | _ => (ck_default, [])
    end.

  Inductive status_result := StatusOk (bound : bool) | StatusRevoked.       (* Ok(OcspResponse) | Err(CertificateNotTrusted) *)

  (* what check_ocsp_status does with one checked response: Some = decided *)
  Definition decide (ck : checked) (l : list ocsp_code) : option (status_result * list ocsp_code) :=
    if has_code OcRevoked l then Some (StatusRevoked, [OcRevoked])
    else if has_code OcNotRevoked l then Some (StatusOk (ck_bound ck), [OcNotRevoked])
    else None.

  Fixpoint process_responses (rs : list response) (ch : option signer_chain) (st : option Z) (now : Z)
    : status_result * list ocsp_code :=
    match rs with
    | [] => (StatusOk false, [])
    | r :: rest =>
      let '(ck, l) := check_response r ch st now in
      match decide ck l with
      | Some d => d
      | None => process_responses rest ch st now
      end
    end.

  Record config := {
    cf_override : bool;                  (* builder.certificate_status_should_override = Some(true) *)
    cf_fetch : bool }.                   (* verify.ocsp_fetch *)

  (* what is consulted when nothing is stapled, or the staple did not settle the question *)
  Definition other_evidence (cf : config) (supplied : list response) (fetched : option response)
             (ch : option signer_chain) (st : option Z) (now : Z) : status_result * list ocsp_code :=
    if cf_fetch cf then
      match fetched with
      | None => (StatusOk false, [OcInaccessible])
      | Some r =>
        (* fetch_and_check_ocsp_response: responder EKU + profile without a time, no trust check, codes logged directly *)
        let '(ck, l) := from_der_checked r ch st now in
        match ck_certs ck with
        | Some (first :: _) =>
          if negb (has_ocsp_eku first) then (StatusOk false, l)
          else match responder_profile first None now with
               | Some _ => (StatusOk false, l)
               | None => (StatusOk (ck_bound ck), l)
               end
        | _ => (StatusOk false, l)
        end
      end
    else process_responses supplied ch st now.

  (* cose::check_ocsp_status.  [fetched]: what the responder named in the certificate returns (None: nothing usable).
     A stapled response settles the question only when it yields revoked / notRevoked; otherwise the code continues as if
     nothing had been stapled (fix fb08c71da). *)
  Definition check_ocsp_status (cf : config) (stapled : option response) (supplied : list response) (fetched : option response)
             (ch : option signer_chain) (st : option Z) (now : Z) : status_result * list ocsp_code :=
    match (if cf_override cf then supplied else []) with
    | _ :: _ => process_responses supplied ch st now
    | [] =>
      match stapled with
      | Some r =>
        let '(ck, l) := check_response r ch st now in
        match decide ck l with
        | Some d => d
        | None => other_evidence cf supplied fetched ch st now
        end
      | None => other_evidence cf supplied fetched ch st now
      end
    end.

  (* store.rs (get_claim_referenced_manifests), after fix 0aa703aa5: every response of a certificate-status assertion is run
     through from_der_checked (no signing time, throw-away log) against the chain of each manifest of the store and filed
     under the serial of the first one it names, whichever manifest carries the assertion; verify_claim looks the list up
     by the serial of the claim being verified.  [assertion_supplies chains r target] = the response reaches the claim
     whose signer has serial [target]. *)
  Definition assertion_supplies (chains : list signer_chain) (r : response) (target : N) (now : Z) : bool :=
    existsb (fun c => N.eqb (sc_serial c) target && ck_bound (fst (from_der_checked r (Some c) None now))) chains.

  (* verify_claim: `check_ocsp_status(..)?` — an Err aborts the validation of the claim *)
  Definition claim_survives (cf : config) (stapled : option response) (supplied : list response) (fetched : option response)
             (ch : option signer_chain) (st : option Z) (now : Z) : bool :=
    match fst (check_ocsp_status cf stapled supplied fetched ch st now) with
    | StatusOk _ => true
    | StatusRevoked => false
    end.
End Oracles.

(* concrete oracles for the correspondence run *)
Definition toyIH (h : id_hash) (b : bytes) : bytes := (match h with IdSha1 => 1 | IdSha256 => 2 end)%N :: b.
Definition toyVerifyR (k : N) (sig tbs : bytes) : bool := bytes_eqb sig (k :: tbs).
