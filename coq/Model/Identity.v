(* Model/Identity.v — CAWG identity assertion: creation of the signer payload and validation against a claim.
   Transcribes, branch by branch,
     sdk/src/identity/builder/identity_assertion_builder.rs   IdentityAssertionBuilder::content (selection of references)
     sdk/src/identity/identity_assertion/assertion.rs         check_padding, validate_partial_claim
     sdk/src/identity/identity_assertion/signer_payload.rs    check_against_partial_claim
     sdk/src/identity/x509/x509_status_remap.rs               remap_x509_cose_status_codes
     sdk/src/status_tracker                                   LogItem::failure under StopOnFirstError / ContinueWhenPossible
   Executable definitions only.  COSE / X.509 verification, the claims-aggregation verifier and the CBOR encoding
   of the signer payload are Section variables.  The code strings, the remap table and the two
   "does this error branch log a status code" flags come from Generated/C33_facts.v. *)
From Coq Require Import List NArith Bool String.
From C2PA Require Import Base.Bytes Model.ByteStr Generated.C33_facts.
Import ListNotations.
Open Scope N_scope.

(* HashedUri: url and hash (alg is not compared by the code: the comparison is commented out in the source) *)
Record href := HR { hurl : bytes; hhash : bytes }.
Record payload := SP { refs : list href; sig_type : bytes; roles : list bytes }.
Record ia := IA { ia_payload : payload; ia_sig : bytes; pad1 : bytes; pad2 : option bytes }.

Inductive ikind := KS | KI | KF.
Record item := IT { icode : bytes; ikind_ : ikind }.

Inductive verr :=
| EInvalidPadding | EAssertionMismatch (u : bytes) | EAssertionNotInClaim (u : bytes) | ENoHardBinding
| EDuplicate (u : bytes) | ESignatureMismatch | ESignatureError | EUnknownSigType.

(* VParse: parse_cose_sign1 failed (outer Err arm); VErr: any other error of verify_signature (catch-all arm) *)
Inductive vres := VOk | VMismatch | VParse | VErr.
(* what the COSE layer logged (C2PA codes, before remapping) and how verification ended *)
Record vout := VO { vlog : list item; vres_ : vres }.

Definition slash : N := 47.

(* ---- str helpers ---- *)

(* [s.rsplit_once('/')] : the part after the last '/', None without a '/' *)
Fixpoint rsplit_aux (s cur : bytes) (seen : bool) : option bytes :=
  match s with
  | [] => if seen then Some (rev cur) else None
  | x :: t => if x =? slash then rsplit_aux t [] true else rsplit_aux t (x :: cur) seen
  end.
Definition rsplit_label (s : bytes) : option bytes := rsplit_aux s [] false.

(* longest prefix without '/', and the rest *)
Fixpoint span_noslash (s : bytes) : bytes * bytes :=
  match s with
  | [] => ([], [])
  | x :: t => if x =? slash then ([], s) else let (a, r) := span_noslash t in (x :: a, r)
  end.

(* the regex "/c2pa/[^/]+/" anchored at the head of [s]: Some rest-after-the-match *)
Definition abs_prefix_at (s : bytes) : option bytes :=
  if starts_with abs_prefix_head s then
    let (run, rest) := span_noslash (skipn (List.length abs_prefix_head) s) in
    match run, rest with
    | _ :: _, _ :: after => Some after
    | _, _ => None
    end
  else None.

(* [ABSOLUTE_URL_PREFIX.replace(&url, "")]: the leftmost match is removed *)
Fixpoint strip_abs (s : bytes) : bytes :=
  match abs_prefix_at s with
  | Some rest => rest
  | None => match s with [] => [] | x :: t => x :: strip_abs t end
  end.

(* the closure given to [find] in check_against_partial_claim *)
Definition url_match (claim_url ref_url : bytes) : bool :=
  beq claim_url ref_url || beq (strip_abs claim_url) ref_url.

Definition find_claim (claim : list href) (r : href) : option href :=
  find (fun a => url_match (hurl a) (hurl r)) claim.

Definition is_hard_ref (u : bytes) : bool :=
  match rsplit_label u with Some l => starts_with hard_binding_label_prefix l | None => false end.

(* ---- creation: IdentityAssertionBuilder::content ---- *)

Definition label_or_whole (u : bytes) : bytes :=
  match rsplit_label u with Some l => l | None => u end.

Definition content_refs (sel : list bytes) (claim : list href) : list href :=
  filter (fun a => contains_str builder_hard_binding_marker (hurl a) || existsb (beq (label_or_whole (hurl a))) sel) claim.

(* ---- status tracker ---- *)

(* LogItem::failure: the item is logged; StopOnFirstError turns it into Err *)
Definition log_failure (stop : bool) (c : bytes) (e : verr) (log : list item) : list item * option verr :=
  (log ++ [IT c KF], if stop then Some e else None).

Definition nonzero (p : bytes) : bool := negb (forallb (N.eqb 0) p).

Definition check_padding (stop : bool) (a : ia) (log : list item) : list item * option verr :=
  if nonzero (pad1 a) then log_failure stop c_pad_invalid EInvalidPadding log
    (* ContinueWhenPossible: returns Ok here, pad2 is not looked at *)
  else match pad2 a with
       | Some p => if nonzero p then log_failure stop c_pad_invalid EInvalidPadding log else (log, None)
       | None => (log, None)
       end.

Section Refs.
  (* does the hash-mismatch branch log a status code before returning Err? (generated from the source) *)
  Variable mm_logs : bool.

  Fixpoint check_refs (stop : bool) (claim rs : list href) (log : list item) : list item * option verr :=
    match rs with
    | [] => (log, None)
    | r :: t =>
        match find_claim claim r with
        | Some a =>
            if beq (hhash a) (hhash r) then check_refs stop claim t log
            else ((if mm_logs then log ++ [IT c_assertion_mismatch KF] else log), Some (EAssertionMismatch (hurl r)))
        | None =>
            let log' := log ++ [IT c_assertion_mismatch KF] in
            if stop then (log', Some (EAssertionNotInClaim (hurl r))) else check_refs stop claim t log'
        end
    end.
End Refs.

Definition check_hard (stop : bool) (rs : list href) (log : list item) : list item * option verr :=
  if existsb (fun r => is_hard_ref (hurl r)) rs then (log, None)
  else log_failure stop c_hard_binding_missing ENoHardBinding log.

Fixpoint check_dups (stop : bool) (labels seen : list bytes) (log : list item) : list item * option verr :=
  match labels with
  | [] => (log, None)
  | l :: t =>
      if existsb (beq l) seen then
        let log' := log ++ [IT c_assertion_duplicate KF] in
        if stop then (log', Some (EDuplicate l)) else check_dups stop t (l :: seen) log'
      else check_dups stop t (l :: seen) log
  end.

Definition check_against_claim (mm_logs stop : bool) (claim : list href) (p : payload) (log : list item)
  : list item * option verr :=
  match check_refs mm_logs stop claim (refs p) log with
  | (l1, Some e) => (l1, Some e)
  | (l1, None) =>
      match check_hard stop (refs p) l1 with
      | (l2, Some e) => (l2, Some e)
      | (l2, None) => check_dups stop (map hurl (refs p)) [] l2
      end
  end.

(* ---- X509StatusRemapGuard ---- *)

Fixpoint remap_code (tbl : list (bytes * bytes)) (c : bytes) : bytes :=
  match tbl with
  | [] => c
  | (o, n) :: t => if beq o c then n else remap_code t c
  end.
Definition remap_item (i : item) : item := IT (remap_code remap_table (icode i)) (ikind_ i).

Inductive result := ROk | RErr (e : verr).

Section Validate.
  Variable enc : payload -> bytes.                 (* c2pa_cbor::to_writer(&signer_payload) *)
  Variable Verify : bytes -> bytes -> vout.        (* parse_cose_sign1 + Verifier::verify_signature (signature, payload cbor) *)
  Variable IcaVerify : payload -> bytes -> vout.   (* IcaSignatureVerifier::check_signature *)
  Variable mm_logs : bool.                         (* see check_refs *)
  Variable ust_logs : bool.                        (* does the unknown-sig_type branch log a status code? *)
  Variable se_logs : bool.                         (* does the catch-all COSE error arm log a status code? *)

  Definition check_signature (a : ia) (log : list item) : list item * result :=
    let p := ia_payload a in
    if beq (sig_type p) sig_type_x509 then
      let v := Verify (ia_sig a) (enc p) in
      let log1 := log ++ map remap_item (vlog v) in
      match vres_ v with
      | VOk => (log1 ++ [IT c_x509_validated KS; IT c_well_formed KS], ROk)
      | VMismatch => (log1 ++ [IT c_x509_mismatch KF], RErr ESignatureMismatch)
      | VParse => (log1, RErr ESignatureError)
      | VErr => ((if se_logs then log1 ++ [IT c_x509_mismatch KF] else log1), RErr ESignatureError)
      end
    else if beq (sig_type p) sig_type_ica then
      let v := IcaVerify p (ia_sig a) in
      match vres_ v with
      | VOk => (log ++ vlog v, ROk)
      | _ => (log ++ vlog v, RErr EUnknownSigType)
      end
    else ((if ust_logs then log ++ [IT c_sig_type_unknown KF] else log), RErr EUnknownSigType).

  (* IdentityAssertion::validate_partial_claim *)
  Definition validate (stop : bool) (claim : list href) (a : ia) (log : list item) : list item * result :=
    match check_padding stop a log with
    | (l1, Some e) => (l1, RErr e)
    | (l1, None) =>
        match check_against_claim mm_logs stop claim (ia_payload a) l1 with
        | (l2, Some e) => (l2, RErr e)
        | (l2, None) => check_signature a l2
        end
    end.
End Validate.

(* the codes of the failure items of a log *)
Definition failure_codes (l : list item) : list bytes :=
  map icode (filter (fun i => match ikind_ i with KF => true | _ => false end) l).
Definition success_codes (l : list item) : list bytes :=
  map icode (filter (fun i => match ikind_ i with KS => true | _ => false end) l).

(* evaluation entry point of the correspondence run: the oracle outcomes are given per case *)
Definition run_validate (mm ust se stop : bool) (claim : list href) (a : ia) (v : vout) : list item * result :=
  validate (fun _ => []) (fun _ _ => v) (fun _ _ => v) mm ust se stop claim a [].
