(* Model/Labels.v — executable transcription of
     sdk/src/jumbf/labels.rs : to_manifest_uri, to_assertion_uri, to_signature_uri, to_verifiable_credential_uri,
        to_databox_uri, to_normalized_uri, to_absolute_uri, to_relative_uri, manifest_label_from_uri,
        assertion_label_from_uri, box_name_from_uri, ManifestParts (Display), manifest_label_to_parts
     sdk/src/claim.rs        : Claim::label_with_instance, Claim::assertion_label_from_link
     sdk/src/assertion.rs    : get_thumbnail_type, get_thumbnail_image_type, get_thumbnail_instance
   on byte strings.  Constants come from Generated/C34_facts.v.  No proofs here. *)
From Coq Require Import List NArith Bool String.
From C2PA Require Import Base.Bytes Model.ByteStr Generated.C34_facts.
Import ListNotations.
Open Scope N_scope.

Definition SLASH : N := 47.   (* '/' *)
Definition EQUALS : N := 61.  (* '=' *)
Definition COLON : N := 58.   (* ':' *)
Definition USCORE : N := 95.  (* '_' *)
Definition DOT : N := 46.     (* '.' *)

(* ---- builders ---- *)
Definition to_manifest_uri (m : bytes) : bytes :=
  JUMBF_PREFIX ++ [EQUALS; SLASH] ++ MANIFEST_STORE ++ [SLASH] ++ m.
Definition to_assertion_uri (m a : bytes) : bytes :=
  to_manifest_uri m ++ [SLASH] ++ ASSERTIONS ++ [SLASH] ++ a.
Definition to_signature_uri (m : bytes) : bytes :=
  to_manifest_uri m ++ [SLASH] ++ SIGNATURE.
Definition to_verifiable_credential_uri (m v : bytes) : bytes :=
  to_manifest_uri m ++ [SLASH] ++ CREDENTIALS ++ [SLASH] ++ v.
Definition to_databox_uri (m d : bytes) : bytes :=
  to_manifest_uri m ++ [SLASH] ++ DATABOXES ++ [SLASH] ++ d.

(* ---- parsers ---- *)
Definition to_normalized_uri (uri : bytes) : bytes :=
  let parts := split EQUALS uri in
  let output := match parts with
                | [x] => x               (* uri_parts.len() == 1 *)
                | _ :: y :: _ => y       (* otherwise uri_parts[1] *)
                | [] => []
                end in
  if negb (beq output []) && starts_with (MANIFEST_STORE ++ [SLASH]) output
  then SLASH :: output else output.

Definition to_absolute_uri (m uri : bytes) : bytes :=
  let raw := to_normalized_uri uri in
  let parts := split SLASH raw in
  if Nat.ltb 2 (List.length parts) && beq (idx parts 1) MANIFEST_STORE then uri
  else to_manifest_uri m ++ [SLASH] ++ raw.

Definition to_relative_uri (uri : bytes) : bytes :=
  let raw := to_normalized_uri uri in
  let parts := split SLASH raw in
  if Nat.ltb 4 (List.length parts) && beq (idx parts 1) MANIFEST_STORE
  then JUMBF_PREFIX ++ [EQUALS] ++ join [SLASH] (skipn 3 parts)
  else uri.

Definition manifest_label_from_uri (uri : bytes) : option bytes :=
  let parts := split SLASH (to_normalized_uri uri) in
  if Nat.ltb 2 (List.length parts) && beq (idx parts 1) MANIFEST_STORE then Some (idx parts 2) else None.

Definition assertion_label_from_uri (uri : bytes) : option bytes :=
  let parts := split SLASH (to_normalized_uri uri) in
  if Nat.ltb 4 (List.length parts) && beq (idx parts 1) MANIFEST_STORE
     && (beq (idx parts 3) ASSERTIONS || beq (idx parts 3) DATABOXES)
  then Some (idx parts 4)
  else if Nat.ltb 1 (List.length parts) && beq (idx parts 0) ASSERTIONS then Some (idx parts 1)
  else None.

Definition box_name_from_uri (uri : bytes) : option bytes :=
  let parts := split SLASH (to_normalized_uri uri) in
  match rev parts with [] => None | x :: _ => Some x end.

(* ---- manifest label parts ---- *)
Record mparts := MP { guid : bytes; is_v1 : bool; cgi : option bytes; version : option N; reason : option N }.

(* Display for ManifestParts *)
Definition show_parts (p : mparts) : bytes :=
  if is_v1 p then
    match cgi p with
    | Some vendor => vendor ++ b ":urn:uuid:" ++ guid p
    | None => b "urn:uuid:" ++ guid p
    end
  else
    let mp0 := b "urn:c2pa:" ++ guid p in
    let mp1 := match cgi p with Some vendor => mp0 ++ [COLON] ++ vendor | None => mp0 end in
    match version p with
    | Some v =>
        let mp2 := match cgi p with
                   | Some _ => mp1 ++ [COLON] ++ show_usize v
                   | None => mp1 ++ [COLON; COLON] ++ show_usize v
                   end in
        match reason p with
        | Some r => mp2 ++ [USCORE] ++ show_usize r
        | None => mp2
        end
    | None => mp1
    end.

(* parts[3].len() > 32 || parts[3].split_whitespace().count() != 1 || !parts[3].is_ascii() *)
Definition vendor_bad (v : bytes) : bool :=
  (VENDOR_MAX <? len v) || negb (Nat.eqb (ws_tokens v false) 1) || negb (is_ascii v).

Definition manifest_label_to_parts (uri : bytes) : option mparts :=
  let manifest := match manifest_label_from_uri uri with Some m => m | None => uri end in
  let parts := split COLON manifest in
  let n := List.length parts in
  if Nat.ltb n 3 then None
  else if beq (idx parts 0) (b "urn") then
    let v1 := beq (idx parts 1) (b "uuid") in
    if negb v1 && negb (beq (idx parts 1) (b "c2pa")) then None
    else if v1 then Some (MP (idx parts 2) true None None None)
    else if Nat.ltb 5 n then None
    else
      let vendor :=                      (* None: reject; Some x: x is the vendor field *)
        if Nat.ltb 3 n && negb (beq (idx parts 3) []) then
          if vendor_bad (idx parts 3) then None else Some (Some (idx parts 3))
        else Some None in
      match vendor with
      | None => None
      | Some vendor =>
          if Nat.ltb 4 n && negb (beq (idx parts 4) []) then
            let vp := split USCORE (idx parts 4) in
            match parse_usize (idx vp 0) with
            | None => None
            | Some v =>
                match get vp 1 with
                | Some r => match parse_usize r with
                            | Some r' => Some (MP (idx parts 2) false vendor (Some v) (Some r'))
                            | None => None
                            end
                | None => Some (MP (idx parts 2) false vendor (Some v) None)
                end
            end
          else Some (MP (idx parts 2) false vendor None None)
      end
  else if beq (idx parts 1) (b "urn") then
    if beq (idx parts 2) (b "uuid") then
      if negb (Nat.eqb n 4) then None
      else Some (MP (idx parts 3) true (Some (idx parts 0)) None None)
    else None
  else None.

(* ---- assertion labels with instance numbers ---- *)
Definition get_thumbnail_type (l : bytes) : bytes :=
  if starts_with CLAIM_THUMBNAIL l then CLAIM_THUMBNAIL
  else if starts_with INGREDIENT_THUMBNAIL l then INGREDIENT_THUMBNAIL
  else b "none".

Definition get_thumbnail_image_type (l : bytes) : option bytes :=
  let comps := split DOT l in
  if contains_str (b "thumbnail") l && Nat.leb 4 (List.length comps)
  then Some (lower (idx (split USCORE (idx comps 3)) 0))
  else None.

Definition get_thumbnail_instance (l : bytes) : option N :=
  if beq (get_thumbnail_type l) INGREDIENT_THUMBNAIL then
    let comps := split2 USCORE l in
    if Nat.eqb (List.length comps) 2 then parse_usize (idx (split DOT (idx comps 1)) 0)
    else Some 0
  else None.

Definition assertion_label_from_link (link : bytes) : bytes * N :=
  let v2 := split SLASH (to_normalized_uri link) in
  let s := match rev v2 with x :: _ => x | [] => [] end in    (* v2 is never empty *)
  if beq (get_thumbnail_type s) INGREDIENT_THUMBNAIL then
    let instance := match get_thumbnail_instance s with Some i => i | None => 0 end in
    let label := match get_thumbnail_image_type s with
                 | None => get_thumbnail_type s
                 | Some t => get_thumbnail_type s ++ [DOT] ++ t
                 end in
    (label, instance)
  else
    let lp := split2 USCORE s in
    let instance := if Nat.eqb (List.length lp) 2
                    then match parse_usize (idx lp 1) with Some i => i | None => 0 end
                    else 0 in
    (idx lp 0, instance).

Definition label_with_instance (label : bytes) (instance : N) : bytes :=
  if instance =? 0 then label
  else if beq (get_thumbnail_type label) INGREDIENT_THUMBNAIL then
    let out := get_thumbnail_type label ++ [USCORE; USCORE] ++ show_usize instance in
    match get_thumbnail_image_type label with
    | Some t => out ++ [DOT] ++ t
    | None => out
    end
  else label ++ [USCORE; USCORE] ++ show_usize instance.

(* ---- what the correspondence run evaluates ---- *)
Definition parse_all (m u : bytes) :=
  (to_normalized_uri u, to_absolute_uri m u, to_relative_uri u, manifest_label_from_uri u,
   assertion_label_from_uri u, box_name_from_uri u, assertion_label_from_link u).
Definition run_parts (p : mparts) :=
  (show_parts p, manifest_label_to_parts (show_parts p), manifest_label_to_parts (to_manifest_uri (show_parts p))).
Definition run_uri (m a : bytes) :=
  let built := [to_manifest_uri m; to_assertion_uri m a; to_signature_uri m; to_databox_uri m a;
                to_verifiable_credential_uri m a] in
  (built, map (parse_all m) built, map (fun u => to_absolute_uri m (to_relative_uri u)) built).
Definition run_inst (m l : bytes) (n : N) :=
  let li := label_with_instance l n in
  (li, assertion_label_from_link li, assertion_label_from_link (to_assertion_uri m li)).
