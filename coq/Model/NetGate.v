(* Model/NetGate.v — which HTTP requests reading, ingredient import and signing make (C28).
   Transcription of
     store.rs   load_jumbf_from_stream / handle_remote_manifest / fetch_remote_manifest
                (verify.remote_manifest_fetch; only when no embedded manifest was found)
     claim.rs   check_ocsp_status -> crypto/cose/ocsp.rs check_ocsp_status (OcspFetchPolicy from verify.ocsp_fetch;
                a stapled response settles the question only when it is usable and conclusive (revoked / not
                revoked); otherwise the code falls through to the fetch policy as if nothing had been stapled —
                fix fb08c71da) -> crypto/ocsp/fetch.rs (needs an AIA OCSP responder)
     ingredient.rs add_stream_internal: Store::get_manifest_labels_for_ocsp (builder.certificate_status_fetch with
                builder.certificate_status_should_override = Some(false)) -> get_ocsp_response_ders
     cose_sign / Signer::send_timestamp_request (only when the signer has a time_authority_url)
     builder.rs Builder::sign -> maybe_add_timestamp (only when the signer has a time_authority_url; early exit unless
                builder.auto_timestamp_assertion.enabled (no explicit labels in the modelled calls); claims selected by
                fetch_scope, minus already time-stamped ones when skip_existing; one RFC 3161 request per remaining
                claim through the Context's resolver, `?` on failure)
   No proofs here. *)
From Coq Require Import List NArith Bool.
Import ListNotations.
Open Scope N_scope.

Record cfg := C {
  rmf : bool;      (* verify.remote_manifest_fetch *)
  ocspf : bool;    (* verify.ocsp_fetch *)
  csf : bool;      (* builder.certificate_status_fetch = "all" and certificate_status_should_override = false *)
  ats_on : bool;   (* builder.auto_timestamp_assertion.enabled *)
  ats_skip : bool; (* builder.auto_timestamp_assertion.skip_existing *)
  ats_parent : bool (* builder.auto_timestamp_assertion.fetch_scope = "parent" (otherwise "all") *)
}.

Inductive akind :=
  | AEmbedded          (* embedded manifest, certificate without OCSP responder *)
  | ARemoteOnly        (* no embedded manifest, XMP dcterms:provenance names an http(s) URL *)
  | ARemoteEmbedded    (* embedded manifest and a remote reference *)
  | ANone              (* neither *)
  | AEmbeddedAia       (* embedded manifest, signing certificate names an OCSP responder, nothing stapled *)
  | AEmbeddedStapled   (* embedded manifest with a stapled OCSP response that is usable and conclusive *)
  | AEmbeddedStapledUnusable (* embedded manifest + one ingredient manifest, both with a stapled response that is
                               present but not usable/conclusive, both certificates naming a responder (ocsp.jpg) *)
  | ARemoteOnlyAia.    (* remote-only; the remote manifest's certificate names an OCSP responder *)

Record asset := A { kind : akind; url : N }.

Inductive signer := SNoTsa | STsa.
Inductive opk := OpRead | OpIngredient | OpSign.     (* OpSign: import the asset as an ingredient, then sign *)

Inductive req :=
  | RManifest (u : N)
  | ROcsp
  | RTsa        (* time-stamp of the new claim signature: Signer::send_timestamp_request *)
  | RTsaIng.    (* time-stamp of an ingredient manifest: Builder::maybe_add_timestamp, through the Context's resolver *)

Inductive outcome :=
  | OOk
  | OErrRemoteUrl (u : N)     (* Error::RemoteManifestUrl(url) *)
  | OErrNoJumbf               (* Error::JumbfNotFound *)
  | OErrFetch                 (* Error::RemoteManifestFetch *)
  | OErrTsa                   (* the time-stamp request failed (the test listener answers 404) *)
  | OErrTsaIng                (* the ingredient time-stamp request failed (the test resolver answers 404) *)
  | OUnmodelled.              (* outcome not transcribed (signing with an inaccessible-manifest ingredient) *)

Definition has_embedded (k : akind) : bool :=
  match k with AEmbedded | ARemoteEmbedded | AEmbeddedAia | AEmbeddedStapled | AEmbeddedStapledUnusable => true | _ => false end.
Definition has_ref (k : akind) : bool :=
  match k with ARemoteOnly | ARemoteEmbedded | ARemoteOnlyAia => true | _ => false end.
Definition aia (k : akind) : bool :=
  match k with AEmbeddedAia | ARemoteOnlyAia | AEmbeddedStapledUnusable => true | _ => false end.
Definition remote_only (k : akind) : bool := match k with ARemoteOnly | ARemoteOnlyAia => true | _ => false end.
(* get_ocsp_der(sign1).is_some(): a response is stapled (Claim::has_ocsp_vals looks at presence only) *)
Definition stapled (k : akind) : bool :=
  match k with AEmbeddedStapled | AEmbeddedStapledUnusable => true | _ => false end.
(* check_stapled_ocsp_response is Ok and logged revoked / not revoked: check_ocsp_status returns there *)
Definition staple_settles (k : akind) : bool := match k with AEmbeddedStapled => true | _ => false end.
(* claims of the asset's store that are verified (active manifest + ingredient manifests) *)
Definition nclaims (k : akind) : nat := match k with AEmbeddedStapledUnusable => 2%nat | _ => 1%nat end.

(* the active (parent) claim / every claim of the asset's manifest store already carries a time stamp *)
Definition ts_parent (k : akind) : bool :=
  match k with AEmbedded | AEmbeddedAia | AEmbeddedStapled | AEmbeddedStapledUnusable | ARemoteOnlyAia => true | _ => false end.
Definition ts_all (k : akind) : bool := ts_parent k.   (* the fixtures are uniform; assets built by the harness have none *)

Inductive loaded := LEmbedded | LRemote | LErr (o : outcome).

(* Store::load_jumbf_from_stream; [served]: the resolver answers 200 with a manifest store *)
Definition load_jumbf (c : cfg) (a : asset) (served : bool) : list req * loaded :=
  if has_embedded (kind a) then ([], LEmbedded)
  else if has_ref (kind a) then
    if rmf c then ([RManifest (url a)], if served then LRemote else LErr OErrFetch)
    else ([], LErr (OErrRemoteUrl (url a)))
  else ([], LErr OErrNoJumbf).

(* check_ocsp_status for the claim(s) of the asset's manifest *)
Definition ocsp_check (c : cfg) (k : akind) : list req :=
  if staple_settles k then [] else if ocspf c then (if aia k then repeat ROcsp (nclaims k) else []) else [].

(* get_manifest_labels_for_ocsp + get_ocsp_response_ders: claims without stapled values, responder needed *)
Definition status_fetch (c : cfg) (k : akind) : list req :=
  if csf c then (if stapled k then [] else if aia k then [ROcsp] else []) else [].

Definition read (c : cfg) (a : asset) (served : bool) : list req * outcome :=
  match load_jumbf c a served with
  | (rq, LErr o) => (rq, o)
  | (rq, _) => (rq ++ ocsp_check c (kind a), OOk)
  end.

(* Ingredient::add_stream_internal + update_validation_status; the bool says whether a manifest was loaded *)
Definition ingredient (c : cfg) (a : asset) (served : bool) : list req * outcome * bool :=
  match load_jumbf c a served with
  | (rq, LErr _) => (rq, OOk, false)          (* recorded as manifest.inaccessible / no claims; import succeeds *)
  | (rq, _) => (rq ++ ocsp_check c (kind a) ++ status_fetch c (kind a), OOk, true)
  end.

(* Builder::maybe_add_timestamp for the imported (parentOf) ingredient; the resolver refuses, so the first
   request ends the operation *)
Definition auto_timestamp (c : cfg) (k : akind) (has_claim : bool) : list req :=
  if negb (ats_on c) then []                                  (* early exit *)
  else if negb has_claim then []                              (* no claim ingredients / no parent claim *)
  else
    let already := if ats_parent c then ts_parent k else ts_all k in
    if ats_skip c && already then [] else [RTsaIng].

Definition sign (c : cfg) (a : asset) (s : signer) (served : bool) : list req * outcome :=
  let '(rq, _, has_claim) := ingredient c a served in
  if negb has_claim && has_ref (kind a) then (rq, OUnmodelled)   (* Builder::to_claim fails (AssertionEncoding) on the
                                                                   ingredient recorded as manifest.inaccessible *)
  else
    match s with
    | STsa =>
        match auto_timestamp c (kind a) has_claim with
        | [] => (rq ++ [RTsa], OErrTsa)
        | t => (rq ++ t, OErrTsaIng)
        end
    | SNoTsa =>                                  (* no time_authority_url: maybe_add_timestamp is not called *)
        (* verify.verify_after_sign: the new store is verified, including the imported ingredient claim *)
        (rq ++ (if has_claim then ocsp_check c (kind a) else []), OOk)
    end.

Definition requests (c : cfg) (a : asset) (s : signer) (o : opk) (served : bool) : list req * outcome :=
  match o with
  | OpRead => read c a served
  | OpIngredient => let '(rq, out, _) := ingredient c a served in (rq, out)
  | OpSign => sign c a s served
  end.

(* ---- the finite domain, spelled out ---- *)
Definition all_cfg : list cfg :=
  flat_map (fun a => flat_map (fun b => flat_map (fun d => flat_map (fun e => flat_map (fun f =>
    map (fun g => C a b d e f g) [false; true]) [false; true]) [false; true]) [false; true]) [false; true]) [false; true].
Definition all_kinds : list akind :=
  [AEmbedded; ARemoteOnly; ARemoteEmbedded; ANone; AEmbeddedAia; AEmbeddedStapled; ARemoteOnlyAia;
   AEmbeddedStapledUnusable].
Definition all_signers : list signer := [SNoTsa; STsa].
Definition all_ops : list opk := [OpRead; OpIngredient; OpSign].
Definition all_bools : list bool := [false; true].

Definition point := (cfg * akind * signer * opk * bool)%type.
Definition domain : list point :=
  flat_map (fun c => flat_map (fun k => flat_map (fun s => flat_map (fun o => map (fun b => (c, k, s, o, b)) all_bools)
    all_ops) all_signers) all_kinds) all_cfg.

Definition is_manifest (r : req) := match r with RManifest _ => true | _ => false end.
Definition is_ocsp (r : req) := match r with ROcsp => true | _ => false end.
Definition is_tsa (r : req) := match r with RTsa => true | _ => false end.
Definition is_tsa_ing (r : req) := match r with RTsaIng => true | _ => false end.
Definition akind_eqb (a b : akind) : bool :=
  match a, b with
  | AEmbedded, AEmbedded | ARemoteOnly, ARemoteOnly | ARemoteEmbedded, ARemoteEmbedded | ANone, ANone
  | AEmbeddedAia, AEmbeddedAia | AEmbeddedStapled, AEmbeddedStapled | ARemoteOnlyAia, ARemoteOnlyAia
  | AEmbeddedStapledUnusable, AEmbeddedStapledUnusable => true
  | _, _ => false
  end.

(* the property at one point of the domain (u: the URL the asset refers to) *)
Definition gated (u : N) (p : point) : bool :=
  let '(c, k, s, o, b) := p in
  let '(rq, out) := requests c (A k u) s o b in
  implb (existsb is_manifest rq) (rmf c && remote_only k)
  && forallb (fun r => match r with RManifest v => v =? u | _ => true end) rq
  && implb (existsb is_ocsp rq) (ocspf c || csf c)
  && implb (existsb is_tsa rq) (match s with STsa => true | SNoTsa => false end)
  && implb (existsb is_tsa_ing rq) (ats_on c && match s with STsa => true | SNoTsa => false end)
  && implb (negb (rmf c) && remote_only k && match o with OpRead => true | _ => false end)
           (match out with OErrRemoteUrl v => (v =? u) && (match rq with [] => true | _ => false end) | _ => false end).

(* what the correspondence run prints *)
Definition show (x : list req * outcome) : list N * outcome :=
  (map (fun r => match r with RManifest _ => 0 | ROcsp => 1 | RTsa => 2 | RTsaIng => 3 end) (fst x), snd x).
