(* Model/SignFlow.v — C03: the signing flow of Builder::sign / Store::save_to_stream and the report.
   Three executable parts, no proofs:
   A. size arithmetic of the two-pass save (store.rs start_save_stream): DataHash CBOR size, JUMBF box sizes,
      placeholder -> embed -> locate -> hash -> re-pad (claim.rs update_data_hash / DataHash::pad_to_size) ->
      re-serialise -> `jumbf_size != data.len()` check;
   B. the second embed (finish_save_stream) as a byte-level composition  pre ++ wrap jumbf ++ post;
   C. the field mapping definition -> claim (builder.rs to_claim) -> report (manifest.rs Manifest::from_store,
      store.rs get_assertion_from_jumbf_store / claim.rs assertion_hashed_uri_from_label, next_instance),
      with the assertion payloads represented by their position in the definition. *)
From Coq Require Import List NArith Bool String Ascii Arith.
From C2PA Require Import Base.Cbor Base.Bytes Generated.C03_facts.
Import ListNotations.
Open Scope N_scope.

(* ------------------------------------------------------------------------------------------------ *)
(* A. sizes *)

Record DataHashM := mkDH {
  dh_excl : list (N * N);   (* exclusions: None <-> [] (add_exclusion creates the vector) *)
  dh_name : N;              (* byte length of name ("jumbf manifest" = 14) *)
  dh_alg  : N;              (* byte length of alg ("sha256" = 6) *)
  dh_hash : N;              (* hash length 32/48/64 *)
  dh_pad  : N;              (* length of pad *)
  dh_pad2 : option N        (* length of pad2 *)
}.

Fixpoint sumN (l : list N) : N := match l with [] => 0 | x :: t => x + sumN t end.

(* HashRange {start, length} as a 2-entry map *)
Definition excl_entry_size (e : N * N) : N :=
  map_hdr 2 + tstr_size 5 + hdr (fst e) + tstr_size 6 + hdr (snd e).

Definition excl_size (es : list (N * N)) : N :=
  match es with
  | [] => 0
  | _ => tstr_size 10 + arr_hdr (len es) + sumN (map excl_entry_size es)
  end.

Definition dh_entries (d : DataHashM) : N :=
  (match dh_excl d with [] => 0 | _ => 1 end) + 4 + (match dh_pad2 d with None => 0 | Some _ => 1 end).

Definition dh_size (d : DataHashM) : N :=
  map_hdr (dh_entries d) + excl_size (dh_excl d)
  + (tstr_size 4 + tstr_size (dh_name d))
  + (tstr_size 3 + tstr_size (dh_alg d))
  + (tstr_size 4 + bstr_size (dh_hash d))
  + (tstr_size 3 + bstr_size (dh_pad d))
  + (match dh_pad2 d with None => 0 | Some p => tstr_size 4 + bstr_size p end).

(* JUMBF: LBox(4) TBox(4) payload; description box payload = uuid(16) toggles(1) label NUL [salt box] *)
Definition box (payload : N) : N := 8 + payload.
Definition jumd (label_len : N) (salted : bool) : N := box (16 + 1 + label_len + 1 + (if salted then box 16 else 0)).
Definition assertion_box (label_len data_len : N) : N := box (jumd label_len true + box data_len).

Record ManifestSz := mkM {
  m_label : N;                    (* manifest label length *)
  m_asrt  : list (N * N);         (* (label length, data length) of each assertion box *)
  m_claim_label : N;              (* 10 = c2pa.claim, 13 = c2pa.claim.v2 *)
  m_claim : N;                    (* claim CBOR length *)
  m_sig   : N;                    (* signature box content: reserve size, placeholder and final (C14) *)
  m_other : N                     (* credential store, data boxes: unchanged between the passes *)
}.

Definition manifest_size (m : ManifestSz) : N :=
  box (jumd (m_label m) false
       + box (jumd 15 false + sumN (map (fun a => assertion_box (fst a) (snd a)) (m_asrt m)))
       + box (jumd (m_claim_label m) false + box (m_claim m))
       + box (jumd 14 false + box (m_sig m))
       + m_other m).

Definition store_size (ms : list ManifestSz) : N := box (jumd 4 false + sumN (map manifest_size ms)).

Inductive sres (A : Type) := SOk (a : A) | SErrJumbfCreation.
Arguments SOk {A}. Arguments SErrJumbfCreation {A}.

Definition with_hash_assertion (m : ManifestSz) (data_len : N) : ManifestSz :=
  mkM (m_label m) (m_asrt m ++ [(14, data_len)]) (m_claim_label m) (m_claim m) (m_sig m) (m_other m).

Section TwoPass.
  (* The padding loop of DataHash::pad_to_size after its `curr_size > desired_size` guard (modelled and proved
     exact under C14; here a parameter). *)
  Variable pad_loop : DataHashM -> N -> option DataHashM.

  Definition pad_to_size (d : DataHashM) (target : N) : option DataHashM :=
    if target <? dh_size d then None else pad_loop d target.

  (* first pass: zero hash of the algorithm's length, exclusions located in the input, DH_SLACK bytes of pad *)
  Definition placeholder_dh (alg_len hash_len : N) (e0 : list (N * N)) : DataHashM :=
    mkDH e0 14 alg_len hash_len DH_SLACK None.
  (* second pass: generate_data_hashes_for_stream on the output (real exclusions, real hash, no pad) *)
  Definition final_dh (alg_len hash_len : N) (e1 : list (N * N)) : DataHashM :=
    mkDH e1 14 alg_len hash_len 0 None.

  (* start_save_stream, non-BMFF, no user hash assertion: sizes of the two serialisations, or the error.
     [others]: ingredient manifests already in the store; [m]: the provenance manifest before the hash
     assertion is added.  The claim length does not change: the hashed URI of c2pa.hash.data keeps its
     URL and its hash length. *)
  Definition start_save (others : list ManifestSz) (m : ManifestSz) (alg_len hash_len : N)
             (e0 e1 : list (N * N)) : sres (N * N) :=
    let d0 := placeholder_dh alg_len hash_len e0 in
    let size1 := store_size (others ++ [with_hash_assertion m (dh_size d0)]) in
    match pad_to_size (final_dh alg_len hash_len e1) (dh_size d0) with
    | None => SErrJumbfCreation
    | Some d1 =>
        let size2 := store_size (others ++ [with_hash_assertion m (dh_size d1)]) in
        if SIZE_CHECK_PRESENT && negb (size1 =? size2) then SErrJumbfCreation else SOk (size1, size2)
    end.
End TwoPass.

(* a concrete padding loop (transcription of DataHash::pad_to_size with fuel), used by the Example and by the
   correspondence run; its exactness is C14's subject *)
Fixpoint pad_loop_fuel (fuel : nat) (d : DataHashM) (last_pad target : N) : option DataHashM :=
  match fuel with
  | O => None
  | S f =>
      if dh_size d =? target then Some d
      else if dh_size d <? target then
        pad_loop_fuel f (mkDH (dh_excl d) (dh_name d) (dh_alg d) (dh_hash d) (dh_pad d + 1) (dh_pad2 d)) (last_pad + 1) target
      else match dh_pad2 d with
           | Some _ => None
           | None => pad_loop_fuel f (mkDH (dh_excl d) (dh_name d) (dh_alg d) (dh_hash d) 0 (Some (last_pad / 2))) 0 target
           end
  end.
Definition pad_loop_real (d : DataHashM) (target : N) : option DataHashM := pad_loop_fuel 4096 d 0 target.

(* ------------------------------------------------------------------------------------------------ *)
(* B. embedding: the container writer splits the asset around the manifest position and wraps the JUMBF *)

Section Embed.
  Variable pre post : bytes -> N -> bytes.     (* asset bytes before / after the manifest region, given |jumbf| *)
  Variable wrap : bytes -> bytes.              (* container framing of the JUMBF (segments, chunk header, crc) *)
  Definition embed (a j : bytes) : bytes := pre a (len j) ++ wrap j ++ post a (len j).
  (* object location reported for the embedded manifest (C12) *)
  Definition cai_range (a j : bytes) : N * N := (len (pre a (len j)), len (wrap j)).
  (* bytes selected by a single exclusion *)
  Definition sel_excl (data : bytes) (r : N * N) : bytes :=
    firstn (N.to_nat (fst r)) data ++ skipn (N.to_nat (fst r + snd r)) data.
End Embed.

(* ------------------------------------------------------------------------------------------------ *)
(* C. field mapping *)
Open Scope string_scope.

Fixpoint contains (sub s : string) : bool :=
  prefix sub s || match s with EmptyString => false | String _ t => contains sub t end.

Fixpoint ends_with_aux (suf s : string) : bool :=
  String.eqb suf s || match s with EmptyString => false | String _ t => ends_with_aux suf t end.
Definition ends_with (suf s : string) : bool := ends_with_aux suf s.

Definition digit (n : nat) : ascii := ascii_of_nat (48 + n).
Fixpoint dec_aux (fuel n : nat) (acc : string) : string :=
  match fuel with
  | O => acc
  | S f => let acc' := String (digit (Nat.modulo n 10)) acc in
           if Nat.eqb (Nat.div n 10) 0 then acc' else dec_aux f (Nat.div n 10) acc'
  end.
Definition dec (n : nat) : string := dec_aux (S n) n "".

Definition label_with_instance (l : string) (i : nat) : string :=
  match i with O => l | _ => l ++ "__" ++ dec i end.
Definition assertion_url (l : string) (i : nat) : string :=
  "self#jumbf=c2pa.assertions/" ++ label_with_instance l i.

(* an assertion of the manifest definition; the payload is its position *)
Record ADef := mkA { ad_label : string; ad_json : bool; ad_created : bool }.

Inductive akind := KCbor | KJson | KBinary.
Inductive arole := RUser | RThumb | RIngredient | RHash.

(* one Claim::add_assertion call *)
Record Add := mkAdd { ad2_label : string; ad2_kind : akind; ad2_created : bool; ad2_role : arole; ad2_src : option nat }.
(* one entry of the claim's assertion store *)
Record CA := mkCA { ca_label : string; ca_inst : nat; ca_kind : akind; ca_created : bool; ca_role : arole; ca_src : option nat }.

Definition is_actions (l : string) : bool := prefix "c2pa.actions" l.
Definition is_exif (l : string) : bool := String.eqb l "stds.exif".
Definition is_metadata (l : string) : bool := ends_with ".metadata" l && negb (String.eqb l "c2pa.assertion.metadata").
Definition is_creative_work (l : string) : bool := String.eqb l "stds.schema-org.CreativeWork".

(* assertion.rs get_mutable_label / Assertion::label: a trailing ".v<digits>" component is split off as the
   version (trim_end_matches removes every trailing repetition) and User / UserCbor assertions are created with
   version None, so label() prints the root only *)
Fixpoint rev_str (s acc : string) : string :=
  match s with EmptyString => acc | String c t => rev_str t (String c acc) end.
Definition is_digit (c : ascii) : bool := let n := nat_of_ascii c in Nat.leb 48 n && Nat.leb n 57.
Fixpoint take_digits (s : string) : string * string :=
  match s with
  | EmptyString => (EmptyString, EmptyString)
  | String c t => if is_digit c then let (d, r) := take_digits t in (String c d, r) else (EmptyString, s)
  end.
(* on the reversed label: the reversed suffix ".vN" when the last component is v<digits> *)
Definition version_suffix_rev (r : string) : option string :=
  let (d, rest) := take_digits r in
  match d, rest with
  | String _ _, String "v" (String "." _) => Some (d ++ "v.")
  | _, _ => None
  end.
Fixpoint drop_str (n : nat) (s : string) : string :=
  match n, s with O, _ => s | S k, String _ t => drop_str k t | S _, EmptyString => EmptyString end.
Fixpoint trim_rev (fuel : nat) (sfx r : string) : string :=
  match fuel with
  | O => r
  | S f => if prefix sfx r then trim_rev f sfx (drop_str (String.length sfx) r) else r
  end.
Definition strip_version (l : string) : string :=
  let r := rev_str l "" in
  match version_suffix_rev r with
  | Some sfx => rev_str (trim_rev (String.length l) sfx r) ""
  | None => l
  end.

(* builder.rs to_claim, the label dispatch of the assertion loop (hash arms are outside the
   generated definitions): label and serialisation kind of the assertion that is added *)
Definition claim_label (l : string) : string :=
  if is_actions l then "c2pa.actions.v2"
  else if is_exif l || is_metadata l || is_creative_work l then l
  else strip_version l.
Definition claim_kind (a : ADef) : akind :=
  if is_actions (ad_label a) then KCbor
  else if is_exif (ad_label a) || is_metadata (ad_label a) || is_creative_work (ad_label a) then KJson
  else if ad_json a then KJson else KCbor.
(* every arm of the generated space (user, actions, stds.exif, metadata and — since fix 937eabecd — CreativeWork) passes
   manifest_assertion.created() *)
Definition claim_created (a : ADef) : bool := ad_created a.

Fixpoint index_from {A} (k : nat) (l : list A) : list (nat * A) :=
  match l with [] => [] | x :: t => (k, x) :: index_from (S k) t end.

Record Defn := mkD {
  d_version : nat;              (* claim_version 1 | 2 *)
  d_thumb : bool;               (* a claim thumbnail is present (supplied or generated) *)
  d_ingredients : list bool;    (* per ingredient: does it carry an ingredient thumbnail assertion *)
  d_assertions : list ADef;
  d_auto_actions : bool         (* no actions assertion supplied and the settings produce one *)
}.

Definition has_actions (d : Defn) : bool := existsb (fun a => is_actions (ad_label a)) (d_assertions d).

(* the sequence of add_assertion calls of to_claim followed by the hash assertion of start_save_stream *)
Definition additions (d : Defn) (hash_label : string) : list Add :=
  ((if d_thumb d then [mkAdd "c2pa.thumbnail.claim" KBinary false RThumb None] else [])
  ++ List.concat (map (fun (it : nat * bool) =>
                    (if snd it then [mkAdd "c2pa.thumbnail.ingredient" KBinary false RThumb None] else [])
                    ++ [mkAdd "c2pa.ingredient.v3" KCbor false RIngredient (Some (fst it))])
                 (index_from 0 (d_ingredients d)))
  ++ map (fun (it : nat * ADef) =>
            mkAdd (claim_label (ad_label (snd it))) (claim_kind (snd it)) (claim_created (snd it)) RUser (Some (fst it)))
         (index_from 0 (d_assertions d))
  ++ (if negb (has_actions d) && d_auto_actions d then [mkAdd "c2pa.actions.v2" KCbor true RUser None] else [])
  ++ [mkAdd hash_label KCbor true RHash None])%list.

(* claim.rs next_instance: 1 + the largest instance among stored assertions whose label CONTAINS the new label *)
Definition next_instance (store : list CA) (l : string) : nat :=
  match filter (fun x => contains l (ca_label x)) store with
  | [] => O
  | x :: t => S (fold_left Nat.max (map ca_inst t) (ca_inst x))
  end.

Fixpoint add_all (store : list CA) (adds : list Add) : list CA :=
  match adds with
  | [] => store
  | a :: t =>
      add_all (store ++ [mkCA (ad2_label a) (next_instance store (ad2_label a)) (ad2_kind a)
                              (* claim_assertion_type: v1 claims have no created/gathered lists *)
                              (ad2_created a) (ad2_role a) (ad2_src a)])%list t
  end.

Definition to_claim (d : Defn) (hash_label : string) : list CA := add_all [] (additions d hash_label).

(* ---- read side.  v2: the claim lists created then gathered URIs; loading an assertion box looks its type up with
   assertion_hashed_uri_from_label, which (since fix 9afceaf9c) compares the label with its instance suffix to the last
   path segment of each URI of the created list first.  Assertion labels contain no '/' (label grammar; the URI is
   "self#jumbf=c2pa.assertions/" ++ label), so the last segment of an assertion URI is its label with instance. *)
Definition created_segments (c : list CA) : list string :=
  map (fun x => label_with_instance (ca_label x) (ca_inst x)) (filter ca_created c).

Definition loaded_created (version : nat) (c : list CA) (x : CA) : bool :=
  if Nat.leb 2 version
  then existsb (String.eqb (label_with_instance (ca_label x) (ca_inst x))) (created_segments c)
  else false.

(* a reported assertion: label, instance, Json kind, created flag, payload position *)
Record RA := mkRA { ra_label : string; ra_inst : nat; ra_json : bool; ra_created : bool; ra_src : option nat }.

Record Report := mkR { r_assertions : list RA; r_ingredients : list (option nat); r_thumbnail : bool }.

Definition claim_order (version : nat) (c : list CA) : list CA :=
  if Nat.leb 2 version then (filter ca_created c ++ filter (fun x => negb (ca_created x)) c)%list else c.

(* manifest.rs from_store: c2pa.hash.data / c2pa.hash.bmff / c2pa.hash.boxes are matched by their exact label, so a
   versioned BMFF hash (c2pa.hash.bmff.v2 / .v3) falls through to the generic arm and is reported *)
Definition hidden_hash_label (l : string) : bool :=
  String.eqb l "c2pa.hash.data" || String.eqb l "c2pa.hash.bmff" || String.eqb l "c2pa.hash.boxes".
Definition visible (x : CA) : bool :=
  match ca_role x, ca_kind x with
  | RUser, KCbor | RUser, KJson => true
  | RHash, _ => negb (hidden_hash_label (ca_label x))
  | _, _ => false
  end.

Definition report_item (version : nat) (c : list CA) (x : CA) : RA :=
  mkRA (ca_label x) (ca_inst x) (match ca_kind x with KJson => true | _ => false end) (loaded_created version c x) (ca_src x).

Definition report (version : nat) (c : list CA) : Report :=
  let o := claim_order version c in
  mkR (map (report_item version c) (filter visible o))
      (map ca_src (filter (fun x => match ca_role x with RIngredient => true | _ => false end) o))
      (existsb (fun x => String.eqb (ca_label x) "c2pa.thumbnail.claim") o).

Definition sign_report (d : Defn) (hash_label : string) : Report := report (d_version d) (to_claim d hash_label).

(* evaluation helpers for the correspondence run *)
Definition report_tuples (r : Report) :=
  (map (fun x => (ra_label x, ra_inst x, ra_json x, ra_created x, ra_src x)) (r_assertions r), r_ingredients r, r_thumbnail r).
Definition c03_eval (d : Defn) (hash_label : string) := report_tuples (sign_report d hash_label).
(* re-pad a final DataHash to the observed size: (size before padding, pad, pad2) *)
Definition c03_repad (alg_len hash_len : N) (e1 : list (N * N)) (target : N) :=
  let d := final_dh alg_len hash_len e1 in
  (dh_size d, match pad_to_size pad_loop_real d target with
              | Some d' => Some (dh_size d', dh_pad d', dh_pad2 d')
              | None => None end).

(* sizes of the assertion boxes and of the whole store, for comparison with a parsed manifest store *)
Definition c03_sizes (ms : list ManifestSz) :=
  (map (fun m => map (fun a => assertion_box (fst a) (snd a)) (m_asrt m)) ms, store_size ms).
