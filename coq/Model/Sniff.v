(* Model/Sniff.v — executable transcription of sdk/src/jumbf_io.rs: container_from_stream (the `if` cascade is the
   generated table MAGIC_ROWS, scanned in source order), container_from_format (CONTAINER_MAP, generated
   FORMAT_TABLE, later insertions override earlier ones), utils/mime.rs normalize_format (ASCII), and
   format_from_stream.  No proofs here. *)
From Coq Require Import List NArith Bool String Ascii.
From C2PA Require Import Base.Bytes Model.SniffTypes Generated.C11_facts.
Import ListNotations.
Open Scope N_scope.

(* ---------------------------------------------------------------- container_from_stream *)

Definition byte_at (buf : bytes) (i : nat) : N := nth i buf 0.
Definition pat_ok (buf : bytes) (p : pat) : bool := N.land (byte_at buf (poff p)) (pmask p) =? pval p.
Definition alt_ok (n : N) (buf : bytes) (a : alt) : bool := (aminlen a <=? n) && forallb (pat_ok buf) (apats a).
Definition row_ok (n : N) (buf : bytes) (r : row) : bool := existsb (alt_ok n buf) (ralts r).

Definition FLAC_MARKER : bytes := [102; 76; 97; 67].
Fixpoint bytes_eqb (a b : bytes) : bool :=
  match a, b with
  | [], [] => true
  | x :: a', y :: b' => (x =? y) && bytes_eqb a' b'
  | _, _ => false
  end.

(* sync-safe tag size from bytes 6..9, then seek(10 + size) and read_exact(4) == "fLaC" *)
Definition id3_family (b buf : bytes) : string :=
  let tag_size := N.lor (N.lor (N.lor (N.shiftl (N.land (byte_at buf 6) 127) 21)
                                      (N.shiftl (N.land (byte_at buf 7) 127) 14))
                               (N.shiftl (N.land (byte_at buf 8) 127) 7))
                        (N.land (byte_at buf 9) 127) in
  let off := 10 + tag_size in
  (* the bound is tested first: vm_compute is call-by-value and N.to_nat of a 2^28 offset must not be evaluated *)
  if off + 4 <=? len b
  then (if bytes_eqb (firstn 4 (skipn (N.to_nat off) b)) FLAC_MARKER then "flac"%string else "mp3"%string)
  else "mp3"%string.

Definition row_result (b buf : bytes) (r : row) : string :=
  match rkind r with RFam f => f | RId3 => id3_family b buf end.

Fixpoint first_row (n : N) (b buf : bytes) (rows : list row) : option string :=
  match rows with
  | [] => None
  | r :: t => if row_ok n buf r then Some (row_result b buf r) else first_row n b buf t
  end.

Definition detect (b : bytes) : option string :=
  let buf := firstn SNIFF_BUF b in
  let n := len buf in
  if n <? SNIFF_MIN then None else first_row n b buf MAGIC_ROWS.

(* ---------------------------------------------------------------- normalize_format (ASCII) *)

Definition lower_ascii (c : ascii) : ascii :=
  let n := N_of_ascii c in if (65 <=? n) && (n <=? 90) then ascii_of_N (n + 32) else c.
Definition is_space (c : ascii) : bool :=
  let n := N_of_ascii c in ((9 <=? n) && (n <=? 13)) || (n =? 32).
Fixpoint trim_left (s : string) : string :=
  match s with
  | String c t => if is_space c then trim_left t else s
  | EmptyString => EmptyString
  end.
Fixpoint rev_string (s acc : string) : string :=
  match s with EmptyString => acc | String c t => rev_string t (String c acc) end.
Fixpoint map_string (f : ascii -> ascii) (s : string) : string :=
  match s with EmptyString => EmptyString | String c t => String (f c) (map_string f t) end.
Definition normalize (s : string) : string :=
  map_string lower_ascii (rev_string (trim_left (rev_string (trim_left s) EmptyString)) EmptyString).

(* ---------------------------------------------------------------- container_from_format *)

(* HashMap::insert in table order: the last row for a key wins *)
Fixpoint lookup_last (k : string) (t : list (string * string)) (acc : option string) : option string :=
  match t with
  | [] => acc
  | (a, c) :: t' => lookup_last k t' (if String.eqb a k then Some c else acc)
  end.
Definition container_from_format (fmt : string) : option string := lookup_last (normalize fmt) FORMAT_TABLE None.

(* ---------------------------------------------------------------- format_from_stream *)

Definition resolve (hint : string) (b : bytes) : string :=
  match container_from_format hint, detect b with
  | Some h, Some d => if String.eqb h d then hint else d
  | _, Some d => d
  | _, None => hint
  end.
