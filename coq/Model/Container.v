(* Model/Container.v — generic segment-container model shared by C07, C08, C09.
   A format is a segment type with a recogniser of C2PA segments ([marks], a whole-list function
   because JPEG's recogniser is stateful), a constructor of C2PA segments from a manifest store
   ([mk]), a payload extractor ([payload], the reader), an insertion point ([ins]) and a
   one-segment encoder ([enc]).  The generic [gwrite]/[gremove]/[gread] below are the reference
   behaviour; each handler's transcription (Model/Cont*.v) is proved equal to it in Proofs/.
   No proofs here. *)
From Coq Require Import List NArith Bool.
From C2PA Require Import Base.Bytes.
Import ListNotations.
Open Scope N_scope.

(* error classes = variant names of c2pa::Error (ESignature stands for the per-format
   InvalidFileSignature wrappers PngError/JpegError/GifError/RiffError) *)
Inductive cerr := EInvalidAsset | EEmbeddingError | EJumbfNotFound | ETooManyManifestStores
                | EIoError | EBadParam | ESignature | EUnsupportedType | EOtherError.
Inductive res (A : Type) := ROk (a : A) | RErr (e : cerr).
Arguments ROk {A} a.
Arguments RErr {A} e.

Definition rbind {A B} (r : res A) (f : A -> res B) : res B :=
  match r with ROk a => f a | RErr e => RErr e end.

(* jumbf_io::load_jumbf_from_stream: an empty block is reported as "not found" *)
Definition nonempty_or_notfound (r : res bytes) : res bytes :=
  match r with
  | ROk [] => RErr EJumbfNotFound
  | _ => r
  end.

Record format := Format {
  seg : Type;
  marks : list seg -> list bool;
  mk : bytes -> list seg;
  payload : list seg -> res bytes;
  ins : list seg -> nat;
  enc : seg -> bytes;
}.

(* keep the elements whose mark equals [want] *)
Fixpoint select {A} (want : bool) (l : list A) (m : list bool) : list A :=
  match l, m with
  | x :: l', b :: m' => if Bool.eqb b want then x :: select want l' m' else select want l' m'
  | _, _ => []
  end.

Definition insert_at {A} (i : nat) (x l : list A) : list A := firstn i l ++ x ++ skipn i l.

Section Generic.
  Variable F : format.
  Definition strip (l : list (seg F)) : list (seg F) := select false l (marks F l).
  Definition c2pa_segs (l : list (seg F)) : list (seg F) := select true l (marks F l).
  Definition gwrite (l : list (seg F)) (b : bytes) : list (seg F) :=
    insert_at (ins F l) (mk F b) (strip l).
  Definition gremove (l : list (seg F)) : list (seg F) := strip l.
  Definition gread (l : list (seg F)) : res bytes := payload F l.
  Definition encs (l : list (seg F)) : bytes := concat (map (enc F) l).

  (* the manifest region of a written file, relative to the start of the segment area *)
  Definition goff (l : list (seg F)) : nat := length (encs (firstn (ins F l) (strip l))).
  Definition glen (b : bytes) : nat := length (encs (mk F b)).

  Inductive gop := OpW (b : bytes) | OpR.
  Fixpoint grun (l : list (seg F)) (ops : list gop) : list (seg F) :=
    match ops with
    | [] => l
    | OpW b :: t => grun (gwrite l b) t
    | OpR :: t => grun (gremove l) t
    end.
End Generic.

(* ---- helpers shared by the per-format transcriptions ---- *)

Definition beq (a b : bytes) : bool :=
  (Nat.eqb (length a) (length b)) && forallb (fun p => fst p =? snd p) (combine a b).

(* little-endian k-byte encoding / decoding *)
Definition le (k : nat) (n : N) : bytes := rev (be k n).
Definition dle (l : bytes) : N := de (rev l).

Fixpoint find_index {A} (p : A -> bool) (l : list A) : option nat :=
  match l with
  | [] => None
  | x :: t => if p x then Some O else option_map S (find_index p t)
  end.

Fixpoint rfind_index {A} (p : A -> bool) (l : list A) : option nat :=
  match l with
  | [] => None
  | x :: t => match rfind_index p t with
              | Some i => Some (S i)
              | None => if p x then Some O else None
              end
  end.

Definition remove_nth {A} (i : nat) (l : list A) : list A := firstn i l ++ skipn (S i) l.

Definition count {A} (p : A -> bool) (l : list A) : nat := length (filter p l).

(* hash used to compare long outputs with the implementation: h' = (33 * h + x + 1) mod 2^64.
   Only land/mul-by-a-small-constant/add: N.modulo and wide multiplications are orders of magnitude
   slower under vm_compute (binary positive arithmetic). *)
Definition PH_MASK : N := 18446744073709551615.
Definition PH_B : N := 33.
Definition poly_hash (l : bytes) : N := fold_left (fun h x => N.land (PH_B * h + x + 1) PH_MASK) l 0.
