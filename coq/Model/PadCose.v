(* Model/PadCose.v — executable transcription of
   sdk/src/crypto/cose/sign.rs :: pad_cose_sig  (and of the part of coset 0.4.2
   Header::to_cbor_value / CoseSign1::to_tagged_vec that determines the serialised size).
   No proofs here.

   A COSE_Sign1 is abstracted to what the padding routine can observe: the serialised size.
     fixed    bytes that never change (tag, array head, protected bstr, payload, signature, and the
              entries of the unprotected header that are not in `rest`: alg, crit, kid, ...)
     nfields  number of those non-`rest` entries of the unprotected map
     rest     unprotected.rest : Vec<(Label, Value)> — label kept concretely (equality matters:
              the loop looks for Label::Text("pad"); coset rejects duplicate labels), value kept
              as "byte string of n bytes" or "anything else of encoded size sz".
   size = fixed + head(nfields + |rest|) + sum of entry sizes;  serialisation fails
   (CoseError::DuplicateMapKey -> CborGenerationError) iff two entries of rest have equal labels. *)
From Coq Require Import List NArith ZArith Bool.
From C2PA Require Import Base.Bytes Base.Cbor Generated.C14_facts.
Import ListNotations.
Open Scope N_scope.

Inductive label := LInt (z : Z) | LText (s : list N).
Inductive value := VBytes (n : N) | VOther (sz : N).
Definition entry := (label * value)%type.
Record sign1 := Sign1 { fixed : N; nfields : N; rest : list entry }.

Fixpoint bytes_eqb (a b : list N) : bool :=
  match a, b with
  | [], [] => true
  | x :: a', y :: b' => (x =? y) && bytes_eqb a' b'
  | _, _ => false
  end.

Definition label_eqb (a b : label) : bool :=
  match a, b with
  | LInt x, LInt y => Z.eqb x y
  | LText x, LText y => bytes_eqb x y
  | _, _ => false
  end.

Definition label_size (l : label) : N :=
  match l with LInt z => int_size z | LText s => tstr_size (len s) end.
Definition value_size (v : value) : N :=
  match v with VBytes n => bstr_size n | VOther sz => sz end.
Definition entry_size (e : entry) : N := label_size (fst e) + value_size (snd e).
Fixpoint entries_size (r : list entry) : N :=
  match r with [] => 0 | e :: t => entry_size e + entries_size t end.

(* coset Header::to_cbor_value: `if seen.contains(&label) { return Err(DuplicateMapKey) }` *)
Definition mem_label (l : label) (ls : list label) : bool := existsb (label_eqb l) ls.
Fixpoint has_dup (ls : list label) : bool :=
  match ls with [] => false | l :: t => mem_label l t || has_dup t end.

Definition labels (s : sign1) : list label := map fst (rest s).
Definition count (s : sign1) : N := nfields s + len (rest s).

(* to_tagged_vec().len(), None = serialisation error *)
Definition ser_size (s : sign1) : option N :=
  if has_dup (labels s) then None
  else Some (fixed s + map_hdr (count s) + entries_size (rest s)).

Definition with_rest (s : sign1) (r : list entry) : sign1 := Sign1 (fixed s) (nfields s) r.
Definition push (s : sign1) (e : entry) : sign1 := with_rest s (rest s ++ [e]).

Definition pad_label : label := LText PAD.
Definition pad2_label : label := LText PAD2.

Inductive cose_err := BoxSizeTooSmall | CborGenerationError.
Inductive pres := POk (s : sign1) (n : N) | PErr (e : cose_err) | PPanic | POutOfFuel.

(* the `for header_pair in &mut sign1_clone.unprotected.rest` loop: first entry labelled "pad" gets
   the value Bytes(g); last_pad := old length when the old value was a byte string.
   None = no such entry (padding_found stays false). *)
Fixpoint replace_pad (r : list entry) (g last_pad : N) : option (list entry * N) :=
  match r with
  | [] => None
  | (l, v) :: t =>
      if label_eqb l pad_label
      then Some ((l, VBytes g) :: t, match v with VBytes b => b | VOther _ => last_pad end)
      else match replace_pad t g last_pad with
           | Some (t', lp) => Some ((l, v) :: t', lp)
           | None => None
           end
  end.

Inductive lres :=
| LFound (s : sign1) (n : N)      (* new_cbor.len() == end_size *)
| LNoPad (g : N)                  (* !padding_found: push "pad" of g bytes and recurse *)
| LBreak (last_pad : N)           (* overshoot: second pad needed *)
| LErr (e : cose_err)
| LOutOfFuel.

(* the `loop { .. }`.  `padding_found` is not carried: sign1 is not modified inside the loop, so
   the entry is found in every iteration or in none. *)
Fixpoint pad_loop (fuel : nat) (s : sign1) (E g last_pad : N) : lres :=
  match fuel with
  | O => LOutOfFuel
  | S f =>
      match replace_pad (rest s) g last_pad with
      | None => LNoPad g
      | Some (r', lp) =>
          let s' := with_rest s r' in
          match ser_size s' with
          | None => LErr CborGenerationError
          | Some n =>
              if n <? E then pad_loop f s E (g + 1) lp
              else if n =? E then LFound s' n
              else LBreak lp
          end
      end
  end.

(* fuel: recursion depth (at most 4 calls, see Proofs/PadCoseProofs.v) *)
Fixpoint pad_cose_sig (fuel : nat) (s : sign1) (end_size : option N) : pres :=
  match fuel with
  | O => POutOfFuel
  | S f =>
      match ser_size s with
      | None => PErr CborGenerationError
      | Some cur =>
          match end_size with
          | None => POk s cur
          | Some E =>
              if cur =? E then POk s cur
              else if E <? cur + PAD_OFFSET then PErr BoxSizeTooSmall
              else
                let g := E - cur - PAD_OFFSET in
                (* every iteration that continues has size < E and size > g, so at most
                   cur + PAD_OFFSET iterations *)
                match pad_loop (N.to_nat (cur + PAD_OFFSET) + 1) s E g 0 with
                | LFound s' n => POk s' n
                | LNoPad g' => pad_cose_sig f (push s (pad_label, VBytes g')) (Some E)
                | LBreak lp =>
                    (* Value::Bytes(vec![0u8; last_pad - 10]) : usize underflow panics *)
                    if lp <? PAD2_SUB then PPanic
                    else pad_cose_sig f (push s (pad2_label, VBytes (lp - PAD2_SUB))) (Some E)
                | LErr e => PErr e
                | LOutOfFuel => POutOfFuel
                end
          end
      end
  end.

Definition pad_cose_sig_top (s : sign1) (end_size : option N) : pres := pad_cose_sig 5 s end_size.

(* ---- helpers for the correspondence run: outcome codes for a sweep of end sizes, run-length encoded *)
Definition outcome_code (r : pres) (E : N) : N :=
  match r with
  | POk _ n => if n =? E then 0 else 1
  | PErr BoxSizeTooSmall => 2
  | PErr CborGenerationError => 3
  | PPanic => 4
  | POutOfFuel => 5
  end.

Fixpoint sweep (n : nat) (s : sign1) (E : N) : list N :=
  match n with
  | O => []
  | S k => outcome_code (pad_cose_sig_top s (Some E)) E :: sweep k s (E + 1)
  end.

(* [(code, run length)] *)
Fixpoint rle (l : list N) : list (N * N) :=
  match l with
  | [] => []
  | x :: t => match rle t with
              | (y, k) :: r => if x =? y then (y, k + 1) :: r else (x, 1) :: (y, k) :: r
              | [] => [(x, 1)]
              end
  end.
