(* Model/ContJpeg.v — transcription of sdk/src/asset_handlers/jpeg_io.rs (get_cai_segments,
   delete_cai_segments, read_cai, write_cai, get_object_locations_from_stream,
   remove_cai_store_from_stream) on top of the vendored img-parts 0.4.0 JPEG parser/encoder
   (Jpeg::from_bytes, JpegSegment::from_bytes, EncodeAt).  No proofs here. *)
From Coq Require Import List NArith Bool.
From C2PA Require Import Base.Bytes Model.Container Model.ContPng.
Import ListNotations.
Open Scope N_scope.

Record jseg := JSeg { jm : N; jc : bytes; je : bytes }.

Definition M_SOI : N := 216.   (* D8 *)
Definition M_EOI : N := 217.   (* D9 *)
Definition M_SOS : N := 218.   (* DA *)
Definition M_APP0 : N := 224.
Definition M_APP1 : N := 225.
Definition M_APP11 : N := 235.
Definition MAX_JPEG_MARKER_SIZE : nat := 64000.
Definition C2PA_MARKER : bytes := [99; 50; 112; 97].
Definition JP_CI : bytes := [74; 80].
Definition JP_EN : bytes := [2; 17].

(* img-parts markers::has_length: RST0..7 | APP0..15 | SOF0..15 | SOS | COM | DQT | DRI *)
Definition has_length (m : N) : bool :=
  ((208 <=? m) && (m <=? 215)) || ((224 <=? m) && (m <=? 239)) || ((192 <=? m) && (m <=? 207))
  || (m =? 218) || (m =? 254) || (m =? 219) || (m =? 221).

(* JpegSegment::len / len_with_entropy *)
Definition jlen (s : jseg) : N := (if has_length (jm s) then 4 else 2) + len (jc s).
Definition jlen_e (s : jseg) : N := jlen s + len (je s).

(* EncodeAt for JpegSegment: FF, marker, u16(len-2) — also for markers without a length field —
   then contents, then entropy *)
Definition enc_jseg (s : jseg) : bytes := [255; jm s] ++ be 2 (jlen s - 2) ++ jc s ++ je s.
Definition jpeg_enc (l : list jseg) : bytes := [255; M_SOI] ++ concat (map enc_jseg l).

(* skip the run of FF fill bytes, return the marker byte and the rest *)
Fixpoint skip_ff (b : bytes) : option (N * bytes) :=
  match b with
  | [] => None
  | x :: t => if x =? 255 then skip_ff t else Some (x, t)
  end.

(* the loop of Jpeg::from_bytes after the SOI; None = Error::Truncated *)
Fixpoint jparse (fuel : nat) (b : bytes) : option (list jseg) :=
  match fuel with
  | O => None
  | S f =>
    match b with
    | [] => None
    | x :: b1 =>
      if negb (x =? 255) then jparse f b1
      else
        match skip_ff b1 with
        | None => None
        | Some (m, b2) =>
          if m =? M_EOI then Some []
          else if negb (has_length m) then option_map (cons (JSeg m [] [])) (jparse f b2)
          else
            match b2 with
            | hi :: lo :: b3 =>
              let size := hi * 256 + lo in
              if size <? 2 then None
              else
                let n := size - 2 in
                if len b3 <? n then None
                else
                  let contents := firstn (N.to_nat n) b3 in
                  let rest := skipn (N.to_nat n) b3 in
                  if m =? M_SOS then
                    match rest with
                    | [] => None  (* no entropy: the loop continues and runs out of bytes *)
                    | _ => Some [JSeg m contents rest]
                    end
                  else option_map (cons (JSeg m contents [])) (jparse f rest)
            | _ => None
            end
        end
    end
  end.

(* Jpeg::from_bytes: Err(WrongSignature|Truncated) = None *)
Definition jpeg_dec (a : bytes) : option (list jseg) :=
  match a with
  | 255 :: 216 :: b => jparse (length b) b
  | _ => None
  end.

Definition is_app11_long (s : jseg) : bool := (jm s =? M_APP11) && (16 <? len (jc s)).

(* get_cai_segments, as one mark per segment; state: identifier of the current C2PA box and the
   number of its segments seen so far.  A continuation carries the same box instance number and the
   next packet sequence number (fix d67d17dcd).  An APP11 segment of 17..27 bytes met outside a
   continuation is Error::InvalidAsset. *)
Fixpoint jcai (segs : list jseg) (en : bytes) (cnt : N) : res (list bool) :=
  match segs with
  | [] => ROk []
  | s :: t =>
    if is_app11_long s then
      let raw := jc s in
      let sen := slice raw 2 2 in
      let z := de (slice raw 4 4) in
      if (0 <? cnt) && (beq en sen && (z =? cnt + 1)) then
        rbind (jcai t en (cnt + 1)) (fun m => ROk (true :: m))
      else if len raw <? 28 then RErr EInvalidAsset
      else if beq (slice raw 24 4) C2PA_MARKER then
        rbind (jcai t sen 1) (fun m => ROk (true :: m))
      else rbind (jcai t en cnt) (fun m => ROk (false :: m))
    else rbind (jcai t en cnt) (fun m => ROk (false :: m))
  end.

(* the loop of read_cai over the APP11 segments *)
Fixpoint jread_loop (segs : list jseg) (buf en : bytes) (cnt stores : N) : res bytes :=
  match segs with
  | [] => ROk buf
  | s :: t =>
    if is_app11_long s then
      let raw := jc s in
      let sen := slice raw 2 2 in
      let z := de (slice raw 4 4) in
      if (0 <? cnt) && beq en sen then
        if z <=? cnt then jread_loop t buf [] cnt stores
        else jread_loop t (buf ++ skipn 16 raw) en (cnt + 1) stores
      else if 28 <? len raw then
        if beq (slice raw 24 4) C2PA_MARKER then
          if stores =? 1 then RErr ETooManyManifestStores
          else jread_loop t (buf ++ skipn 8 raw) sen 1 (stores + 1)
        else jread_loop t buf en cnt stores
      else jread_loop t buf en cnt stores
    else jread_loop t buf en cnt stores
  end.

Definition jpeg_payload (segs : list jseg) : res bytes :=
  match jread_loop segs [] [] 0 0 with
  | ROk [] => RErr EJumbfNotFound
  | r => r
  end.

(* img-parts is_jpeg, then Jpeg::from_bytes; inputs with a PNG or WebP signature are outside the model *)
Definition is_jpeg (a : bytes) : bool :=
  match a with
  | 255 :: 216 :: 255 :: _ :: _ :: _ => true
  | _ => false
  end.

Definition jpeg_read (a : bytes) : res bytes :=
  if negb (is_jpeg a) then RErr EUnsupportedType
  else match jpeg_dec a with
       | None => RErr EInvalidAsset
       | Some [] => RErr EInvalidAsset
       | Some segs => nonempty_or_notfound (jpeg_payload segs)
       end.

Fixpoint mapi_from {A B} (k : nat) (f : nat -> A -> B) (l : list A) : list B :=
  match l with
  | [] => []
  | x :: t => f k x :: mapi_from (S k) f t
  end.

(* the C2PA APP11 segments for a store: CI, En, Z, [LBox TBox repeated from the second segment on], chunk *)
Definition jmk (b : bytes) : list jseg :=
  mapi_from 0 (fun k ch =>
      JSeg M_APP11 (JP_CI ++ JP_EN ++ be 4 (N.of_nat (S k))
                    ++ (if Nat.eqb k 0 then [] else firstn 8 b) ++ ch) [])
    (chunks (length b) MAX_JPEG_MARKER_SIZE b).

Definition is_app0 (s : jseg) : bool := jm s =? M_APP0.

Definition default_ip (rest : list jseg) : nat :=
  match rfind_index is_app0 rest with Some i => S i | None => O end.

(* the insertion loop of write_cai: the k-th new segment goes to index k + ip, guarded *)
Fixpoint jinsert (ip k : nat) (news cur : list jseg) : res (list jseg) :=
  match news with
  | [] => ROk cur
  | s :: t =>
    if Nat.leb (k + ip) (length cur)
    then jinsert ip (S k) t (insert_at (k + ip) [s] cur)
    else RErr EInvalidAsset
  end.

Definition jpeg_write_segs (segs : list jseg) (b : bytes) : res (list jseg) :=
  rbind (jcai segs [] 0) (fun m =>
    let rest := select false segs m in
    let ip := match find_index (fun x : bool => x) m with
              | Some (S i) => S i
              | _ => default_ip rest
              end in
    jinsert ip 0 (jmk b) rest).

Definition jpeg_write (a b : bytes) : res bytes :=
  match jpeg_dec a with
  | None => RErr EEmbeddingError
  | Some segs => rbind (jpeg_write_segs segs b) (fun l => ROk (jpeg_enc l))
  end.

Definition jpeg_remove (a : bytes) : res bytes :=
  match jpeg_dec a with
  | None => RErr EEmbeddingError
  | Some segs => rbind (jcai segs [] 0) (fun m => ROk (jpeg_enc (select false segs m)))
  end.

(* get_object_locations_from_stream *)
Definition PLACEHOLDER_LEN : N := 62.

(* the offset advance per segment: img-parts encodes a parameterless marker segment in 4 bytes although
   JpegSegment::len() reports 2 (fix d67d17dcd) *)
Definition jstep (s : jseg) : N := if jlen s =? 2 then 4 else jlen_e s.

Fixpoint jloc_loop (segs : list jseg) (index : nat) (ph : option nat) (en : bytes) (cnt curr : N)
         (cai : N * N) (acc : list (N * N * kind)) : res (N * (N * N) * list (N * N * kind)) :=
  match segs with
  | [] => ROk (curr, cai, acc)
  | s :: t =>
    let '(cai, curr) :=
      match ph with
      | Some pi => if Nat.eqb index pi then ((curr, PLACEHOLDER_LEN), curr + PLACEHOLDER_LEN) else (cai, curr)
      | None => (cai, curr)
      end in
    let sl := jlen_e s in
    let st := jstep s in
    if jm s =? M_APP11 then
      if 16 <? len (jc s) then
        let raw := jc s in
        let sen := slice raw 2 2 in
        let z := de (slice raw 4 4) in
        if (0 <? cnt) && (beq en sen && (z =? cnt + 1)) then
          jloc_loop t (S index) ph en (cnt + 1) (curr + st) (fst cai, snd cai + sl) acc
        else if len raw <? 28 then RErr EInvalidAsset
        else if beq (slice raw 24 4) C2PA_MARKER then
          jloc_loop t (S index) ph sen 1 (curr + st) (curr, snd cai + sl) acc
        else jloc_loop t (S index) ph en cnt (curr + st) cai (acc ++ [(curr, sl, KOther)])
      else jloc_loop t (S index) ph en cnt (curr + st) cai acc
    else if jm s =? M_APP1 then
      jloc_loop t (S index) ph en cnt (curr + st) cai (acc ++ [(curr, sl, KXmp)])
    else jloc_loop t (S index) ph en cnt (curr + st) cai (acc ++ [(curr, sl, KOther)])
  end.

Definition jpeg_loc_segs (segs : list jseg) : res (list (N * N * kind)) :=
  rbind (jcai segs [] 0) (fun m =>
    let ph := if existsb (fun x : bool => x) m then None else Some (default_ip segs) in
    rbind (jloc_loop segs 0 ph [] 0 2 (0, 0) []) (fun r =>
      let '(curr, cai, acc) := r in
      let cai := match ph with
                 | Some pi => if Nat.leb (length segs) pi then (curr, PLACEHOLDER_LEN) else cai
                 | None => cai
                 end in
      ROk (if 0 <? snd cai then acc ++ [(fst cai, snd cai, KCai)] else acc))).

Definition jpeg_locations (a : bytes) : res (list (N * N * kind)) :=
  match jpeg_dec a with
  | None => RErr EInvalidAsset
  | Some [] => RErr EInvalidAsset
  | Some segs => jpeg_loc_segs segs
  end.

Definition jpeg_format : format :=
  Format jseg
         (fun l => match jcai l [] 0 with ROk m => m | RErr _ => map (fun _ => false) l end)
         jmk jpeg_payload
         (fun l => match jcai l [] 0 with
                   | ROk m => match find_index (fun x : bool => x) m with
                              | Some (S i) => S i
                              | _ => default_ip (select false l m)
                              end
                   | RErr _ => O
                   end)
         enc_jseg.
