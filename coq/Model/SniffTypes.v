(* Model/SniffTypes.v — row types of the generated magic-number table (Generated/C11_facts.v). *)
From Coq Require Import NArith List String.
Open Scope N_scope.

(* (buf[poff] & pmask) == pval *)
Record pat := P { poff : nat; pmask : N; pval : N }.
(* one alternative of a condition: n >= aminlen and all patterns hold *)
Record alt := A { aminlen : N; apats : list pat }.
(* what a matching row returns: a fixed container id, or the ID3 rule (peek past the tag for fLaC) *)
Inductive rowkind := RFam (fam : string) | RId3.
Record row := R { ralts : list alt; rkind : rowkind }.
