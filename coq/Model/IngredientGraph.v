(* Model/IngredientGraph.v — the three recursive ingredient-graph walks of sdk/src/store.rs,
   transcribed branch by branch, fuelled and instrumented (steps, maximal recursion depth).

     referenced : Store::get_claim_referenced_manifests_impl   (path, memo = svi.manifest_map, depth test on the path)
     checks     : Store::ingredient_checks                     (depth counter, visited set, one verify_claim per edge)
     binding    : Store::get_hash_binding_manifest_impl        (visited set; depth test on |visited| since fix c381c9a00)

   A store is an association list from manifest label to manifest; a manifest carries its ingredient
   assertions in order.  What is not modelled: redactions, assertion parsing failures (every ingredient
   assertion parses), the v3 "validation results" rule; signature / hash checks per node are data
   ([r_hash_ok], [m_verify_ok]) supplied by the case. *)
From Coq Require Import NArith List Bool Arith.
From C2PA Require Import Generated.C19_facts.
Import ListNotations.

Definition label := N.

Inductive rel := ParentOf | ComponentOf | InputTo.

Record iref := IRef {
  r_target : label;      (* manifest label in the ingredient's c2pa_manifest / activeManifest URI *)
  r_manifest : bool;     (* c2pa_manifest() is Some *)
  r_rel : rel;
  r_hash_ok : bool       (* the hashed URI matches the target's manifest box hash *)
}.

Record manifest := Manifest {
  m_update : bool;       (* claim.update_manifest() *)
  m_hashbind : bool;     (* !claim.hash_assertions().is_empty() *)
  m_verify_ok : bool;    (* Claim::verify_claim returns Ok for this manifest (oracle) *)
  m_ings : list iref
}.

Definition store := list (label * manifest).

Fixpoint lookup (st : store) (l : label) : option manifest :=
  match st with
  | [] => None
  | (k, m) :: r => if N.eqb k l then Some m else lookup r l
  end.

Fixpoint memb (l : label) (xs : list label) : bool :=
  match xs with
  | [] => false
  | x :: r => if N.eqb x l then true else memb l r
  end.

Definition keys (st : store) : list label := map fst st.
Definition n_manifests (st : store) : nat := length st.
Fixpoint n_refs (st : store) : nat :=
  match st with
  | [] => 0
  | (_, m) :: r => length (m_ings m) + n_refs r
  end.

Inductive litem :=
| LMissing (t : label)                 (* ingredient.manifest.missing, get_claim_referenced_manifests *)
| LCyclic (src : label) (pos : nat)    (* assertion.ingredient.malformed "ingredient cannot be cyclic" *)
| LValidated (t : label)               (* ingredient.manifest.validated *)
| LMismatch (t : label)                (* ingredient.manifest.mismatch *)
| LNotFound (t : label)                (* ingredient.manifest.missing, ingredient_checks *)
| LProvUnknown (src : label) (pos : nat).  (* ingredient.unknownProvenance (informational) *)

Inductive werr :=
| EDepth (d : nat)                     (* Error::InvalidAsset("ingredient chain depth ...") *)
| ECyclic (path : list label)          (* Error::CyclicIngredients { claim_label_path } *)
| EClaimMissing (t : label)            (* Error::ClaimMissing (StopOnFirstError only) *)
| EHashMismatch                        (* Error::HashMismatch (StopOnFirstError only) *)
| EClaimVerification (t : label)       (* verify_claim failed / Error::ClaimVerification *)
| EOutOfFuel.

(* ------------------------------------------------------------------ get_claim_referenced_manifests_impl *)

Record rstate := RS {
  rs_memo : list label;             (* keys of svi.manifest_map, newest first *)
  rs_refs : list (label * label);   (* (ingredient, referencing claim) insertions, newest first *)
  rs_log : list litem;              (* newest first *)
  rs_steps : nat;                   (* calls + loop iterations *)
  rs_maxdepth : nat                 (* maximal length of claim_label_path *)
}.

Definition rs0 : rstate := RS [] [] [] 0 0.
Definition rtick (s : rstate) := RS (rs_memo s) (rs_refs s) (rs_log s) (S (rs_steps s)) (rs_maxdepth s).
Definition rlog (i : litem) (s : rstate) := RS (rs_memo s) (rs_refs s) (i :: rs_log s) (rs_steps s) (rs_maxdepth s).
Definition rref (t c : label) (s : rstate) := RS (rs_memo s) ((t, c) :: rs_refs s) (rs_log s) (rs_steps s) (rs_maxdepth s).
Definition renter (c : label) (d : nat) (s : rstate) :=
  RS (c :: rs_memo s) (rs_refs s) (rs_log s) (rs_steps s) (Nat.max d (rs_maxdepth s)).

Definition rres := (rstate * option werr)%type.

(* the `for i in claim.ingredient_assertions()` loop of claim [c]; [path'] is claim_label_path after the push *)
Fixpoint ref_loop (rec : label -> manifest -> rstate -> rres) (st : store) (stop : bool)
         (c : label) (path' : list label) (k : nat) (ings : list iref) (s : rstate) : rres :=
  match ings with
  | [] => (s, None)
  | i :: rest =>
    let s := rtick s in
    if negb (r_manifest i) then ref_loop rec st stop c path' (S k) rest s
    else
      match lookup st (r_target i) with
      | Some mi =>
        if memb (r_target i) path' then (rlog (LCyclic c k) s, Some (ECyclic (rev path')))
        else
          match rec (r_target i) mi (rref (r_target i) c s) with
          | (s2, Some e) => (s2, Some e)
          | (s2, None) => ref_loop rec st stop c path' (S k) rest s2
          end
      | None =>
        let s1 := rlog (LMissing (r_target i)) s in
        if stop then (s1, Some (EClaimMissing (r_target i)))
        else ref_loop rec st stop c path' (S k) rest s1
      end
  end.

(* [path] is claim_label_path on entry, innermost claim first *)
Fixpoint referenced (fuel : nat) (st : store) (stop : bool) (c : label) (m : manifest)
         (path : list label) (s : rstate) : rres :=
  match fuel with
  | O => (s, Some EOutOfFuel)
  | S f =>
    let s := rtick s in
    if MAX_INGREDIENT_DEPTH <=? length path then (s, Some (EDepth (length path)))
    else if memb c (rs_memo s) then (s, None)
    else
      let path' := c :: path in
      ref_loop (fun t mi s' => referenced f st stop t mi path' s') st stop c path' 0 (m_ings m)
               (renter c (length path') s)
  end.

Definition referenced_top (st : store) (stop : bool) (root : label) : rres :=
  match lookup st root with
  | Some m => referenced (S (n_manifests st)) st stop root m [] rs0
  | None => (rs0, None)
  end.

(* ------------------------------------------------------------------ ingredient_checks *)

Record cstate := CS {
  cs_visited : list label;
  cs_log : list litem;
  cs_verifs : nat;                  (* Claim::verify_claim calls *)
  cs_steps : nat;                   (* calls + loop iterations *)
  cs_maxdepth : nat
}.

Definition ctick (s : cstate) := CS (cs_visited s) (cs_log s) (cs_verifs s) (S (cs_steps s)) (cs_maxdepth s).
Definition clog (i : litem) (s : cstate) := CS (cs_visited s) (i :: cs_log s) (cs_verifs s) (cs_steps s) (cs_maxdepth s).
Definition cverif (s : cstate) := CS (cs_visited s) (cs_log s) (S (cs_verifs s)) (cs_steps s) (cs_maxdepth s).
Definition cvisit (t : label) (s : cstate) := CS (t :: cs_visited s) (cs_log s) (cs_verifs s) (cs_steps s) (cs_maxdepth s).
Definition cdepth (d : nat) (s : cstate) := CS (cs_visited s) (cs_log s) (cs_verifs s) (cs_steps s) (Nat.max d (cs_maxdepth s)).

Definition cres := (cstate * option werr)%type.

Definition is_input_to (r : rel) : bool := match r with InputTo => true | _ => false end.

Fixpoint chk_loop (rec : label -> manifest -> cstate -> cres) (st : store) (stop : bool)
         (c : label) (k : nat) (ings : list iref) (s : cstate) : cres :=
  match ings with
  | [] => (s, None)
  | i :: rest =>
    let s := ctick s in
    if r_manifest i then
      let t := r_target i in
      match lookup st t with
      | Some mi =>
        let s1 := if r_hash_ok i then clog (LValidated t) s else clog (LMismatch t) s in
        if negb (r_hash_ok i) && stop then (s1, Some EHashMismatch)
        else
          let s2 := cverif s1 in
          if negb (m_verify_ok mi) then (s2, Some (EClaimVerification t))
          else if memb t (cs_visited s2) then chk_loop rec st stop c (S k) rest s2
          else
            match rec t mi (cvisit t s2) with
            | (s3, Some e) => (s3, Some e)
            | (s3, None) => chk_loop rec st stop c (S k) rest s3
            end
      | None =>
        let s1 := clog (LNotFound t) s in
        if stop then (s1, Some (EClaimVerification t))
        else chk_loop rec st stop c (S k) rest s1
      end
    else
      let s1 := if is_input_to (r_rel i) then s else clog (LProvUnknown c k) s in
      chk_loop rec st stop c (S k) rest s1
  end.

Fixpoint checks (fuel : nat) (st : store) (stop : bool) (c : label) (m : manifest)
         (depth : nat) (s : cstate) : cres :=
  match fuel with
  | O => (s, Some EOutOfFuel)
  | S f =>
    let s := ctick s in
    if MAX_INGREDIENT_DEPTH <=? depth then (s, Some (EDepth depth))
    else chk_loop (fun t mi s' => checks f st stop t mi (S depth) s') st stop c 0 (m_ings m) (cdepth depth s)
  end.

(* verify_store: visited starts as {active manifest}, depth 0 *)
Definition checks_top (st : store) (stop : bool) (root : label) : cres :=
  match lookup st root with
  | Some m => checks (S (n_manifests st)) st stop root m 0 (CS [root] [] 0 0 0)
  | None => (CS [root] [] 0 0 0, None)
  end.

(* ------------------------------------------------------------------ get_hash_binding_manifest_impl *)

Inductive bscan := BRecurse (l : label) (m : manifest) | BFound (l : label) | BNone.

Definition is_parent_of (r : rel) : bool := match r with ParentOf => true | _ => false end.

(* the `for i in claim.ingredient_assertions()` loop; returns the decision and the number of iterations *)
Fixpoint bind_scan (st : store) (ings : list iref) (n : nat) : bscan * nat :=
  match ings with
  | [] => (BNone, n)
  | i :: rest =>
    if is_parent_of (r_rel i) && r_manifest i then
      match lookup st (r_target i) with
      | Some p =>
        if m_update p then (BRecurse (r_target i) p, S n)
        else if m_hashbind p then (BFound (r_target i), S n)
        else bind_scan st rest (S n)
      | None => bind_scan st rest (S n)
      end
    else bind_scan st rest (S n)
  end.

Record bres := BR {
  b_result : option label;
  b_fuel_out : bool;
  b_steps : nat;                    (* calls + loop iterations *)
  b_depth : nat;                    (* recursion depth reached: nested calls that passed the depth test
                                       (= |visited| after the insertion; the rejected call returns at once) *)
  b_visited : list label            (* the visited set at the end, newest first *)
}.

Fixpoint binding (fuel : nat) (st : store) (c : label) (m : manifest) (visited : list label)
         (steps depth : nat) : bres :=
  match fuel with
  | O => BR None true steps depth visited
  | S f =>
    if MAX_INGREDIENT_DEPTH <=? length visited then BR None false (S steps) depth visited
    else if memb c visited then BR None false (S steps) (S depth) visited
    else if negb (m_update m) && m_hashbind m then BR (Some c) false (S steps) (S depth) (c :: visited)
    else
      match bind_scan st (m_ings m) 0 with
      | (BRecurse l p, n) => binding f st l p (c :: visited) (S steps + n) (S depth)
      | (BFound l, n) => BR (Some l) false (S steps + n) (S depth) (c :: visited)
      | (BNone, n) => BR None false (S steps + n) (S depth) (c :: visited)
      end
  end.

Definition binding_top (st : store) (root : label) : bres :=
  match lookup st root with
  | Some m => binding (S (n_manifests st)) st root m [] 0 0
  | None => BR None false 0 0 []
  end.

(* ------------------------------------------------------------------ what the correspondence run evaluates *)

(* canonical observable result of the first and third walk on a store (compared with the implementation) *)
Definition run_walk (st : store) (stop : bool) (root : label) :=
  let '(s, e) := referenced_top st stop root in
  let b := binding_top st root in
  (e, rev (rs_memo s), rev (rs_refs s), rev (rs_log s), (rs_steps s, rs_maxdepth s),
   (b_result b, b_fuel_out b, b_steps b, b_depth b)).

Definition run_checks (st : store) (stop : bool) (root : label) :=
  let '(s, e) := checks_top st stop root in
  (e, rev (cs_log s), cs_verifs s, (cs_steps s, cs_maxdepth s), length (cs_visited s)).
