(* Model/FfiGuards.v — an exported C function of c2pa_c_ffi as a guard sequence followed by an opaque body.

   Guards are the macros of c2pa_c_ffi/src/cimpl/macros.rs, in the order they appear in the function
   (the per-function sequences are regenerated from c_api.rs / c2pa_stream.rs into Generated/C31_facts.v):
     ptr_or_return!             GPtr       NULL -> NullParameter
     deref[_mut]_or_return!     GDeref     ptr_or_return + validate_pointer::<T>
     untrack_or_return!         GUntrack   ptr_or_return + untrack_pointer::<T> + Box::from_raw (ownership to Rust)
     cstr_or_return!            GCstr      NULL -> NullParameter, longer than MAX_CSTRING_LEN -> StringTooLong
     bytes_or_return!           GBytes     NULL -> NullParameter, len = 0 or > isize::MAX -> InvalidBufferSize
   plus what the translator finds where a macro is missing:
     GPtrSilent  `if p.is_null() { return ERR }` without set_last
     GRaw        `&mut *p` on a registry-typed parameter that no guard validated
     GRawOpt     the same behind `if !p.is_null()`
     GMem        a caller-memory pointer (out-parameter, struct) dereferenced with no NULL test
     GOwn        Vec::from_raw_parts / from_raw on a parameter the registry does not track
   and  GDerefOpt   `if !p.is_null() { deref_mut_or_return!(p, T) }`: an optional handle, NULL allowed, anything else validated
   An argument list is one N per parameter in declaration order: an address for pointers, 0 / len+1 for a
   C string (0 = NULL), the value for integers, 0 / 1 for other pointers (0 = NULL).

   The body is opaque: an oracle says whether it failed (ok_or_return!: set_last, error value) or succeeded
   and which fresh pointers it tracked (box_tracked!, to_c_string, to_c_bytes) — the addresses are whatever the
   allocator returned, including addresses that were live earlier.  No proofs in this file. *)
From Coq Require Import NArith List Bool String.
From C2PA Require Import Model.Registry.
Import ListNotations.
Open Scope N_scope.

Inductive guard :=
| GPtr (p : nat)
| GPtrSilent (p : nat)
| GDeref (p : nat) (t : tid)
| GUntrack (p : nat) (t : tid)
| GCstr (p : nat)
| GBytes (p : nat) (l : nat)
| GRaw (p : nat) (t : tid)
| GRawOpt (p : nat) (t : tid)
| GMem (p : nat)
| GOwn (p : nat)
| GDerefOpt (p : nat) (t : tid).

(* what a parameter is, from the signature *)
Inductive pkind :=
| PHandle (t : tid)      (* *mut T / *const T with T a registry type *)
| PHandleOpt (t : tid)   (* the same, documented as optional: NULL allowed *)
| PStr                   (* *const c_char, required *)
| PStrOpt                (* *const c_char read with cstr_option! / string arrays: NULL allowed *)
| PBytes                 (* *const c_uchar with a length parameter *)
| POut                   (* out-parameter that must be present *)
| POutOpt                (* out-parameter tested with `if !p.is_null()` *)
| PMem                   (* other caller memory: reference to a struct, untracked array *)
| PVal.                  (* integers, enums, callbacks, opaque user contexts that are never dereferenced *)

Record fspec := F { f_params : list pkind; f_guards : list guard }.

Inductive eclass := CNull | CWrongType | CUntracked | CStringTooLong | CBufSize | CBody | CSilent.
Inductive outcome :=
| OOk
| OErr (c : eclass)      (* error value returned; last error set unless c = CSilent *)
| OUB.                   (* an unvalidated pointer was dereferenced: the registry guarantees nothing *)

Inductive event :=
| Cleanup (i : aid)      (* the cleanup closure of allocation i ran (registry free) *)
| Consumed (i : aid).    (* allocation i was taken back by Box::from_raw in an untrack guard: Rust drops or moves it *)

Inductive body := BErr | BOk (outs : list (addr * tid)).

Record state := St { s_reg : reg; s_next : aid }.
Definition init : state := St [] O.

Inductive call :=
| CApi (gs : list guard) (args : list N) (b : body)
| CFree (a : addr).      (* c2pa_free and the typed free functions: cimpl_free *)

Definition ISIZE_MAX : N := 9223372036854775807.

Definition of_rerr (e : rerr) : eclass :=
  match e with ENullPtr => CNull | EWrongType => CWrongType | EUntracked => CUntracked end.

Inductive gres := GPass | GFail (c : eclass) | GUndef.

Section WithMax.
Variable maxstr : N.     (* macros.rs MAX_CSTRING_LEN, from Generated/C31_facts.v *)

Definition argn (args : list N) (p : nat) : N := nth p args 0.

(* registry after the guards, allocations now owned by the function, verdict *)
Fixpoint run_guards (gs : list guard) (args : list N) (r : reg) (own : list aid) : reg * list aid * gres :=
  match gs with
  | [] => (r, own, GPass)
  | g :: gs' =>
    match g with
    | GPtr p => if argn args p =? 0 then (r, own, GFail CNull) else run_guards gs' args r own
    | GPtrSilent p => if argn args p =? 0 then (r, own, GFail CSilent) else run_guards gs' args r own
    | GDeref p t =>
        match validate r (argn args p) t with
        | ROk => run_guards gs' args r own
        | RErr e => (r, own, GFail (of_rerr e))
        end
    | GUntrack p t =>
        match untrack r (argn args p) t with
        | (r', ROk, Some i) => run_guards gs' args r' (i :: own)
        | (r', ROk, None) => run_guards gs' args r' own
        | (r', RErr e, _) => (r', own, GFail (of_rerr e))
        end
    | GCstr p =>
        if argn args p =? 0 then (r, own, GFail CNull)
        else if maxstr <? argn args p - 1 then (r, own, GFail CStringTooLong)
        else run_guards gs' args r own
    | GBytes p l =>
        if argn args p =? 0 then (r, own, GFail CNull)
        else if (argn args l =? 0) || (ISIZE_MAX <? argn args l) then (r, own, GFail CBufSize)
        else run_guards gs' args r own
    | GRaw p t =>
        match validate r (argn args p) t with
        | ROk => run_guards gs' args r own
        | RErr _ => (r, own, GUndef)
        end
    | GRawOpt p t =>
        if argn args p =? 0 then run_guards gs' args r own
        else match validate r (argn args p) t with
             | ROk => run_guards gs' args r own
             | RErr _ => (r, own, GUndef)
             end
    | GMem p => if argn args p =? 0 then (r, own, GUndef) else run_guards gs' args r own
    | GOwn p => if argn args p =? 0 then run_guards gs' args r own else (r, own, GUndef)
    | GDerefOpt p t =>
        if argn args p =? 0 then run_guards gs' args r own
        else match validate r (argn args p) t with
             | ROk => run_guards gs' args r own
             | RErr e => (r, own, GFail (of_rerr e))
             end
    end
  end.

(* box_tracked! / to_c_string / to_c_bytes of the body's results, one fresh allocation id each *)
Fixpoint track_all (r : reg) (n : aid) (outs : list (addr * tid)) : reg * aid :=
  match outs with
  | [] => (r, n)
  | (a, t) :: outs' => track_all (track r a (E t n)) (S n) outs'
  end.

Definition step (s : state) (c : call) : state * outcome * list event :=
  match c with
  | CFree a =>
      match free (s_reg s) a with
      | (r', ROk, ids) => (St r' (s_next s), OOk, map Cleanup ids)
      | (r', RErr e, _) => (St r' (s_next s), OErr (of_rerr e), [])
      end
  | CApi gs args b =>
      match run_guards gs args (s_reg s) [] with
      | (r', own, GFail c) => (St r' (s_next s), OErr c, map Consumed own)
      | (r', own, GUndef) => (St r' (s_next s), OUB, map Consumed own)
      | (r', own, GPass) =>
          match b with
          | BErr => (St r' (s_next s), OErr CBody, map Consumed own)
          | BOk outs => let '(r'', n') := track_all r' (s_next s) outs in (St r'' n', OOk, map Consumed own)
          end
      end
  end.

Fixpoint run (s : state) (cs : list call) : state * list (outcome * list event) :=
  match cs with
  | [] => (s, [])
  | c :: cs' =>
      let '(s1, o, ev) := step s c in
      let '(s2, rest) := run s1 cs' in
      (s2, (o, ev) :: rest)
  end.

Definition events_of (tr : list (outcome * list event)) : list event := List.concat (List.map snd tr).

Definition released (ev : list event) : list aid :=
  map (fun e => match e with Cleanup i => i | Consumed i => i end) ev.

(* what the correspondence run compares after every call: outcome, events, registry as (address, type) *)
Fixpoint run_obs (s : state) (cs : list call) : list (outcome * list event * list (addr * tid)) :=
  match cs with
  | [] => []
  | c :: cs' =>
      let '(s1, o, ev) := step s c in
      (o, ev, map (fun kv => (fst kv, e_ty (snd kv))) (s_reg s1)) :: run_obs s1 cs'
  end.

End WithMax.

(* ---- static description of the API table *)

Definition is_check (p : nat) (t : tid) (g : guard) : bool :=
  match g with
  | GDeref q u | GUntrack q u => Nat.eqb p q && (t =? u)
  | _ => false
  end.
Definition is_check_opt (p : nat) (t : tid) (g : guard) : bool :=
  match g with
  | GDeref q u | GUntrack q u | GDerefOpt q u => Nat.eqb p q && (t =? u)
  | _ => false
  end.
Definition is_cstr (p : nat) (g : guard) : bool := match g with GCstr q => Nat.eqb p q | _ => false end.
Definition is_bytes (p : nat) (g : guard) : bool := match g with GBytes q _ => Nat.eqb p q | _ => false end.
Definition is_ptr (p : nat) (g : guard) : bool := match g with GPtr q => Nat.eqb p q | _ => false end.

(* a guard that checks: no unvalidated dereference, no silent error *)
Definition checked (g : guard) : bool :=
  match g with
  | GPtr _ | GDeref _ _ | GUntrack _ _ | GCstr _ | GBytes _ _ | GDerefOpt _ _ => true
  | GPtrSilent _ | GRaw _ _ | GRawOpt _ _ | GMem _ | GOwn _ => false
  end.
Definition no_undef (g : guard) : bool :=
  match g with GRaw _ _ | GRawOpt _ _ | GMem _ | GOwn _ => false | _ => true end.

Fixpoint params_guarded (i : nat) (ps : list pkind) (gs : list guard) : bool :=
  match ps with
  | [] => true
  | k :: ps' =>
      (match k with
       | PHandle t => existsb (is_check i t) gs
       | PHandleOpt t => existsb (is_check_opt i t) gs
       | PStr => existsb (is_cstr i) gs
       | PBytes => existsb (is_bytes i) gs
       | POut => existsb (is_ptr i) gs
       | PMem => false
       | PStrOpt | POutOpt | PVal => true
       end) && params_guarded (S i) ps' gs
  end.

(* every pointer parameter that must not be NULL / must be a live handle is checked by a macro *)
Definition fn_guarded (f : fspec) : bool :=
  forallb checked (f_guards f) && params_guarded O (f_params f) (f_guards f).

Fixpoint find_fn (name : string) (tbl : list (string * fspec)) : option fspec :=
  match tbl with
  | [] => None
  | (n, f) :: tbl' => if String.eqb n name then Some f else find_fn name tbl'
  end.
