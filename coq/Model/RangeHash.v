(* Model/RangeHash.v — executable transcription of
   sdk/src/utils/hash_utils.rs :: hash_stream_by_alg_with_progress_impl.
   No proofs here.  Output: the list of byte strings handed to Hasher::update (in order),
   the progress trace, or an error / panic outcome. *)
From Coq Require Import List NArith Bool.
From C2PA Require Import Base.Bytes.
Import ListNotations.
Open Scope N_scope.

Record hrange := HR { hstart : N; hlen : N; hmark : option N }.

Definition U64 : N := 18446744073709551616.
Definition U32 : N := 4294967296.

Inductive err := ENoData | EBadParam | EIo.
Inductive outcome (A : Type) := Ok (a : A) | Err (e : err) | Panic.
Arguments Ok {A} a.
Arguments Err {A} e.
Arguments Panic {A}.

Definition rng := (N * N)%type.          (* inclusive [a, b] *)

(* RangeSet::remove_range on inclusive ranges: set difference. *)
Fixpoint remove (s : list rng) (lo hi : N) : list rng :=
  match s with
  | [] => []
  | (a, b) :: t =>
      if (b <? lo) || (hi <? a) then (a, b) :: remove t lo hi
      else (if a <? lo then [(a, lo - 1)] else [])
           ++ (if hi <? b then [(hi + 1, b)] else [])
           ++ remove t lo hi
  end.

Definition contains (r : rng) (x : N) : bool := (fst r <=? x) && (x <=? snd r).

(* every range end is checked against the data length (u64 checked_add) *)
Fixpoint check_ends (dl : N) (hr : list hrange) : option err :=
  match hr with
  | [] => None
  | r :: t =>
      if U64 <=? hstart r + hlen r then Some EBadParam
      else if dl <? hstart r + hlen r then Some EBadParam
      else check_ends dl t
  end.

(* exclusion pass: returns remaining ranges and the marker offsets, in iteration order *)
Fixpoint excl_pass (hr : list hrange) (rs : list rng) (starts : list N)
  : outcome (list rng * list N) :=
  match hr with
  | [] => Ok (rs, starts)
  | r :: t =>
      match hmark r with
      | Some o => excl_pass t rs (starts ++ [o])
      | None =>
          if hlen r =? 0 then excl_pass t rs starts
          else if U64 <=? hstart r + hlen r then Err EBadParam
          else excl_pass t (remove rs (hstart r) (hstart r + hlen r - 1)) starts
      end
  end.

(* inner "for os in &bmff_v2_starts" loop over one range *)
Fixpoint split_at (cur : rng) (starts : list N) (acc : list rng) : list rng * rng :=
  match starts with
  | [] => (acc, cur)
  | os :: t =>
      if contains cur os then
        if fst cur =? os then split_at cur t (acc ++ [(os, os)])
        else split_at (os, snd cur) t (acc ++ [(fst cur, os - 1); (os, os)])
      else split_at cur t acc
  end.

Fixpoint split_all (rs : list rng) (starts : list N) (acc : list rng) : list rng :=
  match rs with
  | [] => acc
  | r :: t => let '(acc', cur) := split_at r starts acc in split_all t starts (acc' ++ [cur])
  end.

Fixpoint extra_markers (starts : list N) (before after : N) (vec : list rng) : list rng :=
  match starts with
  | [] => vec
  | os :: t =>
      if negb (existsb (fun r => contains r os) vec) && (before <? os) && (os <? after)
      then extra_markers t before after (vec ++ [(os, os)])
      else extra_markers t before after vec
  end.

Definition merge_markers (rs : list rng) (starts0 : list N) (data_end : N) : list rng * list N :=
  let starts := sort_by (fun x => x) starts0 in
  let vec := split_all rs starts [] in
  let before := match vec with [] => 0 | r :: _ => fst r end in
  let after := match rev vec with [] => data_end | r :: _ => snd r end in
  let vec' := extra_markers starts before after vec in
  (sort_by fst vec', starts).

Fixpoint incl_pass (hr : list hrange) (vec : list rng) (starts : list N)
  : outcome (list rng * list N) :=
  match hr with
  | [] => Ok (vec, starts)
  | r :: t =>
      if hlen r =? 0 then incl_pass t vec starts
      else if U64 <=? hstart r + hlen r then Err EBadParam
      else
        let e := hstart r + hlen r - 1 in
        match hmark r with
        | Some o => incl_pass t (vec ++ [(o, o); (hstart r, e)]) (starts ++ [o])
        | None => incl_pass t (vec ++ [(hstart r, e)]) starts
        end
  end.

Definition build_ranges (dl : N) (hr : list hrange) (excl : bool)
  : outcome (list rng * list N) :=
  match hr with
  | [] => Ok ([(0, dl - 1)], [])
  | _ =>
      let hr := sort_by hstart hr in
      match check_ends dl hr with
      | Some e => Err e
      | None =>
          if excl then
            match excl_pass hr [(0, dl - 1)] [] with
            | Ok (rs, starts) =>
                match starts with
                | [] => Ok (rs, [])
                | _ => Ok (merge_markers rs starts (dl - 1))
                end
            | Err e => Err e
            | Panic => Panic
            end
          else incl_pass hr [] []
      end
  end.

Definition ticks_of (buf : N) (r : rng) : N :=
  (div_ceil ((snd r - fst r + 1) mod U64) buf) mod U32.

Definition total_ticks (buf : N) (rs : list rng) : N :=
  fold_left (fun acc r => acc + ticks_of buf r) rs 0.

Definition is_marker (starts : list N) (r : rng) : bool :=
  existsb (N.eqb (fst r)) starts && (snd r =? fst r).

(* One range of the hashing loop: Hasher::update calls and number of progress ticks. *)
Definition hash_range (data : bytes) (buf : N) (starts : list N) (r : rng)
  : option (list bytes * N) :=
  if is_marker starts r then Some ([be 8 (fst r)], 1)
  else
    let n := snd r - fst r + 1 in
    if fst r + n <=? len data then
      let s := slice data (N.to_nat (fst r)) (N.to_nat n) in
      let cs := chunks (length s) (N.to_nat (N.min buf n)) s in  (* min(chunk_left, max_hash_buf) *)
      Some (cs, len cs)
    else None.                                   (* read_exact fails: Error::IoError *)

Fixpoint hash_loop (data : bytes) (buf : N) (starts : list N) (rs : list rng)
  : option (list bytes * N) :=
  match rs with
  | [] => Some ([], 0)
  | r :: t =>
      match hash_range data buf starts r with
      | None => None
      | Some (u, k) =>
          match hash_loop data buf starts t with
          | None => None
          | Some (u', k') => Some (u ++ u', k + k')
          end
      end
  end.

Record result := { updates : list bytes; nticks : N; total : N }.

(* [debug]: arithmetic overflow panics (debug profile) instead of wrapping. *)
Definition hash_model (debug : bool) (data : bytes) (hr : list hrange) (excl : bool) (buf : N)
  : outcome result :=
  let dl := len data in
  if dl <? 1 then Err ENoData
  else
    match build_ranges dl hr excl with
    | Err e => Err e
    | Panic => Panic
    | Ok (rs, starts) =>
        let tot := total_ticks buf rs in
        if debug && (U32 <=? tot) then Panic
        else
          match hash_loop data buf starts rs with
          | None => Err EIo
          | Some (u, k) => Ok {| updates := u; nticks := k; total := tot mod U32 |}
          end
    end.

Definition hasher_input (r : result) : bytes := concat (updates r).

(* what the correspondence run prints: hasher input, number of progress ticks, reported total *)
Definition hash_run (debug : bool) (data : bytes) (hr : list hrange) (excl : bool) (buf : N)
  : outcome (bytes * N * N) :=
  match hash_model debug data hr excl buf with
  | Ok r => Ok (hasher_input r, nticks r, total r)
  | Err e => Err e
  | Panic => Panic
  end.
