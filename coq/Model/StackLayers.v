(* Model/StackLayers.v — names of the resolver wrappers that Context::build_default_*_resolver stacks
   around the HTTP client; the order actually found in sdk/src/context.rs is regenerated into
   Generated/C26_facts.v (outermost wrapper first). *)
Inductive layer := LRedirect | LRestricted.
