(* Model/BoxMapJpeg.v — executable transcription of the JPEG box map
   (sdk/src/asset_handlers/jpeg_io.rs: has_length, in_entropy, get_seg_size, get_entropy_size,
    make_box_maps, JpegIO::get_box_map).

   The file is [FF D8] ++ concat (map enc_seg segs) ++ trailer.  The external segment reader
   (crate jfifdump 0.6, Reader::next_segment) is represented by its specification on such files:
   [jfif_segments] lists (kind, position) of the segments it yields.  Everything the handler itself
   does — naming, the C2PA run, the placeholder, and the sizes it reads back from the file bytes with
   get_seg_size / get_entropy_size — is transcribed branch by branch.  No proofs here. *)
From Coq Require Import List NArith Bool.
From C2PA Require Import Base.Bytes Generated.C12_facts Model.BoxMap.
Import ListNotations.
Open Scope N_scope.

(* ---------------------------------------------------------------- encoded segments *)

Record jseg := JS {
  jfill : bytes;      (* bytes the reader skips before the marker: garbage, then extra FF fill bytes *)
  jmarker : N;
  jpayload : bytes;   (* bytes after the 2-byte length field (markers with a length only) *)
  jecs : bytes        (* entropy-coded data that follows (SOS and RSTn only) *)
}.

Definition in_ranges (rs : list (N * N)) (m : N) : bool :=
  existsb (fun r => (fst r <=? m) && (m <=? snd r)) rs.
Definition has_length (m : N) : bool := in_ranges HAS_LENGTH m.     (* jpeg_io.rs has_length *)
Definition in_entropy (m : N) : bool := in_ranges IN_ENTROPY m.     (* jpeg_io.rs in_entropy *)

(* jfifdump: SOI, EOI and RSTn carry no length field; SOS and RSTn are followed by scan data *)
Definition jf_standalone (m : N) : bool := (m =? 216) || (m =? 217) || inr 208 215 m.
Definition jf_scanlike (m : N) : bool := (m =? 218) || inr 208 215 m.

Definition enc_body (s : jseg) : bytes :=
  [255; jmarker s]
  ++ (if jf_standalone (jmarker s) then [] else be 2 (len (jpayload s) + 2) ++ jpayload s)
  ++ jecs s.
Definition enc_seg (s : jseg) : bytes := jfill s ++ enc_body s.
Definition jpeg_file (segs : list jseg) (trailer : bytes) : bytes :=
  [255; 216] ++ concat (map enc_seg segs) ++ trailer.

(* ---------------------------------------------------------------- jfifdump::Reader::next_segment (specification) *)

Inductive jkind :=
| KSoi | KEoi | KApp (nr : N) (data : bytes) | KApp0Jfif | KDqt | KDht | KDac
| KFrame (sof : N) | KScan | KDri | KRst (nr : N) | KCom | KUnknown (m : N).

Definition JFIF0 : bytes := [74; 70; 73; 70; 0].
Definition is_frame (m : N) : bool :=
  inr 192 207 m && negb ((m =? 196) || (m =? 200) || (m =? 204)).

Definition kind_of (s : jseg) : jkind :=
  let m := jmarker s in
  if m =? 216 then KSoi
  else if m =? 217 then KEoi
  else if inr 224 239 m then
    if (m =? 224) && (14 <=? len (jpayload s)) && beq (firstn 5 (jpayload s)) JFIF0 then KApp0Jfif
    else KApp (m - 224) (jpayload s)
  else if m =? 219 then KDqt
  else if m =? 196 then KDht
  else if m =? 204 then KDac
  else if is_frame m then KFrame m
  else if m =? 218 then KScan
  else if m =? 221 then KDri
  else if inr 208 215 m then KRst (m - 208)
  else if m =? 254 then KCom
  else KUnknown m.

Definition sum_bytes (l : bytes) : N := fold_right N.add 0 l.

(* read_dht: tables of 17 + (sum of the 16 code lengths) bytes while more than 17 bytes remain *)
Fixpoint dht_ok (fuel : nat) (p : bytes) : bool :=
  match fuel with
  | O => true
  | S f =>
      if len p <=? 17 then true
      else let n := sum_bytes (firstn 16 (skipn 1 p)) in
           if 17 + n <=? len p then dht_ok f (skipn (N.to_nat (17 + n)) p) else false
  end.

(* does the reader parse this segment without an error (consuming exactly its encoding)? *)
Definition seg_ok (s : jseg) : bool :=
  let m := jmarker s in
  let p := jpayload s in
  if m =? 0 then false
  else if m =? 196 then dht_ok (length p) p
  else if is_frame m then (6 <=? len p) && (6 + 3 * nth 5 p 0 <=? len p)
  else if m =? 218 then (1 <=? len p) && (4 + 2 * nth 0 p 0 <=? len p)
  else if m =? 221 then 2 <=? len p
  else true.

(* segments yielded until the first error; scan data must be terminated by a following marker *)
Fixpoint jfif_of (pos : N) (segs : list jseg) : list (jkind * N) :=
  match segs with
  | [] => []
  | s :: t =>
      if seg_ok s && (negb (jf_scanlike (jmarker s)) || negb (match t with [] => true | _ => false end))
      then (kind_of s, pos + len (jfill s)) :: jfif_of (pos + len (enc_seg s)) t
      else []
  end.
Definition jfif_segments (segs : list jseg) : list (jkind * N) := (KSoi, 0) :: jfif_of 2 segs.

(* ---------------------------------------------------------------- make_box_maps *)

Record mstate := MS { maps : list entry; cai_en : bytes; cai_cnt : N; cai_index : nat }.

Fixpoint assoc (m : N) (t : list (N * bytes)) : option bytes :=
  match t with
  | [] => None
  | (k, v) :: t' => if k =? m then Some v else assoc m t'
  end.

Fixpoint add_len_at (i : nat) (d : N) (m : list entry) : option (list entry) :=
  match m, i with
  | [], _ => None
  | e :: t, O => Some (E (ename e) (estart e) (elen e + d) (eexcl e) :: t)
  | e :: t, S i' => match add_len_at i' d t with Some t' => Some (e :: t') | None => None end
  end.

Definition plain (st : mstate) (name : bytes) (pos : N) : res mstate :=
  Ok (MS (maps st ++ [E name pos 0 false]) (cai_en st) (cai_cnt st) (cai_index st)).
Definition named (st : mstate) (m : N) (pos : N) : res mstate :=
  match assoc m SEGMENT_NAMES with
  | Some n => plain st n pos
  | None => Err EInvalidAsset          (* "Unknown segment marker" *)
  end.

Definition step (st : mstate) (seg : jkind * N) : res mstate :=
  let '(k, pos) := seg in
  match k with
  | KEoi => plain st NAME_EOI pos
  | KSoi => plain st NAME_SOI pos
  | KApp nr data =>
      if nr =? 11 then
        if 16 <? len data then
          let en := slice data 2 2 in
          if (0 <? cai_cnt st) && beq (cai_en st) en then
            match add_len_at (cai_index st) (len data + 4) (maps st) with
            | Some m' => Ok (MS m' (cai_en st) (cai_cnt st + 1) (cai_index st))
            | None => Err EInvalidAsset
            end
          else if len data <? 28 then Err EInvalidAsset      (* get(24..28) *)
          else if beq C2PA_MARKER (slice data 24 4) then
            Ok (MS (maps st ++ [E C2PA_BOXHASH pos (len data + 4) false]) en 1 (length (maps st)))
          else named st 235 pos
        else Ok st                                          (* short APP11: no entry at all *)
      else named st (nr + 224) pos
  | KApp0Jfif => plain st NAME_APP0 pos
  | KDqt => plain st NAME_DQT pos
  | KDht => plain st NAME_DHT pos
  | KDac => plain st NAME_DAC pos
  | KFrame sof => named st sof pos
  | KScan => plain st NAME_SOS pos
  | KDri => plain st NAME_DRI pos
  | KRst r => plain st (NAME_RST ++ [48 + r]) pos
  | KCom => plain st NAME_COM pos
  | KUnknown m => named st m pos
  end.

Fixpoint steps (st : mstate) (l : list (jkind * N)) : res mstate :=
  match l with
  | [] => Ok st
  | s :: t => match step st s with Ok st' => steps st' t | Err e => Err e | Panic => Panic end
  end.

Definition make_box_maps (parsed : list (jkind * N)) : res (list entry) :=
  match steps (MS [] [] 0 O) parsed with
  | Ok st => Ok (maps st)
  | Err e => Err e
  | Panic => Panic
  end.

(* ---------------------------------------------------------------- get_seg_size / get_entropy_size (byte level) *)

Definition at_off (file : bytes) (p : N) : bytes := skipn (N.to_nat p) file.

Definition seg_size (rest : bytes) : res N :=
  match rest with
  | [] => Err EIo
  | p :: t =>
      if p =? MARKER_P then
        match t with
        | [] => Err EIo
        | m :: t2 =>
            if has_length m then
              match t2 with
              | a :: b :: _ => Ok (de [a; b] + 2)
              | _ => Err EIo
              end
            else Ok 2
        end
      else Err EInvalidAsset
  end.

Fixpoint entropy_size (l : bytes) (acc : N) : res N :=
  match l with
  | [] => Err EIo
  | b :: t =>
      if b =? MARKER_P then
        match t with
        | [] => Err EIo
        | n :: t' => if in_entropy n then entropy_size t' (acc + 2) else Ok acc
        end
      else entropy_size t (acc + 1)
  end.

(* ---------------------------------------------------------------- JpegIO::get_box_map *)

Fixpoint position {A} (f : A -> bool) (l : list A) : option nat :=
  match l with
  | [] => None
  | x :: t => if f x then Some O else match position f t with Some i => Some (S i) | None => None end
  end.

Fixpoint insert_at {A} (i : nat) (x : A) (l : list A) : list A :=
  match i, l with
  | O, _ => x :: l
  | S i', y :: t => y :: insert_at i' x t
  | S _, [] => [x]
  end.

Definition name_is (n : bytes) (e : entry) : bool := beq (ename e) n.
Definition set_len (e : entry) (n : N) : entry := E (ename e) (estart e) n (eexcl e).

Definition placeholder_after (file : bytes) (i : nat) (m : list entry) : res (list entry) :=
  match nth_error m i with
  | None => Panic
  | Some a =>
      match seg_size (at_off file (estart a)) with
      | Ok sz => Ok (insert_at (S i) (E C2PA_BOXHASH (estart a + sz) 0 true) m)
      | Err e => Err e
      | Panic => Panic
      end
  end.

Definition with_placeholder (file : bytes) (m : list entry) : res (list entry) :=
  if existsb is_c2pa m then Ok m
  else match position (name_is NAME_APP0) m with
       | Some i => placeholder_after file i m
       | None => if (1 <? len m) then placeholder_after file O m
                 else Err EInvalidAsset          (* "JPEG file has no segments" *)
       end.

Definition size_entry (file : bytes) (e : entry) : res entry :=
  if is_c2pa e then Ok e
  else
    match seg_size (at_off file (estart e)) with
    | Err x => Err x
    | Panic => Panic
    | Ok sz =>
        if name_is NAME_SOS e then
          match entropy_size (at_off file (estart e + sz)) 0 with
          | Ok n => Ok (set_len e (sz + n))
          | Err x => Err x
          | Panic => Panic
          end
        else Ok (set_len e sz)
    end.

Fixpoint map_res {A B} (f : A -> res B) (l : list A) : res (list B) :=
  match l with
  | [] => Ok []
  | x :: t =>
      match f x with
      | Ok y => match map_res f t with Ok t' => Ok (y :: t') | Err e => Err e | Panic => Panic end
      | Err e => Err e
      | Panic => Panic
      end
  end.

Definition jpeg_box_map_from (parsed : list (jkind * N)) (file : bytes) : res (list entry) :=
  match make_box_maps parsed with
  | Err e => Err e
  | Panic => Panic
  | Ok m =>
      match with_placeholder file m with
      | Err e => Err e
      | Panic => Panic
      | Ok m1 => map_res (size_entry file) m1
      end
  end.

Definition jpeg_box_map (segs : list jseg) (trailer : bytes) : res (list entry) :=
  jpeg_box_map_from (jfif_segments segs) (jpeg_file segs trailer).

(* ---------------------------------------------------------------- the domain on which [jfif_of] is the reader's behaviour *)

Fixpoint fill_ff (l : bytes) : bool :=          (* FF* *)
  match l with [] => true | b :: t => (b =? 255) && fill_ff t end.
Fixpoint fill_ok (l : bytes) : bool :=          (* (non-FF)* FF* *)
  match l with [] => true | b :: t => if b =? 255 then fill_ff t else fill_ok t end.
Fixpoint stuffed (l : bytes) : bool :=          (* every FF is followed by 00 *)
  match l with
  | [] => true
  | b :: t => if b =? 255 then match t with z :: t' => (z =? 0) && stuffed t' | [] => false end
              else (b <? 256) && stuffed t
  end.
Definition is_byte (b : N) : bool := b <? 256.

Fixpoint jwf_from (prev_scan : bool) (segs : list jseg) : bool :=
  match segs with
  | [] => true
  | s :: t =>
      let m := jmarker s in
      (if prev_scan then fill_ff (jfill s) else fill_ok (jfill s))
      && forallb is_byte (jfill s) && forallb is_byte (jpayload s)
      && (1 <=? m) && (m <=? 254)
      && (len (jpayload s) <=? 65533)
      && (if jf_standalone m then match jpayload s with [] => true | _ => false end else true)
      && (if jf_scanlike m then stuffed (jecs s) else match jecs s with [] => true | _ => false end)
      && (if m =? 204 then N.even (len (jpayload s)) else true)
      && jwf_from (jf_scanlike m) t
  end.
Definition jwf (segs : list jseg) (trailer : bytes) : bool :=
  jwf_from false segs && forallb (fun b => (b <? 255)) trailer.
