(* Model/ContGif.v — transcription of sdk/src/asset_handlers/gif_io.rs (Blocks iterator up to the
   first image descriptor, find_c2pa_block, read_cai, write_cai = replace_block | insert_block +
   update_to_89a, remove_block, get_object_locations_from_stream).  No proofs here.
   A GIF is: preamble (header, logical screen descriptor, optional global colour table), the
   extension blocks found before the first image descriptor or trailer, and the remaining bytes. *)
From Coq Require Import List NArith Bool.
From C2PA Require Import Base.Bytes Model.Container Model.ContPng.
Import ListNotations.
Open Scope N_scope.

(* an extension block: 0x21, label, fixed part, data sub-blocks (None for the graphic control
   extension, which has a fixed 6-byte body in this parser) *)
Record gblock := GBlock { glabel : N; gfixed : bytes; gsubs : option (list bytes) }.

Definition C2PA_GIF_ID : bytes := [67; 50; 80; 65; 95; 71; 73; 70].   (* "C2PA_GIF" *)
Definition C2PA_GIF_AUTH : bytes := [1; 0; 0].
Definition GIF_SUB_MAX : nat := 255.

Definition enc_subs (subs : list bytes) : bytes :=
  concat (map (fun s => len s :: s) subs) ++ [0].

Definition enc_gblock (g : gblock) : bytes :=
  [33; glabel g] ++ gfixed g ++ match gsubs g with Some s => enc_subs s | None => [] end.

Definition is_c2pa_block (g : gblock) : bool :=
  (glabel g =? 255) && beq (gfixed g) ([11] ++ C2PA_GIF_ID ++ C2PA_GIF_AUTH).

(* DataSubBlocks::from_encoded_stream / _and_skip: None = read past the end (Error::IoError) *)
Fixpoint parse_subs (fuel : nat) (b : bytes) : option (list bytes * bytes) :=
  match fuel with
  | O => None
  | S f =>
    match b with
    | [] => None
    | n :: t =>
      if n =? 0 then Some ([], t)
      else
        let h := firstn (N.to_nat n) t in
        if len h <? n then None
        else match parse_subs f (skipn (N.to_nat n) t) with
             | Some (ss, r) => Some (h :: ss, r)
             | None => None
             end
    end
  end.

(* skipping (seek) never fails by itself; a later read does *)
Definition take_fixed (n : nat) (b : bytes) : option (bytes * bytes) :=
  if Nat.ltb (length b) n then None else Some (firstn n b, skipn n b).

(* ImageDescriptor::from_stream followed by next_block_hint (local colour table: a seek; image data:
   one byte then sub-blocks): does the block at an image descriptor parse? *)
Definition image_desc_ok (b : bytes) : bool :=
  match take_fixed 9 b with
  | None => false
  | Some (d, r) =>
    let packed := nth 8 d 0 in
    if N.testbit packed 7 then true
    else match r with
         | [] => false  (* seek(1) past the end is not an error; the sub-block read is *)
         | _ :: r' => match parse_subs (S (length r')) r' with Some _ => true | None => false end
         end
  end.

(* the blocks up to the first image descriptor / trailer.  Result: blocks and the remaining bytes. *)
Fixpoint gif_blocks (fuel : nat) (b : bytes) : res (list gblock * bytes) :=
  match fuel with
  | O => RErr EIoError
  | S f =>
    match b with
    | [] => RErr EIoError
    | 33 :: b1 =>
      match b1 with
      | [] => RErr EIoError
      | lab :: b2 =>
        let with_subs (fixed_len : nat) :=
          match take_fixed fixed_len b2 with
          | None => RErr EIoError
          | Some (fx, r) =>
            match parse_subs (S (length r)) r with
            | None => RErr EIoError
            | Some (ss, r') =>
              match gif_blocks f r' with
              | ROk (bs, tl) => ROk (GBlock lab fx (Some ss) :: bs, tl)
              | RErr e => RErr e
              end
            end
          end in
        if lab =? 255 then
          match b2 with
          | [] => RErr EIoError
          | sz :: _ => if negb (sz =? 11) then RErr EInvalidAsset else with_subs 12%nat
          end
        else if lab =? 254 then with_subs 0%nat
        else if lab =? 1 then with_subs 11%nat
        else if lab =? 249 then
          (* GraphicControlExtension::from_stream: seek(6) only *)
          let r := skipn 6 b2 in
          match gif_blocks f r with
          | ROk (bs, tl) => ROk (GBlock lab (firstn 6 b2) None :: bs, tl)
          | RErr e => RErr e
          end
        else RErr EInvalidAsset
      end
    | 44 :: b1 => if image_desc_ok b1 then ROk ([], b) else RErr EIoError
    | 59 :: _ => ROk ([], b)
    | _ => RErr EInvalidAsset
    end
  end.

(* Header + LogicalScreenDescriptor + GlobalColorTable: length of the preamble *)
Definition gif_preamble_len (a : bytes) : res N :=
  if len a <? 6 then RErr EIoError
  else if negb (beq (firstn 3 a) [71; 73; 70]) then RErr ESignature
  else if negb (beq (slice a 3 3) [56; 55; 97] || beq (slice a 3 3) [56; 57; 97]) then RErr ESignature
  else if len a <? 11 then RErr EIoError
  else
    let packed := nth 10 a 0 in
    if N.testbit packed 7 then ROk (13 + 3 * 2 ^ (N.land packed 7 + 1)) else ROk 13.

Definition gif_dec (a : bytes) : res (bytes * list gblock * bytes) :=
  rbind (gif_preamble_len a) (fun p =>
    let pre := firstn (N.to_nat p) a in
    let body := skipn (N.to_nat p) a in
    match gif_blocks (S (length body)) body with
    | ROk (bs, tl) => ROk (pre, bs, tl)
    | RErr e => RErr e
    end).

Definition gif_enc (pre : bytes) (bs : list gblock) (tl : bytes) : bytes :=
  pre ++ concat (map enc_gblock bs) ++ tl.

(* DataSubBlocks::to_decoded_bytes *)
Definition gblock_data (g : gblock) : bytes :=
  match gsubs g with Some ss => concat ss | None => [] end.

Definition gif_payload (bs : list gblock) : res bytes :=
  match find is_c2pa_block bs with
  | Some g => nonempty_or_notfound (ROk (gblock_data g))
  | None => RErr EJumbfNotFound
  end.

Definition gif_read (a : bytes) : res bytes :=
  rbind (gif_dec a) (fun r => gif_payload (snd (fst r))).

Definition gmk (b : bytes) : gblock :=
  GBlock 255 ([11] ++ C2PA_GIF_ID ++ C2PA_GIF_AUTH) (Some (chunks (length b) GIF_SUB_MAX b)).

Definition set_nth {A} (i : nat) (x : A) (l : list A) : list A :=
  firstn i l ++ (match skipn i l with [] => [] | _ :: t => x :: t end).

Definition gif_write_blocks (bs : list gblock) (b : bytes) : list gblock :=
  match find_index is_c2pa_block bs with
  | Some j => firstn j bs ++ [gmk b] ++ skipn (S j) bs
  | None => gmk b :: bs
  end.

Definition gif_write (a b : bytes) : res bytes :=
  rbind (gif_dec a) (fun r =>
    let '(pre, bs, tl) := r in
    match find_index is_c2pa_block bs with
    | Some _ => ROk (gif_enc pre (gif_write_blocks bs b) tl)
    | None => ROk (gif_enc (set_nth 4 57 pre) (gif_write_blocks bs b) tl)   (* update_to_89a *)
    end).

Definition gif_remove (a : bytes) : res bytes :=
  rbind (gif_dec a) (fun r =>
    let '(pre, bs, tl) := r in
    match find_index is_c2pa_block bs with
    | Some j => ROk (gif_enc pre (remove_nth j bs) tl)
    | None => ROk a
    end).

(* get_object_locations_from_stream on the parsed blocks: [plen] = length of the preamble, [total] = file length *)
Definition gif_loc_blocks (plen : N) (bs : list gblock) (total : N) : list (N * N * kind) :=
  match find_index is_c2pa_block bs with
  | Some j =>
    let start := plen + len (concat (map enc_gblock (firstn j bs))) in
    let l := len (enc_gblock (nth j bs (GBlock 0 [] None))) in
    [(0, start - 1, KOther); (start, l, KCai); (start + l, total - (start + l), KOther)]
  | None => [(0, plen - 1, KOther); (plen, 1, KCai); (plen + 1, total - plen, KOther)]
  end.

Definition gif_locations (a : bytes) : res (list (N * N * kind)) :=
  rbind (gif_dec a) (fun r => let '(pre, bs, tl) := r in ROk (gif_loc_blocks (len pre) bs (len a))).

Definition gif_format : format :=
  Format gblock (map is_c2pa_block) (fun b => [gmk b]) gif_payload
         (fun l => match find_index is_c2pa_block l with Some j => j | None => O end)
         enc_gblock.
