(* Model/IpPreds.v — the vocabulary the classification functions of sdk/src/http/restricted.rs are
   written in: std::net predicates (semantics transcribed from the Rust standard library, trusted) and
   the literal comparisons that appear in ipv4_is_non_global / ipv6_is_non_global.  Which of them the
   source actually uses, and with which literals, is regenerated into Generated/C27_facts.v. *)
From Coq Require Import List NArith Bool.
Import ListNotations.
Open Scope N_scope.

Inductive ipv4 := V4 (a b c d : N).                       (* four octets *)
Inductive ipv6 := V6 (g0 g1 g2 g3 g4 g5 g6 g7 : N).       (* eight 16-bit groups *)
Inductive ip := Ip4 (x : ipv4) | Ip6 (x : ipv6).

(* std::net::Ipv4Addr predicates *)
Inductive v4pred := P4_unspecified | P4_loopback | P4_private | P4_link_local | P4_broadcast
                  | P4_documentation | P4_multicast.

Definition eval_v4pred (p : v4pred) (x : ipv4) : bool :=
  let '(V4 a b c d) := x in
  match p with
  | P4_unspecified => (a =? 0) && (b =? 0) && (c =? 0) && (d =? 0)
  | P4_loopback => a =? 127
  | P4_private => (a =? 10) || ((a =? 172) && (16 <=? b) && (b <=? 31)) || ((a =? 192) && (b =? 168))
  | P4_link_local => (a =? 169) && (b =? 254)
  | P4_broadcast => (a =? 255) && (b =? 255) && (c =? 255) && (d =? 255)
  | P4_documentation => ((a =? 192) && (b =? 0) && (c =? 2)) || ((a =? 198) && (b =? 51) && (c =? 100))
                        || ((a =? 203) && (b =? 0) && (c =? 113))
  | P4_multicast => (224 <=? a) && (a <=? 239)
  end.

(* a disjunct of ipv4_is_non_global *)
Inductive v4term :=
| T4_std (p : v4pred)                 (* ip.is_xxx() *)
| T4_a_eq (n : N)                     (* a == n *)
| T4_a_eq_b_mask (n m v : N).         (* (a == n && (b & m) == v) *)

Definition eval_v4term (t : v4term) (x : ipv4) : bool :=
  let '(V4 a b c d) := x in
  match t with
  | T4_std p => eval_v4pred p x
  | T4_a_eq n => a =? n
  | T4_a_eq_b_mask n m v => (a =? n) && (N.land b m =? v)
  end.

(* std::net::Ipv6Addr predicates *)
Inductive v6pred := P6_unspecified | P6_loopback | P6_multicast.

Definition eval_v6pred (p : v6pred) (x : ipv6) : bool :=
  let '(V6 g0 g1 g2 g3 g4 g5 g6 g7) := x in
  match p with
  | P6_unspecified => (g0 =? 0) && (g1 =? 0) && (g2 =? 0) && (g3 =? 0) && (g4 =? 0) && (g5 =? 0) && (g6 =? 0) && (g7 =? 0)
  | P6_loopback => (g0 =? 0) && (g1 =? 0) && (g2 =? 0) && (g3 =? 0) && (g4 =? 0) && (g5 =? 0) && (g6 =? 0) && (g7 =? 1)
  | P6_multicast => N.land g0 65280 =? 65280                (* (segments[0] & 0xff00) == 0xff00 *)
  end.

Inductive v6term :=
| T6_std (p : v6pred)
| T6_seg0_mask (m v : N).             (* (segments[0] & m) == v *)

Definition eval_v6term (t : v6term) (x : ipv6) : bool :=
  let '(V6 g0 _ _ _ _ _ _ _) := x in
  match t with
  | T6_std p => eval_v6pred p x
  | T6_seg0_mask m v => N.land g0 m =? v
  end.

(* Ipv6Addr::to_ipv4_mapped: ::ffff:a.b.c.d *)
Definition to_ipv4_mapped (x : ipv6) : option ipv4 :=
  let '(V6 g0 g1 g2 g3 g4 g5 g6 g7) := x in
  if (g0 =? 0) && (g1 =? 0) && (g2 =? 0) && (g3 =? 0) && (g4 =? 0) && (g5 =? 65535)
  then Some (V4 (g6 / 256) (g6 mod 256) (g7 / 256) (g7 mod 256))
  else None.
