(* Model/FsPaths.v — paths, the lexical sanitisers of c2pa-rs and a small file-system model.
   Transcribed from
     sdk/src/utils/path_utils.rs   sanitize_archive_path
     sdk/src/utils/io_utils.rs     uri_to_path
     sdk/src/resource_store.rs     normalize_lexically, resolve_within_root, ResourceStore::{add,get,exists,
                                   write_stream,path_for_id}
     sdk/src/builder.rs            Builder::add_resource, old_from_archive (resource / manifest entry names)
     sdk/src/reader.rs             Reader::to_folder (write_bytes)
   Strings are byte lists; a path string is read through [components] (std::path::Path::components on
   Unix: repeated and trailing '/' and interior "." vanish, a leading "." is CurDir, ".." is ParentDir).
   Directories of the store (base path, resource root, export folder) are clean absolute locations.
   The file system is a finite map from real locations (lists of names below the case directory) to
   Dir | File content | Link target; [walk] is canonicalize()/path resolution with fuel, [mkdirp] is
   create_dir_all, [wopen] is open(O_CREAT|O_TRUNC).  Every operation returns what the caller sees and
   the real locations it read, created or wrote.  No proofs here.  Races (TOCTOU) are not modelled. *)
From Coq Require Import List NArith Bool.
Import ListNotations.
Open Scope N_scope.

Definition str := list N.
Definition name := list N.
Definition loc := list name.          (* a real location: names from the top of the modelled tree *)

Definition SLASH : N := 47.
Definition BACKSLASH : N := 92.
Definition DOT : N := 46.
Definition COLON : N := 58.
Definition UNDERSCORE : N := 95.

Fixpoint str_eqb (a b : str) : bool :=
  match a, b with
  | [], [] => true
  | x :: a', y :: b' => (x =? y) && str_eqb a' b'
  | _, _ => false
  end.

Fixpoint loc_eqb (a b : loc) : bool :=
  match a, b with
  | [], [] => true
  | x :: a', y :: b' => str_eqb x y && loc_eqb a' b'
  | _, _ => false
  end.

Inductive comp := CRoot | CCur | CParent | CNormal (n : name).

Definition comp_eqb (a b : comp) : bool :=
  match a, b with
  | CRoot, CRoot | CCur, CCur | CParent, CParent => true
  | CNormal x, CNormal y => str_eqb x y
  | _, _ => false
  end.

(* ------------------------------------------------------------------ Path::components *)

Fixpoint split_on (d : N) (s : str) : list str :=
  match s with
  | [] => [[]]
  | c :: t => if c =? d then [] :: split_on d t
              else match split_on d t with
                   | h :: r => (c :: h) :: r
                   | [] => [[c]]
                   end
  end.

Definition is_dot (s : str) := str_eqb s [DOT].
Definition is_dotdot (s : str) := str_eqb s [DOT; DOT].

Definition seg_comps (seg : str) : list comp :=
  match seg with
  | [] => []
  | _ => if is_dot seg then [] else if is_dotdot seg then [CParent] else [CNormal seg]
  end.

Definition rooted (s : str) : bool := match s with c :: _ => c =? SLASH | [] => false end.

Definition components (s : str) : list comp :=
  match s with
  | [] => []
  | _ => let segs := split_on SLASH s in
         (if rooted s then [CRoot] else if is_dot (hd [] segs) then [CCur] else [])
         ++ flat_map seg_comps segs
  end.

(* what the operating system sees of the same string (realpath, open, stat, symlink targets): "." and a
   trailing '/' are not dropped, they require what precedes them to be a directory *)
Definition seg_os (seg : str) : list comp :=
  match seg with
  | [] => []
  | _ => if is_dot seg then [CCur] else if is_dotdot seg then [CParent] else [CNormal seg]
  end.

Fixpoint os_segs (segs : list str) : list comp :=
  match segs with
  | [] => []
  | [sg] => match sg with [] => [CCur] | _ => seg_os sg end
  | sg :: t => seg_os sg ++ os_segs t
  end.

Definition os_comps (s : str) : list comp :=
  match s with
  | [] => []
  | _ => (if rooted s then [CRoot] else []) ++ os_segs (split_on SLASH s)
  end.

Definition has_byte (b : N) (s : str) : bool := existsb (fun c => c =? b) s.

(* a clean absolute directory as a component list *)
Definition abs (l : loc) : list comp := CRoot :: map CNormal l.

(* base.join(id) for a clean absolute base and a relative id: Path::components of "<base>/<id>" ... *)
Definition join (base : loc) (id : str) : list comp :=
  if rooted id then components id
  else abs base ++ match components id with CCur :: t => t | l => l end.
(* ... and the same string as the operating system resolves it *)
Definition join_os (base : loc) (id : str) : list comp :=
  if rooted id then os_comps id else abs base ++ os_comps id.

(* ------------------------------------------------------------------ sanitize_archive_path *)

Fixpoint sanitize_comps (cs : list comp) (acc : list name) : option (list name) :=
  match cs with
  | [] => Some acc
  | CNormal p :: t => sanitize_comps t (acc ++ [p])
  | CCur :: t => sanitize_comps t acc
  | _ :: _ => None                       (* RootDir | Prefix | ParentDir *)
  end.

Definition sanitize (s : str) : option (list name) :=
  match s with
  | [] => None
  | _ => if has_byte BACKSLASH s then None
         else match sanitize_comps (components s) [] with
              | Some [] => None
              | r => r
              end
  end.

(* ------------------------------------------------------------------ uri_to_path *)

Definition replace_colon (s : str) : str := map (fun c => if c =? COLON then UNDERSCORE else c) s.

Fixpoint strip_prefix (p s : str) : option str :=
  match p, s with
  | [], _ => Some s
  | x :: p', y :: s' => if x =? y then strip_prefix p' s' else None
  | _ :: _, [] => None
  end.

Definition SELF_JUMBF : str := [115;101;108;102;35;106;117;109;98;102;61].    (* "self#jumbf=" *)
Definition C2PA_SLASH : str := [47;99;50;112;97;47].                            (* "/c2pa/" *)

Definition uri_to_path (uri : str) (label : option str) : option (list name) :=
  let p := replace_colon uri in
  match strip_prefix SELF_JUMBF p with
  | None => sanitize p
  | Some p1 =>
      match strip_prefix C2PA_SLASH p1 with
      | Some p2 => sanitize p2
      | None => match label with
                | Some l => sanitize (replace_colon l ++ [SLASH] ++ p1)
                | None => sanitize p1
                end
      end
  end.

(* ------------------------------------------------------------------ normalize_lexically, starts_with *)

(* the PathBuf `out` is kept as a stack (last component first) *)
Definition norm_step (stk : list comp) (c : comp) : list comp :=
  match c with
  | CCur => stk
  | CParent => match stk with
               | CNormal _ :: t => t              (* pop a preceding normal segment *)
               | CRoot :: _ => stk                (* cannot climb above the root: drop the `..` *)
               | _ => CParent :: stk              (* empty, or tail is already `..`: keep it *)
               end
  | CRoot => [CRoot]                              (* push of an absolute path replaces *)
  | CNormal n => CNormal n :: stk
  end.

Definition normalize_lexically (p : list comp) : list comp := rev (fold_left norm_step p []).

Fixpoint starts_with (p base : list comp) {struct base} : bool :=
  match base, p with
  | [], _ => true
  | b :: base', x :: p' => comp_eqb b x && starts_with p' base'
  | _ :: _, [] => false
  end.

Fixpoint loc_prefix (r q : loc) : bool :=
  match r, q with
  | [], _ => true
  | a :: r', b :: q' => str_eqb a b && loc_prefix r' q'
  | _ :: _, [] => false
  end.

(* ------------------------------------------------------------------ file system *)

Inductive node := Dir | File (content : str) | Link (target : str).
Definition fs := list (loc * node).

Fixpoint lookup (f : fs) (l : loc) : option node :=
  match f with
  | [] => None
  | (k, v) :: t => if loc_eqb k l then Some v else lookup t l
  end.

(* the top of the modelled tree is a directory *)
Definition lookup_top (f : fs) (l : loc) : option node :=
  match l with [] => Some Dir | _ => lookup f l end.

(* path resolution (canonicalize): every component must exist; symlinks are followed; `..` is physical *)
Fixpoint walk (fuel : nat) (f : fs) (cur : loc) (todo : list comp) : option loc :=
  match fuel with
  | O => None
  | S k =>
    match todo with
    | [] => Some cur
    | CRoot :: t => walk k f [] t
    | CCur :: t => walk k f cur t
    | CParent :: t => walk k f (removelast cur) t
    | CNormal n :: t =>
        match lookup f (cur ++ [n]) with
        | None => None
        | Some Dir => walk k f (cur ++ [n]) t
        | Some (File _) => match t with [] => Some (cur ++ [n]) | _ => None end
        | Some (Link tg) => walk k f cur (os_comps tg ++ t)
        end
    end
  end.

Definition FUEL : nat := 96.
Definition canon (f : fs) (p : list comp) : option loc := walk FUEL f [] p.

(* ------------------------------------------------------------------ ensure_real_parent_within_root (791680340) *)

Definition is_link (o : option node) : bool := match o with Some (Link _) => true | _ => false end.
Definition is_some {A} (o : option A) : bool := match o with Some _ => true | None => false end.

(* symlink_metadata(p): everything but the last component is resolved, the last one is not followed *)
Definition lstat (f : fs) (p : list comp) : option node :=
  match p with
  | [] => None
  | _ => match walk FUEL f [] (removelast p) with
         | None => None
         | Some cur =>
             match lookup_top f cur with
             | Some Dir => match last p CCur with
                           | CNormal n => lookup f (cur ++ [n])
                           | _ => Some Dir                       (* "/", "." , ".." of a directory *)
                           end
             | _ => None
             end
         end
  end.

(* Path::parent() repeatedly: the proper prefixes of the Path::components list, deepest first, down to "/" *)
Definition ancestors (p : list comp) : list (list comp) :=
  map (fun k => firstn k p) (rev (seq 1 (length p - 1))).

(* the deepest ancestor that exists (lstat) is canonicalized and must be under the canonical root *)
Fixpoint ancestors_check (f : fs) (cr : loc) (anc : list (list comp)) : bool :=
  match anc with
  | [] => false
  | d :: t => if is_some (lstat f d)
              then match canon f d with Some real => loc_prefix cr real | None => false end
              else ancestors_check f cr t
  end.

Inductive ensured := EOk | EBad | EIo.

(* p_os: the path string as the operating system resolves it; p_lex: its Path::components *)
Definition ensure_real_parent_within_root (f : fs) (root : loc) (p_os p_lex : list comp) : ensured :=
  if is_link (lstat f p_os) then EBad
  else match canon f (abs root) with
       | None => EIo                                              (* root.canonicalize()? *)
       | Some cr => if ancestors_check f cr (ancestors p_lex) then EOk else EBad
       end.

(* ------------------------------------------------------------------ resolve_within_root *)

(* before 791680340: a missing target was accepted whatever exists on the way to it *)
Definition resolve_within_root_old (f : fs) (base root : loc) (id : str) : option (list comp) :=
  match id with
  | [] => None
  | _ =>
    if has_byte BACKSLASH id then None
    else if rooted id then None
    else
      let joined := join base id in
      if negb (starts_with (normalize_lexically joined) (normalize_lexically (abs root))) then None
      else match canon f (join_os base id) with
           | Some ct => match canon f (abs root) with
                        | Some cr => if loc_prefix cr ct then Some (join_os base id) else None
                        | None => None
                        end
           | None => Some (join_os base id)
           end
  end.

Definition resolve_within_root (f : fs) (base root : loc) (id : str) : option (list comp) :=
  match id with
  | [] => None
  | _ =>
    if has_byte BACKSLASH id then None
    else if rooted id then None
    else
      let joined := join base id in
      if negb (starts_with (normalize_lexically joined) (normalize_lexically (abs root))) then None
      else match canon f (join_os base id) with
           | Some ct => match canon f (abs root) with
                        | Some cr => if loc_prefix cr ct then Some (join_os base id) else None
                        | None => None                           (* root.canonicalize()? *)
                        end
           | None =>                                             (* target does not exist *)
               match ensure_real_parent_within_root f root (join_os base id) joined with
               | EOk => Some (join_os base id)
               | _ => None
               end
           end
  end.

(* ------------------------------------------------------------------ what an operation shows and touches *)

Inductive touch :=
| TRead (q : loc)        (* content of q returned to the caller *)
| TProbe (q : loc)       (* existence of q reported to the caller *)
| TWrite (q : loc)       (* q created or overwritten *)
| TMkdir (q : loc)       (* directory q created *)
| TFollow (q : loc).     (* a symbolic link on the written path was followed and led to q *)

Inductive robs :=
| OkData (c : str) | OkBool (b : bool) | OkPath (p : option (list comp)) | OkUnit
| ErrNotFoundId          (* Error::ResourceNotFound(id) *)
| ErrNotFoundPath        (* Error::ResourceNotFound(path) *)
| ErrIo                  (* Error::IoError *)
| ErrBadParam.           (* Error::BadParam *)

(* std::fs::read(path) / File::open + io::copy *)
Definition read_file (f : fs) (p : list comp) : option (loc * str) :=
  match canon f p with
  | Some q => match lookup_top f q with
              | Some (File c) => Some (q, c)
              | _ => None
              end
  | None => None
  end.

Definition get (f : fs) (base root : loc) (id : str) : robs * list touch :=
  match resolve_within_root f base root id with
  | None => (ErrNotFoundId, [])
  | Some j => match read_file f j with
              | Some (q, c) => (OkData c, [TRead q])
              | None => (ErrNotFoundPath, [])
              end
  end.

Definition write_stream (f : fs) (base root : loc) (id : str) : robs * list touch :=
  match resolve_within_root f base root id with
  | None => (ErrNotFoundId, [])
  | Some j => match read_file f j with
              | Some (q, c) => (OkData c, [TRead q])
              | None => (ErrIo, [])
              end
  end.

Definition exists_op (f : fs) (base root : loc) (id : str) : robs * list touch :=
  match resolve_within_root f base root id with
  | None => (OkBool false, [])
  | Some j => match canon f j with
              | Some q => (OkBool true, [TProbe q])
              | None => (OkBool false, [])
              end
  end.

Definition path_for_id (f : fs) (base root : loc) (id : str) : robs * list touch :=
  (OkPath (resolve_within_root f base root id), []).

(* ------------------------------------------------------------------ the write side *)

(* create_dir_all below the real directory cur; the touches are kept when it fails half-way *)
Fixpoint mkdirp (fuel : nat) (f : fs) (cur : loc) (todo : list name) (acc : list touch)
  : option (fs * loc) * list touch :=
  match todo with
  | [] => (Some (f, cur), acc)
  | n :: t =>
      match lookup f (cur ++ [n]) with
      | None => mkdirp fuel ((cur ++ [n], Dir) :: f) (cur ++ [n]) t (acc ++ [TMkdir (cur ++ [n])])
      | Some Dir => mkdirp fuel f (cur ++ [n]) t acc
      | Some (File _) => (None, acc)
      | Some (Link tg) =>
          match walk fuel f cur (os_comps tg) with
          | Some q => match lookup_top f q with
                      | Some Dir => mkdirp fuel f q t (acc ++ [TFollow q])
                      | _ => (None, acc)
                      end
          | None => (None, acc)
          end
      end
  end.

(* open(path, O_WRONLY|O_CREAT|O_TRUNC): the real location of the file that is created or truncated *)
Fixpoint wopen (fuel : nat) (f : fs) (cur : loc) (todo : list comp) : option loc :=
  match fuel with
  | O => None
  | S k =>
    match todo with
    | [] => None                                                   (* resolves to a directory *)
    | [CNormal n] =>
        match lookup f (cur ++ [n]) with
        | None => Some (cur ++ [n])
        | Some (File _) => Some (cur ++ [n])
        | Some Dir => None
        | Some (Link tg) => wopen k f cur (os_comps tg)
        end
    | CRoot :: t => wopen k f [] t
    | CCur :: t => wopen k f cur t
    | CParent :: t => wopen k f (removelast cur) t
    | CNormal n :: t =>
        match lookup f (cur ++ [n]) with
        | Some Dir => wopen k f (cur ++ [n]) t
        | Some (Link tg) => wopen k f cur (os_comps tg ++ t)
        | _ => None
        end
    end
  end.

(* create_dir_all(parent); write(path) for path = <real dir rr>/<ns> *)
Definition write_at (fuel : nat) (f : fs) (rr : loc) (ns : list name) (data : str)
  : option (fs * loc) * list touch :=
  match mkdirp fuel f rr (removelast ns) [] with
  | (None, ts) => (None, ts)
  | (Some (f1, cur), ts) =>
      let n := last ns [] in
      match wopen fuel f1 cur [CNormal n] with
      | None => (None, ts)
      | Some q => (Some ((q, File data) :: f1, q),
                   ts ++ (if is_link (lookup f1 (cur ++ [n])) then [TFollow q] else []) ++ [TWrite q])
      end
  end.

(* ResourceStore::add with a base path, before 791680340: sanitise, join, create_dir_all(parent), write *)
Definition add_old (f : fs) (base : loc) (id data : str) : robs * list touch :=
  match sanitize id with
  | None => (ErrBadParam, [])
  | Some ns =>
      match mkdirp FUEL f [] base [] with          (* the base directory itself (created when missing) *)
      | (None, ts0) => (ErrIo, ts0)
      | (Some (f0, rr), ts0) =>
          match write_at FUEL f0 rr ns data with
          | (None, ts) => (ErrIo, ts0 ++ ts)
          | (Some _, ts) => (OkUnit, ts0 ++ ts)
          end
      end
  end.

(* ResourceStore::add with a base path:
     sanitize; path = base.join(id); create_dir_all(base)?; ensure_real_parent_within_root(root, &path)?;
     create_dir_all(path.parent())?; write(path)          (both resolved from "/" by the operating system) *)
Definition add (f : fs) (base root : loc) (id data : str) : robs * list touch :=
  match sanitize id with
  | None => (ErrBadParam, [])
  | Some ns =>
      match mkdirp FUEL f [] base [] with
      | (None, ts0) => (ErrIo, ts0)
      | (Some (f0, _), ts0) =>
          match ensure_real_parent_within_root f0 root (abs (base ++ ns)) (abs (base ++ ns)) with
          | EBad => (ErrBadParam, ts0)
          | EIo => (ErrIo, ts0)
          | EOk =>
              match write_at FUEL f0 [] (base ++ ns) data with
              | (None, ts) => (ErrIo, ts0 ++ ts)
              | (Some _, ts) => (OkUnit, ts0 ++ ts)
              end
          end
      end
  end.

(* Builder::add_resource with a base path: sanitise, refuse an identifier that exists, add *)
Fixpoint join_slash (ns : list name) : str :=
  match ns with
  | [] => []
  | [n] => n
  | n :: t => n ++ [SLASH] ++ join_slash t
  end.

Definition builder_add (f : fs) (base : loc) (id data : str) : robs * list touch :=
  match sanitize id with
  | None => (ErrBadParam, [])
  | Some ns =>
      match exists_op f base base (join_slash ns) with
      | (OkBool true, ts) => (ErrBadParam, ts)
      | _ => add f base base (join_slash ns) data
      end
  end.

(* Reader::to_folder: create_dir_all(dest), then for each relative path (manifest_store.json,
   manifest_data.c2pa, then uri_to_path of every binary assertion / databox): create_dir_all(parent); write *)
Fixpoint export_all (f : fs) (rr : loc) (rels : list (list name)) (acc : list touch) : robs * list touch :=
  match rels with
  | [] => (OkUnit, acc)
  | ns :: t => match write_at FUEL f rr ns [] with
               | (None, ts) => (ErrIo, acc ++ ts)
               | (Some (f1, _), ts) => export_all f1 rr t (acc ++ ts)
               end
  end.

Definition to_folder (f : fs) (dest : loc) (rels : list (list name)) : robs * list touch :=
  match mkdirp FUEL f [] dest [] with
  | (None, ts0) => (ErrIo, ts0)
  | (Some (f0, rr), ts0) => export_all f0 rr rels ts0
  end.

(* ------------------------------------------------------------------ archive import (old_from_archive) *)

Definition RESOURCES : str := [114;101;115;111;117;114;99;101;115;47].   (* "resources/" *)
Definition MANIFESTS : str := [109;97;110;105;102;101;115;116;115;47].    (* "manifests/" *)

(* one zip entry name: None = the import fails, Some ids = resource identifiers stored in memory *)
Definition archive_entry (nm : str) : option (list str) :=
  if is_some (strip_prefix RESOURCES nm) && negb (str_eqb nm RESOURCES) then
    match sanitize nm with
    | None => None
    | Some _ => match sanitize (nth 1 (split_on SLASH nm) []) with
                | None => None
                | Some ns => Some [join_slash ns]
                end
    end
  else if is_some (strip_prefix MANIFESTS nm) && negb (str_eqb nm MANIFESTS) then
    match sanitize nm with
    | None => None
    | Some _ => match sanitize (nth 1 (split_on SLASH nm) []) with
                | None => None
                | Some _ => Some []
                end
    end
  else Some [].

Fixpoint archive_ids (names : list str) : option (list str) :=
  match names with
  | [] => Some []
  | nm :: t => match archive_entry nm with
               | None => None
               | Some a => match archive_ids t with
                           | None => None
                           | Some b => Some (a ++ b)
                           end
               end
  end.
