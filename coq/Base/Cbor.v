(* Base/Cbor.v — CBOR (RFC 8949) size arithmetic for definite-length items, as produced by
   ciborium (coset) and c2pa_cbor: the length of the head of an item whose argument is n, and the
   encoded sizes of byte strings, text strings, integers and map/array heads.  No proofs here. *)
From Coq Require Import List NArith ZArith Bool.
Import ListNotations.
Open Scope N_scope.

(* head of a data item with argument n: initial byte + 0/1/2/4/8 argument bytes *)
Definition hdr (n : N) : N :=
  if n <? 24 then 1
  else if n <? 256 then 2
  else if n <? 65536 then 3
  else if n <? 4294967296 then 5
  else 9.

(* byte string (major type 2) / text string (major type 3) with p bytes of content *)
Definition bstr_size (p : N) : N := hdr p + p.
Definition tstr_size (p : N) : N := hdr p + p.

(* integer (major type 0 for z >= 0, major type 1 with argument -1-z for z < 0) *)
Definition int_size (z : Z) : N :=
  if (0 <=? z)%Z then hdr (Z.to_N z) else hdr (Z.to_N (- 1 - z)).

(* head of a definite-length map / array with n entries *)
Definition map_hdr (n : N) : N := hdr n.
Definition arr_hdr (n : N) : N := hdr n.
