(* Base/Bytes.v — byte strings as [list N], big-endian encodings, slices and chunking. *)
From Coq Require Import List NArith Bool Lia Arith.
Import ListNotations.
Open Scope N_scope.

Definition bytes := list N.

Definition len {A} (l : list A) : N := N.of_nat (length l).

(* k-byte big-endian encoding of n (most significant byte first). *)
Fixpoint be (k : nat) (n : N) : bytes :=
  match k with
  | O => []
  | S k' => be k' (n / 256) ++ [n mod 256]
  end.

Fixpoint de_acc (acc : N) (l : bytes) : N :=
  match l with
  | [] => acc
  | b :: t => de_acc (acc * 256 + b) t
  end.
Definition de (l : bytes) : N := de_acc 0 l.

Definition slice {A} (l : list A) (off n : nat) : list A := firstn n (skipn off l).

(* [chunks fuel k l]: cut [l] into pieces of [k] elements (last one may be shorter). *)
Fixpoint chunks {A} (fuel k : nat) (l : list A) : list (list A) :=
  match fuel with
  | O => []
  | S f => match l with
           | [] => []
           | _ => firstn k l :: chunks f k (skipn k l)
           end
  end.

(* number of chunks = ceil(n / k) *)
Definition div_ceil (n k : N) : N := (n + k - 1) / k.

(* stable insertion sort by an N-valued key *)
Section Sort.
  Context {A : Type} (key : A -> N).
  Fixpoint insert_by (x : A) (l : list A) : list A :=
    match l with
    | [] => [x]
    | y :: t => if key x <=? key y then x :: y :: t else y :: insert_by x t
    end.
  Definition sort_by (l : list A) : list A := fold_right insert_by [] l.
End Sort.
