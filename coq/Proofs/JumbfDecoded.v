(* Proofs/JumbfDecoded.v — what BoxReader returns: decoded trees are well-formed up to three known shapes;
   re-serialise + parse is a fixed point outside them. *)
From Coq Require Import List NArith Bool Lia Arith ZifyBool ZifyNat ZifyN.
From C2PA Require Import Base.Bytes Proofs.BytesProofs Generated.C18_facts Model.Jumbf Proofs.JumbfProofs.
Import ListNotations.
Open Scope N_scope.

Arguments N.add : simpl never.
Arguments N.sub : simpl never.
Arguments N.mul : simpl never.
Arguments N.eqb : simpl never.
Arguments N.ltb : simpl never.
Arguments N.leb : simpl never.
Arguments N.land : simpl never.
Arguments N.to_nat : simpl never.
Arguments N.of_nat : simpl never.
Arguments be : simpl never.
Arguments de : simpl never.

(* guaranteed by the reader *)
Fixpoint decoded_ok (b : jbox) : bool :=
  match b with
  | Super d cs => wf_desc d && forallb decoded_ok cs
  | Uuid u x => len_is u 16
  | _ => true
  end.

(* not guaranteed by the reader: the three known non-canonical shapes *)
Fixpoint canonical (b : jbox) : bool :=
  match b with
  | Super d cs => negb (is_nil cs) && forallb canonical cs     (* an empty superbox swallows its successor *)
  | Uuid u x => negb (is_nil x)                               (* a uuid box without data is written without its uuid *)
  | Bfdb g m f => wf_bfdb g m f                               (* media type without text / NUL handling with toggles = 1 *)
  | _ => true
  end.

Lemma shape_split b : shape b = decoded_ok b && canonical b.
Proof.
  induction b as [d cs IH|x|x|x|x|x|u x|g m f|x] using jbox_ind'; cbn [shape decoded_ok canonical]; try reflexivity.
  assert (E : forallb shape cs = forallb decoded_ok cs && forallb canonical cs).
  { induction cs as [|c cs IHcs]; [reflexivity|]. inversion IH; subst. cbn [forallb]. rewrite H1, (IHcs H2).
    destruct (decoded_ok c), (canonical c), (forallb decoded_ok cs), (forallb canonical cs); reflexivity. }
  rewrite E. destruct (wf_desc d), (is_nil cs), (forallb decoded_ok cs), (forallb canonical cs); reflexivity.
Qed.

(* ------------------------------------------------------------------ inversion of the primitive reads *)

Lemma Forall_firstn {A} (P : A -> Prop) n : forall l, Forall P l -> Forall P (firstn n l).
Proof. induction n as [|n IH]; intros [|x l] H; cbn [firstn]; try constructor; inversion H; subst; auto. Qed.

Lemma Forall_skipn {A} (P : A -> Prop) n : forall l, Forall P l -> Forall P (skipn n l).
Proof. induction n as [|n IH]; intros [|x l] H; cbn [skipn]; auto. inversion H; subst; auto. Qed.

Lemma rest_ok buf pos : bytes_ok buf -> bytes_ok (rest buf pos).
Proof. intro H. unfold rest. destruct (len buf <=? pos); [constructor | apply Forall_skipn, H]. Qed.

Lemma rest_length buf pos : len (rest buf pos) = len buf - pos.
Proof.
  unfold rest. destruct (len buf <=? pos) eqn:E; [change (len (@nil N)) with 0; lia|].
  unfold len. rewrite skipn_length. unfold len in E. lia.
Qed.

Lemma rd_exact_inv buf p n x p' :
  rd_exact buf p n = Some (x, p') -> p' = p + n /\ len x = n /\ (bytes_ok buf -> bytes_ok x).
Proof.
  unfold rd_exact. destruct (p + n <=? len buf) eqn:E; [|discriminate]. intro H. inversion H; subst. clear H.
  split; [reflexivity|]. split.
  - pose proof (rest_length buf p) as R. unfold len in *. rewrite firstn_length. lia.
  - intro Hb. apply Forall_firstn, rest_ok, Hb.
Qed.

Lemma rd_inv buf pos n u p1 :
  rd buf pos n = (u, p1) -> p1 = pos + len u /\ (len u = n \/ len buf <= p1) /\ (bytes_ok buf -> bytes_ok u).
Proof.
  unfold rd. intro H. inversion H; subst. clear H. split; [reflexivity|]. split.
  - pose proof (rest_length buf pos) as R. unfold len in *. rewrite firstn_length. lia.
  - intro Hb. apply Forall_firstn, rest_ok, Hb.
Qed.

Lemma read_label_inv l : forall bl s n bl', read_label l bl = Some (s, n, bl') -> no_nul s = true.
Proof.
  induction l as [|c t IH]; intros bl s n bl' H; cbn [read_label] in H; destruct (bl <=? HEADER_SIZE); try discriminate.
  destruct (c =? 0) eqn:Ec.
  - inversion H; subst. reflexivity.
  - destruct (read_label t (bl - 1)) as [[[s0 n0] bl0]|] eqn:E; [|discriminate]. inversion H; subst.
    cbn [no_nul forallb]. rewrite Ec. cbn [negb andb]. exact (IH _ _ _ _ E).
Qed.

Lemma read_header_size_ok buf pos name size p : read_header buf pos = Some (name, size, p) -> True.
Proof. trivial. Qed.

Lemma read_desc_inv buf pos size d p :
  read_desc buf pos size = Some (d, p) -> bytes_ok buf -> has_text (d_label d) = true -> wf_desc d = true.
Proof.
  unfold read_desc. intros H Hb.
  destruct (size <? JUMD_MIN_SIZE); [discriminate|].
  destruct (rd buf pos 16) as [u p1] eqn:R0. destruct (len u =? 0) eqn:Eu0; [discriminate|].
  destruct (rd_exact buf p1 1) as [[tg p2]|] eqn:R1; [|discriminate].
  destruct (negb (N.land (hd 0 tg) 3 =? 3)) eqn:Eb3; [discriminate|].
  destruct (read_label (rest buf p2) (size - len u - 1)) as [[[lab n] bl]|] eqn:RL; [|discriminate].
  match type of H with match ?c with _ => _ end = _ => destruct c as [[[id p4] bl4]|] eqn:EI; [|discriminate] end.
  match type of H with match ?c with _ => _ end = _ => destruct c as [[[sig p5] bl5]|] eqn:ES; [|discriminate] end.
  match type of H with match ?c with _ => _ end = _ => destruct c as [[[salt p9] bl9]|] eqn:EA; [|discriminate] end.
  destruct (bl9 =? HEADER_SIZE); [|discriminate]. inversion H; subst. clear H. cbn [d_label]. intro Ht.
  set (tog := hd 0 tg) in *.
  apply rd_inv in R0 as (E1 & Hu & _).
  assert (Lu : len_is u 16 = true).
  { destruct Hu as [Hu|Hu]; [unfold len_is; apply Nat.eqb_eq; unfold len in Hu; lia|].
    (* the toggles were read after the uuid, so the buffer did not end there *)
    exfalso. unfold rd_exact in R1. destruct (p1 + 1 <=? len buf) eqn:E; [lia | discriminate]. }
  unfold wf_desc. cbn [d_uuid d_tog d_label d_id d_sig d_salt]. unfold bit.
  rewrite Lu, Ht, (read_label_inv _ _ _ _ _ RL). replace (N.land tog 3 =? 3) with true by lia. cbn [andb].
  assert (Wid : (match id with Some i => (N.land tog 4 =? 4) && (i <? U32) | None => negb (N.land tog 4 =? 4) end) = true).
  { destruct (N.land tog 4 =? 4).
    - destruct (rd_exact buf (p2 + n) 4) as [[b q]|] eqn:R; [|discriminate]. inversion EI; subst.
      apply rd_exact_inv in R as (_ & Lb & Ob). pose proof (de_bound4 b (Ob Hb)) as B. unfold len in Lb.
      cbn [andb]. specialize (B ltac:(lia)). lia.
    - inversion EI; subst. reflexivity. }
  assert (Wsig : (match sig with Some s => (N.land tog 8 =? 8) && len_is s 32 | None => negb (N.land tog 8 =? 8) end) = true).
  { destruct (N.land tog 8 =? 8).
    - destruct (rd_exact buf p4 32) as [[b q]|] eqn:R; [|discriminate]. destruct (bl4 <? 32); [discriminate|]. inversion ES; subst.
      apply rd_exact_inv in R as (_ & Lb & _). cbn [andb]. unfold len_is. apply Nat.eqb_eq. unfold len in Lb. lia.
    - inversion ES; subst. reflexivity. }
  assert (Wsalt : (match salt with Some s => N.land tog 16 =? 16 | None => negb (N.land tog 16 =? 16) end) = true).
  { destruct (N.land tog 16 =? 16).
    - destruct (read_header buf p5) as [[[name hsize] p6]|]; [|discriminate].
      destruct (hsize =? 0); [discriminate|].
      match type of EA with match ?c with _ => _ end = _ => destruct c as [p7|]; [|discriminate] end.
      destruct (name =? T_C2SH); [|discriminate]. destruct (hsize <? HEADER_SIZE); [discriminate|].
      destruct (rd_exact buf p7 (hsize - HEADER_SIZE)) as [[s q]|]; [|discriminate].
      destruct (bl5 <? hsize); [discriminate|]. inversion EA; subst. reflexivity.
    - inversion EA; subst. reflexivity. }
  rewrite Wid, Wsig, Wsalt. reflexivity.
Qed.

Lemma lift_inv {A} e (f : A -> jbox) r b p : lift e f r = Ok (b, p) -> exists a, r = Some (a, p) /\ b = f a.
Proof. unfold lift. destruct r as [[a q]|]; [|discriminate]. intro H. inversion H; subst. eauto. Qed.

Lemma read_uuid_inv buf pos size b p : read_uuid buf pos size = Some (b, p) -> decoded_ok b = true /\ height b = 0.
Proof.
  unfold read_uuid. destruct (read_header buf pos) as [[[name hsize] p1]|]; [|discriminate].
  destruct (hsize =? 0).
  - intro H. inversion H; subst. split; reflexivity.
  - match goal with |- match ?c with _ => _ end = _ -> _ => destruct c as [p2|]; [|discriminate] end.
    destruct (rd_exact buf p2 16) as [[u p3]|] eqn:R; [|discriminate].
    destruct (size <? HEADER_SIZE + 16); [discriminate|].
    destruct (rd_exact buf p3 (size - (HEADER_SIZE + 16))) as [[x p4]|]; [|discriminate].
    intro H. inversion H; subst. apply rd_exact_inv in R as (_ & Lu & _). split; [|reflexivity].
    cbn [decoded_ok]. unfold len_is. apply Nat.eqb_eq. unfold len in Lu. lia.
Qed.

Lemma read_bfdb_inv buf pos size b p : read_bfdb buf pos size = Some (b, p) -> decoded_ok b = true /\ height b = 0.
Proof.
  unfold read_bfdb. destruct (size <? BFDB_MIN_SIZE); [discriminate|].
  destruct (read_header buf pos) as [[[name hsize] p1]|]; [|discriminate].
  destruct (hsize =? 0).
  - intro H. inversion H; subst. split; reflexivity.
  - match goal with |- match ?c with _ => _ end = _ -> _ => destruct c as [p2|]; [|discriminate] end.
    destruct (rd_exact buf p2 1) as [[tg p3]|]; [|discriminate].
    destruct (rd_exact buf p3 (size - HEADER_SIZE - TOGGLE_SIZE)) as [[x p4]|]; [|discriminate].
    destruct (bfdb_split (hd 0 tg) x) as [mt fn]. intro H. inversion H; subst. split; reflexivity.
Qed.

Lemma read_leaf_inv name size buf p0 b p :
  read_leaf name size buf p0 = Some (Ok (b, p)) -> decoded_ok b = true /\ height b = 0.
Proof.
  unfold read_leaf.
  repeat match goal with |- (if ?c then _ else _) = _ -> _ => destruct c end;
    intro H; inversion H as [H1]; clear H; try discriminate;
    apply lift_inv in H1 as (a & Hr & ->); try (split; reflexivity).
  - apply read_uuid_inv in Hr. exact Hr.
  - apply read_bfdb_inv in Hr. exact Hr.
Qed.

Definition Q (depth : N) (c : jbox) : Prop := decoded_ok c = true /\ depth + 1 + height c <= MAX_JUMB_DEPTH.

Lemma fold_max_le (h : jbox -> N) k l : Forall (fun c => h c <= k) l -> fold_right N.max 0 (map h l) <= k.
Proof. induction 1; cbn [map fold_right]; lia. Qed.

Lemma Q_forallb depth l : Forall (Q depth) l -> forallb decoded_ok l = true.
Proof. intro H. apply forallb_forall. intros x Hx. rewrite Forall_forall in H. apply (H x Hx). Qed.

Lemma Q_heights depth l : Forall (Q depth) l -> depth < MAX_JUMB_DEPTH -> depth + (1 + fold_right N.max 0 (map height l)) <= MAX_JUMB_DEPTH.
Proof.
  intros H Hd. assert (B : fold_right N.max 0 (map height l) <= MAX_JUMB_DEPTH - depth - 1).
  { apply fold_max_le. eapply Forall_impl; [|exact H]. intros c (_ & Hc). cbv beta. lia. }
  lia.
Qed.

Lemma after_child_ok f depth buf dest acc r cs p :
  (forall pos acc cs p, read_children f depth buf pos dest acc = Ok (cs, p) -> Forall (Q depth) acc -> Forall (Q depth) cs) ->
  after_child f depth buf dest acc r = Ok (cs, p) ->
  (forall b q, r = Ok (b, q) -> Q depth b) -> Forall (Q depth) acc -> Forall (Q depth) cs.
Proof.
  intros IHc H Hr Ha. unfold after_child in H. destruct r as [[b q]|e| |]; try discriminate.
  specialize (Hr b q eq_refl).
  destruct (q =? dest).
  - inversion H; subst. change (Forall (Q depth) (rev (b :: acc))). apply Forall_rev. constructor; assumption.
  - destruct (dest <? q); [discriminate|]. eapply IHc; [exact H|]. constructor; assumption.
Qed.

Lemma reader_ok : forall fuel,
  (forall depth buf pos t p, bytes_ok buf -> read_super fuel depth buf pos = Ok (t, p) ->
     decoded_ok t = true /\ is_super t = true /\ depth + height t <= MAX_JUMB_DEPTH) /\
  (forall depth buf pos dest acc cs p, bytes_ok buf -> depth < MAX_JUMB_DEPTH ->
     read_children fuel depth buf pos dest acc = Ok (cs, p) -> Forall (Q depth) acc -> Forall (Q depth) cs).
Proof.
  induction fuel as [|f [IHs IHc]]; split; try (intros; discriminate).
  - intros depth buf pos t p Hb H. rewrite read_super_S in H.
    destruct (MAX_JUMB_DEPTH <=? depth) eqn:Ed; [discriminate|].
    destruct (read_header buf pos) as [[[name size] p1]|]; [|discriminate].
    destruct (name =? 0); [discriminate|]. destruct (negb (name =? T_JUMB)); [discriminate|].
    destruct (U64 <=? pos + size); [discriminate|].
    destruct (read_header buf p1) as [[[name2 size2] p2]|]; [|discriminate].
    destruct (negb (name2 =? T_JUMD)); [discriminate|].
    destruct (read_desc buf p2 size2) as [[d p3]|] eqn:RD; [|discriminate].
    destruct (negb (has_text (d_label d))) eqn:Et; [discriminate|].
    destruct (read_children f depth buf p3 (pos + size) []) as [[cs p4]|e| |] eqn:RC; try discriminate.
    inversion H; subst. clear H.
    assert (Hd : depth < MAX_JUMB_DEPTH) by lia.
    pose proof (IHc depth buf p3 (pos + size) [] cs p Hb Hd RC (Forall_nil _)) as HQ.
    cbn [decoded_ok is_super height].
    rewrite (read_desc_inv _ _ _ _ _ RD Hb) by (destruct (has_text (d_label d)); [reflexivity | discriminate]).
    rewrite (Q_forallb _ _ HQ). repeat split; try reflexivity. apply Q_heights; assumption.
  - intros depth buf pos dest acc cs p Hb Hd H Ha. rewrite read_children_S in H.
    destruct (read_header buf pos) as [[[name size] p1]|]; [|discriminate].
    destruct (name =? 0).
    { destruct (dest <? p1); [discriminate|]. inversion H; subst. apply Forall_rev. exact Ha. }
    destruct (unread p1) as [p0|]; [|discriminate].
    destruct (name =? T_JUMB).
    { eapply after_child_ok; [|exact H| |exact Ha].
      - intros; eapply IHc; eauto.
      - intros b q Hr. destruct (IHs (depth + 1) buf p0 b q Hb Hr) as (D & _ & Hh). split; [exact D | lia]. }
    destruct (read_leaf name size buf p0) as [r|] eqn:RL.
    { eapply after_child_ok; [|exact H| |exact Ha].
      - intros; eapply IHc; eauto.
      - intros b q Hr. subst r. destruct (read_leaf_inv _ _ _ _ _ _ RL) as (D & Hh). split; [exact D | lia]. }
    destruct (skip_unknown size buf p0) as [q|e| |]; try discriminate.
    eapply IHc; eauto.
Qed.

(* ------------------------------------------------------------------ decoded trees; the fixed point *)

Theorem decoded_wf b t :
  bytes_ok b -> decode b = Ok t -> is_super t = true /\ decoded_ok t = true /\ height t <= MAX_JUMB_DEPTH.
Proof.
  intros Hb H. unfold decode, decode_fuel in H.
  destruct (read_super (S (length b)) 0 b 0) as [[t' p]|e| |] eqn:R; try discriminate. inversion H; subst.
  destruct (proj1 (reader_ok _) 0 b 0 t p Hb R) as (D & S & Hh). repeat split; auto.
Qed.

Theorem fixed_point b t :
  bytes_ok b -> decode b = Ok t -> canonical t = true -> box_size t < U32 -> decode (enc t) = Ok t.
Proof.
  intros Hb H C Hs. destruct (decoded_wf b t Hb H) as (S & D & Hh).
  apply decode_encode. split; [exact S|]. split; [|split; assumption].
  rewrite shape_split, D, C. reflexivity.
Qed.

(* ------------------------------------------------------------------ the three known shapes are real *)

Definition d0 : desc := mkdesc (repeat 1 16) 3 [97] None None None.

(* a uuid box that carries only its 16-byte uuid *)
Definition w_uuid_bytes : bytes :=
  be 4 (8 + desc_size d0 + 24) ++ fourcc W_JUMB ++ enc_desc d0 ++ be 4 24 ++ fourcc W_UUID ++ repeat 7 16.
Definition w_uuid_tree : jbox := Super d0 [Uuid (repeat 7 16) []].

(* an empty superbox whose declared size covers 8 zero bytes, followed by a sibling *)
Definition w_empty_bytes : bytes :=
  be 4 (8 + desc_size d0 + (8 + desc_size d0 + 8) + 8) ++ fourcc W_JUMB ++ enc_desc d0
  ++ (be 4 (8 + desc_size d0 + 8) ++ fourcc W_JUMB ++ enc_desc d0 ++ repeat 0 8)
  ++ be 4 8 ++ fourcc W_JSON.
Definition w_empty_tree : jbox := Super d0 [Super d0 []; Json []].

(* an embedded-file description with toggles = 1 and a NUL inside the media type *)
Definition w_bfdb_bytes : bytes :=
  be 4 (8 + desc_size d0 + 12) ++ fourcc W_JUMB ++ enc_desc d0 ++ be 4 12 ++ fourcc W_BFDB ++ [1; 97; 0; 98].
Definition w_bfdb_tree : jbox := Super d0 [Bfdb 1 [97; 0; 98] None].

Lemma fixed_point_refuted :
  (decode w_uuid_bytes = Ok w_uuid_tree /\ canonical w_uuid_tree = false /\ decode (enc w_uuid_tree) = Err EInvalidUuidBox)
  /\ (decode w_empty_bytes = Ok w_empty_tree /\ canonical w_empty_tree = false /\ decode (enc w_empty_tree) = Err EInvalidJumbBox)
  /\ (decode w_bfdb_bytes = Ok w_bfdb_tree /\ canonical w_bfdb_tree = false
      /\ exists t', decode (enc w_bfdb_tree) = Ok t' /\ t' <> w_bfdb_tree /\ enc t' <> enc w_bfdb_tree).
Proof.
  repeat split; try (vm_compute; reflexivity).
  exists (Super d0 [Bfdb 1 [97; 0; 98; 0] None]). repeat split; try (vm_compute; reflexivity); vm_compute; discriminate.
Qed.

(* ------------------------------------------------------------------ compressed manifests *)

Lemma wf_desc_label d : wf_desc d = true -> has_text (d_label d) = true /\ no_nul (d_label d) = true.
Proof.
  unfold wf_desc. intro H. repeat (apply andb_true_iff in H as [H ?]). split; assumption.
Qed.

Lemma compressed_roundtrip (compress : bytes -> bytes) (decompress : bytes -> option bytes) :
  (forall x, decompress (compress x) = Some x) ->
  forall d cs, wf_root (Super d cs) ->
    let outer := Super (mkdesc CAI_COMPRESSED_MANIFEST_UUID 3 (d_label d) None None None) [Brob (compress (enc (Super d cs)))] in
    box_size outer < U32 ->
    decode (manifest_write compress true (Super d cs)) = Ok outer
    /\ manifest_from decompress outer = Ok (true, Super d cs).
Proof.
  intros Hc d cs W outer Hs. split.
  - change (manifest_write compress true (Super d cs)) with (enc outer). apply decode_encode.
    destruct W as (_ & Sh & _ & _). cbn [shape] in Sh. andb_split Sh. destruct (wf_desc_label d Sh) as (Ht & Hn).
    split; [reflexivity|]. split; [|split; [exact Hs | vm_compute; discriminate]].
    subst outer. cbn [shape forallb is_nil negb andb]. unfold wf_desc. cbn [d_uuid d_tog d_label d_id d_sig d_salt].
    rewrite Ht, Hn. reflexivity.
  - subst outer. cbn [manifest_from]. rewrite Hc. rewrite (decode_encode _ W). reflexivity.
Qed.

Lemma uncompressed_clone (decompress : bytes -> option bytes) d cs :
  wf_root (Super d cs) -> (forall z rest, cs <> Brob z :: rest) -> manifest_from decompress (Super d cs) = Ok (false, Super d cs).
Proof.
  intros W Hn. assert (E : manifest_from decompress (Super d cs)
                            = match decode (enc (Super d cs)) with Ok s => Ok (false, s) | Err e => Err e | Panic => Panic | OutOfFuel => OutOfFuel end).
  { destruct cs as [|[| | | | |z| | |] rest]; try reflexivity. exfalso. eapply Hn. reflexivity. }
  rewrite E, (decode_encode _ W). reflexivity.
Qed.
