(* Proofs/OcspProofs.v — lemmas about Model/Ocsp.v (property C37). *)
From Coq Require Import List NArith ZArith Bool Lia.
From C2PA Require Import Base.Bytes Generated.C36_facts Generated.C37_facts Model.Timestamp Model.Ocsp.
Import ListNotations.
Open Scope Z_scope.

Lemma has_code_in : forall c l, has_code c l = true <-> In c l.
Proof.
  intros c l. unfold has_code. rewrite existsb_exists. split.
  - intros [x [Hin Hx]]. destruct c, x; try discriminate; exact Hin.
  - intros Hin. exists c. split; [exact Hin | destruct c; reflexivity].
Qed.

Lemma has_code_app : forall c a b, has_code c (a ++ b) = has_code c a || has_code c b.
Proof. intros. unfold has_code. apply existsb_app. Qed.

Section Proofs.
  Variable IH : id_hash -> bytes -> bytes.
  Variable VerifyR : N -> bytes -> bytes -> bool.
  Variable profile_rest : tsa_cert -> option cred_code.
  Variable trusted : tsa_cert -> option Z -> bool.

  Notation matches := (cert_id_matches_signer IH).
  Notation scan := (scan IH).
  Notation from_der_checked := (from_der_checked IH VerifyR).
  Notation check_response := (check_response IH VerifyR profile_rest trusted).
  Notation process_responses := (process_responses IH VerifyR profile_rest trusted).
  Notation check_ocsp_status := (check_ocsp_status IH VerifyR profile_rest trusted).
  Notation other_evidence := (other_evidence IH VerifyR profile_rest trusted).
  Notation claim_survives := (claim_survives IH VerifyR profile_rest trusted).

  (* "validly signed": decodes, embeds the responder certificate, the signature verifies with its key, the responder
     certificate carries id-kp-OCSPSigning, passes the profile (validity at the signing time or now) and is trusted *)
  Definition usable (r : response) (st : option Z) (now : Z) : bool :=
    rp_decodes r && rp_sig_alg_ok r &&
    match rp_certs r with
    | Some (first :: _) =>
      VerifyR (tc_key first) (rp_signature r) (rp_tbs r) &&
      has_ocsp_eku first &&
      match responder_profile profile_rest first st now with None => true | Some _ => false end &&
      trusted first st
    | _ => false
    end.

  (* "concerns the signing certificate": some single response carries the signer's certId *)
  Definition concerns (r : response) (ch : option signer_chain) : bool :=
    existsb (fun s => matches (sr_id s) ch) (rp_singles r).

  (* a matching single response that ends the scan without a revoked verdict *)
  Definition stopper (ch : option signer_chain) (produced_at : Z) (st : option Z) (now : Z) (s : single_response) : bool :=
    matches (sr_id s) ch &&
    match sr_status s with
    | Good => good_in_range s produced_at st now
    | Revoked rt (Some OtherReason) => match st with Some t => t <? rt | None => false end
    | _ => false
    end.

  (* a matching single response for which the code logs signingCredential.ocsp.revoked *)
  Definition logs_revoked (ch : option signer_chain) (produced_at : Z) (st : option Z) (now : Z) (s : single_response) : bool :=
    matches (sr_id s) ch &&
    match sr_status s with
    | Good => negb (good_in_range s produced_at st now)
    | Revoked rt (Some RemoveFromCRL) => negb (match st with Some t => t <? rt | None => now <? rt end)
    | Revoked rt (Some OtherReason) => negb (match st with Some t => t <? rt | None => false end)
    | Revoked rt None => true
    | UnknownStatus => false
    end.

  (* the response says "revoked" for the signer, as the property means it: status revoked, no reason or a reason other
     than removeFromCRL, and not later than an attested signing time *)
  Definition reports_revoked (ch : option signer_chain) (st : option Z) (s : single_response) : bool :=
    matches (sr_id s) ch &&
    match sr_status s with
    | Revoked rt None => true
    | Revoked rt (Some OtherReason) => match st with Some t => rt <=? t | None => true end
    | _ => false
    end.

  Lemma reports_revoked_logs :
    forall ch pa st now s, reports_revoked ch st s = true -> logs_revoked ch pa st now s = true.
  Proof.
    intros ch pa st now s Hr. unfold reports_revoked, logs_revoked in *.
    destruct (matches (sr_id s) ch); cbn in *; [|discriminate].
    destruct (sr_status s) as [|rt [[|]|]|]; try discriminate; auto.
    destruct st as [t|]; auto. apply negb_true_iff. apply Z.ltb_ge. apply Z.leb_le in Hr. lia.
  Qed.

  Lemma scan_no_match :
    forall ch pa st now ss b rev internal,
      existsb (fun s => matches (sr_id s) ch) ss = false ->
      scan ch pa st now ss b rev internal = ScanEnd b rev internal.
  Proof.
    induction ss as [|s r IHr]; intros b rev internal He; cbn [Ocsp.scan]; [reflexivity|].
    cbn [existsb] in He. apply orb_false_iff in He. destruct He as [Hs Hr]. rewrite Hs. cbn [negb]. apply IHr. exact Hr.
  Qed.

  Lemma scan_no_stopper :
    forall ch pa st now ss b rev internal,
      existsb (stopper ch pa st now) ss = false ->
      exists b' rev' l,
        scan ch pa st now ss b rev internal = ScanEnd b' rev' (internal ++ l) /\
        (existsb (logs_revoked ch pa st now) ss = true -> In OcRevoked l).
  Proof.
    induction ss as [|s r IHr]; intros b rev internal Hn; cbn [Ocsp.scan].
    - exists b, rev, []. rewrite app_nil_r. split; [reflexivity | cbn; discriminate].
    - cbn [existsb] in Hn. apply orb_false_iff in Hn. destruct Hn as [Hs Hr].
      unfold stopper in Hs. unfold logs_revoked at 1. cbn [existsb].
      destruct (matches (sr_id s) ch) eqn:Em; cbn [negb andb] in *.
      + destruct (sr_status s) as [|rt [[|]|]|] eqn:Est.
        * rewrite Hs. destruct (IHr true rev (internal ++ [OcRevoked]) Hr) as [b' [rev' [l [E Hl]]]].
          exists b', rev', (OcRevoked :: l). rewrite E, <- app_assoc. split; [reflexivity | intros _; left; reflexivity].
        * destruct (match st with Some t => t <? rt | None => now <? rt end) eqn:Ein.
          -- destruct (IHr true rev internal Hr) as [b' [rev' [l [E Hl]]]].
             exists b', rev', l. split; [exact E | cbn [negb orb]; exact Hl].
          -- destruct (IHr true (Some rt) (internal ++ [OcRevoked]) Hr) as [b' [rev' [l [E Hl]]]].
             exists b', rev', (OcRevoked :: l). rewrite E, <- app_assoc. split; [reflexivity | intros _; left; reflexivity].
        * rewrite Hs. destruct (IHr true (Some rt) (internal ++ [OcRevoked]) Hr) as [b' [rev' [l [E Hl]]]].
          exists b', rev', (OcRevoked :: l). rewrite E, <- app_assoc. split; [reflexivity | intros _; left; reflexivity].
        * destruct (IHr true (Some rt) (internal ++ [OcRevoked]) Hr) as [b' [rev' [l [E Hl]]]].
          exists b', rev', (OcRevoked :: l). rewrite E, <- app_assoc. split; [reflexivity | intros _; left; reflexivity].
        * destruct (IHr true rev (internal ++ [OcUnknown]) Hr) as [b' [rev' [l [E Hl]]]].
          exists b', rev', (OcUnknown :: l). rewrite E, <- app_assoc. split; [reflexivity|].
          cbn [orb]. intros Hx. right. apply Hl. exact Hx.
      + destruct (IHr b rev internal Hr) as [b' [rev' [l [E Hl]]]].
        exists b', rev', l. split; [exact E | cbn [orb]; exact Hl].
  Qed.

  (* ---- a response that is not validly signed, or does not concern the signer, is ignored *)

  Lemma unusable_ignored :
    forall r ch st now, usable r st now = false -> check_response r ch st now = (ck_default, []).
  Proof.
    intros r ch st now Hu. unfold usable in Hu. unfold Ocsp.check_response, Ocsp.from_der_checked.
    destruct (rp_decodes r); cbn [negb andb] in *; [|reflexivity].
    destruct (rp_certs r) as [[|first rest]|] eqn:Ec; try reflexivity.
    - destruct (rp_sig_alg_ok r); reflexivity.
    - destruct (rp_sig_alg_ok r); cbn [negb andb] in *; [|reflexivity].
      destruct (VerifyR (tc_key first) (rp_signature r) (rp_tbs r)); cbn [negb andb] in *; [|reflexivity].
      destruct (scan ch (rp_produced_at r) st now (rp_singles r) false None []) as [b| |b rev internal]; cbn [ck_certs];
        (destruct (has_ocsp_eku first); cbn [negb andb] in *; [|reflexivity];
         destruct (responder_profile profile_rest first st now); [reflexivity|]; cbn [andb] in Hu; rewrite Hu; reflexivity).
  Qed.

  Lemma unconcerned_ignored :
    forall r ch st now, concerns r ch = false -> decide (fst (check_response r ch st now)) (snd (check_response r ch st now)) = None.
  Proof.
    intros r ch st now Hc. unfold concerns in Hc. unfold Ocsp.check_response, Ocsp.from_der_checked.
    destruct (rp_decodes r); cbn [negb]; [|reflexivity].
    destruct (rp_certs r) as [[|first rest]|]; try reflexivity.
    - destruct (rp_sig_alg_ok r); reflexivity.
    - destruct (rp_sig_alg_ok r); cbn [negb]; [|reflexivity].
      destruct (VerifyR (tc_key first) (rp_signature r) (rp_tbs r)); cbn [negb]; [|reflexivity].
      rewrite (scan_no_match _ _ _ _ _ _ _ _ Hc). cbn [ck_certs].
      destruct (has_ocsp_eku first); cbn [negb]; [|reflexivity].
      destruct (responder_profile profile_rest first st now); [reflexivity|].
      destruct (trusted first st); reflexivity.
  Qed.

  (* the class of responses the second sentence of the property talks about *)
  Definition irrelevant (r : response) (ch : option signer_chain) (st : option Z) (now : Z) : Prop :=
    usable r st now = false \/ concerns r ch = false.

  Lemma irrelevant_undecided :
    forall r ch st now, irrelevant r ch st now ->
      decide (fst (check_response r ch st now)) (snd (check_response r ch st now)) = None.
  Proof.
    intros r ch st now [Hu|Hc]; [|apply unconcerned_ignored; exact Hc].
    rewrite (unusable_ignored _ ch _ _ Hu). reflexivity.
  Qed.

  Lemma process_skip :
    forall rs1 r rs2 ch st now, irrelevant r ch st now ->
      process_responses (rs1 ++ r :: rs2) ch st now = process_responses (rs1 ++ rs2) ch st now.
  Proof.
    induction rs1 as [|x rs1 IH1]; intros r rs2 ch st now Hi; cbn [app Ocsp.process_responses].
    - pose proof (irrelevant_undecided _ _ _ _ Hi) as Hd.
      destruct (check_response r ch st now) as [ck l]. cbn [fst snd] in Hd. rewrite Hd. reflexivity.
    - destruct (check_response x ch st now) as [ck l]. destruct (decide ck l); [reflexivity|]. apply IH1. exact Hi.
  Qed.

  (* stapled and irrelevant: the result is the one of the same manifest without the staple, in every configuration
     (fix fb08c71da closed F-OCSP-SHADOW: no known class) *)
  Lemma stapled_irrelevant_same :
    forall cf r supplied fetched ch st now,
      irrelevant r ch st now ->
      check_ocsp_status cf (Some r) supplied fetched ch st now = check_ocsp_status cf None supplied fetched ch st now.
  Proof.
    intros cf r supplied fetched ch st now Hi. unfold Ocsp.check_ocsp_status.
    pose proof (irrelevant_undecided _ _ _ _ Hi) as Hd.
    destruct (if cf_override cf then supplied else []); [|reflexivity].
    destruct (check_response r ch st now) as [ck l]. cbn [fst snd] in Hd. rewrite Hd. reflexivity.
  Qed.

  (* in particular it contributes no code and no error when nothing else is available *)
  Lemma stapled_irrelevant_nothing :
    forall cf r fetched ch st now,
      irrelevant r ch st now -> cf_fetch cf = false ->
      check_ocsp_status cf (Some r) [] fetched ch st now = (StatusOk false, []).
  Proof.
    intros cf r fetched ch st now Hi Hf. rewrite (stapled_irrelevant_same cf r [] fetched ch st now Hi).
    unfold Ocsp.check_ocsp_status, Ocsp.other_evidence. rewrite Hf. destruct (cf_override cf); reflexivity.
  Qed.

  Lemma other_evidence_skip :
    forall cf rs1 r rs2 fetched ch st now,
      irrelevant r ch st now ->
      other_evidence cf (rs1 ++ r :: rs2) fetched ch st now = other_evidence cf (rs1 ++ rs2) fetched ch st now.
  Proof.
    intros cf rs1 r rs2 fetched ch st now Hi. unfold Ocsp.other_evidence.
    destruct (cf_fetch cf); [reflexivity|]. apply process_skip. exact Hi.
  Qed.

  (* supplied (asserted) responses: irrelevant ones never change the result *)
  Lemma supplied_irrelevant :
    forall cf stapled rs1 r rs2 fetched ch st now,
      irrelevant r ch st now ->
      check_ocsp_status cf stapled (rs1 ++ r :: rs2) fetched ch st now
      = check_ocsp_status cf stapled (rs1 ++ rs2) fetched ch st now
      \/ (cf_override cf = true /\ rs1 ++ rs2 = []).
  Proof.
    intros cf stapled rs1 r rs2 fetched ch st now Hi.
    destruct (cf_override cf) eqn:Ho.
    - destruct (rs1 ++ rs2) as [|y ys] eqn:E12; [right; split; reflexivity|]. left.
      unfold Ocsp.check_ocsp_status. rewrite Ho.
      assert (Hne : exists z zs, rs1 ++ r :: rs2 = z :: zs) by (destruct rs1; cbn; eauto).
      destruct Hne as [z [zs Hz]]. rewrite Hz, <- Hz. rewrite <- E12.
      rewrite (process_skip rs1 r rs2 ch st now Hi). rewrite E12. reflexivity.
    - left. unfold Ocsp.check_ocsp_status. rewrite Ho.
      rewrite (other_evidence_skip cf rs1 r rs2 fetched ch st now Hi). reflexivity.
  Qed.

  (* ---- a bound, validly signed "revoked" is fatal *)

  Definition no_stopper (r : response) (ch : option signer_chain) (st : option Z) (now : Z) : bool :=
    negb (existsb (stopper ch (rp_produced_at r) st now) (rp_singles r)).

  Definition says_revoked (r : response) (ch : option signer_chain) (st : option Z) : bool :=
    existsb (reports_revoked ch st) (rp_singles r).

  Lemma existsb_impl : forall {A} (f g : A -> bool) l, (forall x, f x = true -> g x = true) -> existsb f l = true -> existsb g l = true.
  Proof.
    intros A f g l Hfg. induction l as [|x l IHl]; cbn; [auto|].
    intros Ho. apply orb_true_iff in Ho. apply orb_true_iff. destruct Ho as [Ho|Ho]; [left; apply Hfg; exact Ho | right; apply IHl; exact Ho].
  Qed.

  Lemma revoked_logged :
    forall r ch st now,
      usable r st now = true -> says_revoked r ch st = true -> no_stopper r ch st now = true ->
      has_code OcRevoked (snd (check_response r ch st now)) = true.
  Proof.
    intros r ch st now Hu Hr Hn. unfold usable in Hu. unfold Ocsp.check_response, Ocsp.from_der_checked.
    destruct (rp_decodes r); cbn [negb andb] in *; [|discriminate].
    destruct (rp_sig_alg_ok r); cbn [negb andb] in *; [|discriminate].
    destruct (rp_certs r) as [[|first rest]|]; try discriminate.
    apply andb_true_iff in Hu. destruct Hu as [Hu Htr]. apply andb_true_iff in Hu. destruct Hu as [Hu Hp].
    apply andb_true_iff in Hu. destruct Hu as [Hv Heku].
    rewrite Hv. cbn [negb].
    unfold no_stopper in Hn. apply negb_true_iff in Hn.
    destruct (scan_no_stopper ch (rp_produced_at r) st now (rp_singles r) false None [] Hn) as [b' [rev' [l [E Hl]]]].
    rewrite E. cbn [ck_certs app]. rewrite Heku. cbn [negb].
    destruct (responder_profile profile_rest first st now); [discriminate|]. rewrite Htr. cbn [negb snd].
    apply has_code_in. apply Hl. unfold says_revoked in Hr.
    eapply existsb_impl; [|exact Hr]. intros x Hx. apply reports_revoked_logs. exact Hx.
  Qed.

  Definition supplied_used (cf : config) (supplied : list response) : bool :=
    cf_override cf && match supplied with [] => false | _ => true end.

  Lemma stapled_revoked_fatal :
    forall cf r supplied fetched ch st now,
      supplied_used cf supplied = false ->
      usable r st now = true -> says_revoked r ch st = true -> no_stopper r ch st now = true ->
      check_ocsp_status cf (Some r) supplied fetched ch st now = (StatusRevoked, [OcRevoked]) /\
      claim_survives cf (Some r) supplied fetched ch st now = false.
  Proof.
    intros cf r supplied fetched ch st now Hs Hu Hr Hn.
    pose proof (revoked_logged r ch st now Hu Hr Hn) as Hl.
    assert (E : check_ocsp_status cf (Some r) supplied fetched ch st now = (StatusRevoked, [OcRevoked])).
    { unfold Ocsp.check_ocsp_status, supplied_used in *.
      destruct (check_response r ch st now) as [ck l]. cbn [snd] in Hl.
      destruct (cf_override cf); cbn [andb] in Hs.
      - destruct supplied; [|discriminate]. unfold decide. rewrite Hl. reflexivity.
      - unfold decide. rewrite Hl. reflexivity. }
    split; [exact E|]. unfold Ocsp.claim_survives. rewrite E. reflexivity.
  Qed.

  (* the staple does not settle the question: absent, or irrelevant *)
  Definition staple_undecided (stapled : option response) (ch : option signer_chain) (st : option Z) (now : Z) : Prop :=
    match stapled with None => True | Some r0 => irrelevant r0 ch st now end.

  (* asserted route: the supplied list is consulted (override; or fetching off and the staple, if any, is irrelevant);
     every response before the revoked one is irrelevant *)
  Lemma supplied_revoked_fatal :
    forall cf stapled rs1 r rs2 fetched ch st now,
      (cf_override cf = true \/ (cf_fetch cf = false /\ staple_undecided stapled ch st now)) ->
      Forall (fun x => irrelevant x ch st now) rs1 ->
      usable r st now = true -> says_revoked r ch st = true -> no_stopper r ch st now = true ->
      claim_survives cf stapled (rs1 ++ r :: rs2) fetched ch st now = false.
  Proof.
    intros cf stapled rs1 r rs2 fetched ch st now Hroute Hirr Hu Hr Hn.
    pose proof (revoked_logged r ch st now Hu Hr Hn) as Hl.
    assert (Hp : process_responses (rs1 ++ r :: rs2) ch st now = (StatusRevoked, [OcRevoked])).
    { induction Hirr as [|x rs1 Hx _ IH1]; cbn [app Ocsp.process_responses].
      - destruct (check_response r ch st now) as [ck l]. cbn [snd] in Hl. unfold decide. rewrite Hl. reflexivity.
      - pose proof (irrelevant_undecided _ _ _ _ Hx) as Hd.
        destruct (check_response x ch st now) as [ck l]. cbn [fst snd] in Hd. rewrite Hd. exact IH1. }
    assert (Hne : exists z zs, rs1 ++ r :: rs2 = z :: zs) by (destruct rs1; cbn; eauto).
    unfold Ocsp.claim_survives.
    destruct Hroute as [Ho|[Hf Hs]].
    - unfold Ocsp.check_ocsp_status. rewrite Ho. destruct Hne as [z [zs Hz]]. rewrite Hz, <- Hz. rewrite Hp. reflexivity.
    - assert (E : check_ocsp_status cf stapled (rs1 ++ r :: rs2) fetched ch st now
                  = check_ocsp_status cf None (rs1 ++ r :: rs2) fetched ch st now).
      { destruct stapled as [r0|]; [apply stapled_irrelevant_same; exact Hs | reflexivity]. }
      rewrite E. unfold Ocsp.check_ocsp_status, Ocsp.other_evidence. rewrite Hf.
      destruct (cf_override cf).
      + destruct Hne as [z [zs Hz]]. rewrite Hz, <- Hz. rewrite Hp. reflexivity.
      + rewrite Hp. reflexivity.
  Qed.

  (* ---- the responder certificate: id-kp-OCSPSigning and nothing else (fix b2c9a9e81 closed F-OCSP-EKU) *)
  Lemma responder_eku :
    forall r st now first rest,
      usable r st now = true -> rp_certs r = Some (first :: rest) ->
      exists e, tc_eku first = Some e /\ eku_any e = false /\
                eku_ocsp_signing e = true /\ eku_time_stamping e = false /\ eku_email_protection e = false /\
                eku_client_auth e = false /\ eku_server_auth e = false /\ eku_code_signing e = false /\ eku_other_nonempty e = false.
  Proof.
    intros r st now first rest Hu Hc. unfold usable in Hu. rewrite Hc in Hu.
    apply andb_true_iff in Hu. destruct Hu as [_ Hu]. apply andb_true_iff in Hu. destruct Hu as [Hu _].
    apply andb_true_iff in Hu. destruct Hu as [Hu Hp]. apply andb_true_iff in Hu. destruct Hu as [_ Heku].
    unfold responder_profile, tsa_profile in Hp.
    destruct (tc_v3 first); cbn [negb] in Hp; [|discriminate].
    destruct (valid_at _ _ _); cbn [negb] in Hp; [|discriminate].
    destruct (profile_rest first); [discriminate|].
    destruct (eku_gate first) eqn:Eg; cbn [negb] in Hp; [|discriminate].
    destruct (tc_is_ca first) eqn:Eca; [discriminate|].
    unfold eku_gate in Eg. rewrite Eca in Eg. unfold has_ocsp_eku in Heku.
    destruct (tc_eku first) as [e|]; [|discriminate].
    exists e. split; [reflexivity|].
    apply andb_true_iff in Eg. destruct Eg as [Eg Ebad]. apply andb_true_iff in Eg. destruct Eg as [Eany _].
    apply negb_true_iff in Eany. apply negb_true_iff in Ebad. split; [exact Eany|].
    unfold eku_bad_set in Ebad. rewrite Heku in *.
    destruct (eku_time_stamping e), (eku_email_protection e), (eku_client_auth e), (eku_server_auth e),
      (eku_code_signing e), (eku_other_nonempty e); cbn in *; try discriminate; auto 10.
  Qed.
End Proofs.

(* ---- witnesses *)

Definition w_chain : signer_chain := {| sc_serial := 77%N; sc_issuer_name := [1; 2]%N; sc_issuer_key := [3; 4]%N |}.
Definition w_id (serial : N) : cert_id :=
  {| ci_alg := Some IdSha1; ci_name_hash := toyIH IdSha1 [1; 2]%N; ci_key_hash := toyIH IdSha1 [3; 4]%N; ci_serial := serial |}.
Definition w_single (serial : N) (s : cert_status) : single_response :=
  {| sr_id := w_id serial; sr_status := s; sr_this_update := 900; sr_next_update := Some 2000 |}.
Definition w_eku (ocsp email : bool) : eku :=
  {| eku_any := false; eku_server_auth := false; eku_client_auth := false; eku_code_signing := false;
     eku_email_protection := email; eku_time_stamping := false; eku_ocsp_signing := ocsp;
     eku_other_nonempty := false; eku_other_allowed := false |}.
Definition w_responder (e : eku) (ca : bool) : tsa_cert :=
  {| tc_key := 5%N; tc_not_before := 0; tc_not_after := 5000; tc_v3 := true; tc_is_ca := ca; tc_eku := Some e; tc_x509_ok := true |}.
Definition w_response (resp : tsa_cert) (ss : list single_response) : response :=
  {| rp_decodes := true; rp_certs := Some [resp]; rp_sig_alg_ok := true; rp_tbs := [8]%N; rp_signature := [5; 8]%N;
     rp_produced_at := 950; rp_singles := ss |}.
Definition w_status (cf : config) (stapled : option response) (supplied : list response) (fetched : option response) :=
  check_ocsp_status toyIH toyVerifyR (fun _ => None) (fun _ _ => true) cf stapled supplied fetched (Some w_chain) None 1000.
Definition w_cf (o f : bool) : config := {| cf_override := o; cf_fetch := f |}.
Definition w_revoked : response := w_response (w_responder (w_eku true false) false) [w_single 77 (Revoked 500 None)].
Definition w_junk : response := w_response (w_responder (w_eku true false) false) [w_single 78 Good].

(* the model computes non-trivial cases: a bound revoked response is fatal, the same about another serial is ignored *)
Lemma example_revoked : w_status (w_cf false false) (Some w_revoked) [] None = (StatusRevoked, [OcRevoked])
                        /\ w_status (w_cf false false) (Some w_junk) [] None = (StatusOk false, []).
Proof. vm_compute. split; reflexivity. Qed.

(* regression witnesses of the repaired findings (corpus lines 1-2, 4-6):
   F-OCSP-SHADOW (fixed fb08c71da): an irrelevant staple no longer hides an asserted `revoked` nor suppresses fetching *)
Lemma shadow_fixed_example :
  w_status (w_cf false false) None [w_revoked] None = (StatusRevoked, [OcRevoked])
  /\ w_status (w_cf false false) (Some w_junk) [w_revoked] None = (StatusRevoked, [OcRevoked])
  /\ w_status (w_cf false true) None [] (Some w_revoked) = (StatusOk true, [OcRevoked])
  /\ w_status (w_cf false true) (Some w_junk) [] (Some w_revoked) = (StatusOk true, [OcRevoked]).
Proof. vm_compute. repeat split; reflexivity. Qed.

(* F-OCSP-EKU (fixed b2c9a9e81): a responder certificate with emailProtection only is not accepted any more *)
Lemma responder_eku_fixed_example :
  w_status (w_cf false false) (Some (w_response (w_responder (w_eku false true) false) [w_single 77 (Revoked 500 None)])) [] None
  = (StatusOk false, [])
  /\ w_status (w_cf false false) (Some (w_response (w_responder (w_eku false true) false) [w_single 77 Good])) [] None
  = (StatusOk false, []).
Proof. vm_compute. split; reflexivity. Qed.

(* F-OCSP-CA (open): a response signed by the issuing CA itself (a CA certificate without EKU) is not usable: "revoked" is ignored *)
Lemma ca_signed_refuted :
  w_status (w_cf false false) (Some (w_response (w_responder (w_eku true false) true) [w_single 77 (Revoked 500 None)])) [] None
  = (StatusOk false, []).
Proof. vm_compute. reflexivity. Qed.

(* F-OCSP-CARRIER (fixed 0aa703aa5): a usable `revoked` about the signer with serial 77 reaches that signer's claim
   whichever manifest carries the assertion, and does not reach another signer's claim *)
Definition w_chain_other : signer_chain := {| sc_serial := 80%N; sc_issuer_name := [1; 2]%N; sc_issuer_key := [3; 4]%N |}.
Lemma carrier_fixed_example :
  assertion_supplies toyIH toyVerifyR [w_chain_other; w_chain] w_revoked 77%N 1000 = true
  /\ assertion_supplies toyIH toyVerifyR [w_chain_other; w_chain] w_revoked 80%N 1000 = false.
Proof. vm_compute. split; reflexivity. Qed.
