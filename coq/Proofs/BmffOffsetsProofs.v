(* Proofs/BmffOffsetsProofs.v — which table entries still address the same media byte after the
   uniform shift of adjust_known_offsets. *)
From Coq Require Import List ZArith Lia Arith.
From C2PA Require Import Model.BmffOffsets.
Import ListNotations.

(* entries addressing data behind the replaced box keep addressing the same byte *)
Theorem shift_correct_after {A} (file : list A) p del ins e d :
  p + del <= e -> e < length file ->
  exists e', adjust_entry (adjust del ins) e = Z.of_nat e' /\ nth e' (splice file p del ins) d = nth e file d.
Proof.
  intros H1 H2. exists (e + length ins - del). split.
  - unfold adjust_entry, adjust. lia.
  - unfold splice.
    assert (Hp : length (firstn p file) = p) by (apply firstn_length_le; lia).
    rewrite app_nth2 by lia. rewrite Hp. rewrite app_nth2 by lia.
    replace (e + length ins - del - p - length ins) with (e - (p + del)) by lia.
    rewrite <- (firstn_skipn (p + del) file) at 2.
    rewrite app_nth2 by (rewrite firstn_length; lia). rewrite firstn_length.
    f_equal. lia.
Qed.

(* entries addressing data in front of the box must not be shifted: the byte did not move *)
Theorem unshifted_before {A} (file : list A) p del ins e d :
  e < p -> p <= length file -> nth e (splice file p del ins) d = nth e file d.
Proof.
  intros H1 H2. unfold splice. rewrite app_nth1 by (rewrite firstn_length; lia).
  rewrite <- (firstn_skipn p file) at 2. rewrite app_nth1 by (rewrite firstn_length; lia). reflexivity.
Qed.

(* hence the uniform shift is wrong for every entry in front of the box as soon as the size changes:
   the adjusted entry is not the offset of the (unmoved) byte *)
Theorem shift_wrong_before {A} (file : list A) p del (ins : list A) e :
  e < p -> adjust del ins <> 0%Z -> adjust_entry (adjust del ins) e <> Z.of_nat e.
Proof. intros _ H. unfold adjust_entry. lia. Qed.

(* concrete witness: a box at the end of the file is replaced by a longer one; the chunk offset 1,
   pointing at media byte 11, is moved to 3 where byte 13 lives; with a removal the entry underflows *)
Theorem shift_refuted :
  let file := [10; 11; 12; 13; 99; 99] in          (* media 10..13, C2PA box = the two 99s at offset 4 *)
  let out := splice file 4 2 [77; 77; 77; 77] in
  nth 1 file 0 = 11 /\ adjust_entry (adjust 2 [77; 77; 77; 77]) 1 = 3%Z /\ nth 3 out 0 = 13
  /\ adjust_entry (adjust 2 (@nil nat)) 1 = (-1)%Z.
Proof. vm_compute. repeat split; reflexivity. Qed.
