(* Proofs/FsPathsProofs.v — lexical and file-system confinement lemmas for Model/FsPaths.v *)
From Coq Require Import List NArith Bool Lia.
From C2PA Require Import Model.FsPaths.
Import ListNotations.
Open Scope N_scope.

Strategy opaque [canon walk FUEL].
Arguments canon : simpl never.
Arguments walk : simpl never.
Arguments components : simpl never.
Arguments os_comps : simpl never.
Arguments normalize_lexically : simpl never.

(* ------------------------------------------------------------------ equality tests *)

Lemma str_eqb_refl : forall a, str_eqb a a = true.
Proof. induction a; simpl; [reflexivity|]. rewrite N.eqb_refl. exact IHa. Qed.

Lemma str_eqb_eq : forall a b, str_eqb a b = true -> a = b.
Proof.
  induction a; destruct b; simpl; intros H; try discriminate; [reflexivity|].
  apply andb_true_iff in H. destruct H as [H1 H2]. apply N.eqb_eq in H1. subst. f_equal. auto.
Qed.

Lemma loc_prefix_app : forall r x, loc_prefix r (r ++ x) = true.
Proof. induction r; simpl; intros; [reflexivity|]. rewrite str_eqb_refl. simpl. apply IHr. Qed.

Lemma loc_prefix_refl : forall r, loc_prefix r r = true.
Proof. intros r. rewrite <- (app_nil_r r) at 2. apply loc_prefix_app. Qed.

Lemma loc_prefix_spec : forall r q, loc_prefix r q = true -> exists x, q = r ++ x.
Proof.
  induction r; simpl; intros q H; [exists q; reflexivity|].
  destruct q; [discriminate|]. apply andb_true_iff in H. destruct H as [H1 H2].
  apply str_eqb_eq in H1. subst. destruct (IHr _ H2) as [x ->]. exists x. reflexivity.
Qed.

Lemma loc_prefix_snoc : forall r q n, loc_prefix r q = true -> loc_prefix r (q ++ [n]) = true.
Proof.
  intros r q n H. destruct (loc_prefix_spec _ _ H) as [x ->]. rewrite <- app_assoc. apply loc_prefix_app.
Qed.

(* ------------------------------------------------------------------ split / components *)

Definition plain (n : name) : Prop :=
  n <> [] /\ is_dot n = false /\ is_dotdot n = false /\ has_byte SLASH n = false.

Definition comp_ok (P : name -> Prop) (c : comp) : Prop :=
  match c with CNormal n => P n | _ => True end.

Lemma split_on_no_delim : forall d s, Forall (fun seg => has_byte d seg = false) (split_on d s).
Proof.
  intros d s. induction s; simpl.
  - constructor; [reflexivity|constructor].
  - destruct (a =? d) eqn:E.
    + constructor; [reflexivity|exact IHs].
    + destruct (split_on d s) eqn:S; [constructor; [simpl; rewrite E; reflexivity|constructor]|].
      inversion IHs; subst. constructor; [simpl; rewrite E; simpl; assumption|assumption].
Qed.

Lemma split_on_keeps_absent : forall b d s, has_byte b s = false -> Forall (fun seg => has_byte b seg = false) (split_on d s).
Proof.
  intros b d s. induction s; simpl; intros H.
  - constructor; [reflexivity|constructor].
  - apply orb_false_iff in H. destruct H as [Ha Hs]. specialize (IHs Hs).
    destruct (a =? d).
    + constructor; [reflexivity|exact IHs].
    + destruct (split_on d s) eqn:S; [constructor; [simpl; rewrite Ha; reflexivity|constructor]|].
      inversion IHs; subst. constructor; [simpl; rewrite Ha; simpl; assumption|assumption].
Qed.

Lemma seg_comps_ok : forall (P : name -> Prop) seg,
  (seg <> [] -> is_dot seg = false -> is_dotdot seg = false -> P seg) -> Forall (comp_ok P) (seg_comps seg).
Proof.
  intros P seg H. unfold seg_comps. destruct seg as [|c t]; [constructor|].
  destruct (is_dot (c :: t)) eqn:D; [constructor|].
  destruct (is_dotdot (c :: t)) eqn:DD; [constructor; [exact I|constructor]|].
  constructor; [simpl; apply H; [discriminate|first [assumption|reflexivity]|first [assumption|reflexivity]]|constructor].
Qed.

Lemma flat_map_Forall : forall A B (g : A -> list B) (Q : B -> Prop) l,
  (forall a, In a l -> Forall Q (g a)) -> Forall Q (flat_map g l).
Proof.
  induction l; simpl; intros H; [constructor|]. apply Forall_app. split; [apply H; left; reflexivity|].
  apply IHl. intros; apply H; right; assumption.
Qed.

(* every Normal component of a path string is a plain name, and inherits the absence of any byte *)
Lemma components_ok : forall s, Forall (comp_ok plain) (components s).
Proof.
  intros s. unfold components. destruct s as [|c t]; [constructor|].
  apply Forall_app. split.
  - destruct (rooted (c :: t)); [constructor; [exact I|constructor]|].
    destruct (is_dot _); constructor; [exact I|constructor].
  - apply flat_map_Forall. intros seg Hin. apply seg_comps_ok. intros H1 H2 H3.
    repeat split; try assumption.
    pose proof (split_on_no_delim SLASH (c :: t)) as F. rewrite Forall_forall in F. exact (F _ Hin).
Qed.

Lemma components_absent : forall b s, has_byte b s = false ->
  Forall (comp_ok (fun n => has_byte b n = false)) (components s).
Proof.
  intros b s H. unfold components. destruct s as [|c t]; [constructor|].
  apply Forall_app. split.
  - destruct (rooted (c :: t)); [constructor; [exact I|constructor]|].
    destruct (is_dot _); constructor; [exact I|constructor].
  - apply flat_map_Forall. intros seg Hin. apply seg_comps_ok. intros _ _ _.
    pose proof (split_on_keeps_absent b SLASH (c :: t) H) as F. rewrite Forall_forall in F. exact (F _ Hin).
Qed.

(* ------------------------------------------------------------------ sanitize_archive_path *)

Lemma sanitize_comps_ok : forall (P : name -> Prop) cs acc r,
  sanitize_comps cs acc = Some r -> Forall P acc -> Forall (comp_ok P) cs -> Forall P r.
Proof.
  induction cs as [|c cs IH]; simpl; intros acc r H Ha Hc.
  - inversion H; subst; assumption.
  - inversion Hc; subst. destruct c; try discriminate.
    + eapply IH; eauto.
    + eapply IH; eauto. apply Forall_app. split; [assumption|constructor; [assumption|constructor]].
Qed.

Definition plain_nb (n : name) : Prop := plain n /\ has_byte BACKSLASH n = false.

Lemma sanitize_plain : forall s ns, sanitize s = Some ns -> ns <> [] /\ Forall plain_nb ns.
Proof.
  intros s ns H. unfold sanitize in H. destruct s as [|c t]; [discriminate|].
  destruct (has_byte BACKSLASH (c :: t)) eqn:B; [discriminate|].
  destruct (sanitize_comps (components (c :: t)) []) as [r|] eqn:S; [|discriminate].
  destruct r as [|n r]; [discriminate|]. inversion H; subst. split; [discriminate|].
  assert (F1 : Forall plain (n :: r)).
  { eapply sanitize_comps_ok; [exact S|constructor|apply components_ok]. }
  assert (F2 : Forall (fun n => has_byte BACKSLASH n = false) (n :: r)).
  { eapply sanitize_comps_ok; [exact S|constructor|apply components_absent; exact B]. }
  rewrite Forall_forall in *. intros x Hx. split; auto.
Qed.

Lemma uri_to_path_plain : forall u l ns, uri_to_path u l = Some ns -> ns <> [] /\ Forall plain_nb ns.
Proof.
  intros u l ns H. unfold uri_to_path in H.
  destruct (strip_prefix SELF_JUMBF (replace_colon u)); [|eapply sanitize_plain; eauto].
  destruct (strip_prefix C2PA_SLASH s); [eapply sanitize_plain; eauto|].
  destruct l; eapply sanitize_plain; eauto.
Qed.

(* ------------------------------------------------------------------ normalize_lexically *)

Lemma fold_normals : forall l stk, fold_left norm_step (map CNormal l) stk = rev (map CNormal l) ++ stk.
Proof.
  induction l; simpl; intros; [reflexivity|]. rewrite IHl. rewrite <- app_assoc. reflexivity.
Qed.

Lemma normalize_abs : forall l, normalize_lexically (abs l) = abs l.
Proof.
  intros l. unfold normalize_lexically, abs. simpl. rewrite fold_normals.
  rewrite rev_app_distr. rewrite rev_involutive. reflexivity.
Qed.

Definition clean_stk (stk : list comp) : Prop := exists l, stk = map CNormal l ++ [CRoot].

Lemma norm_step_clean : forall stk c, clean_stk stk -> clean_stk (norm_step stk c).
Proof.
  intros stk c [l ->]. destruct c; simpl.
  - exists []. reflexivity.
  - exists l. reflexivity.
  - destruct l as [|n l]; simpl; [exists []; reflexivity|exists l; reflexivity].
  - exists (n :: l). reflexivity.
Qed.

Lemma fold_clean : forall p stk, clean_stk stk -> clean_stk (fold_left norm_step p stk).
Proof. induction p; simpl; intros; [assumption|]. apply IHp. apply norm_step_clean. assumption. Qed.

(* an absolute path normalises to a clean absolute path: no `.` and no `..` survives *)
Lemma normalize_rooted : forall rest, exists l, normalize_lexically (CRoot :: rest) = abs l.
Proof.
  intros rest. unfold normalize_lexically. simpl.
  destruct (fold_clean rest [CRoot]) as [l E]; [exists []; reflexivity|].
  rewrite E. exists (rev l). rewrite rev_app_distr. simpl. unfold abs. rewrite map_rev. reflexivity.
Qed.

Lemma comp_eqb_refl : forall c, comp_eqb c c = true.
Proof. destruct c; simpl; try reflexivity. apply str_eqb_refl. Qed.

Lemma starts_with_app : forall b x, starts_with (b ++ x) b = true.
Proof. induction b; simpl; intros; [reflexivity|]. rewrite comp_eqb_refl. simpl. apply IHb. Qed.

Lemma starts_with_normals : forall r l, starts_with (map CNormal l) (map CNormal r) = true -> exists x, l = r ++ x.
Proof.
  induction r; simpl; intros l H; [exists l; reflexivity|].
  destruct l; simpl in H; [discriminate|]. apply andb_true_iff in H. destruct H as [H1 H2].
  apply str_eqb_eq in H1. subst. destruct (IHr _ H2) as [x ->]. exists x. reflexivity.
Qed.

(* what the sanitised identifier joined to the base normalises to: itself, below the base *)
Lemma sanitized_join_inside : forall base ns,
  normalize_lexically (abs (base ++ ns)) = abs (base ++ ns) /\ starts_with (abs (base ++ ns)) (abs base) = true.
Proof.
  intros. split; [apply normalize_abs|]. unfold abs. simpl. rewrite map_app. apply starts_with_app.
Qed.

(* ------------------------------------------------------------------ resolve_within_root *)

Lemma lexical_inside : forall base root id,
  rooted id = false ->
  starts_with (normalize_lexically (join base id)) (normalize_lexically (abs root)) = true ->
  exists x, normalize_lexically (join base id) = abs (root ++ x).
Proof.
  intros base root id R SW. rewrite normalize_abs in SW. unfold join in *. rewrite R in *.
  remember (match components id with CCur :: t0 => t0 | l => l end) as tl.
  change (abs base ++ tl) with (CRoot :: (map CNormal base ++ tl)) in *.
  destruct (normalize_rooted (map CNormal base ++ tl)) as [l E]. rewrite E in *.
  unfold abs in SW. cbn [starts_with comp_eqb andb] in SW.
  apply starts_with_normals in SW. destruct SW as [x ->]. exists x. reflexivity.
Qed.

(* resolve_within_root with its tests named, so that the proof below never converts under canon *)
Lemma resolve_unfold : forall f base root id,
  resolve_within_root f base root id =
  match id with
  | [] => None
  | _ =>
    if has_byte BACKSLASH id then None
    else if rooted id then None
    else if negb (starts_with (normalize_lexically (join base id)) (normalize_lexically (abs root))) then None
    else match canon f (join_os base id) with
         | Some ct => match canon f (abs root) with
                      | Some cr => if loc_prefix cr ct then Some (join_os base id) else None
                      | None => None
                      end
         | None => match ensure_real_parent_within_root f root (join_os base id) (join base id) with
                   | EOk => Some (join_os base id)
                   | _ => None
                   end
         end
  end.
Proof. intros. destruct id; reflexivity. Qed.

Lemma resolve_some : forall f base root id j,
  resolve_within_root f base root id = Some j ->
  j = join_os base id /\ has_byte BACKSLASH id = false /\ rooted id = false /\
  (exists x, normalize_lexically (join base id) = abs (root ++ x)) /\
  (forall ct, canon f j = Some ct -> exists cr, canon f (abs root) = Some cr /\ loc_prefix cr ct = true) /\
  (canon f j = None -> ensure_real_parent_within_root f root (join_os base id) (join base id) = EOk).
Proof.
  intros f base root id j H. rewrite resolve_unfold in H.
  destruct id as [|c t]; [discriminate|].
  generalize dependent (c :: t). clear c t. intros id H.
  destruct (has_byte BACKSLASH id) eqn:B; [discriminate|].
  destruct (rooted id) eqn:R; [discriminate|].
  destruct (starts_with (normalize_lexically (join base id)) (normalize_lexically (abs root))) eqn:SW;
    [|discriminate].
  pose proof (lexical_inside base root id R SW) as LEX.
  cbv beta iota delta [negb] in H.
  destruct (canon f (join_os base id)) as [ct|] eqn:C.
  - destruct (canon f (abs root)) as [cr|] eqn:CR; [|discriminate].
    destruct (loc_prefix cr ct) eqn:P; [|discriminate].
    injection H as <-.
    split; [reflexivity|]. split; [reflexivity|]. split; [reflexivity|]. split; [exact LEX|]. split.
    + intros ct' E. rewrite C in E. injection E as <-. exists cr. split; [reflexivity|exact P].
    + intros E. rewrite C in E. discriminate E.
  - destruct (ensure_real_parent_within_root f root (join_os base id) (join base id)) eqn:EN; try discriminate H.
    injection H as <-.
    split; [reflexivity|]. split; [reflexivity|]. split; [reflexivity|]. split; [exact LEX|]. split.
    + intros ct' E. rewrite C in E. discriminate E.
    + intros _. reflexivity.
Qed.

Definition read_inside (f : fs) (root : loc) (t : touch) : Prop :=
  match t with
  | TRead q | TProbe q => exists cr, canon f (abs root) = Some cr /\ loc_prefix cr q = true
  | _ => True
  end.

Lemma read_file_canon : forall f p q c, read_file f p = Some (q, c) -> canon f p = Some q.
Proof.
  intros f p q c H. unfold read_file in H. destruct (canon f p); [|discriminate].
  destruct (lookup_top f l); [|discriminate]. destruct n; try discriminate. inversion H; subst. reflexivity.
Qed.

Lemma get_confined : forall f base root id, Forall (read_inside f root) (snd (get f base root id)).
Proof.
  intros. unfold get. destruct (resolve_within_root f base root id) as [j|] eqn:R; [|constructor].
  destruct (read_file f j) as [[q c]|] eqn:RF; [|constructor]. simpl.
  constructor; [|constructor]. simpl.
  destruct (resolve_some _ _ _ _ _ R) as (_ & _ & _ & _ & H & _). apply H. eapply read_file_canon; eauto.
Qed.

Lemma write_stream_confined : forall f base root id, Forall (read_inside f root) (snd (write_stream f base root id)).
Proof.
  intros. unfold write_stream. destruct (resolve_within_root f base root id) as [j|] eqn:R; [|constructor].
  destruct (read_file f j) as [[q c]|] eqn:RF; [|constructor]. simpl.
  constructor; [|constructor]. simpl.
  destruct (resolve_some _ _ _ _ _ R) as (_ & _ & _ & _ & H & _). apply H. eapply read_file_canon; eauto.
Qed.

Lemma exists_confined : forall f base root id,
  Forall (read_inside f root) (snd (exists_op f base root id)) /\
  (fst (exists_op f base root id) = OkBool true ->
   exists q cr, canon f (join_os base id) = Some q /\ canon f (abs root) = Some cr /\ loc_prefix cr q = true).
Proof.
  intros. unfold exists_op. destruct (resolve_within_root f base root id) as [j|] eqn:R.
  - destruct (resolve_some _ _ _ _ _ R) as (J & _ & _ & _ & H & _). subst j.
    destruct (canon f (join_os base id)) as [q|] eqn:C; simpl.
    + destruct (H q eq_refl) as [cr [H1 H2]]. split.
      * constructor; [simpl; eauto|constructor].
      * intros _. eauto.
    + split; [constructor|discriminate].
  - simpl. split; [constructor|discriminate].
Qed.

Lemma path_for_id_reads_nothing : forall f base root id, snd (path_for_id f base root id) = [].
Proof. reflexivity. Qed.

(* ------------------------------------------------------------------ the write side *)

Definition follows_in (rr : loc) (t : touch) : Prop :=
  match t with TFollow q => loc_prefix rr q = true | _ => True end.
Definition writes_in (rr : loc) (t : touch) : Prop :=
  match t with TWrite q | TMkdir q => loc_prefix rr q = true | _ => True end.

Lemma mkdirp_extends : forall fuel todo f cur acc r ts,
  mkdirp fuel f cur todo acc = (r, ts) -> exists x, ts = acc ++ x.
Proof.
  induction todo as [|n t IH]; simpl; intros f cur acc r ts H.
  - inversion H; subst. exists []. rewrite app_nil_r. reflexivity.
  - destruct (lookup f (cur ++ [n])) as [nd|].
    + destruct nd.
      * eapply IH; eauto.
      * inversion H; subst. exists []. rewrite app_nil_r. reflexivity.
      * destruct (walk fuel f cur (os_comps target)) as [q|].
        -- destruct (lookup_top f q) as [nd|]; [destruct nd|];
             try (inversion H; subst; exists []; rewrite app_nil_r; reflexivity).
           destruct (IH _ _ _ _ _ H) as [x ->]. rewrite <- app_assoc. eauto.
        -- inversion H; subst. exists []. rewrite app_nil_r. reflexivity.
    + destruct (IH _ _ _ _ _ H) as [x ->]. rewrite <- app_assoc. eauto.
Qed.

Lemma mkdirp_inside : forall rr fuel todo f cur acc r ts,
  mkdirp fuel f cur todo acc = (r, ts) ->
  loc_prefix rr cur = true -> Forall (writes_in rr) acc -> Forall (follows_in rr) ts ->
  Forall (writes_in rr) ts /\ (forall f' c', r = Some (f', c') -> loc_prefix rr c' = true).
Proof.
  intros rr fuel. induction todo as [|n t IH]; simpl; intros f cur acc r ts H Hc Ha Hf.
  - inversion H; subst. split; [assumption|]. intros f' c' E. inversion E; subst. assumption.
  - destruct (lookup f (cur ++ [n])) as [nd|] eqn:L.
    + destruct nd.
      * eapply IH; eauto. apply loc_prefix_snoc. assumption.
      * inversion H; subst. split; [assumption|discriminate].
      * destruct (walk fuel f cur (os_comps target)) as [q|] eqn:W.
        -- destruct (lookup_top f q) as [nd|] eqn:LT; [destruct nd|];
             try (inversion H; subst; split; [assumption|discriminate]).
           destruct (mkdirp_extends _ _ _ _ _ _ _ H) as [x E].
           assert (Q : loc_prefix rr q = true).
           { rewrite E in Hf. rewrite Forall_forall in Hf. apply (Hf (TFollow q)).
             apply in_or_app. left. apply in_or_app. right. left. reflexivity. }
           eapply IH; eauto. apply Forall_app. split; [assumption|constructor; [exact I|constructor]].
        -- inversion H; subst. split; [assumption|discriminate].
    + eapply IH; eauto.
      * apply loc_prefix_snoc. assumption.
      * apply Forall_app. split; [assumption|]. constructor; [simpl; apply loc_prefix_snoc; assumption|constructor].
Qed.

Lemma wopen_last_plain : forall fuel f cur n q,
  wopen fuel f cur [CNormal n] = Some q -> is_link (lookup f (cur ++ [n])) = false -> q = cur ++ [n].
Proof.
  intros fuel f cur n q H L. destruct fuel; cbn [wopen] in H; [discriminate|].
  destruct (lookup f (cur ++ [n])) as [nd|]; [destruct nd|]; simpl in L; try discriminate;
    inversion H; reflexivity.
Qed.

(* create_dir_all(parent) + write(path) below the real directory rr: if every symbolic link followed on the
   way leads to a place inside rr, everything created or written is inside rr *)
Lemma write_at_inside : forall rr fuel f ns data r ts,
  write_at fuel f rr ns data = (r, ts) -> Forall (follows_in rr) ts -> Forall (writes_in rr) ts.
Proof.
  intros rr fuel f ns data r ts H Hf. unfold write_at in H.
  destruct (mkdirp fuel f rr (removelast ns) []) as [[[f1 cur]|] ts1] eqn:M.
  - destruct (wopen fuel f1 cur [CNormal (last ns [])]) as [q|] eqn:W.
    + inversion H; subst; clear H.
      apply Forall_app in Hf. destruct Hf as [Hf1 Hf2].
      destruct (mkdirp_inside rr _ _ _ _ _ _ _ M (loc_prefix_refl rr) (Forall_nil _) Hf1) as [G C].
      apply Forall_app. split; [assumption|].
      specialize (C _ _ eq_refl).
      destruct (is_link (lookup f1 (cur ++ [last ns []]))) eqn:L; simpl.
      * inversion Hf2; subst. simpl in H1. constructor; [exact I|]. constructor; [simpl; assumption|constructor].
      * rewrite (wopen_last_plain _ _ _ _ _ W L). constructor; [simpl; apply loc_prefix_snoc; assumption|constructor].
    + inversion H; subst.
      destruct (mkdirp_inside rr _ _ _ _ _ _ _ M (loc_prefix_refl rr) (Forall_nil _) Hf) as [G _]. assumption.
  - inversion H; subst.
    destruct (mkdirp_inside rr _ _ _ _ _ _ _ M (loc_prefix_refl rr) (Forall_nil _) Hf) as [G _]. assumption.
Qed.

(* ResourceStore::add: after the base directory rr has been reached, see write_at_inside *)
Lemma add_old_inside : forall f base id data o ts f0 rr ts0,
  add_old f base id data = (o, ts) ->
  mkdirp FUEL f [] base [] = (Some (f0, rr), ts0) ->
  ts = [] \/ exists ts1, ts = ts0 ++ ts1 /\ (Forall (follows_in rr) ts1 -> Forall (writes_in rr) ts1).
Proof.
  intros f base id data o ts f0 rr ts0 H M. unfold add_old in H.
  destruct (sanitize id) as [ns|]; [|inversion H; left; reflexivity].
  rewrite M in H. right.
  destruct (write_at FUEL f0 rr ns data) as [r ts1] eqn:W. exists ts1.
  split; [destruct r; inversion H; reflexivity|].
  intros Hf. eapply write_at_inside; eauto.
Qed.

Lemma export_all_inside : forall rr rels f acc o ts,
  export_all f rr rels acc = (o, ts) ->
  exists x, ts = acc ++ x /\ (Forall (follows_in rr) x -> Forall (writes_in rr) x).
Proof.
  intros rr. induction rels as [|ns rels IH]; simpl; intros f acc o ts H.
  - inversion H; subst. exists []. rewrite app_nil_r. split; [reflexivity|intros; constructor].
  - destruct (write_at FUEL f rr ns []) as [r ts1] eqn:W. destruct r as [[f1 q]|].
    + destruct (IH _ _ _ _ H) as [x [E G]]. exists (ts1 ++ x). split; [rewrite E, app_assoc; reflexivity|].
      intros Hf. apply Forall_app in Hf. destruct Hf as [Hf1 Hf2]. apply Forall_app. split; [|auto].
      eapply write_at_inside; eauto.
    + inversion H; subst. exists ts1. split; [reflexivity|]. intros Hf. eapply write_at_inside; eauto.
Qed.

Lemma to_folder_inside : forall f dest rels o ts f0 rr ts0,
  to_folder f dest rels = (o, ts) ->
  mkdirp FUEL f [] dest [] = (Some (f0, rr), ts0) ->
  exists ts1, ts = ts0 ++ ts1 /\ (Forall (follows_in rr) ts1 -> Forall (writes_in rr) ts1).
Proof.
  intros f dest rels o ts f0 rr ts0 H M. unfold to_folder in H. rewrite M in H.
  exact (export_all_inside _ _ _ _ _ _ H).
Qed.

(* ------------------------------------------------------------------ witnesses *)

Definition n_root : name := [114;111;111;116].                      (* "root" *)
Definition n_link : name := [108;105;110;107].                      (* "link" *)
Definition n_outside : name := [111;117;116;115;105;100;101].       (* "outside" *)
Definition n_secret : name := [115;101;99;114;101;116;46;116;120;116].   (* "secret.txt" *)
Definition n_evil : name := [101;118;105;108;46;116;120;116].       (* "evil.txt" *)
Definition s_up_outside : str := [46;46;47] ++ n_outside.           (* "../outside" *)
Definition id_link_evil : str := n_link ++ [47] ++ n_evil.          (* "link/evil.txt" *)
Definition id_link_secret : str := n_link ++ [47] ++ n_secret.      (* "link/secret.txt" *)

(* root/ contains link -> ../outside ; outside/secret.txt exists (w_fs) or not (w_fs0) *)
Definition w_fs0 : fs := [([n_root], Dir); ([n_root; n_link], Link s_up_outside); ([n_outside], Dir)].
Definition w_fs : fs := w_fs0 ++ [([n_outside; n_secret], File [83])].

(* before 791680340 (F-SYMLINK-WRITE): the lexically sanitised write followed the link out of the root;
   after it: the same call is refused, nothing is written *)
Lemma write_refuted_old :
  canon w_fs (abs [n_root]) = Some [n_root]
  /\ add_old w_fs [n_root] id_link_evil [68] = (OkUnit, [TFollow [n_outside]; TWrite [n_outside; n_evil]])
  /\ loc_prefix [n_root] [n_outside; n_evil] = false
  /\ add w_fs [n_root] [n_root] id_link_evil [68] = (ErrBadParam, []).
Proof. vm_compute. repeat split; reflexivity. Qed.

Definition agree_inside (rr : loc) (f1 f2 : fs) : Prop :=
  forall l, loc_prefix rr l = true -> lookup f1 l = lookup f2 l.

(* before 791680340 (F-SYMLINK-PROBE): two file systems that agree under the root were told apart by the
   containment check itself; after it they are not, and the three callers answer the same *)
Lemma probe_witness :
  agree_inside [n_root] w_fs w_fs0
  /\ resolve_within_root_old w_fs [n_root] [n_root] id_link_secret = None
  /\ (exists p, resolve_within_root_old w_fs0 [n_root] [n_root] id_link_secret = Some p)
  /\ resolve_within_root w_fs [n_root] [n_root] id_link_secret = None
  /\ resolve_within_root w_fs0 [n_root] [n_root] id_link_secret = None
  /\ path_for_id w_fs [n_root] [n_root] id_link_secret = path_for_id w_fs0 [n_root] [n_root] id_link_secret
  /\ get w_fs [n_root] [n_root] id_link_secret = get w_fs0 [n_root] [n_root] id_link_secret
  /\ write_stream w_fs [n_root] [n_root] id_link_secret = write_stream w_fs0 [n_root] [n_root] id_link_secret
  /\ exists_op w_fs [n_root] [n_root] id_link_secret = exists_op w_fs0 [n_root] [n_root] id_link_secret.
Proof.
  split.
  - intros l H. destruct (loc_prefix_spec _ _ H) as [x ->]. reflexivity.
  - vm_compute. repeat split; try reflexivity. eexists. reflexivity.
Qed.

(* ------------------------------------------------------------------ archive import *)

Definition plain_id (id : str) : Prop := exists ns, id = join_slash ns /\ ns <> [] /\ Forall plain_nb ns.

Lemma archive_entry_plain : forall nm ids, archive_entry nm = Some ids -> Forall plain_id ids.
Proof.
  intros nm ids H. unfold archive_entry in H.
  destruct (is_some (strip_prefix RESOURCES nm) && negb (str_eqb nm RESOURCES)).
  - destruct (sanitize nm); [|discriminate].
    destruct (sanitize (nth 1 (split_on SLASH nm) [])) as [ns|] eqn:S; [|discriminate].
    inversion H; subst. constructor; [|constructor]. exists ns.
    destruct (sanitize_plain _ _ S). auto.
  - destruct (is_some (strip_prefix MANIFESTS nm) && negb (str_eqb nm MANIFESTS)).
    + destruct (sanitize nm); [|discriminate].
      destruct (sanitize (nth 1 (split_on SLASH nm) [])); [|discriminate]. inversion H; constructor.
    + inversion H; constructor.
Qed.

Lemma archive_ids_plain : forall names ids, archive_ids names = Some ids -> Forall plain_id ids.
Proof.
  induction names as [|nm t IH]; simpl; intros ids H.
  - inversion H; constructor.
  - destruct (archive_entry nm) as [a|] eqn:E; [|discriminate].
    destruct (archive_ids t) as [b|]; [|discriminate]. inversion H; subst.
    apply Forall_app. split; [eapply archive_entry_plain; eauto|auto].
Qed.
