(* Proofs/TimestampProofs.v — lemmas about Model/Timestamp.v (property C36). *)
From Coq Require Import List NArith ZArith Bool Lia.
From C2PA Require Import Base.Bytes Generated.C36_facts Model.Timestamp.
Import ListNotations.
Open Scope Z_scope.

Lemma bytes_eqb_eq : forall a b, bytes_eqb a b = true <-> a = b.
Proof.
  induction a as [|x a IH]; destruct b as [|y b]; cbn; split; intro E; try discriminate; auto.
  - apply andb_true_iff in E. destruct E as [E1 E2]. apply N.eqb_eq in E1. apply IH in E2. congruence.
  - inversion E; subst. apply andb_true_iff. split; [apply N.eqb_refl | apply IH; reflexivity].
Qed.

(* ties to the source *)
Definition code_num (c : ts_code) : N :=
  match c with TsMalformed => 0 | TsMismatch => 1 | TsOutsideValidity => 2 | TsUntrusted => 3 | TsValidated => 4 | TsTrusted => 5 end%N.

Lemma status_sequence_tie : map code_num model_status_sequence = VERIFY_TS_STATUS_SEQ.
Proof. reflexivity. Qed.

Lemma single_token_tie : MAX_TOKENS = 1%N.
Proof. reflexivity. Qed.

Definition is_failure_code (c : ts_code) : bool :=
  match c with TsMalformed | TsMismatch | TsOutsideValidity | TsUntrusted => true | _ => false end.

Definition has_failure_code (l : list log_item) : Prop :=
  exists c, In (LTs c) l /\ is_failure_code c = true.

Section Proofs.
  Variable H : hash_alg -> bytes -> bytes.
  Variable Verify : N -> digest_oid -> bytes -> bytes -> bool.
  Variable profile_rest : tsa_cert -> option cred_code.
  Variable trusted : tsa_cert -> Z -> bool.
  Variable countersign : bytes -> bytes -> bytes.
  Variable cbor_bstr : bytes -> bytes.

  Notation check_signer := (check_signer H Verify profile_rest trusted).
  Notation signer_loop := (signer_loop H Verify profile_rest trusted).
  Notation verify_time_stamp := (verify_time_stamp H Verify profile_rest trusted).
  Notation validate_cose_tst_info := (validate_cose_tst_info H Verify profile_rest trusted countersign cbor_bstr).
  Notation verify_cose := (verify_cose H Verify profile_rest trusted countersign cbor_bstr).
  Notation reported_time := (reported_time H Verify profile_rest trusted countersign cbor_bstr).
  Notation assertion_time := (assertion_time H Verify profile_rest trusted).

  (* what a successful SignerInfo establishes *)
  Definition bound (tk : token) (data : bytes) (vt : bool) (s : signer_info) (t : tst_info) : Prop :=
    exists (c : tsa_cert) (t0 : tst_info) (tbs : bytes) (h : hash_alg),
      si_cert s = Some c /\
      tk_tst tk = Some t0 /\
      t = with_time t0 (effective_time t0 s) /\                             (* genTime, or the signed signing-time attribute *)
      cms_tbs tk s = Some tbs /\
      Verify (tc_key c) (si_digest s) (si_signature s) tbs = true /\        (* CMS signature by the embedded certificate's key *)
      check_digest_attr H tk s = None /\                                    (* message-digest attribute = digest of the TSTInfo *)
      ti_imprint_alg t0 = Some h /\
      H h data = ti_imprint t0 /\                                           (* message imprint = digest of the data *)
      in_tsa_validity c t (ti_gen_time t) = true /\                         (* inside the TSA certificate's validity (+- accuracy) *)
      (vt = true -> has_ts_eku c = true /\ tsa_profile profile_rest c (ti_gen_time t) = None /\ trusted c (ti_gen_time t) = true).

  Lemma check_signer_done :
    forall tk data vt s t l,
      check_signer tk data vt s = Done t l ->
      bound tk data vt s t /\ l = [LTs TsValidated; LTs TsTrusted].
  Proof.
    intros tk data vt s t l E. unfold Timestamp.check_signer in E.
    destruct (si_cert s) as [c|] eqn:Ec; [|discriminate].
    destruct (tk_tst tk) as [t0|] eqn:Et; [|discriminate].
    destruct (check_digest_attr H tk s) as [f|] eqn:Ed.
    { unfold check_digest_attr in Ed.
      destruct (si_attrs s) as [a|]; [|discriminate].
      destruct (sa_digest a); try (inversion Ed; subst; discriminate).
      destruct (si_digest s); try (inversion Ed; subst; discriminate).
      destruct (bytes_eqb d (H h (content_or_empty tk))); [discriminate|]. inversion Ed; subst; discriminate. }
    destruct (cms_tbs tk s) as [tbs|] eqn:Etbs; [|discriminate].
    assert (Hrest :
      (if negb (si_key_ok s) then Fail EDecode [LTs TsMalformed]
       else if negb (Verify (tc_key c) (si_digest s) (si_signature s) tbs) then Fail EUntrusted [LTs TsUntrusted]
       else if negb (in_tsa_validity c (with_time t0 (effective_time t0 s)) (effective_time t0 s))
            then Fail EExpiredCertificate [LTs TsOutsideValidity]
       else match ti_imprint_alg (with_time t0 (effective_time t0 s)) with
            | None => Fail EUnsupportedAlgorithm [LTs TsUntrusted]
            | Some h =>
              if negb (bytes_eqb (H h data) (ti_imprint (with_time t0 (effective_time t0 s)))) then Fail EInvalidData [LTs TsMismatch]
              else if vt then
                if negb (tc_x509_ok c) then Abort EDecode
                else if negb (has_ts_eku c) then Fail EUntrusted [LTs TsValidated; LTs TsUntrusted]
                else match tsa_profile profile_rest c (effective_time t0 s) with
                     | Some cc => Fail EUntrusted [LTs TsValidated; LCred cc; LTs TsUntrusted]
                     | None => if negb (trusted c (effective_time t0 s)) then Fail EUntrusted [LTs TsValidated; LTs TsUntrusted]
                               else Done (with_time t0 (effective_time t0 s)) [LTs TsValidated; LTs TsTrusted]
                     end
              else Done (with_time t0 (effective_time t0 s)) [LTs TsValidated; LTs TsTrusted]
            end) = Done t l).
    { destruct (si_digest s); [discriminate | exact E | exact E]. }
    clear E.
    destruct (si_key_ok s); cbn [negb] in Hrest; [|discriminate].
    destruct (Verify (tc_key c) (si_digest s) (si_signature s) tbs) eqn:Ev; cbn [negb] in Hrest; [|discriminate].
    destruct (in_tsa_validity c (with_time t0 (effective_time t0 s)) (effective_time t0 s)) eqn:Ew; cbn [negb] in Hrest; [|discriminate].
    cbn [ti_imprint_alg ti_imprint with_time] in Hrest.
    destruct (ti_imprint_alg t0) as [h|] eqn:Eh; [|discriminate].
    destruct (bytes_eqb (H h data) (ti_imprint t0)) eqn:Ei; cbn [negb] in Hrest; [|discriminate].
    apply bytes_eqb_eq in Ei.
    destruct vt.
    - destruct (tc_x509_ok c); cbn [negb] in Hrest; [|discriminate].
      destruct (has_ts_eku c) eqn:Eeku; cbn [negb] in Hrest; [|discriminate].
      destruct (tsa_profile profile_rest c (effective_time t0 s)) eqn:Ep; [discriminate|].
      destruct (trusted c (effective_time t0 s)) eqn:Etr; cbn [negb] in Hrest; [|discriminate].
      inversion Hrest; subst. split; [|reflexivity].
      exists c, t0, tbs, h. repeat split; auto.
    - inversion Hrest; subst. split; [|reflexivity].
      exists c, t0, tbs, h. repeat split; auto; discriminate.
  Qed.

  (* every failing SignerInfo logs a time-stamp failure code and never timeStamp.trusted *)
  Lemma check_signer_fail :
    forall tk data vt s e l,
      check_signer tk data vt s = Fail e l ->
      has_failure_code l /\ ~ In (LTs TsTrusted) l.
  Proof.
    intros tk data vt s e l E. unfold Timestamp.check_signer in E.
    assert (Hm : forall c, is_failure_code c = true -> has_failure_code [LTs c] /\ ~ In (LTs TsTrusted) [LTs c]).
    { intros c Hc. split.
      - exists c. split; [left; reflexivity | exact Hc].
      - intros [X|[]]. inversion X; subst. discriminate. }
    destruct (si_cert s) as [c|]; [|inversion E; subst; apply Hm; reflexivity].
    destruct (tk_tst tk) as [t0|]; [|inversion E; subst; apply Hm; reflexivity].
    destruct (check_digest_attr H tk s) as [f|] eqn:Ed.
    { subst f. unfold check_digest_attr in Ed.
      destruct (si_attrs s) as [a|]; [|discriminate].
      destruct (sa_digest a); try (inversion Ed; subst; apply Hm; reflexivity).
      destruct (si_digest s); try (inversion Ed; subst; apply Hm; reflexivity).
      destruct (bytes_eqb d (H h (content_or_empty tk))); [discriminate|]. inversion Ed; subst; apply Hm; reflexivity. }
    destruct (cms_tbs tk s) as [tbs|]; [|inversion E; subst; apply Hm; reflexivity].
    assert (Hrest :
      (si_digest s = DoUnparsable /\ Fail EDecode [LTs TsMalformed] = Fail e l) \/
      (if negb (si_key_ok s) then Fail EDecode [LTs TsMalformed]
       else if negb (Verify (tc_key c) (si_digest s) (si_signature s) tbs) then Fail EUntrusted [LTs TsUntrusted]
       else if negb (in_tsa_validity c (with_time t0 (effective_time t0 s)) (effective_time t0 s))
            then Fail EExpiredCertificate [LTs TsOutsideValidity]
       else match ti_imprint_alg (with_time t0 (effective_time t0 s)) with
            | None => Fail EUnsupportedAlgorithm [LTs TsUntrusted]
            | Some h =>
              if negb (bytes_eqb (H h data) (ti_imprint (with_time t0 (effective_time t0 s)))) then Fail EInvalidData [LTs TsMismatch]
              else if vt then
                if negb (tc_x509_ok c) then Abort EDecode
                else if negb (has_ts_eku c) then Fail EUntrusted [LTs TsValidated; LTs TsUntrusted]
                else match tsa_profile profile_rest c (effective_time t0 s) with
                     | Some cc => Fail EUntrusted [LTs TsValidated; LCred cc; LTs TsUntrusted]
                     | None => if negb (trusted c (effective_time t0 s)) then Fail EUntrusted [LTs TsValidated; LTs TsUntrusted]
                               else Done (with_time t0 (effective_time t0 s)) [LTs TsValidated; LTs TsTrusted]
                     end
              else Done (with_time t0 (effective_time t0 s)) [LTs TsValidated; LTs TsTrusted]
            end) = Fail e l).
    { destruct (si_digest s); [left; split; [reflexivity | exact E] | right; exact E | right; exact E]. }
    clear E. destruct Hrest as [[_ E]|E]; [inversion E; subst; apply Hm; reflexivity|].
    destruct (si_key_ok s); cbn [negb] in E; [|inversion E; subst; apply Hm; reflexivity].
    destruct (Verify _ _ _ _); cbn [negb] in E; [|inversion E; subst; apply Hm; reflexivity].
    destruct (in_tsa_validity _ _ _); cbn [negb] in E; [|inversion E; subst; apply Hm; reflexivity].
    destruct (ti_imprint_alg _); [|inversion E; subst; apply Hm; reflexivity].
    destruct (bytes_eqb _ _); cbn [negb] in E; [|inversion E; subst; apply Hm; reflexivity].
    destruct vt; [|discriminate].
    destruct (tc_x509_ok c); cbn [negb] in E; [|discriminate].
    destruct (has_ts_eku c); cbn [negb] in E.
    2:{ inversion E; subst. split.
        - exists TsUntrusted. split; [right; left; reflexivity | reflexivity].
        - intros [X|[X|[]]]; discriminate. }
    destruct (tsa_profile _ _ _).
    - inversion E; subst. split.
      + exists TsUntrusted. split; [right; right; left; reflexivity | reflexivity].
      + intros [X|[X|[X|[]]]]; discriminate.
    - destruct (trusted _ _); cbn [negb] in E; [discriminate|]. inversion E; subst. split.
      + exists TsUntrusted. split; [right; left; reflexivity | reflexivity].
      + intros [X|[X|[]]]; discriminate.
  Qed.

  Lemma signer_loop_ok :
    forall tk data vt ss last cur t l,
      signer_loop tk data vt ss last cur = (Ok t, l) ->
      exists s, In s ss /\ check_signer tk data vt s = Done t l.
  Proof.
    induction ss as [|s r IH]; intros last cur t l E; cbn [Timestamp.signer_loop] in E; [discriminate|].
    destruct (check_signer tk data vt s) eqn:Es.
    - apply IH in E. destruct E as [s' [Hin Hs']]. exists s'. split; [right; exact Hin | exact Hs'].
    - discriminate.
    - inversion E; subst. exists s. split; [left; reflexivity | exact Es].
  Qed.

  (* the run ends with an empty log although it failed: no SignerInfo at all, or the `?` exit of certificate ordering *)
  Fixpoint silent_run (tk : token) (data : bytes) (vt : bool) (ss : list signer_info) (cur_empty : bool) : bool :=
    match ss with
    | [] => cur_empty
    | s :: r =>
      match check_signer tk data vt s with
      | Fail _ _ => silent_run tk data vt r false
      | Abort _ => true
      | Done _ _ => false
      end
    end.

  (* what is left of F-TS-SILENT after fix 5b12435f8 *)
  Definition known_silent (tk : token) (data : bytes) (vt : bool) : Prop :=
    tk_signed_data tk = true /\ tk_certs tk = Some true /\ silent_run tk data vt (tk_signers tk) true = true.

  Lemma signer_loop_err :
    forall tk data vt ss last cur e l,
      signer_loop tk data vt ss last cur = (Err e, l) ->
      (cur = [] \/ (has_failure_code cur /\ ~ In (LTs TsTrusted) cur)) ->
      (silent_run tk data vt ss (match cur with [] => true | _ => false end) = true /\ l = [])
      \/ (has_failure_code l /\ ~ In (LTs TsTrusted) l).
  Proof.
    induction ss as [|s r IH]; intros last cur e l E Hc; cbn [Timestamp.signer_loop silent_run] in *.
    - inversion E; subst. destruct Hc as [Hc|Hc]; [left; subst; split; reflexivity | right; exact Hc].
    - destruct (check_signer tk data vt s) eqn:Es.
      + pose proof (check_signer_fail _ _ _ _ _ _ Es) as Hf.
        apply IH in E; [|right; exact Hf].
        destruct l0 as [|x l0]; [destruct Hf as [[c [[] _]] _]|]. exact E.
      + inversion E; subst. left. split; reflexivity.
      + discriminate.
  Qed.

  (* ---- verify_time_stamp *)

  Lemma verify_ok_bound :
    forall tk data vt t l,
      verify_time_stamp tk data vt = (Ok t, l) ->
      tk_signed_data tk = true /\ tk_certs tk = Some true /\
      l = [LTs TsValidated; LTs TsTrusted] /\
      exists s, In s (tk_signers tk) /\ bound tk data vt s t.
  Proof.
    intros tk data vt t l E. unfold Timestamp.verify_time_stamp in E.
    destruct (tk_signed_data tk); cbn [negb] in E; [|discriminate].
    destruct (tk_certs tk) as [[|]|]; try discriminate.
    apply signer_loop_ok in E. destruct E as [s [Hin Hs]].
    apply check_signer_done in Hs. destruct Hs as [Hb Hl].
    repeat split; auto. exists s. split; assumption.
  Qed.

  Lemma verify_err_reported :
    forall tk data vt e l,
      verify_time_stamp tk data vt = (Err e, l) ->
      ~ known_silent tk data vt ->
      has_failure_code l /\ ~ In (LTs TsTrusted) l.
  Proof.
    intros tk data vt e l E Hk. unfold Timestamp.verify_time_stamp in E.
    assert (Hm : forall c, is_failure_code c = true -> has_failure_code [LTs c] /\ ~ In (LTs TsTrusted) [LTs c]).
    { intros c Hc. split.
      - exists c. split; [left; reflexivity | exact Hc].
      - intros [X|[]]. inversion X; subst. discriminate. }
    destruct (tk_signed_data tk) eqn:Esd; cbn [negb] in E; [|inversion E; subst; apply Hm; reflexivity].
    destruct (tk_certs tk) as [[|]|] eqn:Ec; try (inversion E; subst; apply Hm; reflexivity).
    apply signer_loop_err in E; [|left; reflexivity].
    destruct E as [[Hs _]|E]; [|exact E].
    exfalso. apply Hk. repeat split; auto.
  Qed.

  Lemma verify_err_never_trusted :
    forall tk data vt e l, verify_time_stamp tk data vt = (Err e, l) -> ~ In (LTs TsTrusted) l.
  Proof.
    intros tk data vt e l E. unfold Timestamp.verify_time_stamp in E.
    destruct (tk_signed_data tk); cbn [negb] in E; [|inversion E; subst; intros [X|[]]; discriminate].
    destruct (tk_certs tk) as [[|]|]; try (inversion E; subst; intros [X|[]]; discriminate).
    apply signer_loop_err in E; [|left; reflexivity].
    destruct E as [[_ Hl]|[_ Hn]]; [subst; intros [] | exact Hn].
  Qed.

  (* after the fix: a token none of whose SignerInfos has an embedded certificate is reported timeStamp.untrusted *)
  Lemma loop_no_cert :
    forall tk data vt ss last cur,
      ss <> [] -> Forall (fun s => si_cert s = None) ss ->
      signer_loop tk data vt ss last cur = (Err EUntrusted, [LTs TsUntrusted]).
  Proof.
    induction ss as [|s r IH]; intros last cur Hne Hall; [congruence|].
    cbn [Timestamp.signer_loop]. inversion Hall; subst. unfold Timestamp.check_signer. rewrite H2.
    destruct r as [|s2 r2]; [reflexivity|]. apply IH; [discriminate | assumption].
  Qed.

  Lemma missing_signer_cert_reported :
    forall tk data vt,
      tk_signed_data tk = true -> tk_certs tk = Some true ->
      tk_signers tk <> [] -> Forall (fun s => si_cert s = None) (tk_signers tk) ->
      verify_time_stamp tk data vt = (Err EUntrusted, [LTs TsUntrusted]).
  Proof.
    intros tk data vt Hsd Hc Hne Hall. unfold Timestamp.verify_time_stamp. rewrite Hsd, Hc. cbn [negb].
    apply loop_no_cert; assumption.
  Qed.

  (* the run is never silent when there is a SignerInfo and the embedded certificates parse *)
  Definition certs_parse (tk : token) : Prop :=
    Forall (fun s => forall c, si_cert s = Some c -> tc_x509_ok c = true) (tk_signers tk).

  Lemma check_signer_no_abort :
    forall tk data vt s e,
      (forall c, si_cert s = Some c -> tc_x509_ok c = true) -> check_signer tk data vt s <> Abort e.
  Proof.
    intros tk data vt s e Hx E. unfold Timestamp.check_signer in E.
    destruct (si_cert s) as [c|] eqn:Ec; [|discriminate].
    specialize (Hx c eq_refl).
    destruct (tk_tst tk) as [t0|]; [|discriminate].
    destruct (check_digest_attr H tk s) as [f|] eqn:Ed.
    { subst f. unfold check_digest_attr in Ed.
      destruct (si_attrs s) as [a|]; [|discriminate].
      destruct (sa_digest a); try (inversion Ed; discriminate).
      destruct (si_digest s); try (inversion Ed; discriminate).
      destruct (bytes_eqb d (H h (content_or_empty tk))); [discriminate|]. inversion Ed; discriminate. }
    destruct (cms_tbs tk s) as [tbs|]; [|discriminate].
    rewrite Hx in E. cbn [negb] in E.
    destruct (si_digest s); try discriminate;
      (destruct (si_key_ok s); cbn [negb] in E; [|discriminate];
       destruct (Verify _ _ _ _); cbn [negb] in E; [|discriminate];
       destruct (in_tsa_validity _ _ _); cbn [negb] in E; [|discriminate];
       destruct (ti_imprint_alg _); [|discriminate];
       destruct (bytes_eqb _ _); cbn [negb] in E; [|discriminate];
       destruct vt; [|discriminate];
       destruct (has_ts_eku c); cbn [negb] in E; [|discriminate];
       destruct (tsa_profile _ _ _); [discriminate|];
       destruct (trusted _ _); discriminate).
  Qed.

  Lemma silent_run_false :
    forall tk data vt ss cur,
      Forall (fun s => forall c, si_cert s = Some c -> tc_x509_ok c = true) ss ->
      (ss <> [] \/ cur = false) ->
      silent_run tk data vt ss cur = false.
  Proof.
    induction ss as [|s r IH]; intros cur Hall Hne; cbn [silent_run].
    - destruct Hne as [Hne|Hc]; [congruence | exact Hc].
    - inversion Hall; subst.
      destruct (check_signer tk data vt s) eqn:Es.
      + apply IH; [assumption | right; reflexivity].
      + exfalso. eapply check_signer_no_abort; eauto.
      + reflexivity.
  Qed.

  (* ---- the COSE layer *)

  Lemma cose_ok :
    forall hs cd sig ph vt t l,
      validate_cose_tst_info hs cd sig ph vt = (Ok t, l) ->
      exists st tk rest,
        hs = (st, Some [tk]) :: rest /\
        verify_time_stamp tk (countersign (tst_tbs cbor_bstr st cd sig) ph) vt = (Ok t, l).
  Proof.
    intros hs cd sig ph vt t l E. unfold Timestamp.validate_cose_tst_info in E.
    destruct hs as [|[st [toks|]] rest]; try discriminate.
    destruct toks as [|tk [|tk2 toks]]; try discriminate.
    destruct (verify_time_stamp tk (countersign (tst_tbs cbor_bstr st cd sig) ph) vt) as [[t'|e'] l'] eqn:Ev; [|discriminate].
    inversion E; subst. exists st, tk, rest. split; [reflexivity | exact Ev].
  Qed.

  Lemma cose_err_never_trusted :
    forall hs cd sig ph vt e l,
      validate_cose_tst_info hs cd sig ph vt = (Err e, l) -> ~ In (LTs TsTrusted) l.
  Proof.
    intros hs cd sig ph vt e l E. unfold Timestamp.validate_cose_tst_info in E.
    destruct hs as [|[st [toks|]] rest].
    - inversion E; subst. intros [].
    - destruct toks as [|tk [|tk2 toks]].
      + inversion E; subst. intros [].
      + destruct (verify_time_stamp tk (countersign (tst_tbs cbor_bstr st cd sig) ph) vt) as [[t'|e'] l'] eqn:Ev; [discriminate|].
        inversion E; subst. eapply verify_err_never_trusted. exact Ev.
      + inversion E; subst. intros [X|[]]. discriminate.
    - inversion E; subst. intros [].
  Qed.

  (* the message a token must be bound to, per storage version *)
  Definition stamped_message (st : storage) (cd sig ph : bytes) : bytes := countersign (tst_tbs cbor_bstr st cd sig) ph.

  Definition header_bound (hs : headers) (cd sig ph : bytes) (vt : bool) (t : tst_info) : Prop :=
    exists st tk rest s,
      hs = (st, Some [tk]) :: rest /\ In s (tk_signers tk) /\ bound tk (stamped_message st cd sig ph) vt s t.

  Lemma cose_ok_bound :
    forall hs cd sig ph vt t l,
      validate_cose_tst_info hs cd sig ph vt = (Ok t, l) ->
      header_bound hs cd sig ph vt t /\ l = [LTs TsValidated; LTs TsTrusted].
  Proof.
    intros hs cd sig ph vt t l E. apply cose_ok in E. destruct E as [st [tk [rest [Hh Hv]]]].
    apply verify_ok_bound in Hv. destruct Hv as [_ [_ [Hl [s [Hin Hb]]]]].
    split; [|exact Hl]. exists st, tk, rest, s. auto.
  Qed.

  (* ---- main statements *)

  (* a signing time is taken from a header token only if imprint and CMS signature check *)
  Lemma used_only_if_bound :
    forall c hs cd sig ph vt now t,
      v_time (verify_cose c None hs cd sig ph vt now) = Some t ->
      header_bound hs cd sig ph vt t /\
      v_log (verify_cose c None hs cd sig ph vt now) = [LTs TsValidated; LTs TsTrusted].
  Proof.
    intros c hs cd sig ph vt now t E. unfold Timestamp.verify_cose in *.
    destruct (validate_cose_tst_info hs cd sig ph vt) as [[t'|e'] l'] eqn:Ev; cbn in *; [|discriminate].
    inversion E; subst. apply cose_ok_bound in Ev. exact Ev.
  Qed.

  (* otherwise no time is used, timeStamp.trusted is not reported, and (outside the silent class) a failure code is *)
  Lemma unbound_not_used :
    forall c hs cd sig ph vt now,
      (forall t, ~ header_bound hs cd sig ph vt t) ->
      v_time (verify_cose c None hs cd sig ph vt now) = None /\
      ~ In (LTs TsTrusted) (v_log (verify_cose c None hs cd sig ph vt now)).
  Proof.
    intros c hs cd sig ph vt now Hnb. unfold Timestamp.verify_cose.
    destruct (validate_cose_tst_info hs cd sig ph vt) as [[t'|e'] l'] eqn:Ev; cbn.
    - exfalso. apply cose_ok_bound in Ev. apply (Hnb t'). apply Ev.
    - split; [reflexivity|]. eapply cose_err_never_trusted. exact Ev.
  Qed.

  Lemma failure_reported :
    forall c st tk rest cd sig ph vt now,
      (forall t, ~ header_bound ((st, Some [tk]) :: rest) cd sig ph vt t) ->
      ~ known_silent tk (stamped_message st cd sig ph) vt ->
      has_failure_code (v_log (verify_cose c None ((st, Some [tk]) :: rest) cd sig ph vt now)).
  Proof.
    intros c st tk rest cd sig ph vt now Hnb Hk. unfold Timestamp.verify_cose, Timestamp.validate_cose_tst_info.
    destruct (verify_time_stamp tk (countersign (tst_tbs cbor_bstr st cd sig) ph) vt) as [[t'|e'] l'] eqn:Ev; cbn.
    - exfalso. apply verify_ok_bound in Ev. destruct Ev as [_ [_ [_ [s [Hin Hb]]]]].
      apply (Hnb t'). exists st, tk, rest, s. auto.
    - eapply verify_err_reported in Ev; [apply Ev | exact Hk].
  Qed.

  Lemma reported_time_bound :
    forall hs cd sig ph z,
      reported_time hs cd sig ph = Some z ->
      exists t, header_bound hs cd sig ph false t /\ ti_gen_time t = z.
  Proof.
    intros hs cd sig ph z E. unfold Timestamp.reported_time in E.
    destruct (validate_cose_tst_info hs cd sig ph false) as [[t'|e'] l'] eqn:Ev; [|discriminate].
    inversion E; subst. apply cose_ok_bound in Ev. exists t'. split; [apply Ev | reflexivity].
  Qed.

  Lemma assertion_time_bound :
    forall tk sig v1 t,
      assertion_time tk sig v1 = Some t ->
      exists s, In s (tk_signers tk) /\ bound tk sig (negb v1) s t.
  Proof.
    intros tk sig v1 t E. unfold Timestamp.assertion_time in E.
    destruct (verify_time_stamp tk sig (negb v1)) as [[t'|e'] l'] eqn:Ev; [|discriminate].
    inversion E; subst. apply verify_ok_bound in Ev. destruct Ev as [_ [_ [_ Hs]]]. exact Hs.
  Qed.

  (* a credential outside its validity now is accepted only through a time inside the window *)
  Lemma expired_needs_time :
    forall c ov hs cd sig ph vt now,
      valid_at (cr_not_before c) (cr_not_after c) now = false ->
      v_accepted (verify_cose c ov hs cd sig ph vt now) = true ->
      exists t, v_time (verify_cose c ov hs cd sig ph vt now) = Some t /\
                cr_not_before c <= ti_gen_time t <= cr_not_after c.
  Proof.
    intros c ov hs cd sig ph vt now Hnow Hacc. unfold Timestamp.verify_cose in *.
    destruct ov as [t|].
    - cbn in *. exists t. split; [reflexivity|].
      apply andb_true_iff in Hacc. destruct Hacc as [Hacc _]. apply andb_true_iff in Hacc. destruct Hacc as [Hv _].
      unfold valid_at in Hv. apply andb_true_iff in Hv. lia.
    - destruct (validate_cose_tst_info hs cd sig ph vt) as [[t'|e'] l'] eqn:Ev; cbn in *.
      + exists t'. split; [reflexivity|].
        apply andb_true_iff in Hacc. destruct Hacc as [Hacc _]. apply andb_true_iff in Hacc. destruct Hacc as [Hv _].
        unfold valid_at in Hv. apply andb_true_iff in Hv. lia.
      + rewrite Hnow in Hacc. discriminate.
  Qed.

  Lemma expired_needs_bound_token :
    forall c hs cd sig ph vt now,
      valid_at (cr_not_before c) (cr_not_after c) now = false ->
      v_accepted (verify_cose c None hs cd sig ph vt now) = true ->
      exists t, header_bound hs cd sig ph vt t /\ cr_not_before c <= ti_gen_time t <= cr_not_after c.
  Proof.
    intros c hs cd sig ph vt now Hnow Hacc.
    destruct (expired_needs_time _ _ _ _ _ _ _ _ Hnow Hacc) as [t [Ht Hw]].
    exists t. split; [|exact Hw]. apply used_only_if_bound in Ht. apply Ht.
  Qed.

  (* with an expired credential and no usable token the verdict is signingCredential.expired *)
  Lemma expired_without_time :
    forall c hs cd sig ph vt now,
      valid_at (cr_not_before c) (cr_not_after c) now = false ->
      (forall t, ~ header_bound hs cd sig ph vt t) ->
      v_expired (verify_cose c None hs cd sig ph vt now) = true /\
      v_accepted (verify_cose c None hs cd sig ph vt now) = false.
  Proof.
    intros c hs cd sig ph vt now Hnow Hnb. unfold Timestamp.verify_cose.
    destruct (validate_cose_tst_info hs cd sig ph vt) as [[t'|e'] l'] eqn:Ev; cbn.
    - exfalso. apply cose_ok_bound in Ev. apply (Hnb t'). apply Ev.
    - rewrite Hnow. split; reflexivity.
  Qed.

  (* ---- the TSA certificate (trust on): id-kp-timeStamping and nothing else (fix a6060c320 closed F-TSA-EKU) *)
  Lemma tsa_eku :
    forall tk data s t,
      bound tk data true s t ->
      forall c, si_cert s = Some c ->
      exists e, tc_eku c = Some e /\ eku_any e = false /\
                eku_time_stamping e = true /\ eku_email_protection e = false /\ eku_ocsp_signing e = false /\
                eku_client_auth e = false /\ eku_server_auth e = false /\ eku_code_signing e = false /\ eku_other_nonempty e = false.
  Proof.
    intros tk data s t Hb c Hc. destruct Hb as (c' & t0 & tbs & h & Hc' & _ & _ & _ & _ & _ & _ & _ & _ & Htr).
    rewrite Hc in Hc'. inversion Hc'; subst c'.
    destruct (Htr eq_refl) as [Hts [Hp _]]. unfold tsa_profile in Hp.
    destruct (tc_v3 c); cbn [negb] in Hp; [|discriminate].
    destruct (valid_at _ _ _); cbn [negb] in Hp; [|discriminate].
    destruct (profile_rest c); [discriminate|].
    destruct (eku_gate c) eqn:Eg; cbn [negb] in Hp; [|discriminate].
    destruct (tc_is_ca c) eqn:Eca; [discriminate|].
    unfold eku_gate in Eg. rewrite Eca in Eg. unfold has_ts_eku in Hts.
    destruct (tc_eku c) as [e|]; [|discriminate].
    exists e. split; [reflexivity|].
    apply andb_true_iff in Eg. destruct Eg as [Eg Ebad]. apply andb_true_iff in Eg. destruct Eg as [Eany _].
    apply negb_true_iff in Eany. apply negb_true_iff in Ebad. split; [exact Eany|].
    unfold eku_bad_set in Ebad. rewrite Hts in *.
    destruct (eku_email_protection e), (eku_ocsp_signing e), (eku_client_auth e), (eku_server_auth e),
      (eku_code_signing e), (eku_other_nonempty e); cbn in *; try discriminate; auto 10.
  Qed.

  (* every run over a non-empty SignerInfo set whose embedded certificates parse reports a failure code when it fails *)
  Lemma verify_err_reported_structural :
    forall tk data vt e l,
      verify_time_stamp tk data vt = (Err e, l) ->
      tk_signers tk <> [] -> certs_parse tk ->
      has_failure_code l /\ ~ In (LTs TsTrusted) l.
  Proof.
    intros tk data vt e l E Hne Hp. eapply verify_err_reported; [exact E|].
    intros [_ [_ Hs]]. rewrite (silent_run_false tk data vt (tk_signers tk) true Hp (or_introl Hne)) in Hs. discriminate.
  Qed.

  Lemma failure_reported_structural :
    forall c st tk rest cd sig ph vt now,
      (forall t, ~ header_bound ((st, Some [tk]) :: rest) cd sig ph vt t) ->
      tk_signers tk <> [] -> certs_parse tk ->
      has_failure_code (v_log (verify_cose c None ((st, Some [tk]) :: rest) cd sig ph vt now)).
  Proof.
    intros c st tk rest cd sig ph vt now Hnb Hne Hp. apply failure_reported; [exact Hnb|].
    intros [_ [_ Hs]]. rewrite (silent_run_false tk _ vt (tk_signers tk) true Hp (or_introl Hne)) in Hs. discriminate.
  Qed.
End Proofs.

(* ---- witnesses (evaluated on the model; replayed on the implementation by ./check) *)

Definition w_eku_email : eku :=
  {| eku_any := false; eku_server_auth := false; eku_client_auth := false; eku_code_signing := false;
     eku_email_protection := true; eku_time_stamping := false; eku_ocsp_signing := false;
     eku_other_nonempty := false; eku_other_allowed := false |}.
Definition w_eku_tsa : eku :=
  {| eku_any := false; eku_server_auth := false; eku_client_auth := false; eku_code_signing := false;
     eku_email_protection := false; eku_time_stamping := true; eku_ocsp_signing := false;
     eku_other_nonempty := false; eku_other_allowed := false |}.
Definition w_cert (e : eku) : tsa_cert :=
  {| tc_key := 7%N; tc_not_before := 100; tc_not_after := 200; tc_v3 := true; tc_is_ca := false; tc_eku := Some e; tc_x509_ok := true |}.
Definition w_tst (imprint : bytes) : tst_info :=
  {| ti_imprint_alg := Some Sha256; ti_imprint := imprint; ti_gen_time := 150; ti_accuracy := None |}.
Definition w_msg : bytes := toy_countersign (toy_bstr [9; 9]%N) [1]%N.
Definition w_signer (c : option tsa_cert) : signer_info :=
  {| si_cert := c; si_digest := DoAlg Sha256; si_attrs := None; si_key_ok := true; si_signature := (7 :: [42])%N |}.
Definition w_token (c : option tsa_cert) : token :=
  {| tk_signed_data := true; tk_certs := Some true; tk_tst := Some (w_tst (toyH Sha256 w_msg)); tk_content := Some [42]%N;
     tk_signers := [w_signer c] |}.
Definition w_cred : credential := {| cr_not_before := 100; cr_not_after := 200; cr_profile_rest := true; cr_trusted := fun _ => true |}.
Definition w_run (tk : token) :=
  verify_cose toyH toyVerify (fun _ => None) (fun _ _ => true) toy_countersign toy_bstr
              w_cred None [(V2_sigTst2, Some [tk])] [5]%N [9; 9]%N [1]%N true 1000.

(* the model computes a non-trivial accepted case: expired credential (now = 1000 > 200), token inside the window *)
Lemma example_accepts : v_accepted (w_run (w_token (Some (w_cert w_eku_tsa)))) = true
                        /\ v_log (w_run (w_token (Some (w_cert w_eku_tsa)))) = [LTs TsValidated; LTs TsTrusted].
Proof. vm_compute. split; reflexivity. Qed.

(* regression witnesses for the two repaired findings (evaluated on the model; the same inputs are corpus lines 1-3):
   F-TS-SILENT (fixed 5b12435f8): a token whose signer certificate is not embedded is not used and is reported *)
Lemma missing_cert_reported_example :
  v_time (w_run (w_token None)) = None /\ v_log (w_run (w_token None)) = [LTs TsUntrusted] /\ v_expired (w_run (w_token None)) = true.
Proof. vm_compute. repeat split; reflexivity. Qed.

(* F-TSA-EKU (fixed a6060c320): a token signed with an emailProtection-only certificate no longer rescues an expired credential *)
Lemma email_tsa_rejected_example :
  v_accepted (w_run (w_token (Some (w_cert w_eku_email)))) = false
  /\ v_log (w_run (w_token (Some (w_cert w_eku_email)))) = [LTs TsValidated; LTs TsUntrusted].
Proof. vm_compute. split; reflexivity. Qed.
