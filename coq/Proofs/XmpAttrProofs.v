(* Proofs/XmpAttrProofs.v — lemmas about Model/XmpAttr.v (property C30). *)
From Coq Require Import List NArith Bool Arith Lia ZifyBool ZifyNat ZifyN Ascii String.
From C2PA Require Import Base.Bytes Proofs.BytesProofs Model.XmpAttr.
Import ListNotations.
Open Scope N_scope.

Arguments N.add : simpl never.
Arguments N.sub : simpl never.
Arguments N.eqb : simpl never.
Arguments N.ltb : simpl never.
Arguments N.leb : simpl never.
Arguments N.min : simpl never.
Arguments N.max : simpl never.

(* ------------------------------------------------------------------ byte-string equality *)
Lemma beqb_refl a : beqb a a = true.
Proof. induction a; cbn; [reflexivity|]. rewrite N.eqb_refl, IHa. reflexivity. Qed.

Lemma beqb_eq a b : beqb a b = true <-> a = b.
Proof.
  split.
  - revert b. induction a as [|x a IH]; destruct b as [|y b]; cbn; try discriminate; [reflexivity|].
    intro H. apply andb_true_iff in H as [H1 H2]. apply N.eqb_eq in H1. apply IH in H2. congruence.
  - intros ->. apply beqb_refl.
Qed.

Lemma beqb_neq a b : beqb a b = false <-> a <> b.
Proof.
  split.
  - intros H E. apply beqb_eq in E. congruence.
  - intro H. destruct (beqb a b) eqn:E; [|reflexivity]. apply beqb_eq in E. contradiction.
Qed.

(* ------------------------------------------------------------------ escape / unescape *)
Section Esc.
  Variable charref : bytes -> option bytes.

  (* one escaped character is read back as that character, whatever follows *)
  Lemma unesc_esc_char c r :
    unesc charref (esc_char c ++ r) None = option_map (cons c) (unesc charref r None).
  Proof.
    unfold esc_char.
    destruct (c =? 60) eqn:E1; [apply N.eqb_eq in E1; subst; vm_compute; destruct (unesc charref r None); reflexivity|].
    destruct (c =? 62) eqn:E2; [apply N.eqb_eq in E2; subst; vm_compute; destruct (unesc charref r None); reflexivity|].
    destruct (c =? 39) eqn:E3; [apply N.eqb_eq in E3; subst; vm_compute; destruct (unesc charref r None); reflexivity|].
    destruct (c =? 38) eqn:E4; [apply N.eqb_eq in E4; subst; vm_compute; destruct (unesc charref r None); reflexivity|].
    destruct (c =? 34) eqn:E5; [apply N.eqb_eq in E5; subst; vm_compute; destruct (unesc charref r None); reflexivity|].
    cbn [app unesc]. rewrite E4. reflexivity.
  Qed.

  (* the algebra of the repair: unescape inverts escape on every byte string *)
  Lemma unescape_escape v : unescape charref (escape v) = Some v.
  Proof.
    unfold unescape, escape. induction v as [|c v IH]; [reflexivity|].
    cbn [flat_map]. rewrite unesc_esc_char. rewrite IH. reflexivity.
  Qed.

  Lemma decode_escape v : decode charref true (escape v) = v.
  Proof. unfold decode. rewrite unescape_escape. reflexivity. Qed.
End Esc.

Lemma esc_char_plain c : special c = false -> esc_char c = [c].
Proof.
  unfold special, esc_char. intro H.
  destruct (c =? 60); [discriminate|]. destruct (c =? 62); [discriminate|]. destruct (c =? 39); [discriminate|].
  destruct (c =? 38); [discriminate|]. destruct (c =? 34); [discriminate|]. reflexivity.
Qed.

Lemma escape_no_special v : no_special v -> escape v = v.
Proof.
  unfold no_special, escape. induction v as [|c v IH]; [reflexivity|].
  cbn [forallb flat_map]. intro H. apply andb_true_iff in H as [H1 H2].
  rewrite esc_char_plain by (destruct (special c); [discriminate|reflexivity]). cbn. rewrite IH by exact H2. reflexivity.
Qed.

Lemma esc_char_len c : (1 <= List.length (esc_char c))%nat /\ (special c = true -> 4 <= List.length (esc_char c))%nat.
Proof.
  unfold special, esc_char.
  destruct (c =? 60); [split; intros; vm_compute; lia|]. destruct (c =? 62); [split; intros; vm_compute; lia|].
  destruct (c =? 39); [split; intros; vm_compute; lia|]. destruct (c =? 38); [split; intros; vm_compute; lia|].
  destruct (c =? 34); [split; intros; vm_compute; lia|]. split; [cbn; lia|discriminate].
Qed.

Lemma escape_len_ge v : (List.length v <= List.length (escape v))%nat.
Proof.
  unfold escape. induction v as [|c v IH]; [cbn; lia|]. cbn [flat_map List.length]. rewrite app_length.
  pose proof (proj1 (esc_char_len c)). lia.
Qed.

(* conversely, a special character changes under escape (so the raw reading differs from what was written) *)
Lemma escape_fixed_iff_no_special v : escape v = v -> no_special v.
Proof.
  unfold no_special. induction v as [|c v IH]; [reflexivity|].
  change (escape (c :: v)) with (esc_char c ++ escape v). cbn [forallb]. intro H. destruct (special c) eqn:Es.
  - exfalso. apply (f_equal (@List.length N)) in H. rewrite app_length in H. cbn [List.length] in H.
    pose proof (proj2 (esc_char_len c) Es). pose proof (escape_len_ge v). lia.
  - rewrite esc_char_plain in H by exact Es. cbn [app] in H. injection H as H1. cbn [negb andb]. apply IH. exact H1.
Qed.

(* an escaped value never contains a double quote (nor any other special character except '&') *)
Lemma escape_no_dquote v : ~ In 34 (escape v).
Proof.
  unfold escape. induction v as [|c v IH]; [intros []|].
  cbn [flat_map]. rewrite in_app_iff. intros [H|H]; [|exact (IH H)].
  unfold esc_char in H.
  destruct (c =? 60); [vm_compute in H; intuition discriminate|].
  destruct (c =? 62); [vm_compute in H; intuition discriminate|].
  destruct (c =? 39); [vm_compute in H; intuition discriminate|].
  destruct (c =? 38); [vm_compute in H; intuition discriminate|].
  destruct (c =? 34) eqn:E; [vm_compute in H; intuition discriminate|].
  destruct H as [H|[]]. subst. discriminate.
Qed.

(* ------------------------------------------------------------------ quoted values *)
Lemma until_app q a rest : ~ In q a -> until q (a ++ q :: rest) = Some (a, rest).
Proof.
  induction a as [|c a IH]; intro H; cbn [app until].
  - rewrite N.eqb_refl. reflexivity.
  - destruct (c =? q) eqn:E; [apply N.eqb_eq in E; subst; exfalso; apply H; left; reflexivity|].
    rewrite IH by (intro H1; apply H; right; exact H1). reflexivity.
Qed.

(* what was written as  "raw"  is read back as raw when raw has no double quote ... *)
Lemma read_written_value raw rest : ~ In 34 raw -> read_quoted (34 :: raw ++ 34 :: rest) = Some (raw, rest).
Proof. intro H. cbn [read_quoted]. cbn. apply until_app. exact H. Qed.

(* ... in particular every freshly written (escaped) value *)
Lemma read_new_value v rest : read_quoted (34 :: escape v ++ 34 :: rest) = Some (escape v, rest).
Proof. apply read_written_value. apply escape_no_dquote. Qed.

(* ------------------------------------------------------------------ the attribute loop *)
Definition repl (k v : bytes) (a : attr) : attr := if beqb (fst a) k then (k, escape v) else a.

Lemma add_loop_spec k v attrs :
  add_loop k v attrs = (map (repl k v) attrs, existsb (fun a => beqb (fst a) k) attrs).
Proof.
  induction attrs as [|[k' raw] r IH]; [reflexivity|].
  cbn [add_loop map existsb fst]. rewrite IH. unfold repl. cbn [fst].
  destruct (beqb k' k); reflexivity.
Qed.

(* the complete effect on the attribute list: matching entries are replaced in place, the others are kept as they
   are and in order; when nothing matched the new attribute is appended *)
Lemma add_attrs_spec k v attrs :
  add_attrs k v attrs =
  map (repl k v) attrs ++ (if existsb (fun a => beqb (fst a) k) attrs then [] else [(k, escape v)]).
Proof.
  unfold add_attrs. rewrite add_loop_spec.
  destruct (existsb (fun a => beqb (fst a) k) attrs); [rewrite app_nil_r|]; reflexivity.
Qed.

Lemma find_attr_app k a b :
  find_attr k (a ++ b) = match find_attr k a with Some x => Some x | None => find_attr k b end.
Proof.
  induction a as [|[k' raw] r IH]; [reflexivity|]. cbn. destruct (beqb k' k); [reflexivity|exact IH].
Qed.

Lemma find_attr_none_existsb k attrs :
  existsb (fun a => beqb (fst a) k) attrs = false -> find_attr k attrs = None.
Proof.
  induction attrs as [|[k' raw] r IH]; [reflexivity|]. cbn. destruct (beqb k' k); [discriminate|exact IH].
Qed.

Lemma find_repl_same k v attrs :
  find_attr k (map (repl k v) attrs) = if existsb (fun a => beqb (fst a) k) attrs then Some (escape v) else None.
Proof.
  induction attrs as [|[k' raw] r IH]; [reflexivity|]. cbn [map existsb fst]. unfold repl at 1. cbn [fst].
  destruct (beqb k' k) eqn:E; cbn [find_attr orb].
  - rewrite beqb_refl. reflexivity.
  - rewrite E. exact IH.
Qed.

Lemma find_repl_other k k' v attrs : k' <> k -> find_attr k' (map (repl k v) attrs) = find_attr k' attrs.
Proof.
  intro Hne. induction attrs as [|[k2 raw] r IH]; [reflexivity|]. cbn [map]. unfold repl at 1. cbn [fst].
  destruct (beqb k2 k) eqn:E; cbn [find_attr].
  - apply beqb_eq in E. subst k2.
    assert (beqb k k' = false) as -> by (apply beqb_neq; congruence). exact IH.
  - destruct (beqb k2 k'); [reflexivity|exact IH].
Qed.

Lemma find_added k v attrs : find_attr k (add_attrs k v attrs) = Some (escape v).
Proof.
  rewrite add_attrs_spec, find_attr_app, find_repl_same.
  destruct (existsb (fun a => beqb (fst a) k) attrs); [reflexivity|]. cbn. rewrite beqb_refl. reflexivity.
Qed.

Lemma find_other k k' v attrs : k' <> k -> find_attr k' (add_attrs k v attrs) = find_attr k' attrs.
Proof.
  intro Hne. rewrite add_attrs_spec, find_attr_app, find_repl_other by exact Hne.
  destruct (find_attr k' attrs); [reflexivity|].
  destruct (existsb (fun a => beqb (fst a) k) attrs); [reflexivity|]. cbn.
  assert (beqb k k' = false) as -> by (apply beqb_neq; congruence). reflexivity.
Qed.

Lemma keys_repl k v attrs : map fst (map (repl k v) attrs) = map fst attrs.
Proof.
  induction attrs as [|[k' raw] r IH]; [reflexivity|]. cbn [map]. rewrite IH. unfold repl. cbn [fst].
  destruct (beqb k' k) eqn:E; [apply beqb_eq in E; subst|]; reflexivity.
Qed.

(* the attribute names keep their order; a new name goes last *)
Lemma keys_added k v attrs :
  map fst (add_attrs k v attrs) = map fst attrs ++ (if existsb (beqb k) (map fst attrs) then [] else [k]).
Proof.
  rewrite add_attrs_spec, map_app, keys_repl. f_equal.
  assert (E : existsb (fun a => beqb (fst a) k) attrs = existsb (beqb k) (map fst attrs)).
  { induction attrs as [|[k' raw] r IH]; [reflexivity|]. cbn. rewrite IH. f_equal.
    destruct (beqb k' k) eqn:E1; [apply beqb_eq in E1; subst; symmetry; apply beqb_refl|].
    symmetry. apply beqb_neq. apply beqb_neq in E1. congruence. }
  rewrite E. destruct (existsb (beqb k) (map fst attrs)); reflexivity.
Qed.

Lemma existsb_app_single k (l : list bytes) x : existsb (beqb k) (l ++ [x]) = existsb (beqb k) l || beqb k x.
Proof. rewrite existsb_app. cbn. rewrite orb_false_r. reflexivity. Qed.

Lemma has_dup_app_single l x : has_dup (l ++ [x]) = has_dup l || existsb (beqb x) l.
Proof.
  induction l as [|y l IH]; [reflexivity|]. cbn [app has_dup existsb]. rewrite IH, existsb_app_single.
  assert (beqb y x = beqb x y) as ->.
  { destruct (beqb y x) eqn:E; [apply beqb_eq in E; subst; symmetry; apply beqb_refl|].
    symmetry. apply beqb_neq. apply beqb_neq in E. congruence. }
  destruct (existsb (beqb y) l), (beqb x y), (has_dup l), (existsb (beqb x) l); reflexivity.
Qed.

Lemma has_dup_added k v attrs : has_dup (map fst attrs) = false -> has_dup (map fst (add_attrs k v attrs)) = false.
Proof.
  intro H. rewrite keys_added. destruct (existsb (beqb k) (map fst attrs)) eqn:E; [rewrite app_nil_r; exact H|].
  rewrite has_dup_app_single, H, E. reflexivity.
Qed.

(* ------------------------------------------------------------------ padding *)
Lemma len_repeat (c : N) n : len (repeat c n) = N.of_nat n.
Proof. unfold len. rewrite repeat_length. reflexivity. Qed.

Lemma pad_loop_len fuel : forall remaining, (N.to_nat remaining <= fuel)%nat -> len (pad_loop fuel remaining) = remaining.
Proof.
  induction fuel as [|f IH]; intros remaining Hf.
  - cbn. unfold len. cbn. lia.
  - cbn [pad_loop]. destruct (remaining =? 0) eqn:E0; [unfold len; cbn; lia|].
    rewrite len_app, len_repeat.
    destruct (0 <? remaining - N.min remaining 99) eqn:E1.
    + rewrite len_cons, IH by lia. lia.
    + rewrite len_nil. lia.
Qed.

Lemma len_XMP_END : len XMP_END = 19.
Proof. reflexivity. Qed.

(* write_xmp_padding(len) writes max(len, 1) bytes and then the 19-byte trailer *)
Lemma padding_len n : len (padding n) = N.max n 1 + 19.
Proof.
  unfold padding. rewrite len_cons, len_app, len_XMP_END.
  destruct (0 <? n - 1) eqn:E.
  - rewrite len_app, pad_loop_len by lia. change (len [10]) with 1. lia.
  - rewrite len_nil. lia.
Qed.

(* ------------------------------------------------------------------ documents *)
Definition no_panic (d : xdoc) : Prop := trailer d && (orig_len d <? 19) = false.

Lemma add_xmp_key_ok d k v attrs e :
  desc d = Some (attrs, e) -> has_dup (map fst attrs) = false -> no_panic d ->
  exists out,
    add_xmp_key d k v =
    XOk out {| pre := pre d; desc := Some (add_attrs k v attrs, e); post := rtrim (post d); trailer := true; orig_len := len out |}
    /\ out = body (pre d) (Some (add_attrs k v attrs, e)) (post d)
             ++ padding ((if trailer d then orig_len d - 19 else N.max (orig_len d) 4096)
                         - len (body (pre d) (Some (add_attrs k v attrs, e)) (post d)))
    /\ 19 <= len out.
Proof.
  intros Hd Hnd Hp. unfold add_xmp_key. unfold no_panic in Hp. rewrite Hp, Hd, Hnd.
  eexists. split; [reflexivity|]. split; [reflexivity|]. rewrite len_app, padding_len. lia.
Qed.

Section RoundTrip.
  Variable charref : bytes -> option bytes.
  Variable scan : bytes -> bytes -> option bytes.
  Notation extract := (extract_xmp_key charref scan).

  (* with an extraction that unescapes (the repair): every value comes back *)
  Lemma roundtrip_fixed d k v attrs e :
    desc d = Some (attrs, e) -> has_dup (map fst attrs) = false -> no_panic d -> scan k (pre d) = None ->
    exists out d', add_xmp_key d k v = XOk out d' /\ extract true d' k = Some v.
  Proof.
    intros Hd Hnd Hp Hs. destruct (add_xmp_key_ok d k v attrs e Hd Hnd Hp) as (out & H & _).
    eexists _, _. split; [exact H|]. unfold extract_xmp_key. cbn [pre desc]. rewrite Hs, find_added, decode_escape. reflexivity.
  Qed.

  (* with the extraction as coded (raw attribute bytes): values without XML special characters come back *)
  Lemma roundtrip_raw d k v attrs e :
    desc d = Some (attrs, e) -> has_dup (map fst attrs) = false -> no_panic d -> scan k (pre d) = None ->
    no_special v ->
    exists out d', add_xmp_key d k v = XOk out d' /\ extract false d' k = Some v.
  Proof.
    intros Hd Hnd Hp Hs Hv. destruct (add_xmp_key_ok d k v attrs e Hd Hnd Hp) as (out & H & _).
    eexists _, _. split; [exact H|]. unfold extract_xmp_key. cbn [pre desc]. rewrite Hs, find_added. cbn [decode].
    rewrite escape_no_special by exact Hv. reflexivity.
  Qed.

  (* ... and exactly those: the raw reading returns escape v, which is v only when v has no special character *)
  Lemma roundtrip_raw_exact d k v attrs e :
    desc d = Some (attrs, e) -> has_dup (map fst attrs) = false -> no_panic d -> scan k (pre d) = None ->
    exists out d', add_xmp_key d k v = XOk out d' /\ extract false d' k = Some (escape v)
                   /\ (extract false d' k = Some v <-> no_special v).
  Proof.
    intros Hd Hnd Hp Hs. destruct (add_xmp_key_ok d k v attrs e Hd Hnd Hp) as (out & H & _).
    eexists _, _. split; [exact H|]. unfold extract_xmp_key. cbn [pre desc]. rewrite Hs, find_added. cbn [decode].
    split; [reflexivity|]. split.
    - intro E. injection E as E1. apply escape_fixed_iff_no_special. exact E1.
    - intro Hv. rewrite escape_no_special by exact Hv. reflexivity.
  Qed.

  (* either way, for the flag the source currently has *)
  Lemma roundtrip_flag (flag : bool) d k v attrs e :
    desc d = Some (attrs, e) -> has_dup (map fst attrs) = false -> no_panic d -> scan k (pre d) = None ->
    flag = true \/ no_special v ->
    exists out d', add_xmp_key d k v = XOk out d' /\ extract flag d' k = Some v.
  Proof.
    intros Hd Hnd Hp Hs [->|Hv]; [eapply roundtrip_fixed; eassumption|].
    destruct flag; [eapply roundtrip_fixed; eassumption|eapply roundtrip_raw; eassumption].
  Qed.

  (* everything else is kept: the bytes before and after the element, every other attribute (name, raw value, order),
     and the way the element is closed *)
  Lemma others_preserved d k v attrs e out d' :
    desc d = Some (attrs, e) -> has_dup (map fst attrs) = false -> no_panic d ->
    add_xmp_key d k v = XOk out d' ->
    exists attrs',
      desc d' = Some (attrs', e) /\ pre d' = pre d /\
      attrs' = map (repl k v) attrs ++ (if existsb (fun a => beqb (fst a) k) attrs then [] else [(k, escape v)]) /\
      (forall k', k' <> k -> find_attr k' attrs' = find_attr k' attrs) /\
      (forall k', k' <> k -> extract false d' k' = extract false d k' \/ post d' <> post d) /\
      exists pad, out = pre d ++ write_elem attrs' e ++ post d ++ pad.
  Proof.
    intros Hd Hnd Hp H. destruct (add_xmp_key_ok d k v attrs e Hd Hnd Hp) as (out0 & H0 & Hout & _).
    rewrite H0 in H. injection H as E1 E2. subst d'. rewrite <- E1. clear E1.
    exists (add_attrs k v attrs). cbn [desc pre post]. split; [reflexivity|]. split; [reflexivity|].
    split; [apply add_attrs_spec|]. split; [intros; apply find_other; assumption|]. split.
    - intros k' Hne. destruct (list_eq_dec N.eq_dec (rtrim (post d)) (post d)) as [E|E]; [left|right; exact E].
      unfold extract_xmp_key. cbn [pre desc post]. rewrite Hd, E, find_other by exact Hne. reflexivity.
    - eexists. rewrite Hout at 1. unfold body. rewrite <- !app_assoc. reflexivity.
  Qed.

  (* add_provenance (two add_xmp_key calls) followed by extract_provenance *)
  Lemma provenance_roundtrip (flag : bool) d v attrs e :
    desc d = Some (attrs, e) -> has_dup (map fst attrs) = false -> no_panic d -> scan PROVENANCE (pre d) = None ->
    flag = true \/ no_special v ->
    exists out d', add_provenance d v = XOk out d' /\ extract_provenance charref scan flag d' = Some v
                   /\ exists attrs', desc d' = Some (attrs', e) /\ find_attr XMLNS_DCTERMS attrs' = Some DCTERMS_URI
                                     /\ forall k', k' <> PROVENANCE -> k' <> XMLNS_DCTERMS -> find_attr k' attrs' = find_attr k' attrs.
  Proof.
    intros Hd Hnd Hp Hs Hv. unfold add_provenance.
    destruct (add_xmp_key_ok d XMLNS_DCTERMS DCTERMS_URI attrs e Hd Hnd Hp) as (out1 & H1 & _ & Hl1). rewrite H1.
    set (d1 := {| pre := pre d; desc := Some (add_attrs XMLNS_DCTERMS DCTERMS_URI attrs, e); post := rtrim (post d);
                  trailer := true; orig_len := len out1 |}).
    assert (Hd1 : desc d1 = Some (add_attrs XMLNS_DCTERMS DCTERMS_URI attrs, e)) by reflexivity.
    assert (Hnd1 : has_dup (map fst (add_attrs XMLNS_DCTERMS DCTERMS_URI attrs)) = false) by (apply has_dup_added; exact Hnd).
    assert (Hp1 : no_panic d1).
    { unfold no_panic, d1. cbn [trailer orig_len]. destruct (len out1 <? 19) eqn:E; [lia|reflexivity]. }
    destruct (roundtrip_flag flag d1 PROVENANCE v _ e Hd1 Hnd1 Hp1 Hs Hv) as (out & d' & H2 & H3).
    exists out, d'. split; [exact H2|]. split; [exact H3|].
    destruct (add_xmp_key_ok d1 PROVENANCE v _ e Hd1 Hnd1 Hp1) as (out2 & H4 & _). rewrite H4 in H2. inversion H2; subst.
    eexists. cbn [desc]. split; [reflexivity|]. split.
    - rewrite find_other by (vm_compute; discriminate). rewrite find_added.
      vm_compute. reflexivity.
    - intros k' Hn1 Hn2. rewrite find_other by exact Hn1. apply find_other. exact Hn2.
  Qed.
End RoundTrip.

(* the packet keeps its length when the new body fits before the old trailer *)
Lemma packet_length_kept d k v attrs e out d' :
  desc d = Some (attrs, e) -> has_dup (map fst attrs) = false -> no_panic d ->
  add_xmp_key d k v = XOk out d' ->
  len out = N.max (len (body (pre d) (Some (add_attrs k v attrs, e)) (post d)) + 1)
                  (if trailer d then orig_len d - 19 else N.max (orig_len d) 4096) + 19.
Proof.
  intros Hd Hnd Hp H. destruct (add_xmp_key_ok d k v attrs e Hd Hnd Hp) as (out0 & H0 & Hout & _).
  rewrite H0 in H. injection H as E1 E2. rewrite <- E1. rewrite Hout at 1. rewrite len_app, padding_len. lia.
Qed.

Lemma packet_length_kept_trailer d k v attrs e out d' :
  desc d = Some (attrs, e) -> has_dup (map fst attrs) = false -> no_panic d -> trailer d = true ->
  add_xmp_key d k v = XOk out d' ->
  len (body (pre d) (Some (add_attrs k v attrs, e)) (post d)) + 19 < orig_len d ->
  len out = orig_len d.
Proof.
  intros Hd Hnd Hp Ht H Hfit. rewrite (packet_length_kept d k v attrs e out d' Hd Hnd Hp H), Ht. lia.
Qed.


(* ------------------------------------------------------------------ the known classes are real *)
Definition min_doc : xdoc :=
  {| pre := str "<?xpacket begin="""" id=""W5M0MpCehiHzreSzNTczkc9d""?><x:xmpmeta xmlns:x=""adobe:ns:meta/"" x:xmptk=""XMP Core 6.0.0""><rdf:RDF xmlns:rdf=""http://www.w3.org/1999/02/22-rdf-syntax-ns#"">";
     desc := Some ([(str "rdf:about", []); (str "xmlns:xmp", str "http://ns.adobe.com/xap/1.0/");
                    (str "xmlns:xmpMM", str "http://ns.adobe.com/xap/1.0/mm/"); (str "xmlns:dc", str "http://purl.org/dc/elements/1.1/");
                    (str "xmlns:dcterms", str "http://purl.org/dc/terms/");
                    (str "xmpMM:DocumentID", str "xmp.did:cb9f5498-bb58-4572-8043-8c369e6bfb9b");
                    (str "xmpMM:InstanceID", str "xmp.iid:cb9f5498-bb58-4572-8043-8c369e6bfb9b")], false);
     post := str " </rdf:Description></rdf:RDF></x:xmpmeta>";
     trailer := true;
     orig_len := 568 |}.
Definition amp_url : bytes := str "https://e.com/m?a=1&b=2".

(* F-XMP-ESC: the raw extraction returns the escaped spelling of a URL containing '&' *)
Lemma raw_roundtrip_refuted :
  exists out d', add_provenance min_doc amp_url = XOk out d'
                 /\ extract_provenance (fun _ => None) (fun _ _ => None) false d' = Some (str "https://e.com/m?a=1&amp;b=2")
                 /\ extract_provenance (fun _ => None) (fun _ _ => None) false d' <> Some amp_url
                 /\ extract_provenance (fun _ => None) (fun _ _ => None) true d' = Some amp_url.
Proof.
  destruct (add_provenance min_doc amp_url) as [out d'| |] eqn:E; [|vm_compute in E; discriminate|vm_compute in E; discriminate].
  exists out, d'. split; [reflexivity|].
  assert (Hd : desc d' = desc (match add_provenance min_doc amp_url with XOk _ x => x | _ => min_doc end)) by (rewrite E; reflexivity).
  assert (Hp : pre d' = pre (match add_provenance min_doc amp_url with XOk _ x => x | _ => min_doc end)) by (rewrite E; reflexivity).
  unfold extract_provenance, extract_xmp_key. rewrite Hd. clear E Hd Hp.
  repeat split; try (vm_compute; reflexivity). vm_compute. discriminate.
Qed.

(* F-XMP-QUOTE: an existing value containing a double quote (legal inside single quotes) is not read back once it
   has been re-written between double quotes *)
Lemma reread_existing_refuted :
  exists raw rest, In 34 raw /\ read_quoted (34 :: raw ++ 34 :: rest) <> Some (raw, rest).
Proof. exists [120; 34; 121], [62]. split; [right; left; reflexivity|]. vm_compute. discriminate. Qed.
