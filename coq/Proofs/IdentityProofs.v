(* Proofs/IdentityProofs.v — facts about Model/Identity.v (CAWG identity assertion validation). *)
From Coq Require Import List NArith Bool Lia String.
From C2PA Require Import Base.Bytes Model.ByteStr Generated.C33_facts Generated.C04_facts Model.Identity
     Model.ValState Proofs.ByteStrProofs Proofs.ValStateProofs.
Import ListNotations.
Open Scope N_scope.

Definition cawg_prefix : bytes := b "cawg.".

(* ------------------------------------------------------------------ logs *)

Lemma failure_codes_app l1 l2 : failure_codes (l1 ++ l2) = failure_codes l1 ++ failure_codes l2.
Proof. unfold failure_codes. rewrite filter_app, map_app. reflexivity. Qed.

Lemma success_codes_app l1 l2 : success_codes (l1 ++ l2) = success_codes l1 ++ success_codes l2.
Proof. unfold success_codes. rewrite filter_app, map_app. reflexivity. Qed.

Lemma failure_codes_snoc l c : failure_codes (l ++ [IT c KF]) = failure_codes l ++ [c].
Proof. rewrite failure_codes_app. reflexivity. Qed.

Lemma snoc_nil_False {A} (l : list A) x : l ++ [x] = [] -> False.
Proof. destruct l; discriminate. Qed.

Lemma logged_failure_not_clean log c ext : failure_codes ((log ++ [IT c KF]) ++ ext) = [] -> False.
Proof.
  rewrite failure_codes_app, failure_codes_snoc. intros H.
  apply app_eq_nil in H. destruct H as [H _]. eapply snoc_nil_False; exact H.
Qed.

Lemma logged_failure_not_clean0 log c : failure_codes (log ++ [IT c KF]) = [] -> False.
Proof. intros H. apply (logged_failure_not_clean log c []). rewrite app_nil_r. exact H. Qed.

Lemma In_failure_codes c l : In (IT c KF) l -> In c (failure_codes l).
Proof.
  intros H. unfold failure_codes. apply in_map_iff. exists (IT c KF). split; [reflexivity|].
  apply filter_In. split; [exact H | reflexivity].
Qed.

Lemma existsb_beq_false c l : existsb (beq c) l = false <-> ~ In c l.
Proof.
  split; intros H.
  - intros Hin. apply existsb_beq_In in Hin. congruence.
  - destruct (existsb (beq c) l) eqn:E; [apply existsb_beq_In in E; contradiction | reflexivity].
Qed.

(* ------------------------------------------------------------------ every stage only appends to the log *)

Lemma check_padding_ext stop a log : exists ext, fst (check_padding stop a log) = log ++ ext.
Proof.
  unfold check_padding, log_failure.
  destruct (nonzero (pad1 a)); [eexists; reflexivity|].
  destruct (pad2 a) as [p|]; [destruct (nonzero p)|]; cbn [fst];
    first [ eexists; reflexivity | exists []; rewrite app_nil_r; reflexivity ].
Qed.

Lemma check_refs_ext mm stop claim rs :
  forall log, exists ext, fst (check_refs mm stop claim rs log) = log ++ ext.
Proof.
  induction rs as [|r t IH]; intros log; cbn [check_refs].
  - exists []. rewrite app_nil_r. reflexivity.
  - destruct (find_claim claim r) as [x|].
    + destruct (beq (hhash x) (hhash r)); [apply IH|].
      destruct mm; cbn [fst]; [eexists; reflexivity | exists []; rewrite app_nil_r; reflexivity].
    + destruct stop; cbn [fst]; [eexists; reflexivity|].
      destruct (IH (log ++ [IT c_assertion_mismatch KF])) as [e He]. rewrite He, <- app_assoc.
      eexists; reflexivity.
Qed.

Lemma check_hard_ext stop rs log : exists ext, fst (check_hard stop rs log) = log ++ ext.
Proof.
  unfold check_hard, log_failure. destruct (existsb _ rs); cbn [fst];
    [exists []; rewrite app_nil_r; reflexivity | eexists; reflexivity].
Qed.

Lemma check_dups_ext stop labels :
  forall seen log, exists ext, fst (check_dups stop labels seen log) = log ++ ext.
Proof.
  induction labels as [|l t IH]; intros seen log; cbn [check_dups].
  - exists []. rewrite app_nil_r. reflexivity.
  - destruct (existsb (beq l) seen); [|apply IH].
    destruct stop; cbn [fst]; [eexists; reflexivity|].
    destruct (IH (l :: seen) (log ++ [IT c_assertion_duplicate KF])) as [e He]. rewrite He, <- app_assoc.
    eexists; reflexivity.
Qed.

Lemma check_against_claim_ext mm stop claim p log :
  exists ext, fst (check_against_claim mm stop claim p log) = log ++ ext.
Proof.
  unfold check_against_claim.
  destruct (check_refs_ext mm stop claim (refs p) log) as [e1 H1].
  destruct (check_refs mm stop claim (refs p) log) as [l1 [e|]]; cbn [fst] in *; [exists e1; exact H1|].
  destruct (check_hard_ext stop (refs p) l1) as [e2 H2].
  destruct (check_hard stop (refs p) l1) as [l2 [e|]]; cbn [fst] in *.
  - subst. rewrite <- app_assoc. eexists; reflexivity.
  - destruct (check_dups_ext stop (map hurl (refs p)) [] l2) as [e3 H3]. rewrite H3. subst.
    rewrite <- !app_assoc. eexists; reflexivity.
Qed.

Section WithOracles.
  Variable enc : payload -> bytes.
  Variable Verify : bytes -> bytes -> vout.
  Variable IcaVerify : payload -> bytes -> vout.

  Lemma check_signature_ext ust se a log :
    exists ext, fst (check_signature enc Verify IcaVerify ust se a log) = log ++ ext.
  Proof.
    unfold check_signature.
    destruct (beq (sig_type (ia_payload a)) sig_type_x509).
    - destruct (vres_ (Verify (ia_sig a) (enc (ia_payload a)))); [| | |destruct se]; cbn [fst];
        rewrite <- ?app_assoc; eexists; reflexivity.
    - destruct (beq (sig_type (ia_payload a)) sig_type_ica).
      + destruct (vres_ (IcaVerify (ia_payload a) (ia_sig a))); cbn [fst]; eexists; reflexivity.
      + destruct ust; cbn [fst]; [eexists; reflexivity | exists []; rewrite app_nil_r; reflexivity].
  Qed.

  Lemma validate_ext mm ust se stop claim a log :
    exists ext, fst (validate enc Verify IcaVerify mm ust se stop claim a log) = log ++ ext.
  Proof.
    unfold validate.
    destruct (check_padding_ext stop a log) as [e1 H1].
    destruct (check_padding stop a log) as [l1 [e|]]; cbn [fst] in *; [exists e1; exact H1|].
    destruct (check_against_claim_ext mm stop claim (ia_payload a) l1) as [e2 H2].
    destruct (check_against_claim mm stop claim (ia_payload a) l1) as [l2 [e|]]; cbn [fst] in *.
    - subst. rewrite <- app_assoc. eexists; reflexivity.
    - destruct (check_signature_ext ust se a l2) as [e3 H3]. rewrite H3. subst. rewrite <- !app_assoc.
      eexists; reflexivity.
  Qed.

  (* ---------------------------------------------------------------- a clean log means every check passed *)

  Lemma check_padding_clean stop a log l1 o :
    check_padding stop a log = (l1, o) -> failure_codes l1 = [] ->
    nonzero (pad1 a) = false /\ (forall p, pad2 a = Some p -> nonzero p = false) /\ o = None /\ l1 = log.
  Proof.
    unfold check_padding, log_failure. intros H HF.
    destruct (nonzero (pad1 a)) eqn:E1.
    - inversion H; subst. exfalso. eapply logged_failure_not_clean0; exact HF.
    - destruct (pad2 a) as [p|] eqn:E2.
      + destruct (nonzero p) eqn:E3; inversion H; subst.
        * exfalso. eapply logged_failure_not_clean0; exact HF.
        * repeat split; auto. intros p' Hp. inversion Hp; subst. exact E3.
      + inversion H; subst. repeat split; auto. discriminate.
  Qed.

  Lemma check_refs_clean mm stop claim rs :
    forall log l1 o, check_refs mm stop claim rs log = (l1, o) -> failure_codes l1 = [] ->
      l1 = log /\
      match o with
      | None => forall r, In r rs -> exists x, find_claim claim r = Some x /\ hhash x = hhash r
      | Some e => mm = false /\ exists r x, In r rs /\ find_claim claim r = Some x /\ hhash x <> hhash r
                                        /\ e = EAssertionMismatch (hurl r)
      end.
  Proof.
    induction rs as [|r t IH]; intros log l1 o H HF; cbn [check_refs] in H.
    - inversion H; subst. split; [reflexivity|]. intros r [].
    - destruct (find_claim claim r) as [x|] eqn:EF.
      + destruct (beq (hhash x) (hhash r)) eqn:EB.
        * destruct (IH _ _ _ H HF) as [-> Ho]. split; [reflexivity|]. destruct o as [e|].
          -- destruct Ho as [Hm [r' [x' [Hin Hr]]]]. split; [exact Hm|]. exists r', x'. split; [right; exact Hin | exact Hr].
          -- intros r' [<-|Hin]; [exists x; split; [exact EF | apply beq_eq; exact EB] | apply Ho; exact Hin].
        * destruct mm; inversion H; subst.
          -- exfalso. eapply logged_failure_not_clean0; exact HF.
          -- split; [reflexivity|]. split; [reflexivity|]. exists r, x. repeat split; auto.
             ++ left; reflexivity.
             ++ apply beq_neq; exact EB.
      + destruct stop.
        * inversion H; subst. exfalso. eapply logged_failure_not_clean0; exact HF.
        * destruct (check_refs_ext mm false claim t (log ++ [IT c_assertion_mismatch KF])) as [ext He].
          rewrite H in He. cbn [fst] in He. subst l1. exfalso. eapply logged_failure_not_clean; exact HF.
  Qed.

  Lemma check_hard_clean stop rs log l1 o :
    check_hard stop rs log = (l1, o) -> failure_codes l1 = [] ->
    existsb (fun r => is_hard_ref (hurl r)) rs = true /\ o = None /\ l1 = log.
  Proof.
    unfold check_hard, log_failure. intros H HF. destruct (existsb _ rs) eqn:E; inversion H; subst.
    - auto.
    - exfalso. eapply logged_failure_not_clean0; exact HF.
  Qed.

  Lemma check_dups_clean stop labels :
    forall seen log l1 o, check_dups stop labels seen log = (l1, o) -> failure_codes l1 = [] ->
      l1 = log /\ o = None /\ NoDup labels /\ (forall l, In l labels -> ~ In l seen).
  Proof.
    induction labels as [|l t IH]; intros seen log l1 o H HF; cbn [check_dups] in H.
    - inversion H; subst. repeat split; [constructor | intros l []].
    - destruct (existsb (beq l) seen) eqn:E.
      + destruct stop.
        * inversion H; subst. exfalso. eapply logged_failure_not_clean0; exact HF.
        * destruct (check_dups_ext false t (l :: seen) (log ++ [IT c_assertion_duplicate KF])) as [ext He].
          rewrite H in He. cbn [fst] in He. subst l1. exfalso. eapply logged_failure_not_clean; exact HF.
      + destruct (IH _ _ _ _ H HF) as [-> [-> [ND Hd]]]. repeat split.
        * constructor; [|exact ND]. intros Hin. apply (Hd l Hin). left; reflexivity.
        * intros l' [<-|Hin]; [apply existsb_beq_false; exact E|].
          intros Hs. apply (Hd l' Hin). right; exact Hs.
  Qed.

  Definition refs_bound (claim : list href) (p : payload) : Prop :=
    (forall r, In r (refs p) -> exists x, find_claim claim r = Some x /\ hhash x = hhash r)
    /\ existsb (fun r => is_hard_ref (hurl r)) (refs p) = true
    /\ NoDup (map hurl (refs p)).

  Lemma check_against_claim_clean mm stop claim p log l1 o :
    check_against_claim mm stop claim p log = (l1, o) -> failure_codes l1 = [] ->
    l1 = log /\
    match o with
    | None => refs_bound claim p
    | Some e => mm = false /\ exists r x, In r (refs p) /\ find_claim claim r = Some x /\ hhash x <> hhash r
                                      /\ e = EAssertionMismatch (hurl r)
    end.
  Proof.
    unfold check_against_claim. intros H HF.
    destruct (check_refs mm stop claim (refs p) log) as [la oa] eqn:EA.
    destruct oa as [e|].
    - inversion H; subst. exact (check_refs_clean _ _ _ _ _ _ _ EA HF).
    - destruct (check_hard stop (refs p) la) as [lb ob] eqn:EB.
      destruct ob as [e|].
      + inversion H; subst. destruct (check_hard_clean _ _ _ _ _ EB HF) as [_ [Hn _]]. discriminate.
      + assert (HFb : failure_codes lb = []).
        { destruct (check_dups_ext stop (map hurl (refs p)) [] lb) as [ext He]. rewrite H in He. cbn [fst] in He.
          subst l1. rewrite failure_codes_app in HF. apply app_eq_nil in HF. exact (proj1 HF). }
        destruct (check_hard_clean _ _ _ _ _ EB HFb) as [Hh [_ Elb]]. subst lb.
        destruct (check_refs_clean _ _ _ _ _ _ _ EA HFb) as [Ela Hr]. subst la.
        destruct (check_dups_clean _ _ _ _ _ _ H HF) as [-> [-> [ND _]]].
        split; [reflexivity|]. repeat split; assumption.
  Qed.
End WithOracles.

(* ------------------------------------------------------------------ acceptance is sound; rejections are classified *)

Section Soundness.
  Variable enc : payload -> bytes.
  Variable Verify : bytes -> bytes -> vout.
  Variable IcaVerify : payload -> bytes -> vout.

  Definition sig_ok (a : ia) : Prop :=
    (sig_type (ia_payload a) = sig_type_x509
       /\ vres_ (Verify (ia_sig a) (enc (ia_payload a))) = VOk
       /\ failure_codes (map remap_item (vlog (Verify (ia_sig a) (enc (ia_payload a))))) = [])
    \/ (sig_type (ia_payload a) <> sig_type_x509 /\ sig_type (ia_payload a) = sig_type_ica
       /\ vres_ (IcaVerify (ia_payload a) (ia_sig a)) = VOk
       /\ failure_codes (vlog (IcaVerify (ia_payload a) (ia_sig a))) = []).

  (* rejected without any failure code: the classes of errors that are returned but never logged *)
  Definition silent_class (mm ust se : bool) (claim : list href) (a : ia) (e : verr) : Prop :=
    (mm = false /\ exists r x, In r (refs (ia_payload a)) /\ find_claim claim r = Some x /\ hhash x <> hhash r
                             /\ e = EAssertionMismatch (hurl r))
    \/ (e = ESignatureError /\ sig_type (ia_payload a) = sig_type_x509
        /\ ((vres_ (Verify (ia_sig a) (enc (ia_payload a))) = VErr /\ se = false)
            \/ vres_ (Verify (ia_sig a) (enc (ia_payload a))) = VParse))
    \/ (e = EUnknownSigType /\ sig_type (ia_payload a) <> sig_type_x509
        /\ (sig_type (ia_payload a) = sig_type_ica \/ ust = false)).

  Lemma check_signature_clean ust se a log l r :
    check_signature enc Verify IcaVerify ust se a log = (l, r) -> failure_codes log = [] -> failure_codes l = [] ->
    match r with
    | ROk => sig_ok a
    | RErr e => (e = ESignatureError /\ sig_type (ia_payload a) = sig_type_x509
                 /\ ((vres_ (Verify (ia_sig a) (enc (ia_payload a))) = VErr /\ se = false)
                     \/ vres_ (Verify (ia_sig a) (enc (ia_payload a))) = VParse))
                \/ (e = EUnknownSigType /\ sig_type (ia_payload a) <> sig_type_x509
                    /\ (sig_type (ia_payload a) = sig_type_ica \/ ust = false))
    end.
  Proof.
    unfold check_signature. intros H HL HF.
    destruct (beq (sig_type (ia_payload a)) sig_type_x509) eqn:EX.
    - apply beq_eq in EX.
      destruct (vres_ (Verify (ia_sig a) (enc (ia_payload a)))) eqn:EV; inversion H; subst.
      + left. repeat split; auto.
        rewrite !failure_codes_app, HL in HF. cbn [app] in HF. apply app_eq_nil in HF. exact (proj1 HF).
      + exfalso. eapply logged_failure_not_clean0; exact HF.
      + left. auto.
      + destruct se.
        * exfalso. eapply logged_failure_not_clean0; exact HF.
        * left. auto.
    - apply beq_neq in EX.
      destruct (beq (sig_type (ia_payload a)) sig_type_ica) eqn:EI.
      + apply beq_eq in EI.
        destruct (vres_ (IcaVerify (ia_payload a) (ia_sig a))) eqn:EV; inversion H; subst.
        * right. repeat split; auto. rewrite failure_codes_app, HL in HF. exact HF.
        * right. auto.
        * right. auto.
        * right. auto.
      + destruct ust; inversion H; subst.
        * exfalso. eapply logged_failure_not_clean0; exact HF.
        * right. auto.
  Qed.

  (* MASTER: validation that leaves no failure code either accepted an identity assertion whose every component
     checks out, or rejected it with an error of the silent class *)
  Theorem validate_clean mm ust se stop claim a l r :
    validate enc Verify IcaVerify mm ust se stop claim a [] = (l, r) -> failure_codes l = [] ->
    match r with
    | ROk => nonzero (pad1 a) = false /\ (forall p, pad2 a = Some p -> nonzero p = false)
             /\ refs_bound claim (ia_payload a) /\ sig_ok a
    | RErr e => silent_class mm ust se claim a e
    end.
  Proof.
    unfold validate. intros H HF.
    destruct (check_padding stop a []) as [l1 o1] eqn:EP.
    assert (HF1 : failure_codes l1 = []).
    { destruct o1 as [e|]; [inversion H; subst; exact HF|].
      destruct (check_against_claim_ext mm stop claim (ia_payload a) l1) as [e2 H2].
      destruct (check_against_claim mm stop claim (ia_payload a) l1) as [l2 o2] eqn:EC. cbn [fst] in H2.
      assert (HF2 : failure_codes l2 = []).
      { destruct o2 as [e|]; [inversion H; subst; exact HF|].
        destruct (check_signature_ext enc Verify IcaVerify ust se a l2) as [e3 H3]. rewrite H in H3. cbn [fst] in H3.
        subst l. rewrite failure_codes_app in HF. apply app_eq_nil in HF. exact (proj1 HF). }
      subst l2. rewrite failure_codes_app in HF2. apply app_eq_nil in HF2. exact (proj1 HF2). }
    destruct (check_padding_clean _ _ _ _ _ EP HF1) as [P1 [P2 [-> ->]]].
    destruct (check_against_claim mm stop claim (ia_payload a) []) as [l2 o2] eqn:EC.
    assert (HF2 : failure_codes l2 = []).
    { destruct o2 as [e|]; [inversion H; subst; exact HF|].
      destruct (check_signature_ext enc Verify IcaVerify ust se a l2) as [e3 H3]. rewrite H in H3. cbn [fst] in H3.
      subst l. rewrite failure_codes_app in HF. apply app_eq_nil in HF. exact (proj1 HF). }
    destruct (check_against_claim_clean _ _ _ _ _ _ _ EC HF2) as [-> Ho].
    destruct o2 as [e|].
    - inversion H; subst. left. exact Ho.
    - pose proof (check_signature_clean ust se a [] l r H eq_refl HF) as K.
      destruct r as [|e].
      + split; [exact P1|]. split; [exact P2|]. split; [exact Ho | exact K].
      + destruct K as [K|K]; [right; left; exact K | right; right; exact K].
  Qed.

  Lemma silent_class_all_log claim a e :
    silent_class true true true claim a e ->
    (e = EUnknownSigType /\ sig_type (ia_payload a) <> sig_type_x509 /\ sig_type (ia_payload a) = sig_type_ica)
    \/ (e = ESignatureError /\ vres_ (Verify (ia_sig a) (enc (ia_payload a))) = VParse).
  Proof.
    intros [[H _]|[[He [Hx [[_ H]|H]]]|[He [Hn [Hi|H]]]]]; try discriminate; auto.
  Qed.

  (* a mismatching reference is never accepted, whatever else happens *)
  Lemma check_refs_mismatch_err mm stop claim rs :
    forall log, (exists r x, In r rs /\ find_claim claim r = Some x /\ hhash x <> hhash r) ->
                snd (check_refs mm stop claim rs log) <> None.
  Proof.
    induction rs as [|r t IH]; intros log [r0 [x0 [Hin [Hf Hh]]]]; [destruct Hin|].
    cbn [check_refs]. destruct (find_claim claim r) as [x|] eqn:EF.
    - destruct (beq (hhash x) (hhash r)) eqn:EB; [|cbn; discriminate].
      apply IH. destruct Hin as [<-|Hin].
      + rewrite EF in Hf. inversion Hf; subst. apply beq_eq in EB. contradiction.
      + exists r0, x0. auto.
    - destruct stop; [cbn; discriminate|].
      apply IH. destruct Hin as [<-|Hin]; [congruence | exists r0, x0; auto].
  Qed.

  Theorem changed_reference_never_accepted mm ust se stop claim a :
    (exists r x, In r (refs (ia_payload a)) /\ find_claim claim r = Some x /\ hhash x <> hhash r) ->
    snd (validate enc Verify IcaVerify mm ust se stop claim a []) <> ROk.
  Proof.
    intros Hm. unfold validate.
    destruct (check_padding stop a []) as [l1 [e|]]; [cbn; discriminate|].
    unfold check_against_claim.
    pose proof (check_refs_mismatch_err mm stop claim (refs (ia_payload a)) l1 Hm) as K.
    destruct (check_refs mm stop claim (refs (ia_payload a)) l1) as [la [e|]]; [cbn; discriminate|].
    cbn in K. congruence.
  Qed.

  (* with a logging mismatch branch, a mismatching reference always leaves a failure code *)
  Lemma check_refs_mismatch_logged stop claim rs :
    forall log, (exists r x, In r rs /\ find_claim claim r = Some x /\ hhash x <> hhash r) ->
                In c_assertion_mismatch (failure_codes (fst (check_refs true stop claim rs log))).
  Proof.
    induction rs as [|r t IH]; intros log [r0 [x0 [Hin [Hf Hh]]]]; [destruct Hin|].
    cbn [check_refs]. destruct (find_claim claim r) as [x|] eqn:EF.
    - destruct (beq (hhash x) (hhash r)) eqn:EB.
      + apply IH. destruct Hin as [<-|Hin].
        * rewrite EF in Hf. inversion Hf; subst. apply beq_eq in EB. contradiction.
        * exists r0, x0. auto.
      + cbn [fst]. rewrite failure_codes_snoc. apply in_or_app. right. left. reflexivity.
    - destruct stop; cbn [fst].
      + rewrite failure_codes_snoc. apply in_or_app. right. left. reflexivity.
      + destruct (check_refs_ext true false claim t (log ++ [IT c_assertion_mismatch KF])) as [ext He].
        rewrite He, failure_codes_app, failure_codes_snoc. apply in_or_app. left. apply in_or_app. right. left. reflexivity.
  Qed.
End Soundness.

(* ------------------------------------------------------------------ an identity assertion created by the builder validates *)

Lemma find_exists {A} (p : A -> bool) l r : In r l -> p r = true -> exists x, find p l = Some x.
Proof.
  induction l as [|y t IH]; intros Hin Hp; [destruct Hin|]. cbn [find].
  destruct (p y) eqn:E; [eexists; reflexivity|].
  destruct Hin as [->|Hin]; [congruence | apply IH; assumption].
Qed.

Lemma url_match_refl u : url_match u u = true.
Proof. unfold url_match. rewrite beq_refl. reflexivity. Qed.

Lemma check_refs_ok mm stop claim rs :
  forall log, (forall r, In r rs -> exists x, find_claim claim r = Some x /\ hhash x = hhash r) ->
              check_refs mm stop claim rs log = (log, None).
Proof.
  induction rs as [|r t IH]; intros log H; cbn [check_refs]; [reflexivity|].
  destruct (H r (or_introl eq_refl)) as [x [-> Hh]]. rewrite Hh, beq_refl.
  apply IH. intros r' Hin. apply H. right; exact Hin.
Qed.

Lemma check_dups_ok stop labels :
  forall seen log, NoDup labels -> (forall l, In l labels -> ~ In l seen) ->
                   check_dups stop labels seen log = (log, None).
Proof.
  induction labels as [|l t IH]; intros seen log ND Hd; cbn [check_dups]; [reflexivity|].
  assert (E : existsb (beq l) seen = false) by (apply existsb_beq_false, Hd; left; reflexivity).
  rewrite E. inversion ND; subst. apply IH; [assumption|].
  intros l' Hin [<-|Hs]; [contradiction | apply (Hd l'); [right; exact Hin | exact Hs]].
Qed.

Lemma NoDup_map_filter {A B} (f : A -> B) (p : A -> bool) l : NoDup (map f l) -> NoDup (map f (filter p l)).
Proof.
  induction l as [|x t IH]; intros ND; cbn; [constructor|].
  inversion ND; subst. destruct (p x); cbn; [|auto].
  constructor; [|auto]. intros Hin. apply H1. apply in_map_iff in Hin. destruct Hin as [y [E Hy]].
  apply filter_In in Hy. apply in_map_iff. exists y. split; [exact E | exact (proj1 Hy)].
Qed.

(* the claim lists no two assertions that the (url, or url without its absolute prefix) test confuses
   unless they carry the same hash *)
Definition unambiguous (claim : list href) : Prop :=
  forall x y, In x claim -> In y claim -> url_match (hurl x) (hurl y) = true -> hhash x = hhash y.

Definition has_hard_binding (claim : list href) : Prop :=
  exists h, In h claim /\ contains_str builder_hard_binding_marker (hurl h) = true /\ is_hard_ref (hurl h) = true.

Section Created.
  Variable enc : payload -> bytes.
  Variable Verify : bytes -> bytes -> vout.
  Variable IcaVerify : payload -> bytes -> vout.

  Theorem created_validates mm ust se stop claim sel rls sig p1 p2 L :
    let p := SP (content_refs sel claim) sig_type_x509 rls in
    nonzero p1 = false -> (forall q, p2 = Some q -> nonzero q = false) ->
    unambiguous claim -> NoDup (map hurl claim) -> has_hard_binding claim ->
    Verify sig (enc p) = VO L VOk ->
    validate enc Verify IcaVerify mm ust se stop claim (IA p sig p1 p2) []
    = (map remap_item L ++ [IT c_x509_validated KS; IT c_well_formed KS], ROk).
  Proof.
    intros p Hp1 Hp2 Hu ND [h [Hh [Hm Hl]]] HV.
    unfold validate, check_padding. cbn [pad1 pad2 ia_payload]. rewrite Hp1.
    assert (EP : match p2 with
                 | Some q => if nonzero q then log_failure stop c_pad_invalid EInvalidPadding [] else ([], None)
                 | None => ([], None) end = ([], @None verr)).
    { destruct p2 as [q|]; [rewrite (Hp2 q eq_refl)|]; reflexivity. }
    rewrite EP. unfold check_against_claim. cbn [refs p].
    rewrite check_refs_ok.
    2:{ intros r Hin. apply filter_In in Hin. destruct Hin as [Hin _].
        destruct (find_exists (fun a => url_match (hurl a) (hurl r)) claim r Hin (url_match_refl _)) as [x Hx].
        exists x. split; [exact Hx|]. apply find_some in Hx. destruct Hx as [Hxin Hxm].
        apply Hu; assumption. }
    unfold check_hard.
    assert (EH : existsb (fun r => is_hard_ref (hurl r)) (content_refs sel claim) = true).
    { apply existsb_exists. exists h. split; [|exact Hl]. apply filter_In. split; [exact Hh|]. rewrite Hm. reflexivity. }
    rewrite EH. rewrite check_dups_ok; [| apply NoDup_map_filter; exact ND | intros l _ []].
    unfold check_signature. cbn [ia_payload ia_sig sig_type p]. rewrite beq_refl.
    fold p. rewrite HV. cbn [vlog vres_ app]. reflexivity.
  Qed.
End Created.

(* ------------------------------------------------------------------ every logged failure code is a cawg.* code *)

Definition item_ok (i : item) : Prop := starts_with cawg_prefix (icode i) = true.

Lemma Forall_snoc {A} (P : A -> Prop) l x : Forall P l -> P x -> Forall P (l ++ [x]).
Proof. intros. apply Forall_app. split; [assumption | constructor; [assumption | constructor]]. Qed.

Lemma check_refs_items mm stop claim rs :
  forall log, Forall item_ok log -> Forall item_ok (fst (check_refs mm stop claim rs log)).
Proof.
  induction rs as [|r t IH]; intros log H; cbn [check_refs]; [exact H|].
  destruct (find_claim claim r) as [x|].
  - destruct (beq (hhash x) (hhash r)); [apply IH; exact H|].
    destruct mm; cbn [fst]; [apply Forall_snoc; [exact H | reflexivity] | exact H].
  - destruct stop; cbn [fst]; [apply Forall_snoc; [exact H | reflexivity]|].
    apply IH. apply Forall_snoc; [exact H | reflexivity].
Qed.

Lemma check_dups_items stop labels :
  forall seen log, Forall item_ok log -> Forall item_ok (fst (check_dups stop labels seen log)).
Proof.
  induction labels as [|l t IH]; intros seen log H; cbn [check_dups]; [exact H|].
  destruct (existsb (beq l) seen); [|apply IH; exact H].
  destruct stop; cbn [fst]; [apply Forall_snoc; [exact H | reflexivity]|].
  apply IH. apply Forall_snoc; [exact H | reflexivity].
Qed.

Lemma remap_cose_ok : forallb (fun c => starts_with cawg_prefix (remap_code remap_table c)) cose_layer_codes = true.
Proof. vm_compute. reflexivity. Qed.

Section Prefix.
  Variable enc : payload -> bytes.
  Variable Verify : bytes -> bytes -> vout.
  Variable IcaVerify : payload -> bytes -> vout.
  (* the COSE layer logs only the codes found in its sources; the claims-aggregation verifier logs cawg.* codes *)
  Hypothesis HV : forall s m i, In i (vlog (Verify s m)) -> In (icode i) cose_layer_codes.
  Hypothesis HI : forall p s i, In i (vlog (IcaVerify p s)) -> item_ok i.

  Theorem logged_items_cawg mm ust se stop claim a :
    Forall item_ok (fst (validate enc Verify IcaVerify mm ust se stop claim a [])).
  Proof.
    unfold validate.
    assert (P1 : Forall item_ok (fst (check_padding stop a []))).
    { unfold check_padding, log_failure. destruct (nonzero (pad1 a)); cbn [fst app]; [repeat constructor|].
      destruct (pad2 a) as [q|]; [destruct (nonzero q)|]; cbn [fst app]; repeat constructor. }
    destruct (check_padding stop a []) as [l1 [e|]]; cbn [fst] in *; [exact P1|].
    assert (P2 : Forall item_ok (fst (check_against_claim mm stop claim (ia_payload a) l1))).
    { unfold check_against_claim.
      pose proof (check_refs_items mm stop claim (refs (ia_payload a)) l1 P1) as Q1.
      destruct (check_refs mm stop claim (refs (ia_payload a)) l1) as [la [e|]]; cbn [fst] in *; [exact Q1|].
      assert (Q2 : Forall item_ok (fst (check_hard stop (refs (ia_payload a)) la))).
      { unfold check_hard, log_failure. destruct (existsb _ (refs (ia_payload a))); cbn [fst];
          [exact Q1 | apply Forall_snoc; [exact Q1 | reflexivity]]. }
      destruct (check_hard stop (refs (ia_payload a)) la) as [lb [e|]]; cbn [fst] in *; [exact Q2|].
      apply check_dups_items. exact Q2. }
    destruct (check_against_claim mm stop claim (ia_payload a) l1) as [l2 [e|]]; cbn [fst] in *; [exact P2|].
    unfold check_signature.
    destruct (beq (sig_type (ia_payload a)) sig_type_x509).
    - assert (Q : Forall item_ok (l2 ++ map remap_item (vlog (Verify (ia_sig a) (enc (ia_payload a)))))).
      { apply Forall_app. split; [exact P2|]. apply Forall_forall. intros i Hi. apply in_map_iff in Hi.
        destruct Hi as [j [<- Hj]]. unfold item_ok, remap_item. cbn [icode].
        pose proof remap_cose_ok as R. rewrite forallb_forall in R. apply R. eapply HV; exact Hj. }
      destruct (vres_ (Verify (ia_sig a) (enc (ia_payload a)))); cbn [fst].
      + apply Forall_app. split; [exact Q|]. repeat constructor.
      + apply Forall_snoc; [exact Q | reflexivity].
      + exact Q.
      + destruct se; [apply Forall_snoc; [exact Q | reflexivity] | exact Q].
    - destruct (beq (sig_type (ia_payload a)) sig_type_ica).
      + assert (Q : Forall item_ok (l2 ++ vlog (IcaVerify (ia_payload a) (ia_sig a)))).
        { apply Forall_app. split; [exact P2|]. apply Forall_forall. intros i Hi. eapply HI; exact Hi. }
        destruct (vres_ (IcaVerify (ia_payload a) (ia_sig a))); cbn [fst]; exact Q.
      + destruct ust; cbn [fst]; [apply Forall_snoc; [exact P2 | reflexivity] | exact P2].
  Qed.
End Prefix.

(* ------------------------------------------------------------------ effect on the manifest state (Model/ValState.v, C04) *)

Definition x509_prefix : bytes := b "cawg.x509.".

Lemma facts_agree : c33_tolerated_exact = tolerated_exact /\ c33_tolerated_prefixes = tolerated_prefixes.
Proof. repeat split. Qed.

Lemma starts_with_trans p q c : starts_with p q = true -> starts_with q c = true -> starts_with p c = true.
Proof.
  intros H1 H2. apply starts_with_spec in H1. apply starts_with_spec in H2.
  destruct H1 as [r1 ->]. destruct H2 as [r2 ->]. rewrite <- app_assoc. apply starts_with_app.
Qed.

(* whatever the generated tolerated prefix is, it covers the whole cawg.x509. family *)
Lemma x509_tolerated c : starts_with x509_prefix c = true -> tolerated c.
Proof.
  intros H.
  assert (K : existsb (fun p => starts_with p x509_prefix) tolerated_prefixes = true) by (vm_compute; reflexivity).
  apply existsb_exists in K. destruct K as [p [Hp Hs]].
  pose proof (starts_with_trans p x509_prefix c Hs H) as Hc. apply starts_with_spec in Hc. destruct Hc as [rest ->].
  right. exists p, rest. split; [exact Hp | reflexivity].
Qed.

Lemma x509_failure_codes_tolerated : Forall tolerated x509_failure_codes.
Proof.
  apply Forall_forall. intros c Hc. apply is_tolerated_spec.
  assert (K : forallb is_tolerated x509_failure_codes = true) by (vm_compute; reflexivity).
  rewrite forallb_forall in K. apply K. exact Hc.
Qed.

Lemma tolerated_or_witness l :
  if forallb is_tolerated l then Forall tolerated l else exists c, In c l /\ ~ tolerated c.
Proof.
  induction l as [|c t IH]; cbn [forallb]; [constructor|].
  destruct (is_tolerated c) eqn:E; cbn [andb].
  - destruct (forallb is_tolerated t).
    + constructor; [apply is_tolerated_spec; exact E | exact IH].
    + destruct IH as [c' [Hin Hn]]. exists c'. split; [right; exact Hin | exact Hn].
  - exists c. split; [left; reflexivity | apply is_tolerated_false; exact E].
Qed.

Lemma add_status_active_valid r s :
  valid_cond r -> suri s = None -> (skind s = KFailure -> tolerated (scode s)) -> valid_cond (add_status r s).
Proof.
  intros [Ha [Hs Hf]] Hu Ht. unfold add_status. rewrite Hu.
  destruct (active r) as [a|] eqn:EA; [|contradiction].
  unfold valid_cond, active_success, all_failures, delta_list in *. rewrite EA in *. cbn [active deltas].
  split; [discriminate|]. unfold sc_add. destruct (skind s) eqn:EK; cbn [success failure].
  - split; [|exact Hf]. intros c Hc. unfold codes. rewrite map_app. apply in_or_app. left. apply Hs. exact Hc.
  - split; assumption.
  - split; [exact Hs|]. unfold codes at 1. rewrite map_app. rewrite <- app_assoc. apply Forall_app in Hf.
    destruct Hf as [F1 F2]. apply Forall_app. split; [exact F1|]. apply Forall_app. split; [|exact F2].
    constructor; [apply Ht; reflexivity | constructor].
Qed.

Theorem tolerated_failures_keep_valid l :
  forall r, valid_cond r ->
            (forall s, In s l -> suri s = None /\ (skind s = KFailure -> tolerated (scode s))) ->
            validation_state (add_all r l) <> Invalid.
Proof.
  induction l as [|s t IH]; intros r Hv H; unfold add_all in *; cbn [fold_left].
  - apply state_not_invalid_iff. exact Hv.
  - apply IH.
    + destruct (H s (or_introl eq_refl)) as [Hu Ht]. apply add_status_active_valid; assumption.
    + intros s' Hin. apply H. right; exact Hin.
Qed.

(* "CAWG failures never make the manifest Invalid", decided by the generated tolerated-failure rule: either every
   failure code the identity layer can log is tolerated, and then no list of such failures invalidates a valid
   manifest; or one of them is not, and adding it invalidates every manifest *)
Theorem manifest_not_invalidated_or_refuted :
  if forallb is_tolerated identity_failure_codes
  then forall l r, valid_cond r ->
         (forall s, In s l -> suri s = None
                    /\ (skind s = KFailure -> In (scode s) identity_failure_codes \/ starts_with x509_prefix (scode s) = true)) ->
         validation_state (add_all r l) <> Invalid
  else exists c, In c identity_failure_codes
                 /\ forall r u, validation_state (add_status r (St c KFailure u)) = Invalid.
Proof.
  pose proof (tolerated_or_witness identity_failure_codes) as K.
  destruct (forallb is_tolerated identity_failure_codes).
  - intros l r Hv H. apply tolerated_failures_keep_valid; [exact Hv|].
    intros s Hs. destruct (H s Hs) as [Hu Hk]. split; [exact Hu|]. intros Kf.
    destruct (Hk Kf) as [Hi|Hx]; [rewrite Forall_forall in K; apply K; exact Hi | apply x509_tolerated; exact Hx].
  - destruct K as [c [Hin Hn]]. exists c. split; [exact Hin|].
    intros r u. apply monotone_add_status; [reflexivity | exact Hn].
Qed.

(* the tolerated-failure rule of the current source (fix b8b0a0d9a: prefix "cawg.") covers every failure code of the
   identity layer: the positive branch is the one in force *)
Theorem manifest_not_invalidated l r :
  valid_cond r ->
  (forall s, In s l -> suri s = None
             /\ (skind s = KFailure -> In (scode s) identity_failure_codes \/ starts_with x509_prefix (scode s) = true)) ->
  validation_state (add_all r l) <> Invalid.
Proof.
  pose proof manifest_not_invalidated_or_refuted as K.
  assert (E : forallb is_tolerated identity_failure_codes = true) by (vm_compute; reflexivity).
  rewrite E in K. apply K.
Qed.

(* ------------------------------------------------------------------ corollaries used by Properties/C33.v *)

Section Corollaries.
  Variable enc : payload -> bytes.
  Variable Verify : bytes -> bytes -> vout.
  Variable IcaVerify : payload -> bytes -> vout.

  Definition components_ok (claim : list href) (a : ia) : Prop :=
    nonzero (pad1 a) = false /\ (forall p, pad2 a = Some p -> nonzero p = false)
    /\ refs_bound claim (ia_payload a) /\ sig_ok enc Verify IcaVerify a.

  (* any defect of any component is either reported with a failure code, or the assertion is rejected with an error
     of the silent class (no code at all) *)
  Theorem changes_flagged mm ust se stop claim a l r :
    validate enc Verify IcaVerify mm ust se stop claim a [] = (l, r) -> ~ components_ok claim a ->
    failure_codes l <> [] \/ exists e, r = RErr e /\ silent_class enc Verify mm ust se claim a e.
  Proof.
    intros H Hn. destruct (failure_codes l) eqn:E; [|left; discriminate]. right.
    pose proof (validate_clean enc Verify IcaVerify mm ust se stop claim a l r H E) as K.
    destruct r as [|e]; [exfalso; apply Hn; exact K | exists e; split; [reflexivity | exact K]].
  Qed.

  Lemma validate_after_padding mm ust se stop claim a :
    exists ext, fst (validate enc Verify IcaVerify mm ust se stop claim a []) = fst (check_padding stop a []) ++ ext.
  Proof.
    unfold validate. destruct (check_padding stop a []) as [l1 [e|]]; cbn [fst]; [exists []; rewrite app_nil_r; reflexivity|].
    destruct (check_against_claim_ext mm stop claim (ia_payload a) l1) as [e2 H2].
    destruct (check_against_claim mm stop claim (ia_payload a) l1) as [l2 [e|]]; cbn [fst] in *; [exists e2; exact H2|].
    destruct (check_signature_ext enc Verify IcaVerify ust se a l2) as [e3 H3]. rewrite H3. subst. rewrite <- app_assoc.
    eexists; reflexivity.
  Qed.

  Theorem padding_flagged mm ust se stop claim a :
    nonzero (pad1 a) = true \/ (exists p, pad2 a = Some p /\ nonzero p = true) ->
    In c_pad_invalid (failure_codes (fst (validate enc Verify IcaVerify mm ust se stop claim a []))).
  Proof.
    intros H. destruct (validate_after_padding mm ust se stop claim a) as [ext ->].
    rewrite failure_codes_app. apply in_or_app. left.
    unfold check_padding, log_failure. destruct (nonzero (pad1 a)) eqn:E1; [cbn; left; reflexivity|].
    destruct H as [H|[p [-> Hp]]]; [discriminate|]. rewrite Hp. cbn. left; reflexivity.
  Qed.

  Lemma check_padding_err stop a l1 e : check_padding stop a [] = (l1, Some e) -> failure_codes l1 <> [].
  Proof.
    unfold check_padding, log_failure. destruct (nonzero (pad1 a)).
    - intros H. inversion H; subst. cbn. discriminate.
    - destruct (pad2 a) as [p|]; [destruct (nonzero p)|]; intros H; inversion H; subst. cbn. discriminate.
  Qed.

  (* the hash-mismatch branch: with a logging branch every mismatching reference leaves a failure code; with the
     branch as it is when the flag is false there is an input that is rejected without any code *)
  Theorem hash_mismatch_branch (fl : bool) :
    if fl then
      forall ust se stop claim a,
        (exists r x, In r (refs (ia_payload a)) /\ find_claim claim r = Some x /\ hhash x <> hhash r) ->
        failure_codes (fst (validate enc Verify IcaVerify fl ust se stop claim a [])) <> []
    else
      exists claim a u, forall ust se stop,
        (exists r x, In r (refs (ia_payload a)) /\ find_claim claim r = Some x /\ hhash x <> hhash r)
        /\ validate enc Verify IcaVerify fl ust se stop claim a [] = ([], RErr (EAssertionMismatch u)).
  Proof.
    destruct fl.
    - intros ust se stop claim a Hm. unfold validate.
      destruct (check_padding stop a []) as [l1 [e|]] eqn:EP; cbn [fst]; [eapply check_padding_err; exact EP|].
      unfold check_against_claim.
      pose proof (check_refs_mismatch_logged stop claim (refs (ia_payload a)) l1 Hm) as K.
      destruct (check_refs true stop claim (refs (ia_payload a)) l1) as [la [e|]] eqn:ER; cbn [fst] in *.
      + intros E. rewrite E in K. destruct K.
      + exfalso. pose proof (check_refs_mismatch_err true stop claim (refs (ia_payload a)) l1 Hm) as K2.
        rewrite ER in K2. cbn in K2. congruence.
    - exists [HR (b "self#jumbf=c2pa.assertions/c2pa.hash.data") [1]],
             (IA (SP [HR (b "self#jumbf=c2pa.assertions/c2pa.hash.data") [2]] sig_type_x509 []) [] [] None),
             (b "self#jumbf=c2pa.assertions/c2pa.hash.data").
      intros ust se stop. split.
      + eexists; eexists. split; [left; reflexivity|]. split; [vm_compute; reflexivity | discriminate].
      + destruct stop; reflexivity.
  Qed.

  (* an accepted X.509 identity assertion carries a signature that verifies over exactly its payload: if the payload or
     the signature is not the one that was produced, a second (message, signature) pair that verifies is exhibited *)
  Theorem accepted_means_verified mm ust se stop claim a l :
    validate enc Verify IcaVerify mm ust se stop claim a [] = (l, ROk) -> failure_codes l = [] ->
    sig_type (ia_payload a) = sig_type_x509 ->
    vres_ (Verify (ia_sig a) (enc (ia_payload a))) = VOk.
  Proof.
    intros H HF Hx. pose proof (validate_clean enc Verify IcaVerify mm ust se stop claim a l ROk H HF) as K.
    destruct K as [_ [_ [_ [[_ [K _]]|[Hn _]]]]]; [exact K | contradiction].
  Qed.

  Theorem payload_change_is_forgery mm ust se stop claim a l p0 :
    (forall p q, enc p = enc q -> p = q) ->
    validate enc Verify IcaVerify mm ust se stop claim a [] = (l, ROk) -> failure_codes l = [] ->
    sig_type (ia_payload a) = sig_type_x509 -> ia_payload a <> p0 ->
    enc (ia_payload a) <> enc p0 /\ vres_ (Verify (ia_sig a) (enc (ia_payload a))) = VOk.
  Proof.
    intros Hinj H HF Hx Hne. split; [intros E; apply Hne, Hinj, E|].
    eapply accepted_means_verified; eassumption.
  Qed.
End Corollaries.

Theorem x509_failures_never_invalidate l r :
  valid_cond r ->
  (forall s, In s l -> suri s = None /\ (skind s = KFailure -> starts_with x509_prefix (scode s) = true)) ->
  validation_state (add_all r l) <> Invalid.
Proof.
  intros Hv H. apply tolerated_failures_keep_valid; [exact Hv|].
  intros s Hs. destruct (H s Hs) as [Hu Hk]. split; [exact Hu|]. intros K. apply x509_tolerated, Hk, K.
Qed.

Lemma cawg_codes_partition :
  Forall (fun c => starts_with cawg_prefix c = true) (identity_failure_codes ++ x509_failure_codes)
  /\ Forall (fun c => starts_with x509_prefix c = true) x509_failure_codes
  /\ Forall (fun c => starts_with x509_prefix c = false) identity_failure_codes.
Proof.
  repeat split; apply Forall_forall; intros c Hc.
  - assert (K : forallb (fun c => starts_with cawg_prefix c) (identity_failure_codes ++ x509_failure_codes) = true) by (vm_compute; reflexivity).
    rewrite forallb_forall in K. apply K, Hc.
  - assert (K : forallb (fun c => starts_with x509_prefix c) x509_failure_codes = true) by (vm_compute; reflexivity).
    rewrite forallb_forall in K. apply K, Hc.
  - assert (K : forallb (fun c => negb (starts_with x509_prefix c)) identity_failure_codes = true) by (vm_compute; reflexivity).
    rewrite forallb_forall in K. apply negb_true_iff, K, Hc.
Qed.
