(* Proofs/ArchiveRoundTripProofs.v — C22: lemmas about Model/ArchiveRoundTrip.v *)
From Coq Require Import List NArith Bool String Arith Lia.
From C2PA Require Import Model.SignFlow Model.ArchiveRoundTrip Proofs.SignFlowProofs.
Import ListNotations.
Open Scope string_scope.

(* an item whose label and kind are fixed points of to_claim's dispatch after one application *)
Definition stable (t : Item) : Prop :=
  match t with
  | (l, j, _, _) => claim_label (claim_label l) = claim_label l /\ kind_json (claim_label l) (kind_json l j) = kind_json l j
  end.

(* its label, as written into a claim, is not taken for the archive's bookkeeping assertion *)
Definition not_meta (t : Item) : Prop := prefix ARCHIVE_META (claim_label (i_label t)) = false.

Lemma norm_created : forall t, i_created (norm_item t) = i_created t.
Proof. intros [[[l j] c] p]. reflexivity. Qed.

Lemma norm_stable : forall t, stable t -> norm_item (norm_item t) = norm_item t.
Proof. intros [[[l j] c] p] [H1 H2]. unfold norm_item. rewrite H1, H2. reflexivity. Qed.

Lemma stable_norm : forall t, stable t -> stable (norm_item t).
Proof. intros [[[l j] c] p] [H1 H2]. unfold norm_item, stable. rewrite !H1, !H2. split; reflexivity. Qed.

Lemma stable_clear : forall t, stable t -> stable (clear_created t).
Proof. intros [[[l j] c] p] H. exact H. Qed.

Lemma norm_clear : forall t, norm_item (clear_created t) = clear_created (norm_item t).
Proof. intros [[[l j] c] p]. reflexivity. Qed.

Lemma clear_clear : forall t, clear_created (clear_created t) = clear_created t.
Proof. intros [[[l j] c] p]. reflexivity. Qed.

Lemma map_norm_stable : forall l, Forall stable l -> map norm_item (map norm_item l) = map norm_item l.
Proof.
  intros l H. induction H as [|t l Ht _ IH]; cbn [map]; [reflexivity|]. rewrite norm_stable by exact Ht. rewrite IH. reflexivity.
Qed.

Lemma filter_norm : forall (p : bool -> bool) l,
    filter (fun t => p (i_created t)) (map norm_item l) = map norm_item (filter (fun t => p (i_created t)) l).
Proof.
  intros p l. induction l as [|t l IH]; cbn [map filter]; [reflexivity|].
  rewrite norm_created. destruct (p (i_created t)); cbn [map]; rewrite IH; reflexivity.
Qed.

Lemma filter_idem : forall {A} (p : A -> bool) l, filter p (filter p l) = filter p l.
Proof.
  intros A p l. induction l as [|x t IH]; cbn; [reflexivity|]. destruct (p x) eqn:E; cbn; rewrite ?E, IH; reflexivity.
Qed.

Lemma filter_disjoint : forall {A} (p : A -> bool) l, filter p (filter (fun x => negb (p x)) l) = [].
Proof.
  intros A p l. induction l as [|x t IH]; cbn; [reflexivity|]. destruct (p x) eqn:E; cbn; rewrite ?E; exact IH.
Qed.

Lemma filter_disjoint' : forall {A} (p : A -> bool) l, filter (fun x => negb (p x)) (filter p l) = [].
Proof.
  intros A p l. induction l as [|x t IH]; cbn; [reflexivity|]. destruct (p x) eqn:E; cbn; rewrite ?E; cbn; exact IH.
Qed.

Lemma created_first_idem : forall v l, created_first v (created_first v l) = created_first v l.
Proof.
  intros v l. unfold created_first. destruct (Nat.leb 2 v); [|reflexivity].
  rewrite !filter_app. rewrite filter_idem, filter_disjoint, app_nil_r.
  rewrite filter_disjoint', (filter_idem (fun t => negb (i_created t))). reflexivity.
Qed.

Lemma created_first_norm : forall v l, created_first v (map norm_item l) = map norm_item (created_first v l).
Proof.
  intros v l. unfold created_first. destruct (Nat.leb 2 v); [|reflexivity].
  rewrite map_app. rewrite (filter_norm (fun b => b)), (filter_norm negb). reflexivity.
Qed.

Lemma Forall_filter : forall {A} (P : A -> Prop) p l, Forall P l -> Forall P (filter p l).
Proof. intros A P p l H. induction H; cbn; [constructor|]. destruct (p x); [constructor; assumption|assumption]. Qed.

Lemma Forall_created_first : forall (P : Item -> Prop) v l, Forall P l -> Forall P (created_first v l).
Proof.
  intros P v l H. unfold created_first. destruct (Nat.leb 2 v); [|exact H].
  apply Forall_app. split; apply Forall_filter; exact H.
Qed.

Lemma Forall_map' : forall {A B} (P : A -> Prop) (Q : B -> Prop) (f : A -> B) l,
    (forall x, P x -> Q (f x)) -> Forall P l -> Forall Q (map f l).
Proof. intros A B P Q f l H HF. induction HF; cbn; constructor; auto. Qed.

(* reading a claim and building a claim from what was read reports the same items *)
Lemma reported_idem : forall v l, Forall stable l -> reported v (reported v l) = reported v l.
Proof.
  intros v l H. unfold reported. destruct (Nat.leb 2 v) eqn:E.
  - rewrite <- (created_first_norm v (map norm_item l)). rewrite created_first_idem.
    rewrite map_norm_stable by exact H. reflexivity.
  - unfold created_first. rewrite E. rewrite !map_map.
    apply map_ext_in. intros t Ht.
    rewrite (norm_clear t), clear_clear, (norm_clear (norm_item t)).
    rewrite norm_stable; [reflexivity|]. rewrite Forall_forall in H. apply H. exact Ht.
Qed.

Lemma stable_reported : forall v l, Forall stable l -> Forall stable (reported v l).
Proof.
  intros v l H. unfold reported. apply Forall_created_first.
  destruct (Nat.leb 2 v).
  - apply (Forall_map' stable stable); [exact stable_norm|exact H].
  - apply (Forall_map' stable stable); [exact stable_norm|].
    apply (Forall_map' stable stable); [exact stable_clear|exact H].
Qed.

Definition keep (t : Item) : bool := negb (prefix ARCHIVE_META (i_label t)).

Lemma keep_norm_all : forall l, Forall not_meta l -> filter keep (map norm_item l) = map norm_item l.
Proof.
  intros l H. induction H as [|t l Ht _ IH]; cbn [map filter]; [reflexivity|].
  destruct t as [[[lb j] c] p]. unfold keep at 1. cbn [norm_item i_label].
  unfold not_meta in Ht. cbn [i_label] in Ht. rewrite Ht. cbn [negb]. rewrite IH. reflexivity.
Qed.

Lemma not_meta_clear : forall t, not_meta t -> not_meta (clear_created t).
Proof. intros [[[l j] c] p] H. exact H. Qed.

Lemma meta_item_norm :
  norm_item (ARCHIVE_META, true, true, 0%nat) = (ARCHIVE_META, true, true, 0%nat)
  /\ keep (ARCHIVE_META, true, true, 0%nat) = false
  /\ norm_item (clear_created (ARCHIVE_META, true, true, 0%nat)) = (ARCHIVE_META, true, false, 0%nat)
  /\ keep (ARCHIVE_META, true, false, 0%nat) = false.
Proof. vm_compute. repeat split. Qed.

Lemma filter_comm' : forall {A} (p q : A -> bool) l, filter p (filter q l) = filter q (filter p l).
Proof. intros. apply filter_filter_comm. Qed.

(* the items a restored builder holds are the items the original builder reports *)
Lemma restore_items :
  forall v l, Forall not_meta l ->
    filter keep (reported v (l ++ [(ARCHIVE_META, true, true, 0%nat)])) = reported v l.
Proof.
  intros v l H. destruct meta_item_norm as [M1 [M2 [M3 M4]]].
  unfold reported, created_first. destruct (Nat.leb 2 v) eqn:E.
  - rewrite map_app. cbn [map]. rewrite M1.
    rewrite !filter_app. cbn [filter i_created negb app].
    rewrite M2, !app_nil_r.
    rewrite (filter_comm' keep i_created), (filter_comm' keep (fun t => negb (i_created t))).
    rewrite keep_norm_all by exact H. reflexivity.
  - rewrite map_app, map_app. cbn [map]. rewrite M3. rewrite filter_app. cbn [filter]. rewrite M4, app_nil_r.
    apply keep_norm_all. apply (Forall_map' not_meta not_meta); [exact not_meta_clear|exact H].
Qed.

Lemma set_key_idem : forall k v g, set_key k v (set_key k v g) = set_key k v g.
Proof.
  intros k v g. induction g as [|[k' v'] t IH]; cbn [set_key].
  - rewrite String.eqb_refl. reflexivity.
  - destruct (String.eqb k k') eqn:E; cbn [set_key]; [rewrite String.eqb_refl; reflexivity|rewrite E, IH; reflexivity].
Qed.

Lemma stamp_idem : forall sdk gs, stamp_gens sdk (stamp_gens sdk gs) = stamp_gens sdk gs.
Proof. intros sdk [|g t]; cbn [stamp_gens]; rewrite set_key_idem; reflexivity. Qed.

Lemma redactions_norm_idem : forall (r : option (list string)),
    match (match r with Some [] => None | x => x end) with Some [] => None | x => x end
    = match r with Some [] => None | x => x end.
Proof. intros [[|a t]|]; reflexivity. Qed.

Lemma not_meta_norm_stable : forall t, stable t -> not_meta t -> not_meta (norm_item t).
Proof.
  intros [[[l j] c] p] [H1 _] H. unfold not_meta in *. cbn [norm_item i_label] in *. rewrite H1. exact H.
Qed.

Lemma not_meta_reported : forall v l, Forall stable l -> Forall not_meta l -> Forall not_meta (reported v l).
Proof.
  intros v l Hs Hm. unfold reported. apply Forall_created_first.
  assert (G : forall l', Forall stable l' -> Forall not_meta l' -> Forall not_meta (map norm_item l')).
  { intros l' A B. rewrite Forall_forall in *. intros x Hx. apply in_map_iff in Hx. destruct Hx as [t [<- Ht]].
    apply not_meta_norm_stable; auto. }
  destruct (Nat.leb 2 v); apply G; auto.
  - apply (Forall_map' stable stable); [exact stable_clear|exact Hs].
  - apply (Forall_map' not_meta not_meta); [exact not_meta_clear|exact Hm].
Qed.

Definition well_formed (b : BState) : Prop := Forall stable (b_items b) /\ Forall not_meta (b_items b).

(* every resource the builder refers to can be produced when the claim is built *)
Definition resources_ok (b : BState) : Prop :=
  (exists th, resolve_thumb (has_ings (b_ings b)) (b_thumb b) = Some th
              /\ th = option_map (fun t : string * Res => (fst t, res_payload (snd t))) (b_thumb b))
  /\ forallb ing_resolvable (b_ings b) = true.

(* outside the open class F-ARCHIVE-DATABOX (claim v1 keeps ingredient thumbnails in data boxes); the class
   F-ARCHIVE-THUMB (a claim thumbnail but no ingredient to lend its store resolver) was repaired by 39e7c1520 *)
Definition archive_safe (b : BState) : Prop :=
  (2 <= b_version b)%nat \/ Forall (fun g => g_thumb g = None) (b_ings b).

Lemma claim_ing_restored : forall v g, claim_ing (restored_ing v (claim_ing g)) = claim_ing g.
Proof.
  intros v g. unfold claim_ing, restored_ing, with_thumb. cbn [g_title g_format g_relationship g_instance g_manifest g_thumb g_validation].
  destruct (g_thumb g) as [r|]; cbn [option_map]; [|reflexivity].
  destruct (Nat.leb 2 v); reflexivity.
Qed.

Lemma map_claim_ing_restored : forall v l, map claim_ing (map (restored_ing v) (map claim_ing l)) = map claim_ing l.
Proof. intros v l. rewrite !map_map. apply map_ext. intro g. apply claim_ing_restored. Qed.

Lemma has_ings_map : forall {f : IngM -> IngM} l, has_ings (map f l) = has_ings l.
Proof. intros f [|g t]; reflexivity. Qed.

Lemma restored_resolvable :
  forall v l, ((2 <= v)%nat \/ Forall (fun g => g_thumb g = None) l) ->
    forallb ing_resolvable (map (restored_ing v) (map claim_ing l)) = true.
Proof.
  intros v l H. rewrite map_map. apply forallb_forall. intros x Hx. apply in_map_iff in Hx. destruct Hx as [g [<- Hg]].
  unfold ing_resolvable, restored_ing, claim_ing, with_thumb. cbn [g_thumb].
  destruct (g_thumb g) as [r|] eqn:E; cbn [option_map]; [|reflexivity].
  destruct H as [H|H].
  - assert (L : Nat.leb 2 v = true) by (apply Nat.leb_le; exact H). rewrite L. reflexivity.
  - rewrite Forall_forall in H. rewrite (H g Hg) in E. discriminate.
Qed.

Lemma restored_thumbs_none :
  forall v l, Forall (fun g => g_thumb g = None) l -> Forall (fun g => g_thumb g = None) (map (restored_ing v) (map claim_ing l)).
Proof.
  intros v l H. rewrite map_map. rewrite Forall_forall in *. intros x Hx. apply in_map_iff in Hx. destruct Hx as [g [<- Hg]].
  unfold restored_ing, claim_ing, with_thumb. cbn [g_thumb]. rewrite (H g Hg). reflexivity.
Qed.

Lemma to_claim_ok :
  forall sdk fresh b, resources_ok b ->
    to_claim_m sdk fresh b =
    Some (mkC (b_version b) (match b_label b with Some l => l | None => fresh end) (b_title b)
              (if Nat.leb 2 (b_version b) then None else Some (b_format b)) (b_instance b)
              (stamp_gens sdk (b_gens b)) (reported (b_version b) (b_items b)) (map claim_ing (b_ings b))
              (option_map (fun t : string * Res => (fst t, res_payload (snd t))) (b_thumb b))
              (match b_redactions b with Some [] => None | r => r end)).
Proof.
  intros sdk fresh b [[th [Ht Eth]] Hi]. unfold to_claim_m. rewrite Ht, Hi, Eth. reflexivity.
Qed.

(* one save/restore round: the archive can be written, and signing the restored builder succeeds and reports what
   signing the original reports; the hypotheses carry over to the restored builder *)
Lemma restore_id :
  forall sdk fresh fresh' fmt b,
    well_formed b -> resources_ok b -> archive_safe b ->
    exists b', save_restore sdk fresh b = Some b'
               /\ sign_read sdk fresh' fmt b' = sign_read sdk fresh' fmt b
               /\ sign_read sdk fresh' fmt b <> None
               /\ well_formed b' /\ resources_ok b' /\ archive_safe b'.
Proof.
  intros sdk fresh fresh' fmt b [Hs Hm] Hr Hv.
  unfold save_restore, to_archive. rewrite (to_claim_ok sdk fresh b Hr). cbn [option_map].
  eexists. split; [reflexivity|].
  set (b' := with_archive _).
  assert (Eitems : b_items b' = reported (b_version b) (b_items b)).
  { subst b'. unfold with_archive. cbn [b_items c_items]. change (fun t : Item => negb (prefix ARCHIVE_META (i_label t))) with keep.
    apply restore_items. exact Hm. }
  assert (Eings : b_ings b' = map (restored_ing (b_version b)) (map claim_ing (b_ings b))) by reflexivity.
  assert (Ethumb : b_thumb b' = option_map (fun t : string * Res => (fst t, InStore (res_payload (snd t)))) (b_thumb b)).
  { subst b'. unfold with_archive. cbn [b_thumb c_thumb]. destruct (b_thumb b) as [[f r]|]; reflexivity. }
  assert (Ever : b_version b' = b_version b) by reflexivity.
  assert (Hr' : resources_ok b').
  { split.
    - rewrite Eings, Ethumb, !has_ings_map. destruct (b_thumb b) as [[f r]|] eqn:E; cbn [option_map resolve_thumb resolve];
        eexists; split; reflexivity.
    - rewrite Eings. apply restored_resolvable. exact Hv. }
  assert (Hw' : well_formed b').
  { split; rewrite Eitems; [apply stable_reported|apply not_meta_reported]; assumption. }
  assert (Hsafe' : archive_safe b').
  { unfold archive_safe. rewrite Ever. destruct Hv as [Hv|Hv]; [left; exact Hv|right; rewrite Eings; apply restored_thumbs_none; exact Hv]. }
  assert (Hsign : forall x, resources_ok x -> sign_read sdk fresh' fmt x =
            Some (mkRep (b_title x) (if Nat.leb 2 (b_version x) then None else Some fmt) (stamp_gens sdk (b_gens x))
                        (reported (b_version x) (b_items x)) (map claim_ing (b_ings x))
                        (option_map (fun t : string * Res => (fst t, res_payload (snd t))) (b_thumb x))
                        (match b_redactions x with Some [] => None | r => r end))).
  { intros x Hx. unfold sign_read. rewrite to_claim_ok by exact Hx. reflexivity. }
  split; [|split; [rewrite (Hsign b Hr); discriminate|split; [exact Hw'|split; [exact Hr'|exact Hsafe']]]].
  rewrite (Hsign b' Hr'), (Hsign b Hr). rewrite Eitems, Eings, Ethumb, Ever.
  rewrite reported_idem by exact Hs. rewrite map_claim_ing_restored.
  subst b'. unfold with_archive. cbn [b_title b_gens b_redactions c_title c_gens c_redactions].
  rewrite stamp_idem.
  destruct (b_thumb b) as [[f r]|]; destruct (b_redactions b) as [[|x xs]|]; reflexivity.
Qed.

(* chains of any length *)
Lemma chain_id :
  forall n sdk fresh fresh' fmt b,
    well_formed b -> resources_ok b -> archive_safe b ->
    exists b', chain n sdk fresh b = Some b'
               /\ sign_read sdk fresh' fmt b' = sign_read sdk fresh' fmt b
               /\ sign_read sdk fresh' fmt b <> None
               /\ well_formed b' /\ resources_ok b' /\ archive_safe b'.
Proof.
  induction n as [|n IH]; intros sdk fresh fresh' fmt b Hw Hr Ha; cbn [chain].
  - destruct (restore_id sdk fresh fresh' fmt b Hw Hr Ha) as [_ [_ [_ [N _]]]].
    exists b. split; [reflexivity|]. split; [reflexivity|]. split; [exact N|]. split; [exact Hw|split; [exact Hr|exact Ha]].
  - destruct (IH sdk fresh fresh' fmt b Hw Hr Ha) as [b1 [E1 [S1 [N1 [W1 [R1 A1]]]]]]. rewrite E1.
    destruct (restore_id sdk fresh fresh' fmt b1 W1 R1 A1) as [b2 [E2 [S2 [N2 [W2 [R2 A2]]]]]].
    exists b2. split; [exact E2|]. split; [rewrite S2; exact S1|]. split; [exact N1|]. split; [exact W2|split; [exact R2|exact A2]].
Qed.

(* plain labels (no actions prefix, no version component, not exif/metadata after dispatch) are stable *)
Lemma plain_stable : forall l j c p, plain_label l -> stable (l, j, c, p).
Proof.
  intros l j c p H. unfold stable. rewrite !(plain_label_kept l H). split; [reflexivity|].
  unfold kind_json, claim_kind; cbn [ad_label ad_json].
  destruct (is_actions l); [reflexivity|]. destruct (_ || _); [reflexivity|].
  destruct j; reflexivity.
Qed.

(* the dispatch is not idempotent on labels with two version components (consequence of F-USER-VERSION):
   org.x.v2.v3 is written as org.x.v2, and after a save/restore round as org.x *)
Definition double_version_builder : BState :=
  mkB 2 None "" "" None [] [("org.x.v2.v3", false, false, 1%nat)] [] None None None false None.

Lemma double_version_refuted :
  match save_restore "v" "l" double_version_builder with
  | Some b' => option_map rp_items (sign_read "v" "l" "f" b') <> option_map rp_items (sign_read "v" "l" "f" double_version_builder)
  | None => False
  end.
Proof. vm_compute. discriminate. Qed.

(* the repaired class F-ARCHIVE-THUMB: a builder with a thumbnail resource and no ingredient now survives the round *)
Definition thumb_builder : BState :=
  mkB 2 None "" "" None [] [("c2pa.actions", false, false, 1%nat)] [] (Some ("image/jpeg", Local 9)) None None false None.

Lemma archive_thumb_fixed :
  sign_read "v" "l" "f" thumb_builder <> None
  /\ match save_restore "v" "l" thumb_builder with
     | Some b' => sign_read "v" "l" "f" b' = sign_read "v" "l" "f" thumb_builder
     | None => False
     end.
Proof. vm_compute. split; [discriminate|reflexivity]. Qed.

(* F-ARCHIVE-DATABOX: claim v1, an ingredient with a thumbnail *)
Definition databox_builder : BState :=
  mkB 1 None "" "" None [] [("c2pa.actions", false, false, 1%nat)]
      [mkIng None None "componentOf" "" None (Some (Local 7)) None] None None None false None.

Lemma archive_databox_refuted :
  sign_read "v" "l" "f" databox_builder <> None
  /\ match save_restore "v" "l" databox_builder with Some b' => sign_read "v" "l" "f" b' = None | None => False end.
Proof. vm_compute. split; [discriminate|reflexivity]. Qed.

(* a builder whose resources are local bytes satisfies resources_ok *)
Lemma local_resources_ok :
  forall b,
    (forall f r, b_thumb b = Some (f, r) -> exists p, r = Local p) ->
    Forall (fun g => forall r, g_thumb g = Some r -> exists p, r = Local p) (b_ings b) ->
    resources_ok b.
Proof.
  intros b Ht Hi. split.
  - destruct (b_thumb b) as [[f r]|] eqn:E; cbn [resolve_thumb option_map].
    + destruct (Ht f r eq_refl) as [p ->]. cbn [resolve option_map]. eexists. split; reflexivity.
    + eexists. split; reflexivity.
  - apply forallb_forall. intros g Hg. rewrite Forall_forall in Hi. specialize (Hi g Hg).
    unfold ing_resolvable. destruct (g_thumb g) as [r|]; [|reflexivity]. destruct (Hi r eq_refl) as [p ->]. reflexivity.
Qed.
