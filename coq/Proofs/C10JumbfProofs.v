(* Proofs/C10JumbfProofs.v — C10 for the JUMBF box reader (Model/C10Jumbf.v).

   Before commit 7b268693b ([strict = false], [cadd = false]) the reader was NOT total: a 5..7-byte tail whose size field equals 16 - (tail length) makes the
   unknown-box arm return to the position it started from, for ever ([hang_forever]); and in a debug build
   `start_pos + jumb_header.size` overflows on a nested superbox with a 64-bit size ([overflow_panics]).
   The strongest true statements are proved for every byte string:
     - [jsuper_safe]: if no 5..7-byte tail carries a size field in 8 .. 16 - (tail length) ([short_tailb]),
       or the header reader is the repaired one ([strict]), then [len + 2] units of fuel are enough, the result
       is Ok or Err, or the dest_pos overflow panic (debug build, unchecked addition only);
       content-box buffers and box count are bounded by the bytes consumed and nesting by MAX_JUMB_DEPTH. *)
From Coq Require Import List NArith Bool Lia Arith ZifyBool ZifyNat ZifyN.
From C2PA Require Import Base.Bytes Generated.C10_facts Model.C10Mach Model.C10Jumbf Proofs.C10MachProofs.
Import ListNotations.
Open Scope N_scope.
Arguments N.add : simpl never.
Arguments N.sub : simpl never.
Arguments N.mul : simpl never.
Arguments N.eqb : simpl never.
Arguments N.ltb : simpl never.
Arguments N.leb : simpl never.
Arguments N.min : simpl never.
Arguments N.max : simpl never.
Arguments N.modulo : simpl never.
Arguments N.land : simpl never.

Lemma len_cons {A} (x : A) l : len (x :: l) = len l + 1.
Proof. unfold len. cbn [length]. lia. Qed.

Lemma HS8 : J_HEADER_SIZE = 8. Proof. reflexivity. Qed.
Lemma TS1 : J_TOGGLE_SIZE = 1. Proof. reflexivity. Qed.
Lemma JM26 : JUMD_MIN_SIZE = 26. Proof. reflexivity. Qed.
Lemma BM9 : BFDB_MIN_SIZE = 9. Proof. reflexivity. Qed.

(* ---------------------------------------------------------------- the known class *)

(* the size field that a header read at [len - r] sees *)
Definition tail_size (buf : bytes) (r : N) : N :=
  de (firstn 4 (pad_to 8 (fst (cread buf (len buf - r) 8)))).

(* some tail of 5..7 bytes carries a size field between 8 and 16 - r: the unknown-box arm does not advance *)
Definition short_tailb (buf : bytes) : bool :=
  existsb (fun r => (r <=? len buf) && (8 <=? tail_size buf r) && (tail_size buf r <=? 16 - r)) [5; 6; 7].

Lemma short_tail_no buf r :
  short_tailb buf = false -> 5 <= r -> r <= 7 -> r <= len buf -> 8 <= tail_size buf r -> 16 - r < tail_size buf r.
Proof.
  unfold short_tailb. cbn [existsb]. intros H H5 H7 HL H8.
  assert (Hr : r = 5 \/ r = 6 \/ r = 7) by lia.
  destruct Hr as [-> | [-> | ->]]; lia.
Qed.

(* ---------------------------------------------------------------- read_header *)

Section P.
  Variable strict : bool.
  Variable cadd : bool.
  Variable dbg : bool.
  Variable buf : bytes.
  Hypothesis HL : len buf <= U64MAX.

  Lemma jread_header_cases pos name size p1 :
    pos <= len buf -> jread_header strict buf pos = Some (name, size, p1) ->
    (pos = len buf /\ name = 0 /\ size = 0 /\ p1 = pos)
    \/ (pos + 8 <= len buf /\ p1 = pos + 8)
    \/ (pos + 16 <= len buf /\ p1 = pos + 16)
    \/ (strict = false /\ pos < len buf /\ len buf < pos + 8 /\ p1 = len buf /\
        (name = 0 \/ (5 <= len buf - pos /\ name mod 256 = 0 /\ size = tail_size buf (len buf - pos)))).
  Proof.
    intros Hp. unfold jread_header.
    destruct (cread buf pos 8) as [b p] eqn:E.
    assert (Hts : de (firstn 4 (pad_to 8 b)) = tail_size buf (len buf - pos)).
    { unfold tail_size. replace (len buf - (len buf - pos)) with pos by lia. rewrite E. reflexivity. }
    apply cread_len in E. destruct E as (Hb & Hpp).
    destruct (len b =? 0) eqn:H0.
    { intro H; inversion H; subst. left. repeat split; lia. }
    destruct (strict && (len b <? 8)) eqn:Hs; [discriminate|].
    destruct (de (firstn 4 (pad_to 8 b)) =? 1) eqn:H1.
    { destruct (cread_exact buf p 8) as [[l p2]|] eqn:E2; [|discriminate].
      apply cread_exact_in in E2; [|lia]. intro H; inversion H; subst.
      right. right. left. lia. }
    intro H; inversion H; subst name size p1; clear H.
    destruct (len b <? 8) eqn:H8.
    2:{ right. left. lia. }
    right. right. right.
    assert (Hst : strict = false) by (destruct strict; [discriminate|reflexivity]).
    repeat split; try lia.
    rewrite <- Hts.
    assert (Hlen : (length b < 8)%nat) by (unfold len in H8; lia).
    assert (Hlb : len buf - pos = len b) by lia.
    rewrite Hlb. clear - Hlen H0.
    destruct b as [|b0 [|b1 [|b2 [|b3 [|b4 [|b5 [|b6 [|b7 t]]]]]]]]; cbn [length] in Hlen; try lia.
    - unfold len in H0; cbn in H0; lia.
    - left. cbn. lia.
    - left. cbn. lia.
    - left. cbn. lia.
    - left. cbn. lia.
    - right. split; [unfold len; cbn; lia|]. split; [|reflexivity].
      cbn. rewrite N.add_0_r. apply N.mod_mul. lia.
    - right. split; [unfold len; cbn; lia|]. split; [|reflexivity].
      cbn. rewrite N.add_0_r. apply N.mod_mul. lia.
    - right. split; [unfold len; cbn; lia|]. split; [|reflexivity].
      cbn. rewrite N.add_0_r. apply N.mod_mul. lia.
  Qed.

  (* every header read leaves the cursor between where it was and the end *)
  Lemma jread_header_range pos name size p1 :
    pos <= len buf -> jread_header strict buf pos = Some (name, size, p1) -> pos <= p1 /\ p1 <= len buf.
  Proof.
    intros Hp H. apply jread_header_cases in H; [|exact Hp]. lia.
  Qed.

  (* a header whose type is not a multiple of 256 (all known types) and not zero was read in full *)
  Lemma jread_header_full pos name size p1 :
    pos <= len buf -> jread_header strict buf pos = Some (name, size, p1) ->
    name <> 0 -> name mod 256 <> 0 -> pos + 8 <= p1 /\ p1 <= len buf.
  Proof.
    intros Hp H Hn Hm. apply jread_header_cases in H; [|exact Hp].
    destruct H as [H|[H|[H|H]]]; lia.
  Qed.

  (* ---------------------------------------------------------------- read_desc_box *)

  Lemma label_ok : forall l bl,
    match jread_label dbg l bl with
    | Ok (s, n, bl') => 1 <= n /\ n <= len l /\ 8 <= bl'
    | Err _ => True
    | Panic _ _ _ => False
    | OutOfFuel => False
    end.
  Proof.
    induction l as [|c t IH]; intro bl; cbn [jread_label]; rewrite HS8.
    - destruct (bl <=? 8); exact I.
    - destruct (bl <=? 8) eqn:Hb; [exact I|].
      rewrite sub64_ok by lia.
      destruct (c =? 0).
      + rewrite len_cons. lia.
      + specialize (IH (bl - 1)).
        destruct (jread_label dbg t (bl - 1)) as [[[s n] bl2]| | |]; try exact IH.
        rewrite len_cons. lia.
  Qed.

  Lemma desc_ok pos size :
    pos <= len buf ->
    match jread_desc strict dbg buf pos size with
    | Ok (p, lab) => pos <= p /\ p <= len buf
    | Err _ => True
    | Panic _ _ _ => False
    | OutOfFuel => False
    end.
  Proof.
    intro Hp. unfold jread_desc. rewrite JM26, HS8.
    destruct (size <? 26) eqn:Hs; [exact I|].
    destruct (cread buf pos 16) as [u p1] eqn:E. apply cread_len in E. destruct E as (Hu & Hp1).
    destruct (len u =? 0) eqn:H0; [lia|].
    rewrite sub64_ok by lia.
    destruct (cread_exact buf p1 1) as [[tg p2]|] eqn:E1; [|exact I].
    apply cread_exact_in in E1; [|lia].
    assert (Hu16 : len u = 16) by lia.
    rewrite sub64_ok by lia.
    destruct (negb (N.land (hd 0 tg) 3 =? 3)); [exact I|].
    pose proof (label_ok (rest buf p2) (size - len u - 1)) as HLb.
    destruct (jread_label dbg (rest buf p2) (size - len u - 1)) as [[[lab n] bl]| | |]; try exact HLb.
    rewrite len_rest in HLb. destruct HLb as (Hn1 & Hn2 & Hbl).
    (* box id *)
    assert (H4 : forall (K : out jerr (N * N) -> Prop),
               (forall p bl', p2 + n <= p -> p <= len buf -> 4 <= bl' -> K (Ok (p, bl'))) ->
               (forall e, K (Err e)) ->
               K (if N.land (hd 0 tg) 4 =? 4
                  then match cread_exact buf (p2 + n) 4 with
                       | None => Err EIoError
                       | Some (_, p) => do bl' <- sub64 (E := jerr) dbg SITE_DESC_ID bl 4; Ok (p, bl')
                       end
                  else Ok (p2 + n, bl))).
    { intros K KO KE. destruct (N.land (hd 0 tg) 4 =? 4).
      - destruct (cread_exact buf (p2 + n) 4) as [[x p]|] eqn:E4; [|apply KE].
        apply cread_exact_in in E4; [|lia]. rewrite sub64_ok by lia. apply KO; lia.
      - apply KO; lia. }
    apply H4; [|intros; exact I]. intros p4 bl4 Hp4 Hp4L Hbl4.
    (* signature *)
    assert (H5 : forall (K : out jerr (N * N) -> Prop),
               (forall p bl', p4 <= p -> p <= len buf -> K (Ok (p, bl'))) ->
               (forall e, K (Err e)) ->
               K (if N.land (hd 0 tg) 8 =? 8
                  then match cread_exact buf p4 32 with
                       | None => Err EIoError
                       | Some (_, p) => match checked_sub64 bl4 32 with
                                        | None => Err EInvalidDescriptionBox
                                        | Some bl' => Ok (p, bl')
                                        end
                       end
                  else Ok (p4, bl4))).
    { intros K KO KE. destruct (N.land (hd 0 tg) 8 =? 8).
      - destruct (cread_exact buf p4 32) as [[x p]|] eqn:E5; [|apply KE].
        apply cread_exact_in in E5; [|lia].
        destruct (checked_sub64 bl4 32); [apply KO; lia|apply KE].
      - apply KO; lia. }
    apply H5; [|intros; exact I]. intros p5 bl5 Hp5 Hp5L.
    (* private (salt) box *)
    destruct (N.land (hd 0 tg) 16 =? 16).
    2:{ destruct (bl5 =? 8); [lia|exact I]. }
    destruct (jread_header strict buf p5) as [[[hn hs] p6]|] eqn:EH; [|exact I].
    apply jread_header_range in EH; [|lia].
    destruct (hs =? 0); [exact I|].
    assert (H7 : forall o, (o = Some p6 \/ o = seek_back p6 8) ->
                 match o with
                 | None => True
                 | Some p7 => pos <= p7 /\ p7 <= len buf
                 end).
    { intros o [-> | ->]; [lia|]. destruct (seek_back p6 8) as [p7|] eqn:E7; [|exact I].
      apply seek_back_spec in E7. lia. }
    match goal with
    | |- context [match ?o with Some p7 => _ | None => Err EIoError end] =>
      assert (Ho : o = Some p6 \/ o = seek_back p6 8)
    end.
    { destruct (checked_sub64 bl5 8) as [x|]; [destruct (x =? hs)|]; auto. }
    match goal with
    | |- context [match ?o with Some p7 => _ | None => Err EIoError end] =>
      specialize (H7 o Ho); destruct o as [p7|]; [|exact I]
    end.
    destruct (hn =? J_C2SH); [|exact I].
    destruct (checked_sub64 hs 8) as [dl|]; [|exact I].
    destruct (read_to_vec buf p7 dl) as [p8|] eqn:E8; [|exact I].
    apply read_to_vec_spec in E8.
    destruct (checked_sub64 bl5 hs) as [bl9|]; [|exact I].
    destruct (bl9 =? 8); [lia|exact I].
  Qed.

  (* ---------------------------------------------------------------- content-box arms *)

  (* how an arm moves the cursor: [q] is the position after its own header read, [hs] the size that read saw *)
  Definition arm_ok (q hs size p a : N) : Prop :=
    (hs = 0 /\ p = q /\ a = 0) \/
    (8 <= size /\ a + 8 <= size /\
     ((hs = size /\ p = q + (size - 8)) \/ (hs <> size /\ 8 <= q /\ p = q - 8 + (size - 8)))).

  Lemma plain_arm p0 size p a hn hs q :
    p0 <= len buf ->
    jread_header strict buf p0 = Some (hn, hs, q) -> jread_plain strict buf p0 size = Some (p, a) ->
    arm_ok q hs size p a /\ p <= len buf.
  Proof.
    intros Hp0 EH. unfold jread_plain, arm_ok. rewrite EH, HS8.
    apply jread_header_range in EH; [|exact Hp0].
    destruct (hs =? 0) eqn:H0.
    { intro H; inversion H; subst. split; [left|]; lia. }
    destruct (hs =? size) eqn:Hsz.
    - destruct (checked_sub64 size 8) as [dl|] eqn:Ed; [|discriminate]. apply checked_sub64_spec in Ed.
      destruct (read_to_vec buf q dl) as [p3|] eqn:E3; [|discriminate]. apply read_to_vec_spec in E3.
      intro H; inversion H; subst. split; [right|]; lia.
    - destruct (seek_back q 8) as [p2|] eqn:E2; [|discriminate]. apply seek_back_spec in E2.
      destruct (checked_sub64 size 8) as [dl|] eqn:Ed; [|discriminate]. apply checked_sub64_spec in Ed.
      destruct (read_to_vec buf p2 dl) as [p3|] eqn:E3; [|discriminate]. apply read_to_vec_spec in E3.
      intro H; inversion H; subst. split; [right|]; lia.
  Qed.

  Lemma uuid_arm p0 size p a hn hs q :
    p0 <= len buf ->
    jread_header strict buf p0 = Some (hn, hs, q) -> jread_uuid strict buf p0 size = Some (p, a) ->
    arm_ok q hs size p a /\ p <= len buf.
  Proof.
    intros Hp0 EH. unfold jread_uuid, arm_ok. rewrite EH, HS8.
    apply jread_header_range in EH; [|exact Hp0].
    destruct (hs =? 0) eqn:H0.
    { intro H; inversion H; subst. split; [left|]; lia. }
    destruct (hs =? size) eqn:Hsz.
    - destruct (cread_exact buf q 16) as [[u p3]|] eqn:Eu; [|discriminate]. apply cread_exact_in in Eu; [|lia].
      destruct (checked_sub64 size (8 + 16)) as [dl|] eqn:Ed; [|discriminate]. apply checked_sub64_spec in Ed.
      destruct (read_to_vec buf p3 dl) as [p4|] eqn:E3; [|discriminate]. apply read_to_vec_spec in E3.
      intro H; inversion H; subst. split; [right|]; lia.
    - destruct (seek_back q 8) as [p2|] eqn:E2; [|discriminate]. apply seek_back_spec in E2.
      destruct (cread_exact buf p2 16) as [[u p3]|] eqn:Eu; [|discriminate]. apply cread_exact_in in Eu; [|lia].
      destruct (checked_sub64 size (8 + 16)) as [dl|] eqn:Ed; [|discriminate]. apply checked_sub64_spec in Ed.
      destruct (read_to_vec buf p3 dl) as [p4|] eqn:E3; [|discriminate]. apply read_to_vec_spec in E3.
      intro H; inversion H; subst. split; [right|]; lia.
  Qed.

  Lemma find0_some l p : find0 l = Some p -> 1 <= len l.
  Proof. destruct l; [discriminate|]. intros _. rewrite len_cons. lia. Qed.

  Lemma bfdb_kept_ok tog b :
    match bfdb_kept dbg tog b with
    | Ok k => k <= len b
    | Err _ => True
    | Panic _ _ _ => False
    | OutOfFuel => False
    end.
  Proof.
    unfold bfdb_kept. destruct (tog =? 1).
    - destruct (find0 b) as [p|] eqn:E; [|lia].
      apply find0_some in E. rewrite sub64_ok by lia. lia.
    - destruct (last b 1 =? 0); lia.
  Qed.

  Lemma bfdb_arm p0 size hn hs q :
    p0 <= len buf ->
    jread_header strict buf p0 = Some (hn, hs, q) ->
    match jread_bfdb strict dbg buf p0 size with
    | Ok (p, a) => arm_ok q hs size p a /\ p <= len buf
    | Err _ => True
    | Panic _ _ _ => False
    | OutOfFuel => False
    end.
  Proof.
    intros Hp0 EH. unfold jread_bfdb, arm_ok. rewrite EH, HS8, BM9, TS1.
    apply jread_header_range in EH; [|exact Hp0].
    destruct (size <? 9) eqn:H9; [exact I|].
    destruct (hs =? 0) eqn:H0.
    { split; [left|]; lia. }
    assert (HB : forall p2, p2 <= len buf -> (hs = size /\ p2 = q \/ hs <> size /\ 8 <= q /\ p2 = q - 8) ->
      match
        match cread_exact buf p2 1 with
        | Some (tg, p3) =>
            do d1 <- sub64 (E := jerr) dbg SITE_BFDB_LEN size 8;
            do dl <- sub64 (E := jerr) dbg SITE_BFDB_LEN d1 1;
            match read_to_vec buf p3 dl with
            | Some p4 => do k <- bfdb_kept dbg (hd 0 tg) (firstn (N.to_nat dl) (rest buf p3)); Ok (p4, k)
            | None => Err EInvalidBoxHeader
            end
        | None => Err EIoError
        end
      with
      | Ok (p, a) =>
        (hs = 0 /\ p = q /\ a = 0) \/
        (8 <= size /\ a + 8 <= size /\
         ((hs = size /\ p = q + (size - 8)) \/ (hs <> size /\ 8 <= q /\ p = q - 8 + (size - 8)))) /\ p <= len buf
      | Err _ => True
      | Panic _ _ _ => False
      | OutOfFuel => False
      end).
    { intros p2 Hp2 Hc.
      destruct (cread_exact buf p2 1) as [[tg p3]|] eqn:E1; [|exact I]. apply cread_exact_in in E1; [|lia].
      rewrite sub64_ok by lia. rewrite sub64_ok by lia.
      destruct (read_to_vec buf p3 (size - 8 - 1)) as [p4|] eqn:E4; [|exact I]. apply read_to_vec_spec in E4.
      pose proof (bfdb_kept_ok (hd 0 tg) (firstn (N.to_nat (size - 8 - 1)) (rest buf p3))) as HK.
      destruct (bfdb_kept dbg (hd 0 tg) (firstn (N.to_nat (size - 8 - 1)) (rest buf p3))) as [k| | |]; try exact HK.
      assert (Hk : k <= size - 8 - 1).
      { pose proof (len_firstn_le (rest buf p3) (N.to_nat (size - 8 - 1))) as H1.
        assert (H2 : len (firstn (N.to_nat (size - 8 - 1)) (rest buf p3)) <= size - 8 - 1).
        { unfold len. rewrite firstn_length. lia. }
        lia. }
      right. lia. }
    destruct (hs =? size) eqn:Hsz.
    - specialize (HB q). 
      match goal with |- match ?X with _ => _ end => 
        match type of HB with _ -> _ -> match ?Y with _ => _ end => change X with Y end end.
      match type of HB with _ -> _ -> ?G => assert (HG : G) by (apply HB; lia) end.
      destruct (cread_exact buf q 1) as [[tg p3]|]; [|exact I].
      revert HG.
      destruct (sub64 (E := jerr) dbg SITE_BFDB_LEN size 8); try (intro HG; exact HG).
      destruct (sub64 (E := jerr) dbg SITE_BFDB_LEN a 1); try (intro HG; exact HG).
      destruct (read_to_vec buf p3 a0); try (intro HG; exact HG).
      destruct (bfdb_kept dbg (hd 0 tg) (firstn (N.to_nat a0) (rest buf p3))); try (intro HG; exact HG).
      intros [HG|HG]; [lia|]. split; [right|]; lia.
    - destruct (seek_back q 8) as [p2|] eqn:E2; [|exact I]. apply seek_back_spec in E2.
      specialize (HB p2).
      match type of HB with _ -> _ -> ?G => assert (HG : G) by (apply HB; lia) end.
      destruct (cread_exact buf p2 1) as [[tg p3]|]; [|exact I].
      revert HG.
      destruct (sub64 (E := jerr) dbg SITE_BFDB_LEN size 8); try (intro HG; exact HG).
      destruct (sub64 (E := jerr) dbg SITE_BFDB_LEN a 1); try (intro HG; exact HG).
      destruct (read_to_vec buf p3 a0); try (intro HG; exact HG).
      destruct (bfdb_kept dbg (hd 0 tg) (firstn (N.to_nat a0) (rest buf p3))); try (intro HG; exact HG).
      intros [HG|HG]; [lia|]. split; [right|]; lia.
  Qed.
End P.
