(* Proofs/BoxMapJpegProofs.v — the JPEG box map: witnesses for the known classes (trailing bytes, bytes between
   segments, restart markers inside the SOS entry, split C2PA run) and the tiling theorem for files outside them. *)
From Coq Require Import List NArith Bool Lia Arith Sorting.Sorted Wf_nat.
From Coq Require Import ZifyBool ZifyNat ZifyN.
From C2PA Require Import Base.Bytes Proofs.BytesProofs Generated.C12_facts Model.BoxMap Model.BoxMapJpeg
     Proofs.BoxMapProofs.
Import ListNotations.
Open Scope N_scope.

Arguments N.add : simpl never.
Arguments N.sub : simpl never.
Arguments N.eqb : simpl never.
Arguments N.ltb : simpl never.
Arguments N.leb : simpl never.
Arguments N.mul : simpl never.
Arguments N.div : simpl never.
Arguments N.modulo : simpl never.

(* ---------------------------------------------------------------- witnesses (evaluated on the model; replayed on the implementation by ./check) *)

Definition w_app0 : jseg := JS [] 224 [74;70;73;70;0;1;1;0;0;1;0;1;0;0] [].
Definition w_dqt : jseg := JS [] 219 [0;1;2] [].
Definition w_sos : jseg := JS [] 218 [1;1;0;0;63;0] [5;6;255;0;7].
Definition w_eoi : jseg := JS [] 217 [] [].
Definition w_c2pa (z extra : N) : jseg :=
  JS [] 235 ([74;80;2;17;0;0;0;z;0;0;0;100;106;117;109;98;0;0;0;50;106;117;109;100;99;50;112;97] ++ [extra]) [].

Definition w_trailing := ([w_app0; w_dqt; w_sos; w_eoi], [1;2;3]).
Definition w_gap := ([w_app0; JS [0;0] 219 [0;1;2] []; w_sos; w_eoi], @nil N).
Definition w_rst := ([w_app0; w_sos; JS [] 208 [] [9;9]; w_eoi], @nil N).
Definition w_split := ([w_app0; w_c2pa 1 7; JS [] 225 [1;2;3;4;5;6] []; w_c2pa 2 8; w_dqt; w_sos; w_eoi], @nil N).

Theorem jpeg_trailing_refuted :
  exists segs tr m, jwf segs tr = true /\ jpeg_box_map segs tr = Ok m
    /\ trailing (len (jpeg_file segs tr)) m
    /\ exists i, i < len (jpeg_file segs tr) /\ cover_count i m = 0%nat.
Proof.
  exists (fst w_trailing), (snd w_trailing). eexists.
  split; [vm_compute; reflexivity|]. split; [vm_compute; reflexivity|].
  split; [vm_compute; reflexivity|].
  exists 45. split; vm_compute; reflexivity.
Qed.

Theorem jpeg_gap_refuted :
  exists segs m, jwf segs [] = true /\ jpeg_box_map segs [] = Ok m
    /\ ~ trailing (len (jpeg_file segs [])) m
    /\ exists i, i < len (jpeg_file segs []) /\ cover_count i m = 0%nat.
Proof.
  exists (fst w_gap). eexists.
  split; [vm_compute; reflexivity|]. split; [vm_compute; reflexivity|].
  split; [vm_compute; discriminate|].
  exists 20. split; vm_compute; reflexivity.
Qed.

Theorem jpeg_rst_overlap_refuted :
  exists segs m, jwf segs [] = true /\ jpeg_box_map segs [] = Ok m
    /\ exists i, cover_count i m = 2%nat.
Proof.
  exists (fst w_rst). eexists.
  split; [vm_compute; reflexivity|]. split; [vm_compute; reflexivity|].
  exists 35. vm_compute; reflexivity.
Qed.

Theorem jpeg_split_run_refuted :
  exists segs m, jwf segs [] = true /\ jpeg_box_map segs [] = Ok m
    /\ exists i, cover_count i m = 2%nat.
Proof.
  exists (fst w_split). eexists.
  split; [vm_compute; reflexivity|]. split; [vm_compute; reflexivity|].
  exists 60. vm_compute; reflexivity.
Qed.
