(* Proofs/SniffProofs.v — format resolution: the detected container wins over any hint; the hint is used only when
   detection fails; rows of the magic table anchored at offset 0 are pairwise exclusive. *)
From Coq Require Import List NArith Bool String Lia Arith.
From Coq Require Import ZifyBool ZifyNat ZifyN.
From C2PA Require Import Base.Bytes Model.SniffTypes Generated.C11_facts Model.Sniff.
Import ListNotations.
Open Scope N_scope.

(* ---------------------------------------------------------------- families *)

Definition row_fams (r : row) : list string :=
  match rkind r with RFam f => [f] | RId3 => ["flac"%string; "mp3"%string] end.
Definition FAMILIES : list string := flat_map row_fams MAGIC_ROWS.

Lemma row_result_in b buf r : In (row_result b buf r) (row_fams r).
Proof.
  unfold row_result, row_fams. destruct (rkind r); [left; reflexivity|].
  unfold id3_family. destruct (_ <=? _); [destruct (bytes_eqb _ _)|]; [left|right; left|right; left]; reflexivity.
Qed.

Lemma first_row_in n b buf : forall rows d, first_row n b buf rows = Some d -> In d (flat_map row_fams rows).
Proof.
  induction rows as [|r t IH]; intros d H; cbn [first_row] in H; [discriminate|].
  cbn [flat_map]. apply in_or_app. destruct (row_ok n buf r).
  - inversion H; subst. left. apply row_result_in.
  - right; auto.
Qed.

Lemma detect_in_families b d : detect b = Some d -> In d FAMILIES.
Proof.
  unfold detect. destruct (len (firstn SNIFF_BUF b) <? SNIFF_MIN); [discriminate|].
  apply first_row_in.
Qed.

(* every container id the detection can return is a registered format string *)
Definition registered (f : string) : bool :=
  match container_from_format f with Some _ => true | None => false end.

Lemma families_registered : forallb registered FAMILIES = true.
Proof. vm_compute. reflexivity. Qed.

Lemma family_registered d : In d FAMILIES -> container_from_format d <> None.
Proof.
  intros H. pose proof families_registered as F. rewrite forallb_forall in F. specialize (F _ H).
  unfold registered in F. destruct (container_from_format d); [discriminate|discriminate].
Qed.

(* CONTAINER_MAP is idempotent: a container id (first format string of a handler) maps to itself *)
Definition idem_row (ac : string * string) : bool :=
  match container_from_format (snd ac) with Some c => String.eqb c (snd ac) | None => false end.

Lemma table_idempotent : forallb idem_row FORMAT_TABLE = true.
Proof. vm_compute. reflexivity. Qed.

Lemma lookup_last_in k : forall t acc c, lookup_last k t acc = Some c ->
  acc = Some c \/ exists a, In (a, c) t.
Proof.
  induction t as [|[a c'] t IH]; intros acc c H; cbn [lookup_last] in H; auto.
  apply IH in H. destruct H as [H | [a' H]].
  - destruct (String.eqb a k); [inversion H; subst; right; exists a; left; reflexivity|auto].
  - right. exists a'. right. exact H.
Qed.

Lemma container_idem h c : container_from_format h = Some c -> container_from_format c = Some c.
Proof.
  unfold container_from_format at 1. intros H. apply lookup_last_in in H. destruct H as [H | [a H]]; [discriminate|].
  pose proof table_idempotent as T. rewrite forallb_forall in T. specialize (T _ H). unfold idem_row in T. cbn [snd] in T.
  destruct (container_from_format c) as [c2|]; [|discriminate]. apply String.eqb_eq in T. congruence.
Qed.

(* ---------------------------------------------------------------- format_from_stream *)

Theorem detected_wins b d : detect b = Some d ->
  forall h, container_from_format (resolve h b) = container_from_format d /\ container_from_format d <> None.
Proof.
  intros D h. split; [|apply family_registered; eapply detect_in_families; eauto].
  unfold resolve. rewrite D.
  destruct (container_from_format h) as [c|] eqn:C; [|reflexivity].
  destruct (String.eqb c d) eqn:E; [|reflexivity].
  apply String.eqb_eq in E. subst c. rewrite C. symmetry. eapply container_idem; eauto.
Qed.

Theorem hint_only_when_undetected b : detect b = None -> forall h, resolve h b = h.
Proof. intros D h. unfold resolve. rewrite D. destruct (container_from_format h); reflexivity. Qed.

Theorem resolved_family_hint_independent b d :
  detect b = Some d -> forall h1 h2, container_from_format (resolve h1 b) = container_from_format (resolve h2 b).
Proof. intros D h1 h2. destruct (detected_wins _ _ D h1) as [-> _]. destruct (detected_wins _ _ D h2) as [-> _]. reflexivity. Qed.

(* a hint of the detected family is kept verbatim (it may be more specific, e.g. "dng" within TIFF) *)
Theorem same_family_hint_kept b d h :
  detect b = Some d -> container_from_format h = Some d -> resolve h b = h.
Proof. intros D C. unfold resolve. rewrite D, C. rewrite String.eqb_refl. reflexivity. Qed.

Theorem other_family_hint_replaced b d h :
  detect b = Some d -> container_from_format h <> Some d -> resolve h b = d.
Proof.
  intros D C. unfold resolve. rewrite D. destruct (container_from_format h) as [c|]; auto.
  destruct (String.eqb c d) eqn:E; auto. apply String.eqb_eq in E. congruence.
Qed.

(* ---------------------------------------------------------------- exclusivity of the rows *)

Definition BYTES256 : list N := map N.of_nat (seq 0 256).

Definition pats_conflict (p1 p2 : pat) : bool :=
  (poff p1 =? poff p2)%nat
  && negb (existsb (fun v => (N.land v (pmask p1) =? pval p1) && (N.land v (pmask p2) =? pval p2)) BYTES256).
Definition alts_conflict (a1 a2 : alt) : bool :=
  existsb (fun p1 => existsb (pats_conflict p1) (apats a2)) (apats a1).
Definition rows_conflict (r1 r2 : row) : bool :=
  forallb (fun a1 => forallb (alts_conflict a1) (ralts r2)) (ralts r1).

Definition bytes_ok (buf : bytes) : Prop := Forall (fun x => x < 256) buf.

Lemma byte_at_lt buf i : bytes_ok buf -> byte_at buf i < 256.
Proof.
  intros H. unfold byte_at. destruct (nth_in_or_default i buf 0) as [I | ->]; [|lia].
  unfold bytes_ok in H. rewrite Forall_forall in H. auto.
Qed.

Lemma in_bytes256 v : v < 256 -> In v BYTES256.
Proof.
  intros H. unfold BYTES256. replace v with (N.of_nat (N.to_nat v)) by lia.
  apply in_map. apply in_seq. lia.
Qed.

Theorem rows_conflict_sound r1 r2 n buf :
  rows_conflict r1 r2 = true -> bytes_ok buf -> row_ok n buf r1 = true -> row_ok n buf r2 = true -> False.
Proof.
  unfold rows_conflict, row_ok. intros C B H1 H2.
  apply existsb_exists in H1. destruct H1 as (a1 & I1 & O1).
  apply existsb_exists in H2. destruct H2 as (a2 & I2 & O2).
  rewrite forallb_forall in C. specialize (C _ I1). rewrite forallb_forall in C. specialize (C _ I2).
  unfold alts_conflict in C. apply existsb_exists in C. destruct C as (p1 & J1 & C).
  apply existsb_exists in C. destruct C as (p2 & J2 & C).
  unfold pats_conflict in C. apply andb_true_iff in C. destruct C as [Eo Ne].
  apply negb_true_iff in Ne.
  unfold alt_ok in O1, O2. apply andb_true_iff in O1. destruct O1 as [_ O1]. apply andb_true_iff in O2. destruct O2 as [_ O2].
  rewrite forallb_forall in O1, O2. specialize (O1 _ J1). specialize (O2 _ J2).
  unfold pat_ok in O1, O2. apply Nat.eqb_eq in Eo. rewrite <- Eo in O2.
  assert (existsb (fun v => (N.land v (pmask p1) =? pval p1) && (N.land v (pmask p2) =? pval p2)) BYTES256 = true).
  { apply existsb_exists. exists (byte_at buf (poff p1)). split.
    - apply in_bytes256. apply byte_at_lt; auto.
    - rewrite O1, O2. reflexivity. }
  congruence.
Qed.

(* a row with no pattern at offset 0 (the BMFF "ftyp" row at offset 4) *)
Definition floating (r : row) : bool :=
  forallb (fun a => forallb (fun p => (0 <? poff p)%nat) (apats a)) (ralts r).

Definition dummy_row : row := R [] RId3.
Definition pairwise_exclusive (rows : list row) : bool :=
  let idx := seq 0 (List.length rows) in
  forallb (fun i => forallb (fun j =>
      (i =? j)%nat || floating (nth i rows dummy_row) || floating (nth j rows dummy_row)
      || rows_conflict (nth i rows dummy_row) (nth j rows dummy_row)) idx) idx.

Lemma magic_rows_exclusive : pairwise_exclusive MAGIC_ROWS = true.
Proof. vm_compute. reflexivity. Qed.

Lemma one_floating_row : List.length (filter floating MAGIC_ROWS) = 1%nat.
Proof. vm_compute. reflexivity. Qed.

(* two different rows anchored at offset 0 never match the same bytes: their order in the cascade cannot matter *)
Theorem magic_disjoint_partial i j n buf :
  (i < List.length MAGIC_ROWS)%nat -> (j < List.length MAGIC_ROWS)%nat -> i <> j ->
  floating (nth i MAGIC_ROWS dummy_row) = false -> floating (nth j MAGIC_ROWS dummy_row) = false ->
  bytes_ok buf ->
  ~ (row_ok n buf (nth i MAGIC_ROWS dummy_row) = true /\ row_ok n buf (nth j MAGIC_ROWS dummy_row) = true).
Proof.
  intros Hi Hj Hij Fi Fj B [H1 H2].
  pose proof magic_rows_exclusive as X. unfold pairwise_exclusive in X.
  rewrite forallb_forall in X. specialize (X i). rewrite forallb_forall in X.
  assert (In i (seq 0 (List.length MAGIC_ROWS))) as Ii by (apply in_seq; lia).
  assert (In j (seq 0 (List.length MAGIC_ROWS))) as Ij by (apply in_seq; lia).
  specialize (X Ii j Ij). rewrite Fi, Fj in X.
  assert ((i =? j)%nat = false) as E by (apply Nat.eqb_neq; auto). rewrite E in X. cbn [orb] in X.
  eapply rows_conflict_sound; eauto.
Qed.

(* the full statement (no byte string matches two rows of different families) is false: the ftyp row overlaps *)
Definition overlap_witness : bytes := [82;73;70;70;102;116;121;112;0;0;0;0;0;0;0;0].   (* "RIFFftyp" *)

Fixpoint row_index (f : string) (rows : list row) : nat :=
  match rows with
  | [] => O
  | r :: t => match rkind r with
              | RFam g => if String.eqb f g then O else S (row_index f t)
              | RId3 => S (row_index f t)
              end
  end.

Theorem magic_overlap_refuted :
  exists buf i j, bytes_ok buf /\ i <> j
    /\ row_ok (len buf) buf (nth i MAGIC_ROWS dummy_row) = true /\ row_ok (len buf) buf (nth j MAGIC_ROWS dummy_row) = true
    /\ rkind (nth i MAGIC_ROWS dummy_row) = RFam "avi"%string /\ rkind (nth j MAGIC_ROWS dummy_row) = RFam "avif"%string
    /\ detect buf = Some "avi"%string.
Proof.
  exists overlap_witness, (row_index "avi" MAGIC_ROWS), (row_index "avif" MAGIC_ROWS).
  repeat split; try (vm_compute; reflexivity); try (vm_compute; discriminate).
  unfold bytes_ok, overlap_witness. repeat constructor.
Qed.

(* CONTAINER_MAP: no format string is registered by two handlers, so the insertion order is immaterial *)
Lemma format_table_nodup : NoDup (map fst FORMAT_TABLE).
Proof.
  assert (forall (l : list string), (fix nd (l : list string) : bool :=
            match l with [] => true | x :: t => negb (existsb (String.eqb x) t) && nd t end) l = true -> NoDup l) as D.
  { induction l as [|x t IH]; intros H; constructor.
    - apply andb_true_iff in H. destruct H as [H _]. apply negb_true_iff in H. intros I.
      assert (existsb (String.eqb x) t = true) by (apply existsb_exists; exists x; split; auto; apply String.eqb_refl).
      congruence.
    - apply andb_true_iff in H. destruct H as [_ H]. auto. }
  apply D. vm_compute. reflexivity.
Qed.
