(* Proofs/IngredientGraphProofs.v — termination, cost, and rejection theorems for the ingredient-graph walks. *)
From Coq Require Import NArith List Bool Arith Lia Relations.
From C2PA Require Import Generated.C19_facts Model.IngredientGraph.
Import ListNotations.

Local Opaque MAX_INGREDIENT_DEPTH.

(* ------------------------------------------------------------------ basics *)

Lemma memb_In : forall l xs, memb l xs = true <-> In l xs.
Proof.
  induction xs as [|x r IH]; cbn [memb In].
  - split; [discriminate | tauto].
  - destruct (N.eqb x l) eqn:E.
    + apply N.eqb_eq in E. subst. tauto.
    + apply N.eqb_neq in E. rewrite IH. split; [tauto | intros [H|H]; [contradiction | exact H]].
Qed.

Lemma memb_false : forall l xs, memb l xs = false <-> ~ In l xs.
Proof.
  intros. rewrite <- memb_In. destruct (memb l xs); split; intros H.
  - discriminate.
  - exfalso; apply H; reflexivity.
  - intro; discriminate.
  - reflexivity.
Qed.

Lemma lookup_keys : forall st l m, lookup st l = Some m -> In l (keys st).
Proof.
  induction st as [|[k m'] r IH]; cbn [lookup keys map fst In]; intros l m H; [discriminate|].
  destruct (N.eqb k l) eqn:E.
  - apply N.eqb_eq in E. auto.
  - right. eapply IH; eauto.
Qed.

Lemma keys_length : forall st, length (keys st) = n_manifests st.
Proof. intros. unfold keys, n_manifests. apply map_length. Qed.

(* out-degree and the weight of a list of labels *)
Definition outdeg (st : store) (x : label) : nat :=
  match lookup st x with Some m => length (m_ings m) | None => 0 end.

Fixpoint W (st : store) (l : list label) : nat :=
  match l with [] => 0 | x :: r => outdeg st x + W st r end.

Lemma outdeg_cons_eq : forall k m r, outdeg ((k, m) :: r) k = length (m_ings m).
Proof. intros. unfold outdeg. cbn [lookup]. rewrite N.eqb_refl. reflexivity. Qed.

Lemma outdeg_cons_neq : forall k m r x, k <> x -> outdeg ((k, m) :: r) x = outdeg r x.
Proof. intros. unfold outdeg. cbn [lookup]. apply N.eqb_neq in H. rewrite H. reflexivity. Qed.

(* a duplicate-free list of labels weighs at most the number of references in the store *)
Lemma W_le_refs : forall st l, NoDup l -> W st l <= n_refs st.
Proof.
  induction st as [|[k m] r IH]; intros l ND.
  - induction l as [|x l IHl]; cbn [W]; [lia|]. inversion ND; subst. unfold outdeg at 1. cbn [lookup]. specialize (IHl H2). cbn [n_refs] in *. lia.
  - cbn [n_refs].
    assert (G : forall l, NoDup l -> ~ In k l -> W ((k, m) :: r) l = W r l).
    { induction l0 as [|x l0 IHl]; intros ND0 NI; cbn [W]; [reflexivity|].
      inversion ND0; subst. rewrite outdeg_cons_neq by (intro; subst; apply NI; left; reflexivity).
      rewrite IHl; auto. intro; apply NI; right; assumption. }
    destruct (in_dec N.eq_dec k l) as [Hin|Hni].
    + apply in_split in Hin. destruct Hin as [l1 [l2 ->]].
      assert (ND' : NoDup (l1 ++ l2)) by (eapply NoDup_remove_1; eauto).
      assert (NI : ~ In k (l1 ++ l2)) by (eapply NoDup_remove_2; eauto).
      assert (E : W ((k, m) :: r) (l1 ++ k :: l2) = length (m_ings m) + W ((k, m) :: r) (l1 ++ l2)).
      { clear. induction l1 as [|x l1 IH1]; cbn [app W].
        - rewrite outdeg_cons_eq. reflexivity.
        - rewrite IH1. lia. }
      pose proof (G _ ND' NI) as G'. specialize (IH _ ND'). unfold label in *. lia.
    + pose proof (G _ ND Hni) as G'. specialize (IH _ ND). unfold label in *. lia.
Qed.

Lemma NoDup_incl_len : forall (l l' : list label), NoDup l -> incl l l' -> length l <= length l'.
Proof. intros. apply NoDup_incl_length; assumption. Qed.

(* ================================================================== referenced *)

Section Referenced.
Variable st : store.
Variable stop : bool.

Definition rcall (f : nat) (path' : list label) := fun t mi s' => referenced f st stop t mi path' s'.

Lemma referenced_S : forall f c m path s,
  referenced (S f) st stop c m path s =
  if MAX_INGREDIENT_DEPTH <=? length path then (rtick s, Some (EDepth (length path)))
  else if memb c (rs_memo (rtick s)) then (rtick s, None)
  else ref_loop (rcall f (c :: path)) st stop c (c :: path) 0 (m_ings m) (renter c (length (c :: path)) (rtick s)).
Proof. reflexivity. Qed.

(* ---------- cost: calls + iterations, by a potential argument on the memo *)

Definition cost_ok (s s' : rstate) (extra : nat) : Prop :=
  rs_steps s' + 2 * W st (rs_memo s) <= rs_steps s + extra + 2 * W st (rs_memo s').

Lemma ref_loop_cost : forall rec c path',
  (forall t mi s s' e, lookup st t = Some mi -> rec t mi s = (s', e) -> cost_ok s s' 1) ->
  forall ings k s s' e, ref_loop rec st stop c path' k ings s = (s', e) -> cost_ok s s' (2 * length ings).
Proof.
  intros rec c path' Hrec. induction ings as [|i rest IH]; intros k s s' e H; cbn [ref_loop] in H.
  - inversion H; subst. unfold cost_ok. cbn [length]. lia.
  - unfold cost_ok in *. cbn [length].
    destruct (negb (r_manifest i)).
    + apply IH in H. cbn [rtick rs_steps rs_memo] in H. lia.
    + destruct (lookup st (r_target i)) as [mi|] eqn:L.
      * destruct (memb (r_target i) path').
        { inversion H; subst. cbn. lia. }
        destruct (rec (r_target i) mi (rref (r_target i) c (rtick s))) as [s2 [e2|]] eqn:R.
        { inversion H; subst. apply Hrec in R; [|assumption]. unfold cost_ok in R. cbn [rref rtick rs_steps rs_memo] in R. lia. }
        apply Hrec in R; [|assumption]. apply IH in H. unfold cost_ok in R. cbn [rref rtick rs_steps rs_memo] in R. lia.
      * destruct stop.
        { inversion H; subst. cbn. lia. }
        apply IH in H. cbn [rlog rtick rs_steps rs_memo] in H. lia.
Qed.

Lemma referenced_cost : forall fuel c m path s s' e,
  lookup st c = Some m -> referenced fuel st stop c m path s = (s', e) -> cost_ok s s' 1.
Proof.
  induction fuel as [|f IH]; intros c m path s s' e L H.
  - cbn [referenced] in H. inversion H; subst. unfold cost_ok. lia.
  - rewrite referenced_S in H.
    destruct (MAX_INGREDIENT_DEPTH <=? length path).
    { inversion H; subst. unfold cost_ok. cbn. lia. }
    destruct (memb c (rs_memo (rtick s))).
    { inversion H; subst. unfold cost_ok. cbn. lia. }
    eapply ref_loop_cost in H.
    2:{ intros t mi s0 s0' e0 Lt R. unfold rcall in R. eapply IH; eauto. }
    unfold cost_ok in *. cbn [renter rtick rs_steps rs_memo W] in H.
    unfold outdeg in H at 1. rewrite L in H. lia.
Qed.

(* ---------- the memo stays duplicate-free and inside the store *)

Definition memo_ok (s : rstate) : Prop := NoDup (rs_memo s) /\ incl (rs_memo s) (keys st).

Lemma ref_loop_memo : forall rec c path',
  (forall t mi s s' e, lookup st t = Some mi -> memo_ok s -> rec t mi s = (s', e) -> memo_ok s') ->
  forall ings k s s' e, memo_ok s -> ref_loop rec st stop c path' k ings s = (s', e) -> memo_ok s'.
Proof.
  intros rec c path' Hrec. induction ings as [|i rest IH]; intros k s s' e M H; cbn [ref_loop] in H.
  - inversion H; subst. assumption.
  - destruct (negb (r_manifest i)).
    + eapply IH; [|eassumption]. exact M.
    + destruct (lookup st (r_target i)) as [mi|] eqn:L.
      * destruct (memb (r_target i) path').
        { inversion H; subst. exact M. }
        destruct (rec (r_target i) mi (rref (r_target i) c (rtick s))) as [s2 [e2|]] eqn:R.
        { inversion H; subst. eapply Hrec; [eassumption| |eassumption]. exact M. }
        eapply IH; [|eassumption]. eapply Hrec; [eassumption| |eassumption]. exact M.
      * destruct stop.
        { inversion H; subst. exact M. }
        eapply IH; [|eassumption]. exact M.
Qed.

Lemma referenced_memo : forall fuel c m path s s' e,
  lookup st c = Some m -> memo_ok s -> referenced fuel st stop c m path s = (s', e) -> memo_ok s'.
Proof.
  induction fuel as [|f IH]; intros c m path s s' e L M H.
  - cbn [referenced] in H. inversion H; subst. assumption.
  - rewrite referenced_S in H.
    destruct (MAX_INGREDIENT_DEPTH <=? length path).
    { inversion H; subst. exact M. }
    destruct (memb c (rs_memo (rtick s))) eqn:Mb.
    { inversion H; subst. exact M. }
    eapply ref_loop_memo in H; [exact H| |].
    + intros t mi s0 s0' e0 Lt M0 R. unfold rcall in R. eapply IH; eauto.
    + destruct M as [ND IN]. split; cbn [renter rtick rs_memo] in *.
      * constructor; [|assumption]. apply memb_false. exact Mb.
      * intros x [->|Hx]; [eapply lookup_keys; eauto | auto].
Qed.

(* ---------- recursion depth: the path never grows beyond the limit *)

Lemma ref_loop_depth : forall rec c path' B,
  (forall t mi s s' e, rs_maxdepth s <= B -> rec t mi s = (s', e) -> rs_maxdepth s' <= B) ->
  forall ings k s s' e, rs_maxdepth s <= B -> ref_loop rec st stop c path' k ings s = (s', e) -> rs_maxdepth s' <= B.
Proof.
  intros rec c path' B Hrec. induction ings as [|i rest IH]; intros k s s' e M H; cbn [ref_loop] in H.
  - inversion H; subst. assumption.
  - destruct (negb (r_manifest i)).
    + eapply IH; [|eassumption]. exact M.
    + destruct (lookup st (r_target i)) as [mi|] eqn:L.
      * destruct (memb (r_target i) path').
        { inversion H; subst. exact M. }
        destruct (rec (r_target i) mi (rref (r_target i) c (rtick s))) as [s2 [e2|]] eqn:R.
        { inversion H; subst. eapply Hrec; [|eassumption]. exact M. }
        eapply IH; [|eassumption]. eapply Hrec; [|eassumption]. exact M.
      * destruct stop.
        { inversion H; subst. exact M. }
        eapply IH; [|eassumption]. exact M.
Qed.

Lemma referenced_depth : forall fuel c m path s s' e,
  rs_maxdepth s <= MAX_INGREDIENT_DEPTH ->
  referenced fuel st stop c m path s = (s', e) -> rs_maxdepth s' <= MAX_INGREDIENT_DEPTH.
Proof.
  induction fuel as [|f IH]; intros c m path s s' e M H.
  - cbn [referenced] in H. inversion H; subst. assumption.
  - rewrite referenced_S in H.
    destruct (MAX_INGREDIENT_DEPTH <=? length path) eqn:D.
    { inversion H; subst. exact M. }
    apply Nat.leb_gt in D.
    destruct (memb c (rs_memo (rtick s))).
    { inversion H; subst. exact M. }
    eapply ref_loop_depth in H; [exact H| |].
    + intros t mi s0 s0' e0 M0 R. unfold rcall in R. eapply IH; eauto.
    + cbn [renter rtick rs_maxdepth length]. apply Nat.max_lub; [lia | exact M].
Qed.

(* ---------- fuel: the path is duplicate-free and inside the store, so |V| levels suffice;
              the depth error carries exactly the limit; a store with at most `limit` manifests never hits it *)

Definition path_ok (c : label) (path : list label) : Prop := NoDup (c :: path) /\ incl (c :: path) (keys st).

Definition err_ok (path : list label) (e : option werr) : Prop :=
  e <> Some EOutOfFuel /\
  (forall d, e = Some (EDepth d) -> d = MAX_INGREDIENT_DEPTH /\ MAX_INGREDIENT_DEPTH < n_manifests st).

Lemma ref_loop_fuel : forall rec c path',
  (forall t mi s s' e, lookup st t = Some mi -> ~ In t path' -> rec t mi s = (s', e) -> err_ok path' e) ->
  forall ings k s s' e, ref_loop rec st stop c path' k ings s = (s', e) -> err_ok path' e.
Proof.
  intros rec c path' Hrec. induction ings as [|i rest IH]; intros k s s' e H; cbn [ref_loop] in H.
  - inversion H; subst. split; [discriminate | intros; discriminate].
  - destruct (negb (r_manifest i)).
    + eapply IH; eassumption.
    + destruct (lookup st (r_target i)) as [mi|] eqn:L.
      * destruct (memb (r_target i) path') eqn:Mb.
        { inversion H; subst. split; [discriminate | intros; discriminate]. }
        apply memb_false in Mb.
        destruct (rec (r_target i) mi (rref (r_target i) c (rtick s))) as [s2 [e2|]] eqn:R.
        { inversion H; subst. eapply Hrec; eassumption. }
        eapply IH; eassumption.
      * destruct stop.
        { inversion H; subst. split; [discriminate | intros; discriminate]. }
        eapply IH; eassumption.
Qed.

Lemma referenced_fuel : forall fuel c m path s s' e,
  lookup st c = Some m -> path_ok c path -> length path <= MAX_INGREDIENT_DEPTH ->
  n_manifests st < fuel + length (c :: path) ->
  referenced fuel st stop c m path s = (s', e) -> err_ok path e.
Proof.
  induction fuel as [|f IH]; intros c m path s s' e L [ND IN] LP F H.
  - exfalso. apply NoDup_incl_len in IN; [|assumption]. rewrite keys_length in IN. cbn [length] in *. lia.
  - rewrite referenced_S in H.
    assert (LEN : length (c :: path) <= n_manifests st).
    { rewrite <- keys_length. apply NoDup_incl_len; assumption. }
    destruct (MAX_INGREDIENT_DEPTH <=? length path) eqn:D.
    { inversion H; subst. apply Nat.leb_le in D. split; [discriminate|].
      intros d E. inversion E; subst. cbn [length] in LEN. split; lia. }
    apply Nat.leb_gt in D.
    destruct (memb c (rs_memo (rtick s))).
    { inversion H; subst. split; [discriminate | intros; discriminate]. }
    eapply ref_loop_fuel in H.
    2:{ intros t mi s0 s0' e0 Lt NI R. unfold rcall in R.
        eapply IH in R; [| eassumption | | | ].
        - destruct R as [R1 R2]. split; [exact R1|]. exact R2.
        - split; [constructor; assumption|]. intros x [->|Hx]; [eapply lookup_keys; eauto | auto].
        - cbn [length]. lia.
        - cbn [length] in *. lia. }
    destruct H as [H1 H2]. split; [exact H1|]. exact H2.
Qed.

End Referenced.

(* ================================================================== the graph of a store *)

Section Graph.
Variable st : store.

(* x references y through an ingredient assertion with a manifest URI, and y is in the store *)
Definition edge (x y : label) : Prop :=
  exists m i, lookup st x = Some m /\ In i (m_ings m) /\ r_manifest i = true /\ r_target i = y /\ lookup st y <> None.

(* x carries a reference to a manifest that is not in the store *)
Definition dangling_at (x t : label) : Prop :=
  exists m i, lookup st x = Some m /\ In i (m_ings m) /\ r_manifest i = true /\ r_target i = t /\ lookup st t = None.

Definition reach : label -> label -> Prop := clos_refl_trans label edge.
Definition on_cycle (y : label) : Prop := clos_trans label edge y y.

(* [pathto root p y]: p lists the manifests on a reference path root -> ... -> y (y excluded), nearest first *)
Inductive pathto (root : label) : list label -> label -> Prop :=
| pt_nil : pathto root [] root
| pt_cons : forall p x y, pathto root p x -> edge x y -> pathto root (x :: p) y.

(* "finished": the manifest was collected, every present successor is finished, every missing one was logged *)
Inductive fin (L : list litem) (M : list label) : label -> Prop :=
| fin_intro : forall x m,
    lookup st x = Some m -> In x M ->
    (forall i, In i (m_ings m) -> r_manifest i = true -> lookup st (r_target i) = None -> In (LMissing (r_target i)) L) ->
    (forall i mi, In i (m_ings m) -> r_manifest i = true -> lookup st (r_target i) = Some mi -> fin L M (r_target i)) ->
    fin L M x.

Lemma fin_mono : forall L M x, fin L M x -> forall L' M', incl L L' -> incl M M' -> fin L' M' x.
Proof.
  induction 1 as [x m Lx Inx Hmiss Hsucc IH]; intros L' M' IL IM.
  econstructor; eauto.
Qed.

Lemma fin_edge : forall L M x y, fin L M x -> edge x y -> fin L M y.
Proof.
  intros L M x y F [m [i [Lx [Ini [Man [Tgt Ly]]]]]].
  inversion F as [x' m' Lx' Inx Hmiss Hsucc]; subst. rewrite Lx in Lx'. inversion Lx'; subst m'.
  destruct (lookup st (r_target i)) as [mi|] eqn:E; [|contradiction].
  eapply Hsucc; eauto.
Qed.

Lemma fin_reach : forall L M x y, fin L M x -> reach x y -> fin L M y.
Proof.
  intros L M x y F R. revert F. induction R; intros F.
  - eapply fin_edge; eauto.
  - exact F.
  - auto.
Qed.

Lemma fin_in : forall L M x, fin L M x -> In x M.
Proof. intros L M x F. inversion F; assumption. Qed.

Lemma fin_dangling : forall L M x t, fin L M x -> dangling_at x t -> In (LMissing t) L.
Proof.
  intros L M x t F [m [i [Lx [Ini [Man [Tgt Lt]]]]]].
  inversion F as [x' m' Lx' Inx Hmiss Hsucc]; subst. rewrite Lx in Lx'. inversion Lx'; subst m'.
  eapply Hmiss; eauto.
Qed.

(* a finished manifest is not on a cycle (well-foundedness argument) *)
Lemma t_in_rt : forall x y, clos_trans label edge x y -> clos_refl_trans label edge x y.
Proof. induction 1; [apply rt_step; assumption | eapply rt_trans; eauto]. Qed.

Lemma ct_first : forall x z, clos_trans label edge x z -> exists y, edge x y /\ clos_refl_trans label edge y z.
Proof.
  intros x z H. apply clos_trans_t1n in H. inversion H as [E | y ? E T]; subst.
  - exists z. split; [assumption | apply rt_refl].
  - exists y. split; [assumption|]. apply t_in_rt. apply clos_t1n_trans. exact T.
Qed.

Lemma fin_acyclic : forall L M x, fin L M x -> ~ on_cycle x.
Proof.
  induction 1 as [x m Lx Inx Hmiss Hsucc IH]. intros C.
  apply ct_first in C. destruct C as [y [E R]].
  assert (Cy : on_cycle y) by (unfold on_cycle; eapply clos_rt_t; [exact R | apply t_step; exact E]).
  destruct E as [m' [i [Lx' [Ini [Man [Tgt Ly]]]]]].
  rewrite Lx in Lx'. inversion Lx'; subst m'.
  destruct (lookup st (r_target i)) as [mi|] eqn:Li; [|subst; contradiction].
  subst y. eapply (IH i mi); eauto.
Qed.

End Graph.

(* ================================================================== referenced: what a successful walk establishes *)

Section ReferencedSpec.
Variable st : store.
Variable stop : bool.

(* every collected manifest is either still on the path (in progress) or finished *)
Definition inv (s : rstate) (path : list label) : Prop :=
  forall x, In x (rs_memo s) -> In x path \/ fin st (rs_log s) (rs_memo s) x.

Definition grows (s s' : rstate) : Prop := incl (rs_log s) (rs_log s') /\ incl (rs_memo s) (rs_memo s').

Lemma grows_refl : forall s, grows s s.
Proof. intros; split; apply incl_refl. Qed.

Lemma grows_trans : forall a b c, grows a b -> grows b c -> grows a c.
Proof. intros a b c [A1 A2] [B1 B2]. split; eapply incl_tran; eauto. Qed.

Lemma inv_grow_same : forall s s' path,
  rs_memo s' = rs_memo s -> incl (rs_log s) (rs_log s') -> inv s path -> inv s' path.
Proof.
  intros s s' path EM IL I x Hx. rewrite EM in Hx. destruct (I x Hx) as [P|F]; [left; exact P|].
  right. eapply fin_mono; eauto. rewrite EM. apply incl_refl.
Qed.

Lemma ref_loop_fin : forall rec c path',
  (forall t mi s s', lookup st t = Some mi -> ~ In t path' -> inv s path' -> rec t mi s = (s', None) ->
       inv s' path' /\ fin st (rs_log s') (rs_memo s') t /\ grows s s') ->
  forall ings k s s', inv s path' -> ref_loop rec st stop c path' k ings s = (s', None) ->
    inv s' path' /\ grows s s' /\
    (forall i, In i ings -> r_manifest i = true -> lookup st (r_target i) = None -> In (LMissing (r_target i)) (rs_log s')) /\
    (forall i mi, In i ings -> r_manifest i = true -> lookup st (r_target i) = Some mi -> fin st (rs_log s') (rs_memo s') (r_target i)).
Proof.
  intros rec c path' Hrec. induction ings as [|i rest IH]; intros k s s' I H; cbn [ref_loop] in H.
  - inversion H; subst. split; [exact I|]. split; [apply grows_refl|]. split; [intros ? []|intros ? ? []].
  - destruct (r_manifest i) eqn:Man; cbn [negb] in H.
    2:{ apply IH in H.
        - destruct H as [I' [G [Hm Hs]]]. split; [exact I'|]. split.
          + eapply grows_trans; [|exact G]. split; apply incl_refl.
          + split; intros j; intros; destruct H as [->|Hj]; try congruence; eauto.
        - eapply inv_grow_same; [| |exact I]; [reflexivity | apply incl_refl]. }
    destruct (lookup st (r_target i)) as [mi|] eqn:L.
    + destruct (memb (r_target i) path') eqn:Mb; [inversion H|].
      apply memb_false in Mb.
      destruct (rec (r_target i) mi (rref (r_target i) c (rtick s))) as [s2 [e2|]] eqn:R; [inversion H|].
      apply Hrec in R; [|assumption|assumption|].
      2:{ eapply inv_grow_same; [| |exact I]; [reflexivity | apply incl_refl]. }
      destruct R as [I2 [F2 G2]].
      apply IH in H; [|exact I2]. destruct H as [I' [G [Hm Hs]]].
      split; [exact I'|]. split.
      { eapply grows_trans; [|exact G]. eapply grows_trans; [|exact G2]. split; apply incl_refl. }
      split.
      * intros j [->|Hj] Mj Lj; [congruence | eauto].
      * intros j mj [->|Hj] Mj Lj; [|eauto]. destruct G as [G1 G3]. eapply fin_mono; eauto.
    + destruct stop; [inversion H|].
      apply IH in H.
      2:{ eapply inv_grow_same; [| |exact I]; [reflexivity | cbn; apply incl_tl, incl_refl]. }
      destruct H as [I' [G [Hm Hs]]]. split; [exact I'|]. split.
      { eapply grows_trans; [|exact G]. split; cbn; [apply incl_tl|]; apply incl_refl. }
      split.
      * intros j [->|Hj] Mj Lj; [|eauto]. destruct G as [G1 _]. apply G1. cbn. left. reflexivity.
      * intros j mj [->|Hj] Mj Lj; [congruence | eauto].
Qed.

Lemma referenced_fin : forall fuel c m path s s',
  lookup st c = Some m -> ~ In c path -> inv s path ->
  referenced fuel st stop c m path s = (s', None) ->
  inv s' path /\ fin st (rs_log s') (rs_memo s') c /\ grows s s'.
Proof.
  induction fuel as [|f IH]; intros c m path s s' L NI I H.
  - cbn [referenced] in H. inversion H.
  - rewrite referenced_S in H.
    destruct (MAX_INGREDIENT_DEPTH <=? length path); [inversion H|].
    destruct (memb c (rs_memo (rtick s))) eqn:Mb.
    { inversion H; subst. apply memb_In in Mb. cbn [rtick rs_memo] in Mb.
      assert (I' : inv (rtick s) path) by (eapply inv_grow_same; [| |exact I]; [reflexivity | apply incl_refl]).
      split; [exact I'|]. split; [|split; apply incl_refl].
      destruct (I' c Mb) as [P|F]; [contradiction | exact F]. }
    eapply ref_loop_fin in H.
    3:{ (* the invariant holds after entering c *)
        intros x Hx. cbn [renter rtick rs_memo rs_log] in *. destruct Hx as [->|Hx]; [left; left; reflexivity|].
        destruct (I x Hx) as [P|F]; [left; right; exact P|]. right. eapply fin_mono; eauto; [apply incl_refl | apply incl_tl, incl_refl]. }
    2:{ intros t mi s0 s0' Lt NIt I0 R. unfold rcall in R. eapply IH; eauto. }
    destruct H as [I' [G [Hm Hs]]].
    assert (Fc : fin st (rs_log s') (rs_memo s') c).
    { econstructor; eauto. destruct G as [_ G2]. apply G2. cbn. left. reflexivity. }
    split; [|split; [exact Fc|]].
    + intros x Hx. destruct (I' x Hx) as [[->|P]|F]; [right; exact Fc | left; exact P | right; exact F].
    + eapply grows_trans; [|exact G]. split; cbn; [|apply incl_tl]; apply incl_refl.
Qed.

(* ---------- every collected manifest was entered along a real reference path shorter than the limit *)

Definition short (root x : label) : Prop := exists p, pathto st root p x /\ length p < MAX_INGREDIENT_DEPTH.
Definition inv_short (root : label) (s : rstate) : Prop := forall x, In x (rs_memo s) -> short root x.

Lemma ref_loop_short : forall root rec c m path',
  lookup st c = Some m -> pathto st root (tl path') c -> hd c path' = c -> path' <> [] ->
  (forall t mi s s' e, lookup st t = Some mi -> pathto st root path' t -> inv_short root s -> rec t mi s = (s', e) -> inv_short root s') ->
  forall ings k s s' e, incl ings (m_ings m) -> inv_short root s ->
    ref_loop rec st stop c path' k ings s = (s', e) -> inv_short root s'.
Proof.
  intros root rec c m path' Lc Pc Hd Hne Hrec. induction ings as [|i rest IH]; intros k s s' e IN I H; cbn [ref_loop] in H.
  - inversion H; subst. exact I.
  - assert (INr : incl rest (m_ings m)) by (intros x Hx; apply IN; right; exact Hx).
    destruct (r_manifest i) eqn:Man; cbn [negb] in H.
    2:{ eapply IH; [exact INr| |exact H]. exact I. }
    destruct (lookup st (r_target i)) as [mi|] eqn:L.
    + destruct (memb (r_target i) path').
      { inversion H; subst. exact I. }
      assert (Pt : pathto st root path' (r_target i)).
      { destruct path' as [|h tl0]; [contradiction|]. cbn [hd tl] in *. subst h.
        constructor; [exact Pc|]. exists m, i. repeat split; auto. apply IN; left; reflexivity. rewrite L; discriminate. }
      destruct (rec (r_target i) mi (rref (r_target i) c (rtick s))) as [s2 [e2|]] eqn:R.
      { inversion H; subst. eapply Hrec; [exact L | exact Pt | | exact R]. exact I. }
      eapply IH; [exact INr| |exact H]. eapply Hrec; [exact L | exact Pt | | exact R]. exact I.
    + destruct stop.
      { inversion H; subst. exact I. }
      eapply IH; [exact INr| |exact H]. exact I.
Qed.

Lemma referenced_short : forall root fuel c m path s s' e,
  lookup st c = Some m -> pathto st root path c -> inv_short root s ->
  referenced fuel st stop c m path s = (s', e) -> inv_short root s'.
Proof.
  intros root. induction fuel as [|f IH]; intros c m path s s' e L P I H.
  - cbn [referenced] in H. inversion H; subst. exact I.
  - rewrite referenced_S in H.
    destruct (MAX_INGREDIENT_DEPTH <=? length path) eqn:D.
    { inversion H; subst. exact I. }
    apply Nat.leb_gt in D.
    destruct (memb c (rs_memo (rtick s))).
    { inversion H; subst. exact I. }
    eapply ref_loop_short with (root := root) (m := m) in H; try exact H; auto.
    + discriminate.
    + intros t mi s0 s0' e0 Lt Pt I0 R. unfold rcall in R. eapply IH; eauto.
    + apply incl_refl.
    + intros x [->|Hx]; [exists path; split; assumption | apply I; exact Hx].
Qed.

End ReferencedSpec.

(* ---------- which errors the walk can return *)

Section ReferencedErrors.
Variable st : store.
Variable stop : bool.

Definition err_shape (e : option werr) : Prop :=
  e = None \/ e = Some EOutOfFuel \/ (exists d, e = Some (EDepth d)) \/ (exists p, e = Some (ECyclic p)) \/
  (exists t, e = Some (EClaimMissing t) /\ stop = true).

Lemma ref_loop_shape : forall rec c path',
  (forall t mi s s' e, rec t mi s = (s', e) -> err_shape e) ->
  forall ings k s s' e, ref_loop rec st stop c path' k ings s = (s', e) -> err_shape e.
Proof.
  intros rec c path' Hrec. induction ings as [|i rest IH]; intros k s s' e H; cbn [ref_loop] in H.
  - inversion H; subst. left; reflexivity.
  - destruct (negb (r_manifest i)); [eapply IH; eassumption|].
    destruct (lookup st (r_target i)) as [mi|] eqn:L.
    + destruct (memb (r_target i) path').
      { inversion H; subst. right; right; right; left. eexists; reflexivity. }
      destruct (rec (r_target i) mi (rref (r_target i) c (rtick s))) as [s2 [e2|]] eqn:R.
      { inversion H; subst. eapply Hrec; eassumption. }
      eapply IH; eassumption.
    + destruct stop eqn:S.
      { inversion H; subst. right; right; right; right. eexists; split; [reflexivity | exact S]. }
      eapply IH; eassumption.
Qed.

Lemma referenced_shape : forall fuel c m path s s' e,
  referenced fuel st stop c m path s = (s', e) -> err_shape e.
Proof.
  induction fuel as [|f IH]; intros c m path s s' e H.
  - cbn [referenced] in H. inversion H; subst. right; left; reflexivity.
  - rewrite referenced_S in H.
    destruct (MAX_INGREDIENT_DEPTH <=? length path).
    { inversion H; subst. right; right; left. eexists; reflexivity. }
    destruct (memb c (rs_memo (rtick s))).
    { inversion H; subst. left; reflexivity. }
    eapply ref_loop_shape in H; [exact H|].
    intros t mi s0 s0' e0 R. unfold rcall in R. eapply IH; eauto.
Qed.

End ReferencedErrors.

(* ================================================================== referenced: top-level statements *)

Section ReferencedTop.
Variable st : store.
Variable stop : bool.
Variable root : label.

Lemma memo_ok_rs0 : memo_ok st rs0.
Proof. split; [constructor | intros x []]. Qed.

Lemma path_ok_root : forall m, lookup st root = Some m -> path_ok st root [].
Proof.
  intros m L. split; [constructor; [intros []|constructor]|].
  intros x [->|[]]. eapply lookup_keys; eauto.
Qed.

Theorem ref_terminates : snd (referenced_top st stop root) <> Some EOutOfFuel.
Proof.
  unfold referenced_top. destruct (lookup st root) as [m|] eqn:L; [|cbn; discriminate].
  destruct (referenced _ _ _ _ _ _ _) as [s' e] eqn:H. cbn [snd].
  eapply referenced_fuel in H; eauto using path_ok_root.
  - destruct H; assumption.
  - cbn [length]. lia.
  - cbn [length]. lia.
Qed.

Theorem ref_depth_error : forall d,
  snd (referenced_top st stop root) = Some (EDepth d) -> d = MAX_INGREDIENT_DEPTH /\ MAX_INGREDIENT_DEPTH < n_manifests st.
Proof.
  unfold referenced_top. destruct (lookup st root) as [m|] eqn:L; [|cbn; discriminate].
  destruct (referenced _ _ _ _ _ _ _) as [s' e] eqn:H. cbn [snd]. intros d E.
  eapply referenced_fuel in H; eauto using path_ok_root.
  - destruct H as [_ H]. apply H. exact E.
  - cbn [length]. lia.
  - cbn [length]. lia.
Qed.

Theorem ref_steps_linear : rs_steps (fst (referenced_top st stop root)) <= 1 + 2 * n_refs st.
Proof.
  unfold referenced_top. destruct (lookup st root) as [m|] eqn:L; [|cbn; lia].
  destruct (referenced _ _ _ _ _ _ _) as [s' e] eqn:H. cbn [fst].
  pose proof (referenced_cost _ _ _ _ _ _ _ _ _ L H) as C.
  pose proof (referenced_memo _ _ _ _ _ _ _ _ _ L memo_ok_rs0 H) as [ND _].
  pose proof (W_le_refs st _ ND). unfold cost_ok in C. cbn [rs0 rs_steps rs_memo W] in C. lia.
Qed.

Theorem ref_depth_bound : rs_maxdepth (fst (referenced_top st stop root)) <= MAX_INGREDIENT_DEPTH.
Proof.
  unfold referenced_top. destruct (lookup st root) as [m|] eqn:L; [|cbn; lia].
  destruct (referenced _ _ _ _ _ _ _) as [s' e] eqn:H. cbn [fst].
  eapply referenced_depth in H; [exact H|]. cbn. lia.
Qed.

Lemma ref_top_fin : forall s',
  lookup st root <> None -> referenced_top st stop root = (s', None) ->
  fin st (rs_log s') (rs_memo s') root /\ inv_short st root s'.
Proof.
  unfold referenced_top. intros s' NN H. destruct (lookup st root) as [m|] eqn:L; [|contradiction].
  split.
  - eapply referenced_fin in H; eauto.
    + destruct H as [_ [F _]]. exact F.
    + intros x [].
  - eapply referenced_short with (root := root) in H; eauto.
    + constructor.
    + intros x [].
Qed.

Theorem ref_cycle_rejected :
  lookup st root <> None -> (exists y, reach st root y /\ on_cycle st y) ->
  snd (referenced_top st stop root) <> None.
Proof.
  intros NN [y [R C]] E. destruct (referenced_top st stop root) as [s' e] eqn:H. cbn [snd] in E. subst e.
  apply ref_top_fin in H; [|assumption]. destruct H as [F _].
  eapply fin_acyclic; [|exact C]. eapply fin_reach; eauto.
Qed.

Theorem ref_cycle_error_kind :
  lookup st root <> None -> (exists y, reach st root y /\ on_cycle st y) ->
  stop = false -> n_manifests st <= MAX_INGREDIENT_DEPTH ->
  exists p, snd (referenced_top st stop root) = Some (ECyclic p).
Proof.
  intros NN C S Small.
  pose proof (ref_cycle_rejected NN C) as H1. pose proof ref_terminates as H2. pose proof ref_depth_error as H3.
  assert (Sh : err_shape stop (snd (referenced_top st stop root))).
  { unfold referenced_top. destruct (lookup st root) as [m|]; [|left; reflexivity].
    destruct (referenced _ _ _ _ _ _ _) as [s' e] eqn:H. cbn [snd]. eapply referenced_shape; eauto. }
  destruct Sh as [E|[E|[[d E]|[[p E]|[t [E S']]]]]]; try contradiction.
  - apply H3 in E. lia.
  - exists p. exact E.
  - congruence.
Qed.

Theorem ref_dangling_flagged : forall s' x t,
  lookup st root <> None -> referenced_top st stop root = (s', None) ->
  reach st root x -> dangling_at st x t -> In (LMissing t) (rs_log s').
Proof.
  intros s' x t NN H R D. apply ref_top_fin in H; [|assumption]. destruct H as [F _].
  eapply fin_dangling; [|exact D]. eapply fin_reach; eauto.
Qed.

Theorem ref_accepts_only_shallow : forall s' y,
  lookup st root <> None -> referenced_top st stop root = (s', None) ->
  reach st root y -> exists p, pathto st root p y /\ length p < MAX_INGREDIENT_DEPTH.
Proof.
  intros s' y NN H R. apply ref_top_fin in H; [|assumption]. destruct H as [F I].
  apply I. eapply fin_in. eapply fin_reach; eauto.
Qed.

End ReferencedTop.

(* ================================================================== ingredient_checks *)

Section Checks.
Variable st : store.
Variable stop : bool.

Definition ccall (f depth : nat) := fun t mi s' => checks f st stop t mi (S depth) s'.

Lemma checks_S : forall f c m depth s,
  checks (S f) st stop c m depth s =
  if MAX_INGREDIENT_DEPTH <=? depth then (ctick s, Some (EDepth depth))
  else chk_loop (ccall f depth) st stop c 0 (m_ings m) (cdepth depth (ctick s)).
Proof. reflexivity. Qed.

Definition vis_ok (s : cstate) : Prop := NoDup (cs_visited s) /\ incl (cs_visited s) (keys st).

(* what a call / a loop guarantees, whatever its result *)
Definition cpost (s s' : cstate) (e : option werr) (xv xs : nat) : Prop :=
  vis_ok s' /\ length (cs_visited s) <= length (cs_visited s') /\
  cs_verifs s' + W st (cs_visited s) <= cs_verifs s + xv + W st (cs_visited s') /\
  cs_steps s' + 2 * W st (cs_visited s) <= cs_steps s + xs + 2 * W st (cs_visited s') /\
  e <> Some EOutOfFuel.

Lemma chk_loop_post : forall rec c f,
  (forall t mi s s' e, lookup st t = Some mi -> vis_ok s -> n_manifests st < f + length (cs_visited s) ->
     In t (cs_visited s) -> rec t mi s = (s', e) -> cpost s s' e (outdeg st t) (1 + 2 * outdeg st t)) ->
  forall ings k s s' e, vis_ok s -> n_manifests st < S f + length (cs_visited s) ->
    chk_loop rec st stop c k ings s = (s', e) -> cpost s s' e (length ings) (2 * length ings).
Proof.
  intros rec c f Hrec. induction ings as [|i rest IH]; intros k s s' e V F H; cbn [chk_loop] in H.
  - inversion H; subst. unfold cpost. repeat split; try apply V; try lia; discriminate.
  - cbn [length].
    assert (Tick : forall s0 s0' e0 a b, cpost (ctick s0) s0' e0 a b -> cpost s0 s0' e0 a (S b)).
    { intros s0 s0' e0 a b [P1 [P2 [P3 [P4 P5]]]]. cbn [ctick cs_visited cs_verifs cs_steps] in *. unfold cpost. repeat split; try apply P1; try lia; assumption. }
    assert (Weak : forall s0 s0' e0 a b a' b', a <= a' -> b <= b' -> cpost s0 s0' e0 a b -> cpost s0 s0' e0 a' b').
    { intros s0 s0' e0 a b a' b' Ha Hb [P1 [P2 [P3 [P4 P5]]]]. unfold cpost. repeat split; try apply P1; try lia; assumption. }
    assert (Done : forall s0 e0, cs_visited s0 = cs_visited s -> cs_verifs s0 <= S (cs_verifs s) -> cs_steps s0 = S (cs_steps s) ->
                                 e0 <> Some EOutOfFuel -> cpost s s0 e0 (S (length rest)) (2 * S (length rest))).
    { intros s0 e0 E1 E2 E3 E4. unfold cpost, vis_ok in *. rewrite E1. repeat split; try apply V; try lia; assumption. }
    assert (Cont : forall s0, cs_visited s0 = cs_visited s -> cs_verifs s0 <= S (cs_verifs s) -> cs_steps s0 = S (cs_steps s) ->
                              chk_loop rec st stop c (S k) rest s0 = (s', e) -> cpost s s' e (S (length rest)) (2 * S (length rest))).
    { intros s0 E1 E2 E3 H0. apply IH in H0.
      - destruct H0 as [P1 [P2 [P3 [P4 P5]]]]. unfold cpost, vis_ok in *. rewrite E1 in *. repeat split; try apply P1; try lia; assumption.
      - unfold vis_ok. rewrite E1. exact V.
      - rewrite E1. exact F. }
    destruct (r_manifest i).
    2:{ destruct (is_input_to (r_rel i)); eapply Cont; try exact H; cbn; try reflexivity; lia. }
    destruct (lookup st (r_target i)) as [mi|] eqn:L.
    2:{ destruct stop.
        - inversion H; subst. apply Done; cbn; try reflexivity; try lia; discriminate.
        - eapply Cont; try exact H; cbn; try reflexivity; lia. }
    remember (if r_hash_ok i then clog (LValidated (r_target i)) (ctick s) else clog (LMismatch (r_target i)) (ctick s)) as s1 eqn:Es1.
    assert (S1 : cs_visited s1 = cs_visited s /\ cs_verifs s1 = cs_verifs s /\ cs_steps s1 = S (cs_steps s)).
    { rewrite Es1. destruct (r_hash_ok i); cbn; repeat split; reflexivity. }
    clear Es1.
    destruct S1 as [S1a [S1b S1c]].
    destruct (negb (r_hash_ok i) && stop).
    { inversion H; subst. apply Done; try assumption; try lia; discriminate. }
    destruct (negb (m_verify_ok mi)).
    { inversion H; subst. apply Done; cbn; try assumption; try lia; discriminate. }
    destruct (memb (r_target i) (cs_visited (cverif s1))) eqn:Mb.
    { eapply Cont; try exact H; cbn; try assumption; lia. }
    apply memb_false in Mb. cbn [cverif cs_visited] in Mb.
    destruct (rec (r_target i) mi (cvisit (r_target i) (cverif s1))) as [s3 [e3|]] eqn:R.
    + inversion H; subst. apply Hrec in R; try assumption.
      * destruct R as [P1 [P2 [P3 [P4 P5]]]]. cbn [cvisit cverif cs_visited cs_verifs cs_steps W length] in *.
        rewrite S1a, S1b, S1c in *. unfold cpost. repeat split; try apply P1; try lia; assumption.
      * destruct V as [ND IN]. split; cbn [cvisit cverif cs_visited]; rewrite S1a.
        -- constructor; [rewrite <- S1a; exact Mb | exact ND].
        -- intros x [<-|Hx]; [eapply lookup_keys; eauto | auto].
      * cbn [cvisit cverif cs_visited length]. rewrite S1a. lia.
      * cbn. left. reflexivity.
    + apply Hrec in R; try assumption.
      * destruct R as [P1 [P2 [P3 [P4 P5]]]]. cbn [cvisit cverif cs_visited cs_verifs cs_steps W length] in *.
        rewrite S1a, S1b, S1c in *.
        apply IH in H; [|exact P1|lia].
        destruct H as [Q1 [Q2 [Q3 [Q4 Q5]]]]. unfold cpost. repeat split; try apply Q1; try lia; assumption.
      * destruct V as [ND IN]. split; cbn [cvisit cverif cs_visited]; rewrite S1a.
        -- constructor; [rewrite <- S1a; exact Mb | exact ND].
        -- intros x [<-|Hx]; [eapply lookup_keys; eauto | auto].
      * cbn [cvisit cverif cs_visited length]. rewrite S1a. lia.
      * cbn. left. reflexivity.
Qed.

Lemma checks_post : forall fuel c m depth s s' e,
  lookup st c = Some m -> vis_ok s -> n_manifests st < fuel + length (cs_visited s) -> In c (cs_visited s) ->
  checks fuel st stop c m depth s = (s', e) -> cpost s s' e (outdeg st c) (1 + 2 * outdeg st c).
Proof.
  induction fuel as [|f IH]; intros c m depth s s' e L V F Inc H.
  - exfalso. destruct V as [ND IN]. apply NoDup_incl_len in IN; [|assumption]. rewrite keys_length in IN. lia.
  - rewrite checks_S in H.
    destruct (MAX_INGREDIENT_DEPTH <=? depth).
    { inversion H; subst. unfold cpost. cbn. repeat split; try apply V; try lia; discriminate. }
    eapply chk_loop_post with (f := f) in H.
    + destruct H as [P1 [P2 [P3 [P4 P5]]]]. cbn [cdepth ctick cs_visited cs_verifs cs_steps] in *.
      assert (Oc : outdeg st c = length (m_ings m)) by (unfold outdeg; rewrite L; reflexivity). rewrite Oc. unfold cpost. repeat split; try apply P1; try lia; assumption.
    + intros t mi s0 s0' e0 Lt V0 F0 In0 R. unfold ccall in R. eapply IH; eauto.
    + exact V.
    + cbn [cdepth ctick cs_visited]. lia.
Qed.

Lemma chk_loop_depth : forall rec c,
  (forall t mi s s' e, cs_maxdepth s <= MAX_INGREDIENT_DEPTH -> rec t mi s = (s', e) -> cs_maxdepth s' <= MAX_INGREDIENT_DEPTH) ->
  forall ings k s s' e, cs_maxdepth s <= MAX_INGREDIENT_DEPTH -> chk_loop rec st stop c k ings s = (s', e) -> cs_maxdepth s' <= MAX_INGREDIENT_DEPTH.
Proof.
  intros rec c Hrec. induction ings as [|i rest IH]; intros k s s' e M H; cbn [chk_loop] in H.
  - inversion H; subst. exact M.
  - destruct (r_manifest i).
    2:{ destruct (is_input_to (r_rel i)); eapply IH; try exact H; exact M. }
    destruct (lookup st (r_target i)) as [mi|].
    2:{ destruct stop; [inversion H; subst; exact M | eapply IH; try exact H; exact M]. }
    assert (M1 : cs_maxdepth (if r_hash_ok i then clog (LValidated (r_target i)) (ctick s) else clog (LMismatch (r_target i)) (ctick s)) <= MAX_INGREDIENT_DEPTH)
      by (destruct (r_hash_ok i); exact M).
    destruct (negb (r_hash_ok i) && stop); [inversion H; subst; exact M1|].
    destruct (negb (m_verify_ok mi)); [inversion H; subst; exact M1|].
    destruct (memb _ _); [eapply IH; try exact H; exact M1|].
    destruct (rec _ _ _) as [s3 [e3|]] eqn:R.
    + inversion H; subst. eapply Hrec; [|exact R]. exact M1.
    + eapply IH; [|exact H]. eapply Hrec; [|exact R]. exact M1.
Qed.

Lemma checks_depth : forall fuel c m depth s s' e,
  cs_maxdepth s <= MAX_INGREDIENT_DEPTH -> checks fuel st stop c m depth s = (s', e) -> cs_maxdepth s' <= MAX_INGREDIENT_DEPTH.
Proof.
  induction fuel as [|f IH]; intros c m depth s s' e M H.
  - cbn [checks] in H. inversion H; subst. exact M.
  - rewrite checks_S in H.
    destruct (MAX_INGREDIENT_DEPTH <=? depth) eqn:D.
    { inversion H; subst. exact M. }
    apply Nat.leb_gt in D.
    eapply chk_loop_depth in H; [exact H| |].
    + intros t mi s0 s0' e0 M0 R. unfold ccall in R. eapply IH; eauto.
    + cbn [cdepth ctick cs_maxdepth]. apply Nat.max_lub; [lia | exact M].
Qed.

Variable root : label.

Theorem checks_top_bounds :
  let r := checks_top st stop root in
  snd r <> Some EOutOfFuel /\ cs_verifs (fst r) <= n_refs st /\ cs_steps (fst r) <= 1 + 2 * n_refs st /\
  cs_maxdepth (fst r) <= MAX_INGREDIENT_DEPTH /\ length (cs_visited (fst r)) <= n_manifests st + 1.
Proof.
  unfold checks_top. destruct (lookup st root) as [m|] eqn:L.
  2:{ cbn. repeat split; try lia; discriminate. }
  destruct (checks _ _ _ _ _ _ _) as [s' e] eqn:H. cbn [fst snd].
  assert (V0 : vis_ok (CS [root] [] 0 0 0)).
  { split; cbn; [constructor; [intros []|constructor]|]. intros x [->|[]]. eapply lookup_keys; eauto. }
  pose proof H as Hd. apply checks_depth in Hd; [|cbn; lia].
  eapply checks_post in H; eauto; [|cbn; lia|cbn; left; reflexivity].
  destruct H as [[ND IN] [P2 [P3 [P4 P5]]]]. cbn [cs_visited cs_verifs cs_steps W] in *.
  pose proof (W_le_refs st _ ND). pose proof (NoDup_incl_len _ _ ND IN) as LV. rewrite keys_length in LV.
  repeat split; try assumption; lia.
Qed.

End Checks.

(* ================================================================== get_hash_binding_manifest *)

Section Binding.
Variable st : store.

Lemma bind_scan_spec : forall ings n,
  let r := bind_scan st ings n in
  snd r <= n + length ings /\
  match fst r with
  | BRecurse l p => lookup st l = Some p /\ m_update p = true
  | BFound l => exists p, lookup st l = Some p /\ m_update p = false /\ m_hashbind p = true
  | BNone => True
  end.
Proof.
  induction ings as [|i rest IH]; intros n; cbn [bind_scan length].
  - cbn. split; [lia | exact I].
  - destruct (is_parent_of (r_rel i) && r_manifest i).
    2:{ specialize (IH (S n)). cbn zeta in IH. destruct IH as [A B]. split; [lia | exact B]. }
    destruct (lookup st (r_target i)) as [p|] eqn:L.
    2:{ specialize (IH (S n)). cbn zeta in IH. destruct IH as [A B]. split; [lia | exact B]. }
    destruct (m_update p) eqn:U.
    { cbn. split; [lia | split; assumption]. }
    destruct (m_hashbind p) eqn:Hb.
    { cbn. split; [lia | exists p; repeat split; assumption]. }
    specialize (IH (S n)). cbn zeta in IH. destruct IH as [A B]. split; [lia | exact B].
Qed.

Definition bpost (visited : list label) (steps depth : nat) (r : bres) : Prop :=
  b_fuel_out r = false /\ NoDup (b_visited r) /\ incl (b_visited r) (keys st) /\
  length visited <= length (b_visited r) /\
  b_steps r + length visited + W st visited <= steps + 1 + length (b_visited r) + W st (b_visited r) /\
  b_depth r + length visited <= depth + 1 + length (b_visited r) /\
  (depth <= length visited -> length visited <= MAX_INGREDIENT_DEPTH -> b_depth r <= MAX_INGREDIENT_DEPTH) /\
  (forall l, b_result r = Some l -> exists ml, lookup st l = Some ml /\ m_update ml = false /\ m_hashbind ml = true).

Lemma binding_post : forall fuel c m visited steps depth,
  lookup st c = Some m -> NoDup visited -> incl visited (keys st) ->
  n_manifests st < fuel + length visited ->
  bpost visited steps depth (binding fuel st c m visited steps depth).
Proof.
  induction fuel as [|f IH]; intros c m visited steps depth L ND IN F.
  - exfalso. apply NoDup_incl_len in IN; [|assumption]. rewrite keys_length in IN. lia.
  - cbn [binding].
    destruct (MAX_INGREDIENT_DEPTH <=? length visited) eqn:D.
    { unfold bpost. cbn [b_fuel_out b_visited b_steps b_depth b_result]. repeat split; try assumption; try lia. intros; discriminate. }
    apply Nat.leb_gt in D.
    destruct (memb c visited) eqn:Mb.
    { unfold bpost. cbn [b_fuel_out b_visited b_steps b_depth b_result]. repeat split; try assumption; try lia. intros; discriminate. }
    apply memb_false in Mb.
    assert (ND' : NoDup (c :: visited)) by (constructor; assumption).
    assert (IN' : incl (c :: visited) (keys st)) by (intros x [->|Hx]; [eapply lookup_keys; eauto | auto]).
    assert (Wc : W st (c :: visited) = length (m_ings m) + W st visited) by (cbn [W]; unfold outdeg; rewrite L; reflexivity).
    destruct (negb (m_update m) && m_hashbind m) eqn:Std.
    { unfold bpost. cbn [b_fuel_out b_visited b_steps b_depth b_result]. rewrite Wc. cbn [length].
      repeat split; try assumption; try lia.
      intros l E. inversion E; subst. exists m. apply andb_prop in Std. destruct Std as [S1 S2].
      apply negb_true_iff in S1. repeat split; assumption. }
    pose proof (bind_scan_spec (m_ings m) 0) as [Sn Sr]. cbn zeta in Sn, Sr.
    destruct (bind_scan st (m_ings m) 0) as [[l p|l|] n]; cbn [fst snd] in *.
    + destruct Sr as [Lp Up].
      specialize (IH l p (c :: visited) (S steps + n) (S depth) Lp ND' IN').
      destruct IH as [P1 [P2 [P3 [P4 [P5 [P6 [P8 P7]]]]]]]; [cbn [length]; lia|].
      unfold bpost. rewrite Wc in P5. cbn [length] in *. repeat split; try assumption; try lia.
    + unfold bpost. cbn [b_fuel_out b_visited b_steps b_depth b_result]. rewrite Wc. cbn [length].
      repeat split; try assumption; try lia.
      intros l' E. inversion E; subst. destruct Sr as [p [Lp [Up Hp]]]. exists p. repeat split; assumption.
    + unfold bpost. cbn [b_fuel_out b_visited b_steps b_depth b_result]. rewrite Wc. cbn [length].
      repeat split; try assumption; try lia. intros; discriminate.
Qed.

Theorem binding_top_bounds : forall root,
  let r := binding_top st root in
  b_fuel_out r = false /\ b_steps r <= 1 + n_manifests st + n_refs st /\
  b_depth r <= MAX_INGREDIENT_DEPTH /\ b_depth r <= 1 + n_manifests st /\
  (forall l, b_result r = Some l -> exists ml, lookup st l = Some ml /\ m_update ml = false /\ m_hashbind ml = true).
Proof.
  intros root. unfold binding_top. destruct (lookup st root) as [m|] eqn:L.
  2:{ cbn. repeat split; try lia. intros; discriminate. }
  pose proof (binding_post (S (n_manifests st)) root m [] 0 0 L) as P.
  destruct P as [P1 [P2 [P3 [P4 [P5 [P6 [P8 P7]]]]]]]; [constructor | intros x [] | cbn; lia |].
  cbn zeta. pose proof (W_le_refs st _ P2). pose proof (NoDup_incl_len _ _ P2 P3) as LV. rewrite keys_length in LV.
  cbn [length W] in *. repeat split; try assumption; try lia; try (apply P8; lia).
Qed.

End Binding.

(* ================================================================== families: chains, order dependence, hard-binding fans *)

Definition mk (u h : bool) (ings : list iref) : manifest := Manifest u h true ings.
Definition cref (t : nat) : iref := IRef (N.of_nat t) true ComponentOf true.
Definition pref (t : nat) : iref := IRef (N.of_nat t) true ParentOf true.

(* manifests k, k+1, ..., k+len; each is the parent of the next *)
Fixpoint chain_from (k len : nat) : store :=
  match len with
  | O => [(N.of_nat k, mk false true [])]
  | S l => (N.of_nat k, mk false true [pref (S k)]) :: chain_from (S k) l
  end.

(* n+1 manifests, n references *)
Definition chain_store (n : nat) : store := chain_from 0 n.

Lemma of_nat_eqb : forall a b, N.eqb (N.of_nat a) (N.of_nat b) = Nat.eqb a b.
Proof.
  intros. destruct (Nat.eqb a b) eqn:E.
  - apply Nat.eqb_eq in E. subst. apply N.eqb_refl.
  - apply Nat.eqb_neq in E. apply N.eqb_neq. intro H. apply Nat2N.inj in H. contradiction.
Qed.

Lemma chain_lookup : forall len k j, k <= j -> j <= k + len ->
  lookup (chain_from k len) (N.of_nat j) = Some (mk false true (if j <? k + len then [pref (S j)] else [])).
Proof.
  induction len as [|l IH]; intros k j H1 H2; cbn [chain_from lookup]; rewrite of_nat_eqb.
  - assert (j = k) by lia. subst. rewrite Nat.eqb_refl. replace (k <? k + 0) with false by (symmetry; apply Nat.ltb_ge; lia). reflexivity.
  - destruct (Nat.eqb k j) eqn:E.
    + apply Nat.eqb_eq in E. subst. replace (j <? j + S l) with true by (symmetry; apply Nat.ltb_lt; lia). reflexivity.
    + apply Nat.eqb_neq in E. rewrite IH by lia. replace (S k + l) with (k + S l) by lia. reflexivity.
Qed.

Lemma chain_lookup_inv : forall len k x m, lookup (chain_from k len) x = Some m ->
  exists j, x = N.of_nat j /\ (m_ings m = [] \/ m_ings m = [pref (S j)]).
Proof.
  induction len as [|l IH]; intros k x m H; cbn [chain_from lookup] in H.
  - destruct (N.eqb (N.of_nat k) x) eqn:E; [|discriminate]. apply N.eqb_eq in E. inversion H; subst. exists k. split; [reflexivity | left; reflexivity].
  - destruct (N.eqb (N.of_nat k) x) eqn:E.
    + apply N.eqb_eq in E. inversion H; subst. exists k. split; [reflexivity | right; reflexivity].
    + eapply IH; eauto.
Qed.

Lemma chain_edge_inv : forall n x y, edge (chain_store n) x y -> exists j, x = N.of_nat j /\ y = N.of_nat (S j).
Proof.
  intros n x y [m [i [L [Ini [Man [Tgt _]]]]]]. apply chain_lookup_inv in L. destruct L as [j [-> [E|E]]]; rewrite E in Ini.
  - destruct Ini.
  - destruct Ini as [<-|[]]. exists j. split; [reflexivity | symmetry; exact Tgt].
Qed.

Lemma chain_path_length : forall n p y, pathto (chain_store n) 0%N p y -> y = N.of_nat (length p).
Proof.
  induction 1 as [|p x y P IH E]; [reflexivity|].
  apply chain_edge_inv in E. destruct E as [j [Ex ->]]. rewrite IH in Ex. apply Nat2N.inj in Ex. subst. reflexivity.
Qed.

Lemma chain_edge : forall n j, j < n -> edge (chain_store n) (N.of_nat j) (N.of_nat (S j)).
Proof.
  intros n j H. unfold chain_store. exists (mk false true [pref (S j)]), (pref (S j)).
  split; [|split; [left; reflexivity | split; [reflexivity | split; [reflexivity|]]]].
  - rewrite chain_lookup by lia. replace (j <? 0 + n) with true by (symmetry; apply Nat.ltb_lt; lia). reflexivity.
  - rewrite chain_lookup by lia. discriminate.
Qed.

Lemma chain_reach : forall n j, j <= n -> reach (chain_store n) 0%N (N.of_nat j).
Proof.
  intros n. induction j as [|j IH]; intros H.
  - apply rt_refl.
  - eapply rt_trans; [apply IH; lia|]. apply rt_step. apply chain_edge. lia.
Qed.

Theorem chain_rejected : forall stop n, MAX_INGREDIENT_DEPTH <= n ->
  snd (referenced_top (chain_store n) stop 0%N) <> None.
Proof.
  intros stop n H E. destruct (referenced_top (chain_store n) stop 0%N) as [s' e] eqn:R. cbn [snd] in E. subst e.
  eapply ref_accepts_only_shallow with (y := N.of_nat n) in R.
  - destruct R as [p [P Lp]]. apply chain_path_length in P. apply Nat2N.inj in P. lia.
  - unfold chain_store. change 0%N with (N.of_nat 0). rewrite chain_lookup by lia. discriminate.
  - apply chain_reach. lia.
Qed.

(* the boundary, computed: limit manifests are accepted, limit+1 are rejected with the depth error *)
Lemma chain_boundary :
  snd (referenced_top (chain_store (MAX_INGREDIENT_DEPTH - 1)) false 0%N) = None /\
  snd (referenced_top (chain_store MAX_INGREDIENT_DEPTH) false 0%N) = Some (EDepth MAX_INGREDIENT_DEPTH).
Proof. split; vm_compute; reflexivity. Qed.

(* order dependence ("memo depth remark"): root lists u_k .. u_1 (or u_1 .. u_k), u_j references u_{j+1}.
   Same references; listed far-end first every u_j is memoised at depth <= 2 and the walk accepts although the
   path root -> u_1 -> ... -> u_k has k >= limit references; listed near-end first the walk hits the depth limit. *)
Fixpoint fan_tail (j len : nat) : store :=
  match len with
  | O => [(N.of_nat j, mk false true [])]
  | S l => (N.of_nat j, mk false true [cref (S j)]) :: fan_tail (S j) l
  end.
Definition fan_refs (k : nat) : list iref := map cref (seq 1 k).   (* u_1 .. u_k *)

Lemma memo_depth_remark :
  let k := MAX_INGREDIENT_DEPTH + 10 in
  let tail := fan_tail 1 (k - 1) in
  snd (referenced_top ((0%N, mk false true (rev (fan_refs k))) :: tail) false 0%N) = None /\
  rs_maxdepth (fst (referenced_top ((0%N, mk false true (rev (fan_refs k))) :: tail) false 0%N)) = 2 /\
  snd (referenced_top ((0%N, mk false true (fan_refs k)) :: tail) false 0%N) = Some (EDepth MAX_INGREDIENT_DEPTH).
Proof. cbn zeta. repeat split; vm_compute; reflexivity. Qed.

(* hard-binding fan: root (no hard binding) lists u_n .. u_2 as components and u_1 as parent; u_j is an update manifest
   whose parent is u_{j+1}; u_{n+1} is a standard manifest with a hard binding *)
Fixpoint upd_tail (j len : nat) : store :=
  match len with
  | O => [(N.of_nat j, mk false true [])]
  | S l => (N.of_nat j, mk true false [pref (S j)]) :: upd_tail (S j) l
  end.
Definition deep_binding_store (n : nat) : store :=
  (0%N, mk false false (map cref (rev (seq 2 (n - 1))) ++ [pref 1])) :: upd_tail 1 n.

(* since fix c381c9a00 the search gives up (None => claim.hardBindings.missing) once `visited` holds `limit` labels *)
Lemma binding_deep_fan_bounded :
  let st := deep_binding_store (MAX_INGREDIENT_DEPTH + 10) in
  snd (referenced_top st false 0%N) = None /\
  rs_maxdepth (fst (referenced_top st false 0%N)) = 3 /\
  b_result (binding_top st 0%N) = None /\
  b_depth (binding_top st 0%N) = MAX_INGREDIENT_DEPTH /\
  b_result (binding_top (deep_binding_store (MAX_INGREDIENT_DEPTH - 1)) 0%N) = Some (N.of_nat MAX_INGREDIENT_DEPTH).
Proof. cbn zeta. repeat split; vm_compute; reflexivity. Qed.
