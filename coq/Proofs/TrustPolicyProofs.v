(* Proofs/TrustPolicyProofs.v — trust verdicts of Model/TrustPolicy.v (property C05) and the local
   "a non-tolerated failure makes the state Invalid" fact used by C06. *)
From Coq Require Import List NArith ZArith Bool.
From C2PA Require Import Generated.C06_facts Model.CertProfile Model.TrustPolicy Proofs.CertProfileProofs.
Import ListNotations.

Section TrustProofs.
  Variable cert : Type.
  Variable fingerprint : cert -> N.
  Variable x509_ok : cert -> bool.
  Variable chains_to : list cert -> cert -> list cert -> option Z -> bool.
  Variable features : cert -> CertProfile.cert.

  Notation check := (check_certificate_trust cert fingerprint x509_ok chains_to).
  Notation vtrust := (verify_trust cert fingerprint x509_ok chains_to).
  Notation vprofile := (verify_profile cert features).

  Definition allow_listed (p : policy cert) (ee : cert) : bool := existsb (N.eqb (fingerprint ee)) (allowed cert p).

  (* the justification of a `trusted` verdict *)
  Definition justified (p : policy cert) (ee : cert) (chain : list cert) (t : option Z) : Prop :=
    passthrough cert p = true
    \/ allow_listed p ee = true
    \/ chains_to (system_anchors cert p) ee chain t = true
    \/ (anchors_only cert p = false /\ chains_to (user_anchors cert p) ee chain t = true).

  Lemma check_ok_justified : forall p chain ee t a,
    check p chain ee t = inl a -> justified p ee chain t.
  Proof.
    intros p chain ee t a. unfold check_certificate_trust, openssl_check, justified, allow_listed.
    destruct (passthrough cert p); [intros; now left|].
    destruct (existsb (N.eqb (fingerprint ee)) (allowed cert p)); [intros; right; now left|].
    destruct (is_empty (system_anchors cert p) && is_empty (user_anchors cert p)); [discriminate|].
    destruct (negb (forallb x509_ok chain)); [discriminate|].
    destruct (negb (x509_ok ee)); [discriminate|].
    destruct (negb (forallb x509_ok (system_anchors cert p))); [discriminate|].
    destruct (chains_to (system_anchors cert p) ee chain t); [intros; right; right; now left|].
    destruct (anchors_only cert p); cbn [negb]; [discriminate|].
    destruct (negb (forallb x509_ok (user_anchors cert p))); [discriminate|].
    destruct (chains_to (user_anchors cert p) ee chain t); [intros; right; right; right; split; reflexivity|discriminate].
  Qed.

  (* which anchor type is reported *)
  Lemma check_anchor_type : forall p chain ee t a,
    check p chain ee t = inl a ->
    match a with
    | NoCheck => passthrough cert p = true
    | EndEntity => passthrough cert p = false /\ allow_listed p ee = true
    | System => passthrough cert p = false /\ allow_listed p ee = false /\ chains_to (system_anchors cert p) ee chain t = true
    | User => passthrough cert p = false /\ allow_listed p ee = false /\ chains_to (system_anchors cert p) ee chain t = false
              /\ anchors_only cert p = false /\ chains_to (user_anchors cert p) ee chain t = true
    end.
  Proof.
    intros p chain ee t a. unfold check_certificate_trust, openssl_check, allow_listed.
    destruct (passthrough cert p); [intros H; inversion H; reflexivity|].
    destruct (existsb (N.eqb (fingerprint ee)) (allowed cert p)); [intros H; inversion H; split; reflexivity|].
    destruct (is_empty (system_anchors cert p) && is_empty (user_anchors cert p)); [discriminate|].
    destruct (negb (forallb x509_ok chain)); [discriminate|].
    destruct (negb (x509_ok ee)); [discriminate|].
    destruct (negb (forallb x509_ok (system_anchors cert p))); [discriminate|].
    destruct (chains_to (system_anchors cert p) ee chain t); [intros H; inversion H; repeat split; reflexivity|].
    destruct (anchors_only cert p); cbn [negb]; [discriminate|].
    destruct (negb (forallb x509_ok (user_anchors cert p))); [discriminate|].
    destruct (chains_to (user_anchors cert p) ee chain t); [intros H; inversion H; repeat split; reflexivity|discriminate].
  Qed.

  (* trusted ==> allow-listed, or chains to a system anchor, or (user anchors permitted and chains to a user anchor),
     or passthrough *)
  Theorem trusted_only_if : forall v certs tst,
    In Trusted (vtrust v certs tst) ->
    exists p ee chain, v = VerifyTrustPolicy cert p /\ certs = ee :: chain /\ justified p ee chain tst.
  Proof.
    intros v certs tst H. destruct v as [p|p|]; cbn in H; try contradiction.
    destruct certs as [|ee chain]; cbn in H; [contradiction|].
    exists p, ee, chain. repeat split.
    destruct (check p chain ee tst) eqn:E.
    - eapply check_ok_justified; eassumption.
    - cbn in H. destruct H as [H|[]]. discriminate.
  Qed.

  (* exactly one verdict when trust is verified and a credential is present *)
  Theorem one_verdict : forall p ee chain tst,
    vtrust (VerifyTrustPolicy cert p) (ee :: chain) tst = [Trusted]
    \/ vtrust (VerifyTrustPolicy cert p) (ee :: chain) tst = [Untrusted].
  Proof. intros. cbn. destruct (check p chain ee tst); [left|right]; reflexivity. Qed.

  (* untrusted otherwise *)
  Theorem untrusted_otherwise : forall p ee chain tst,
    ~ justified p ee chain tst -> vtrust (VerifyTrustPolicy cert p) (ee :: chain) tst = [Untrusted].
  Proof.
    intros p ee chain tst H. cbn. destruct (check p chain ee tst) eqn:E; [|reflexivity].
    exfalso. apply H. eapply check_ok_justified; eassumption.
  Qed.

  (* completeness: with well-formed certificates and at least one configured anchor, a justified credential is trusted *)
  Theorem trusted_if : forall p ee chain tst,
    forallb x509_ok chain = true -> x509_ok ee = true ->
    forallb x509_ok (system_anchors cert p) = true -> forallb x509_ok (user_anchors cert p) = true ->
    (passthrough cert p = true \/ allow_listed p ee = true
     \/ is_empty (system_anchors cert p) && is_empty (user_anchors cert p) = false) ->
    justified p ee chain tst -> vtrust (VerifyTrustPolicy cert p) (ee :: chain) tst = [Trusted].
  Proof.
    intros p ee chain tst Hc He Hs Hu Hne J. cbn.
    unfold check_certificate_trust, openssl_check, justified, allow_listed in *.
    destruct (passthrough cert p); [reflexivity|].
    destruct (existsb (N.eqb (fingerprint ee)) (allowed cert p)); [reflexivity|].
    destruct Hne as [Hne|[Hne|Hne]]; try discriminate. rewrite Hne, Hc, He, Hs. cbn [negb].
    destruct J as [J|[J|[J|[J1 J2]]]]; try discriminate.
    - now rewrite J.
    - destruct (chains_to (system_anchors cert p) ee chain tst); [reflexivity|].
      rewrite J1, Hu, J2. reflexivity.
  Qed.

  (* trust-anchors-only mode never accepts a user anchor *)
  Theorem anchors_only_ignores_user : forall p ee chain tst,
    anchors_only cert p = true ->
    check p chain ee tst <> inl User
    /\ (vtrust (VerifyTrustPolicy cert p) (ee :: chain) tst = [Trusted] ->
        passthrough cert p = true \/ allow_listed p ee = true \/ chains_to (system_anchors cert p) ee chain tst = true).
  Proof.
    intros p ee chain tst Ha. split.
    - intros E. apply check_anchor_type in E. destruct E as [_ [_ [_ [E _]]]]. congruence.
    - intros H. destruct (trusted_only_if (VerifyTrustPolicy cert p) (ee :: chain) tst) as [p' [ee' [chain' [Ev [Ec J]]]]].
      { rewrite H. now left. }
      inversion Ev; inversion Ec; subst. destruct J as [J|[J|[J|[J _]]]]; auto. congruence.
  Qed.

  (* with trust verification disabled (or certificate checks off) no trust verdict is issued *)
  Theorem disabled_no_verdict : forall cert_check p certs tst,
    vtrust (select_verifier cert cert_check false p) certs tst = []
    /\ vtrust (select_verifier cert false cert_check p) certs tst = [].
  Proof. intros. split; destruct cert_check; reflexivity. Qed.

  (* the policy a Reader builds from the trust settings is never passthrough and never anchors-only:
     on that path `trusted` means allow-listed, or chained to a system anchor, or chained to a user anchor *)
  Theorem settings_trusted_only_if : forall s ee chain tst,
    vtrust (select_verifier cert true true (policy_of_settings cert s)) (ee :: chain) tst = [Trusted] ->
    existsb (N.eqb (fingerprint ee)) (s_allowed cert s) = true
    \/ chains_to (s_trust_anchors cert s) ee chain tst = true
    \/ chains_to (s_user_anchors cert s) ee chain tst = true.
  Proof.
    intros s ee chain tst H. cbn [select_verifier] in H.
    assert (Hin : In Trusted (vtrust (VerifyTrustPolicy cert (policy_of_settings cert s)) (ee :: chain) tst))
      by (rewrite H; now left).
    destruct (trusted_only_if _ _ _ Hin) as [p [ee' [chain' [Ev [Ec J]]]]].
    inversion Ev; inversion Ec; subst. unfold justified, allow_listed in J. cbn in J.
    destruct J as [J|[J|[J|[_ J]]]]; auto. discriminate.
  Qed.

  (* EKU: a credential whose EKU set is not accepted always gets a signingCredential failure from the profile step,
     so it is never both trusted and free of signingCredential.invalid / expired *)
  Theorem unaccepted_eku_flagged : forall p ee chain tst now,
    quiet_input (features ee) = false ->
    eku_accepted (additional_ekus cert p) (features ee) = false ->
    exists k, vprofile (VerifyTrustPolicy cert p) (ee :: chain) tst now = [k]
              /\ vprofile (VerifyCertificateProfileOnly cert p) (ee :: chain) tst now = [k].
  Proof.
    intros p ee chain tst now Hq He.
    destruct (eku_rejected (features ee) (additional_ekus cert p) tst now Hq He) as [b [k [E1 E2]]].
    exists k. cbn. rewrite E1. cbn. rewrite E2. split; reflexivity.
  Qed.

  (* after fix 85312f708 (every profile Err leaves a code) the quiet-input hypothesis is gone *)
  Theorem unaccepted_eku_flagged_all : forall p ee chain tst now,
    eku_accepted (additional_ekus cert p) (features ee) = false ->
    exists k, vprofile (VerifyTrustPolicy cert p) (ee :: chain) tst now = [k]
              /\ vprofile (VerifyCertificateProfileOnly cert p) (ee :: chain) tst now = [k].
  Proof.
    intros p ee chain tst now He.
    destruct (eku_rejected_all (features ee) (additional_ekus cert p) tst now He) as [b [k [E1 E2]]].
    exists k. cbn [verify_profile]. rewrite E1. cbv beta iota delta [profile_log]. rewrite E2. split; reflexivity.
  Qed.
End TrustProofs.

(* ------------------------------------------------------------------ never Valid / Trusted *)

Lemma forallb_false_in : forall {A} (f : A -> bool) l x, In x l -> f x = false -> forallb f l = false.
Proof.
  induction l as [|y r IH]; intros x Hin Hf; [contradiction|].
  cbn. destruct Hin as [->|Hin]; [now rewrite Hf|]. rewrite (IH x Hin Hf). apply andb_false_r.
Qed.

(* restated from the validation-state decision: any failure code that is not tolerated makes the state Invalid *)
Theorem non_tolerated_failure_invalid : forall success failure ingredients k,
  In k failure -> is_tolerated k = false -> validation_state success failure ingredients = StInvalid.
Proof.
  intros s f i k Hin Ht. unfold validation_state.
  rewrite (forallb_false_in is_tolerated f k Hin Ht).
  rewrite !andb_false_r. cbn. reflexivity.
Qed.

Lemma profile_codes_not_tolerated : forall k, is_tolerated (vcode_of k) = false.
Proof. destruct k; reflexivity. Qed.

(* a profile failure with a code makes the manifest Invalid, whatever else was logged *)
Theorem profile_failure_invalid : forall c ekus tst now b k success failure ingredients,
  check_end_entity_certificate_profile c ekus tst now = PFail b -> branch_code b = Some k ->
  (forall x, In x (profile_log (check_end_entity_certificate_profile c ekus tst now)) -> In (vcode_of x) failure) ->
  validation_state success failure ingredients = StInvalid.
Proof.
  intros c ekus tst now b k s f i E1 E2 Hlog.
  apply (non_tolerated_failure_invalid s f i (vcode_of k)); [|apply profile_codes_not_tolerated].
  apply Hlog. rewrite E1. cbn. rewrite E2. now left.
Qed.
