(* Proofs/BytesProofs.v — lemmas about the base byte-string library. *)
From Coq Require Import List NArith Bool Lia Arith Permutation.
From C2PA Require Import Base.Bytes.
Import ListNotations.
Open Scope N_scope.

Lemma len_app {A} (a b : list A) : len (a ++ b) = len a + len b.
Proof. unfold len. rewrite app_length. lia. Qed.

Lemma len_nil {A} : len (@nil A) = 0.
Proof. reflexivity. Qed.

Lemma len_cons {A} (x : A) l : len (x :: l) = len l + 1.
Proof. unfold len. simpl length. lia. Qed.

Lemma be_length k n : length (be k n) = k.
Proof. revert n. induction k as [|k IH]; intro n; cbn [be]; [reflexivity|]. rewrite app_length, IH. simpl. lia. Qed.

Lemma chunks_concat {A} (fuel k : nat) (l : list A) :
  (1 <= k)%nat -> (length l <= fuel)%nat -> concat (chunks fuel k l) = l.
Proof.
  intros Hk. revert l. induction fuel as [|f IH]; intros l Hl.
  - destruct l; [reflexivity| simpl in Hl; lia].
  - destruct l as [|x t]; [reflexivity|].
    cbn [chunks concat]. rewrite IH.
    + apply firstn_skipn.
    + rewrite skipn_length. simpl length in *. lia.
Qed.

Lemma chunks_nonempty {A} (fuel k : nat) (l : list A) :
  (1 <= k)%nat -> Forall (fun c => c <> []) (chunks fuel k l).
Proof.
  intros Hk. revert l. induction fuel as [|f IH]; intros l; cbn [chunks]; [constructor|].
  destruct l as [|x t]; [constructor|]. constructor; [|apply IH].
  destruct k; [lia|]. simpl. discriminate.
Qed.

(* number of chunks is ceil(len/k) *)
Lemma chunks_length {A} (fuel k : nat) (l : list A) :
  (1 <= k)%nat -> (length l <= fuel)%nat ->
  length (chunks fuel k l) = ((length l + k - 1) / k)%nat.
Proof.
  intros Hk. revert l. induction fuel as [|f IH]; intros l Hl.
  - destruct l; simpl in *; [|lia]. symmetry. apply Nat.div_small. lia.
  - destruct l as [|x t].
    + simpl. symmetry. apply Nat.div_small. lia.
    + cbn [chunks]. cbn [length]. rewrite IH by (rewrite skipn_length; simpl length in *; lia).
      rewrite skipn_length. simpl length. remember (length t) as n eqn:Hn. clear Hn Hl IH.
      destruct (Nat.le_gt_cases k (S n)) as [Hle|Hgt].
      * replace (S n + k - 1)%nat with ((S n - k + k - 1) + 1 * k)%nat by lia.
        rewrite Nat.div_add by lia. lia.
      * replace (S n - k)%nat with 0%nat by lia.
        rewrite (Nat.div_small (0 + k - 1) k) by lia.
        replace (S n + k - 1)%nat with (n + 1 * k)%nat by lia.
        rewrite Nat.div_add by lia. rewrite Nat.div_small by lia. reflexivity.
Qed.

Section SortFacts.
  Context {A : Type} (key : A -> N).
  Lemma insert_by_perm x l : Permutation (insert_by key x l) (x :: l).
  Proof.
    induction l as [|y t IH]; cbn [insert_by]; [reflexivity|].
    destruct (key x <=? key y); [reflexivity|].
    rewrite IH. apply perm_swap.
  Qed.
  Lemma sort_by_perm l : Permutation (sort_by key l) l.
  Proof.
    induction l as [|x t IH]; cbn [sort_by fold_right]; [reflexivity|].
    fold (sort_by key t). rewrite insert_by_perm. constructor. exact IH.
  Qed.
  Lemma sort_by_nil_iff l : sort_by key l = [] <-> l = [].
  Proof.
    split; intro H; [|subst; reflexivity].
    pose proof (sort_by_perm l) as P. rewrite H in P. apply Permutation_nil in P. exact P.
  Qed.
End SortFacts.

Lemma slice_cons_S {A} (x : A) t o n : slice (x :: t) (S o) n = slice t o n.
Proof. reflexivity. Qed.
Lemma slice_cons_0 {A} (x : A) t n : slice (x :: t) 0 (S n) = x :: slice t 0 n.
Proof. reflexivity. Qed.
Lemma slice_0_0 {A} (l : list A) o : slice l o 0 = [].
Proof. reflexivity. Qed.
Lemma slice_length {A} (l : list A) o n : (o + n <= length l)%nat -> length (slice l o n) = n.
Proof. intro H. unfold slice. rewrite firstn_length, skipn_length. lia. Qed.
