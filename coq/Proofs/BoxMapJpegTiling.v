(* Proofs/BoxMapJpegTiling.v — for a JPEG made of plain segments, at most one contiguous C2PA run, plain segments,
   no fill bytes, no restart markers and no trailer, the box map tiles the file exactly. *)
From Coq Require Import List NArith Bool Lia Arith Wf_nat.
From Coq Require Import ZifyBool ZifyNat ZifyN.
From C2PA Require Import Base.Bytes Proofs.BytesProofs Generated.C12_facts Model.BoxMap Model.BoxMapJpeg
     Proofs.BoxMapProofs.
Import ListNotations.
Open Scope N_scope.

Arguments N.add : simpl never.
Arguments N.sub : simpl never.
Arguments N.eqb : simpl never.
Arguments N.ltb : simpl never.
Arguments N.leb : simpl never.
Arguments N.mul : simpl never.
Arguments N.div : simpl never.
Arguments N.modulo : simpl never.

Definition nilb {A} (l : list A) : bool := match l with [] => true | _ => false end.

(* a segment that yields one entry covering exactly its encoding (SOS: including its entropy-coded data) *)
Definition plain_seg (s : jseg) : bool :=
  let m := jmarker s in
  nilb (jfill s) && seg_ok s && negb (m =? 235) && negb (inr 208 215 m) && (1 <=? m) && (m <=? 254)
  && Bool.eqb (has_length m) (negb (jf_standalone m))
  && (len (jpayload s) <=? 65533)
  && (if jf_standalone m then nilb (jpayload s) else true)
  && (if m =? 218 then stuffed (jecs s) else nilb (jecs s)).

(* one APP11 segment of the C2PA run with box instance number [en] *)
Definition run_seg (en : bytes) (s : jseg) : bool :=
  nilb (jfill s) && (jmarker s =? 235) && (28 <=? len (jpayload s)) && (len (jpayload s) <=? 65533)
  && nilb (jecs s) && beq en (slice (jpayload s) 2 2).
Definition c2pa_run (R : list jseg) : bool :=
  match R with
  | [] => true
  | s :: t => run_seg (slice (jpayload s) 2 2) s && beq C2PA_MARKER (slice (jpayload s) 24 4)
              && forallb (run_seg (slice (jpayload s) 2 2)) t
  end.

Definition no_final_sos (segs : list jseg) : bool := negb (jmarker (last segs (JS [] 217 [] [])) =? 218).

(* ---------------------------------------------------------------- small facts *)

Lemma beq_eq a : forall b, beq a b = true -> a = b.
Proof.
  induction a as [|x a IH]; intros [|y b] H; cbn [beq] in H; try discriminate; auto.
  apply andb_true_iff in H. destruct H as [H1 H2]. f_equal; [lia|auto].
Qed.

Lemma beq_refl a : beq a a = true.
Proof. induction a as [|x a IH]; cbn [beq]; auto. rewrite IH. rewrite N.eqb_refl. reflexivity. Qed.

Lemma skipn_plus {A} (l : list A) : forall a b, skipn (a + b) l = skipn b (skipn a l).
Proof.
  induction l as [|x l IH]; intros a b.
  - rewrite !skipn_nil. reflexivity.
  - destruct a; cbn [skipn Nat.add]; auto.
Qed.

Lemma at_off_app file pos x y : at_off file pos = x ++ y -> at_off file (pos + len x) = y.
Proof.
  unfold at_off, len. intros H.
  replace (N.to_nat (pos + N.of_nat (length x))) with (N.to_nat pos + length x)%nat by lia.
  rewrite skipn_plus. rewrite H. rewrite skipn_app, skipn_all, Nat.sub_diag. reflexivity.
Qed.

Lemma de_be2 n : n < 65536 -> de (be 2 n) = n.
Proof.
  intros H. cbn [be app]. unfold de. cbn [de_acc].
  assert (n / 256 < 256) by (apply N.div_lt_upper_bound; lia).
  rewrite (N.mod_small (n / 256) 256) by lia.
  pose proof (N.div_mod' n 256). lia.
Qed.

Lemma be2_shape n : exists a b, be 2 n = [a; b].
Proof. cbn [be app]. eauto. Qed.

Lemma in_entropy_0 : in_entropy 0 = true.
Proof. reflexivity. Qed.

(* what terminates the entropy scan: FF followed by a byte that is neither 00 nor RSTn *)
Definition term_ok (T : bytes) : bool :=
  match T with
  | p :: m :: _ => (p =? 255) && negb (in_entropy m)
  | _ => false
  end.

Lemma entropy_size_stuffed : forall n ecs acc T,
  length ecs = n -> stuffed ecs = true -> term_ok T = true ->
  entropy_size (ecs ++ T) acc = Ok (acc + len ecs).
Proof.
  induction n as [n IH] using lt_wf_ind. intros ecs acc T Hn Hs Ht.
  destruct ecs as [|b t].
  - cbn [app]. destruct T as [|p [|m T']]; cbn [term_ok] in Ht; try discriminate.
    apply andb_true_iff in Ht. destruct Ht as [Hp Hm].
    cbn [entropy_size]. unfold MARKER_P. rewrite Hp.
    destruct (in_entropy m); [discriminate|]. rewrite len_nil. f_equal. lia.
  - cbn [stuffed] in Hs. cbn [app entropy_size]. unfold MARKER_P.
    destruct (b =? 255) eqn:Hb.
    + destruct t as [|z t']; [discriminate|].
      apply andb_true_iff in Hs. destruct Hs as [Hz Hs].
      cbn [app]. assert (z = 0) as -> by lia. rewrite in_entropy_0.
      rewrite (IH (length t')) with (ecs := t'); auto.
      * rewrite !len_cons. f_equal. lia.
      * cbn [length] in Hn. lia.
    + apply andb_true_iff in Hs. destruct Hs as [_ Hs].
      rewrite (IH (length t)) with (ecs := t); auto.
      * rewrite len_cons. f_equal. lia.
      * cbn [length] in Hn. lia.
Qed.

(* ---------------------------------------------------------------- the name table *)

Lemma names_table_ok :
  forallb (fun kv => negb (beq (snd kv) C2PA_BOXHASH)
                     && (negb (beq (snd kv) NAME_SOS) || (fst kv =? 218))
                     && (negb (beq (snd kv) NAME_APP0) || (fst kv =? 224))) SEGMENT_NAMES = true.
Proof. vm_compute. reflexivity. Qed.

Lemma assoc_in m t v : assoc m t = Some v -> In (m, v) t.
Proof.
  induction t as [|[k w] t IH]; cbn [assoc]; [discriminate|].
  destruct (k =? m) eqn:E.
  - intros H; inversion H; subst. left. f_equal. lia.
  - intros H. right. auto.
Qed.

Lemma assoc_facts m v : assoc m SEGMENT_NAMES = Some v ->
  beq v C2PA_BOXHASH = false /\ (beq v NAME_SOS = true -> m = 218) /\ (beq v NAME_APP0 = true -> m = 224).
Proof.
  intros H. apply assoc_in in H.
  pose proof names_table_ok as T. rewrite forallb_forall in T. specialize (T _ H). cbn [fst snd] in T.
  apply andb_true_iff in T. destruct T as [T T3]. apply andb_true_iff in T. destruct T as [T1 T2].
  repeat split.
  - destruct (beq v C2PA_BOXHASH); auto; discriminate.
  - intros Hs. rewrite Hs in T2. cbn in T2. lia.
  - intros Hs. rewrite Hs in T3. cbn in T3. lia.
Qed.

(* ---------------------------------------------------------------- phase 1 on a plain segment *)

(* the entry pushed for a plain segment at position pos *)
Definition zentry_ok (s : jseg) (pos : N) (e : entry) : Prop :=
  estart e = pos /\ elen e = 0 /\ is_c2pa e = false
  /\ (name_is NAME_SOS e = (jmarker s =? 218))
  /\ (name_is NAME_APP0 e = true -> jmarker s = 224).

Ltac fixed_name :=
  eexists; split; [reflexivity|]; unfold zentry_ok, is_c2pa, name_is; cbn [estart elen ename];
  repeat split; try reflexivity;
  match goal with
  | |- beq ?a ?b = false => vm_compute; reflexivity
  | |- beq ?a ?b = (_ =? _) => let v := eval vm_compute in (beq a b) in change (beq a b) with v; lia
  | |- beq ?a ?b = true -> _ =>
      let v := eval vm_compute in (beq a b) in change (beq a b) with v; intros; try discriminate; lia
  | _ => idtac
  end.

Lemma step_plain s pos st st' :
  plain_seg s = true -> step st (kind_of s, pos) = Ok st' ->
  exists e, st' = MS (maps st ++ [e]) (cai_en st) (cai_cnt st) (cai_index st) /\ zentry_ok s pos e.
Proof.
  unfold plain_seg. intros P.
  repeat (apply andb_true_iff in P; destruct P as [P ?]).
  set (m := jmarker s) in *.
  assert (named_case : forall kd k, step st (kd, pos) = named st k pos -> k = m ->
            step st (kd, pos) = Ok st' ->
            exists e, st' = MS (maps st ++ [e]) (cai_en st) (cai_cnt st) (cai_index st) /\ zentry_ok s pos e).
  { intros kd k Hk Hkm Hs. rewrite Hk in Hs. unfold named in Hs.
    destruct (assoc k SEGMENT_NAMES) as [nm|] eqn:A; [|discriminate].
    unfold plain in Hs. inversion Hs; subst st'.
    destruct (assoc_facts _ _ A) as (F1 & F2 & F3).
    eexists; split; [reflexivity|]. unfold zentry_ok, is_c2pa, name_is; cbn [estart elen ename].
    repeat split; auto.
    - fold m. destruct (beq nm NAME_SOS) eqn:B.
      + specialize (F2 eq_refl). lia.
      + destruct (m =? 218) eqn:E; auto. exfalso.
        (* key 218 is SOS in the table *)
        assert (Ek : k = 218) by lia. rewrite Ek in A. vm_compute in A. injection A as A'. rewrite <- A' in B. vm_compute in B. discriminate.
    - intros B. specialize (F3 B). fold m. lia. }
  unfold kind_of. fold m.
  destruct (m =? 216) eqn:E216; [cbn [step]; unfold plain; (let Hq := fresh "Hq" in intros Hq; inversion Hq); subst m; fixed_name|].
  destruct (m =? 217) eqn:E217; [cbn [step]; unfold plain; (let Hq := fresh "Hq" in intros Hq; inversion Hq); subst m; fixed_name|].
  destruct (inr 224 239 m) eqn:Eapp.
  { destruct ((m =? 224) && (14 <=? len (jpayload s)) && beq (firstn 5 (jpayload s)) JFIF0) eqn:Ej.
    - cbn [step]; unfold plain; intros Hs; inversion Hs.
      eexists; split; [reflexivity|]. unfold zentry_ok, is_c2pa, name_is; cbn [estart elen ename].
      repeat split; try reflexivity.
      + vm_compute (beq NAME_APP0 NAME_SOS). unfold inr in Eapp. lia.
      + intros _. lia.
    - intros Hs. cbn [step] in Hs.
      unfold inr in Eapp.
      assert ((m - 224 =? 11) = false) as E11 by lia. rewrite E11 in Hs.
      eapply (named_case (KApp (m - 224) (jpayload s)) (m - 224 + 224)).
      + cbn [step]. rewrite E11. reflexivity.
      + lia.
      + cbn [step]. rewrite E11. exact Hs. }
  destruct (m =? 219) eqn:E219; [cbn [step]; unfold plain; (let Hq := fresh "Hq" in intros Hq; inversion Hq); subst m; fixed_name|].
  destruct (m =? 196) eqn:E196; [cbn [step]; unfold plain; (let Hq := fresh "Hq" in intros Hq; inversion Hq); subst m; fixed_name|].
  destruct (m =? 204) eqn:E204; [cbn [step]; unfold plain; (let Hq := fresh "Hq" in intros Hq; inversion Hq); subst m; fixed_name|].
  destruct (is_frame m) eqn:Efr.
  { intros Hs. eapply (named_case (KFrame m) m); auto. }
  destruct (m =? 218) eqn:E218; [cbn [step]; unfold plain; (let Hq := fresh "Hq" in intros Hq; inversion Hq); subst m; fixed_name|].
  destruct (m =? 221) eqn:E221; [cbn [step]; unfold plain; (let Hq := fresh "Hq" in intros Hq; inversion Hq); subst m; fixed_name|].
  destruct (inr 208 215 m) eqn:Erst; [cbn in *; discriminate|].
  destruct (m =? 254) eqn:E254; [cbn [step]; unfold plain; (let Hq := fresh "Hq" in intros Hq; inversion Hq); subst m; fixed_name|].
  intros Hs. eapply (named_case (KUnknown m) m); auto.
Qed.

(* ---------------------------------------------------------------- the reader yields every segment *)

Fixpoint jf_all (pos : N) (segs : list jseg) : list (jkind * N) :=
  match segs with
  | [] => []
  | s :: t => (kind_of s, pos + len (jfill s)) :: jf_all (pos + len (enc_seg s)) t
  end.

Definition good_seg (s : jseg) : Prop := plain_seg s = true \/ exists en, run_seg en s = true.

Lemma nilb_nil {A} (l : list A) : nilb l = true -> l = [].
Proof. destruct l; auto; discriminate. Qed.

Lemma plain_fields s : plain_seg s = true ->
  jfill s = [] /\ seg_ok s = true /\ jmarker s <> 235 /\ inr 208 215 (jmarker s) = false /\ 1 <= jmarker s
  /\ has_length (jmarker s) = negb (jf_standalone (jmarker s)) /\ len (jpayload s) <= 65533
  /\ (jf_standalone (jmarker s) = true -> jpayload s = [])
  /\ (jmarker s = 218 -> stuffed (jecs s) = true) /\ (jmarker s <> 218 -> jecs s = []).
Proof.
  unfold plain_seg. intros P. repeat (apply andb_true_iff in P; destruct P as [P ?]).
  repeat split; try lia.
  - apply nilb_nil; auto.
  - intros Hs. rewrite Hs in *. apply nilb_nil; auto.
  - intros Hm. replace (jmarker s =? 218) with true in * by lia. auto.
  - intros Hm. replace (jmarker s =? 218) with false in * by lia. apply nilb_nil; auto.
Qed.

Lemma run_fields en s : run_seg en s = true ->
  jfill s = [] /\ jmarker s = 235 /\ 28 <= len (jpayload s) <= 65533 /\ jecs s = [] /\ beq en (slice (jpayload s) 2 2) = true.
Proof.
  unfold run_seg. intros P. repeat (apply andb_true_iff in P; destruct P as [P ?]).
  repeat split; try lia; try (apply nilb_nil; assumption); auto.
Qed.

Lemma good_ok s : good_seg s -> seg_ok s = true /\ jfill s = [] /\ (jf_scanlike (jmarker s) = true -> jmarker s = 218).
Proof.
  intros [P | [en P]].
  - destruct (plain_fields _ P) as (F & O & _ & R & _). repeat split; auto.
    unfold jf_scanlike. rewrite R. intros H. lia.
  - destruct (run_fields _ _ P) as (F & M & _). repeat split; auto.
    + unfold seg_ok. rewrite M. reflexivity.
    + rewrite M. vm_compute. discriminate.
Qed.

Lemma jfif_of_all : forall segs pos, Forall good_seg segs -> no_final_sos segs = true ->
  jfif_of pos segs = jf_all pos segs.
Proof.
  induction segs as [|s t IH]; intros pos F N; auto.
  inversion F as [|? ? Fs Ft]; subst. cbn [jfif_of jf_all].
  destruct (good_ok _ Fs) as (O & Fl & Sc). rewrite O. cbn [andb].
  assert (negb (jf_scanlike (jmarker s)) || negb match t with [] => true | _ :: _ => false end = true) as ->.
  { destruct t as [|s2 t2]; [|destruct (jf_scanlike (jmarker s)); reflexivity].
    unfold no_final_sos in N. cbn [last] in N.
    destruct (jf_scanlike (jmarker s)) eqn:E; auto. specialize (Sc eq_refl). lia. }
  f_equal. apply IH; auto.
  destruct t as [|s2 t2]; [reflexivity|]. unfold no_final_sos in *. cbn [last] in N. exact N.
Qed.

Lemma jf_all_app : forall X Y pos,
  jf_all pos (X ++ Y) = jf_all pos X ++ jf_all (pos + len (concat (map enc_seg X))) Y.
Proof.
  induction X as [|s t IH]; intros Y pos; cbn [app jf_all map concat].
  - rewrite len_nil. f_equal. lia.
  - rewrite IH. rewrite len_app. do 3 f_equal. lia.
Qed.

Lemma steps_app : forall l1 l2 st,
  steps st (l1 ++ l2) = match steps st l1 with Ok st' => steps st' l2 | Err e => Err e | Panic => Panic end.
Proof.
  induction l1 as [|x l1 IH]; intros l2 st; cbn [app steps]; auto.
  destruct (step st x); auto.
Qed.

(* ---------------------------------------------------------------- phase 1 on plain lists and on the run *)

Inductive zrel : N -> list jseg -> list entry -> Prop :=
| zrel_nil pos : zrel pos [] []
| zrel_cons pos s t e Z : zentry_ok s pos e -> zrel (pos + len (enc_seg s)) t Z -> zrel pos (s :: t) (e :: Z).

Lemma steps_plain : forall A pos st st', forallb plain_seg A = true ->
  steps st (jf_all pos A) = Ok st' ->
  exists Z, st' = MS (maps st ++ Z) (cai_en st) (cai_cnt st) (cai_index st) /\ zrel pos A Z.
Proof.
  induction A as [|s t IH]; intros pos st st' F H; cbn [jf_all steps] in H.
  - inversion H; subst. exists []. rewrite app_nil_r. destruct st'; split; [reflexivity|constructor].
  - cbn [forallb] in F. apply andb_true_iff in F. destruct F as [Fs Ft].
    destruct (plain_fields _ Fs) as (Fl & _).
    rewrite Fl in H. rewrite len_nil in H. replace (pos + 0) with pos in H by lia.
    destruct (step st (kind_of s, pos)) as [st1| |] eqn:S1; try discriminate.
    destruct (step_plain _ _ _ _ Fs S1) as (e & -> & Ze).
    destruct (IH _ _ _ Ft H) as (Z & -> & Zr). cbn [maps cai_en cai_cnt cai_index].
    exists (e :: Z). split; [rewrite <- app_assoc; reflexivity|]. constructor; auto.
Qed.

Lemma kind_of_app11 s : jmarker s = 235 -> kind_of s = KApp 11 (jpayload s).
Proof. unfold kind_of. intros ->. reflexivity. Qed.

Lemma add_len_at_last M e d :
  add_len_at (length M) d (M ++ [e]) = Some (M ++ [E (ename e) (estart e) (elen e + d) (eexcl e)]).
Proof. induction M as [|x M IH]; cbn [length app add_len_at]; auto. rewrite IH. reflexivity. Qed.

Lemma run_seg_len en s : run_seg en s = true -> len (enc_seg s) = len (jpayload s) + 4.
Proof.
  intros P. destruct (run_fields _ _ P) as (F & M & L & Ec & _).
  unfold enc_seg, enc_body. rewrite F, M, Ec.
  change (jf_standalone 235) with false. cbn [app]. rewrite !len_cons, len_app, len_app, len_nil.
  unfold len at 1. rewrite be_length. lia.
Qed.

Lemma steps_run_conts en : forall t pos M p0 L cnt st',
  forallb (run_seg en) t = true -> 1 <= cnt ->
  steps (MS (M ++ [E C2PA_BOXHASH p0 L false]) en cnt (length M)) (jf_all pos t) = Ok st' ->
  maps st' = M ++ [E C2PA_BOXHASH p0 (L + len (concat (map enc_seg t))) false].
Proof.
  induction t as [|s t IH]; intros pos M p0 L cnt st' F C H; cbn [jf_all steps] in H.
  - inversion H; subst. cbn [maps map concat]. rewrite len_nil. do 3 f_equal. lia.
  - cbn [forallb] in F. apply andb_true_iff in F. destruct F as [Fs Ft].
    destruct (run_fields _ _ Fs) as (Fl & Mk & Ln & Ec & En).
    rewrite (kind_of_app11 _ Mk) in H. cbn [step] in H.
    change (11 =? 11) with true in H. cbn iota in H.
    assert ((16 <? len (jpayload s)) = true) as E16 by lia. rewrite E16 in H.
    cbn [cai_cnt cai_en cai_index maps] in H.
    assert ((0 <? cnt) = true) as Ec0 by lia. rewrite Ec0, En in H. cbn [andb] in H.
    rewrite add_len_at_last in H. cbn [ename estart elen eexcl] in H.
    apply IH in H; auto; [|lia]. rewrite H. cbn [map concat]. rewrite len_app.
    rewrite (run_seg_len _ _ Fs). do 3 f_equal. lia.
Qed.

Lemma steps_run R pos st st' :
  c2pa_run R = true -> R <> [] -> cai_cnt st = 0 ->
  steps st (jf_all pos R) = Ok st' ->
  maps st' = maps st ++ [E C2PA_BOXHASH pos (len (concat (map enc_seg R))) false].
Proof.
  destruct R as [|s t]; [congruence|]. intros C _ C0 H.
  cbn [c2pa_run] in C. apply andb_true_iff in C. destruct C as [C Ct].
  apply andb_true_iff in C. destruct C as [Cs Cm].
  destruct (run_fields _ _ Cs) as (Fl & Mk & Ln & Ec & En).
  cbn [jf_all steps] in H. rewrite Fl, len_nil in H. replace (pos + 0) with pos in H by lia.
  rewrite (kind_of_app11 _ Mk) in H. cbn [step] in H.
  change (11 =? 11) with true in H. cbn iota in H.
  assert ((16 <? len (jpayload s)) = true) as E16 by lia. rewrite E16 in H.
  rewrite C0 in H. change (0 <? 0) with false in H. cbn [andb] in H.
  assert ((len (jpayload s) <? 28) = false) as E28 by lia. rewrite E28, Cm in H.
  apply steps_run_conts in H; auto; [|lia].
  rewrite H. cbn [map concat]. rewrite len_app. rewrite (run_seg_len _ _ Cs). reflexivity.
Qed.

(* ---------------------------------------------------------------- phase 2: sizes read back from the file *)

Lemma in_entropy_false m : inr 208 215 m = false -> 1 <= m -> in_entropy m = false.
Proof.
  unfold in_entropy, in_ranges, IN_ENTROPY, inr. cbn [existsb fst snd]. intros. lia.
Qed.

Lemma enc_seg_head s : jfill s = [] -> exists rest, enc_seg s = 255 :: jmarker s :: rest.
Proof. intros F. unfold enc_seg, enc_body. rewrite F. cbn [app]. eauto. Qed.

Lemma good_term s T : good_seg s -> term_ok (enc_seg s ++ T) = true.
Proof.
  intros G. destruct (good_ok _ G) as (_ & F & _). destruct (enc_seg_head _ F) as (r & ->).
  cbn [app term_ok]. change (255 =? 255) with true. cbn [andb].
  destruct G as [P | [en P]].
  - destruct (plain_fields _ P) as (_ & _ & _ & R & M1 & _). rewrite in_entropy_false; auto.
  - destruct (run_fields _ _ P) as (_ & M & _). rewrite M. reflexivity.
Qed.

Lemma size_plain_entry file s pos e T :
  at_off file pos = enc_seg s ++ T -> plain_seg s = true -> zentry_ok s pos e ->
  (jmarker s = 218 -> term_ok T = true) ->
  size_entry file e = Ok (set_len e (len (enc_seg s))).
Proof.
  intros Hf P (Es & El & Ec & Esos & _) Ht.
  destruct (plain_fields _ P) as (Fl & _ & _ & Rst & M1 & HL & Ln & Sp & Se & Sn).
  unfold size_entry. rewrite Ec, Es.
  unfold enc_seg, enc_body in *. rewrite Fl in *. cbn [app] in Hf.
  rewrite Hf. cbn [seg_size]. unfold MARKER_P. change (255 =? 255) with true. cbn iota.
  rewrite HL. rewrite Esos.
  destruct (jf_standalone (jmarker s)) eqn:St.
  - cbn [negb]. cbn iota.
    assert ((jmarker s =? 218) = false) as E by (unfold jf_standalone, inr in *; lia).
    rewrite E. rewrite Sn by lia. reflexivity.
  - cbn [negb]. cbn iota.
    destruct (be2_shape (len (jpayload s) + 2)) as (a & b & Hb).
    pose proof (de_be2 (len (jpayload s) + 2)) as D. rewrite Hb in *. cbn [app].
    rewrite D by lia.
    assert (len (255 :: jmarker s :: ([a; b] ++ jpayload s)) = len (jpayload s) + 2 + 2) as LH.
    { cbn [app]. rewrite !len_cons. lia. }
    destruct (jmarker s =? 218) eqn:E.
    + assert (at_off file (pos + (len (jpayload s) + 2 + 2)) = jecs s ++ T) as Hoff.
      { rewrite <- LH. apply at_off_app. rewrite Hf. cbn [app]. rewrite <- !app_assoc. reflexivity. }
      rewrite Hoff.
      rewrite (entropy_size_stuffed (length (jecs s))); auto; [|apply Se; lia|apply Ht; lia].
      f_equal. unfold set_len. f_equal. cbn [app]. rewrite ?len_cons, ?len_app, ?len_cons, ?len_nil. lia.
    + rewrite Sn by lia. f_equal. unfold set_len. f_equal.
      cbn [app]. rewrite ?len_cons, ?len_app, ?len_cons, ?len_nil. lia.
Qed.

Lemma map_res_app {A B} (f : A -> res B) : forall l1 l2 r,
  map_res f (l1 ++ l2) = Ok r ->
  exists r1 r2, r = r1 ++ r2 /\ map_res f l1 = Ok r1 /\ map_res f l2 = Ok r2.
Proof.
  induction l1 as [|x l1 IH]; intros l2 r H; cbn [app map_res] in *.
  - exists [], r. auto.
  - destruct (f x) as [y| |]; try discriminate.
    destruct (map_res f (l1 ++ l2)) as [r'| |] eqn:R; try discriminate.
    inversion H; subst. destruct (IH _ _ R) as (r1 & r2 & -> & H1 & H2).
    exists (y :: r1), r2. rewrite H1. auto.
Qed.

Definition last_is_sos (A : list jseg) : bool :=
  match A with [] => false | _ => jmarker (last A (JS [] 217 [] [])) =? 218 end.

Lemma sized_list file : forall A pos Z T Mt m',
  zrel pos A Z -> forallb plain_seg A = true ->
  at_off file pos = concat (map enc_seg A) ++ T ->
  (last_is_sos A = true -> term_ok T = true) ->
  map_res (size_entry file) (Z ++ Mt) = Ok m' ->
  exists mA mT, m' = mA ++ mT /\ chain pos mA = Some (pos + len (concat (map enc_seg A)))
                /\ map_res (size_entry file) Z = Ok mA /\ map_res (size_entry file) Mt = Ok mT.
Proof.
  induction A as [|s t IH]; intros pos Z T Mt m' Zr F Hf Hl H.
  - inversion Zr; subst. cbn [app] in H. exists [], m'. cbn [chain map concat map_res]. rewrite len_nil.
    repeat split; auto. f_equal. lia.
  - inversion Zr as [|? ? ? e Z' Ze Zt]; subst.
    cbn [forallb] in F. apply andb_true_iff in F. destruct F as [Fs Ft].
    cbn [map concat] in Hf. rewrite <- app_assoc in Hf.
    cbn [app map_res] in H.
    assert (size_entry file e = Ok (set_len e (len (enc_seg s)))) as Se.
    { eapply size_plain_entry; eauto. intros M.
      destruct t as [|s2 t2].
      - cbn [map concat app]. apply Hl. cbn [last_is_sos last]. lia.
      - cbn [forallb] in Ft. apply andb_true_iff in Ft. destruct Ft as [F2 _].
        cbn [map concat]. rewrite <- app_assoc. apply good_term. left; auto. }
    rewrite Se in H.
    destruct (map_res (size_entry file) (Z' ++ Mt)) as [r'| |] eqn:R; try discriminate.
    inversion H; subst m'.
    apply at_off_app in Hf.
    assert (Hl' : last_is_sos t = true -> term_ok T = true).
    { intros L. apply Hl. destruct t; [discriminate|]. cbn [last_is_sos last] in *. exact L. }
    destruct (IH _ _ _ _ _ Zt Ft Hf Hl' R) as (mA & mT & -> & Hc & HZ & HM).
    exists (set_len e (len (enc_seg s)) :: mA), mT.
    repeat split; auto.
    + cbn [chain]. destruct Ze as (Es & _). unfold set_len. cbn [estart]. rewrite Es, N.eqb_refl.
      unfold eend; cbn [estart elen]. rewrite ?Es. rewrite Hc. cbn [map concat]. rewrite len_app. f_equal. lia.
    + cbn [map_res]. rewrite Se, HZ. reflexivity.
Qed.

(* ---------------------------------------------------------------- the placeholder *)

Lemma position_nth {A} (f : A -> bool) : forall l i, position f l = Some i ->
  exists a, nth_error l i = Some a /\ f a = true.
Proof.
  induction l as [|x l IH]; intros i H; cbn [position] in H; [discriminate|].
  destruct (f x) eqn:E.
  - inversion H; subst. exists x; auto.
  - destruct (position f l) as [j|] eqn:P; [|discriminate]. inversion H; subst.
    destruct (IH _ eq_refl) as (a & Ha & Hf). exists a; auto.
Qed.

Lemma map_res_nth {A B} (f : A -> res B) : forall l r i a,
  map_res f l = Ok r -> nth_error l i = Some a -> exists y, nth_error r i = Some y /\ f a = Ok y.
Proof.
  induction l as [|x l IH]; intros r i a H N; [destruct i; discriminate|].
  cbn [map_res] in H. destruct (f x) as [y| |] eqn:Fx; try discriminate.
  destruct (map_res f l) as [r'| |] eqn:R; try discriminate. inversion H; subst.
  destruct i; cbn [nth_error] in *.
  - inversion N; subst. exists y; auto.
  - eapply IH; eauto.
Qed.

Lemma map_res_cons {A B} (f : A -> res B) x l :
  map_res f (x :: l) = match f x with
                       | Ok y => match map_res f l with Ok t' => Ok (y :: t') | Err e => Err e | Panic => Panic end
                       | Err e => Err e
                       | Panic => Panic
                       end.
Proof. reflexivity. Qed.

Lemma map_res_insert {A B} (f : A -> res B) x y : f x = Ok y -> forall l k r,
  map_res f (insert_at k x l) = Ok r -> exists r0, map_res f l = Ok r0 /\ r = insert_at k y r0.
Proof.
  intros Fx. induction l as [|z l IH]; intros k r H.
  - destruct k; cbn [insert_at map_res] in H; rewrite Fx in H; inversion H; subst; exists []; auto.
  - destruct k; cbn [insert_at] in H.
    + rewrite map_res_cons in H. rewrite Fx in H.
      destruct (map_res f (z :: l)) as [r'| |]; try discriminate. injection H as <-. exists r'; split; reflexivity.
    + cbn [map_res] in *. destruct (f z) as [w| |]; try discriminate.
      destruct (map_res f (insert_at k x l)) as [r'| |] eqn:R; try discriminate. inversion H; subst.
      destruct (IH _ _ R) as (r0 & -> & ->). exists (w :: r0); auto.
Qed.

Lemma chain_insert : forall m i a b y ph,
  chain a m = Some b -> nth_error m i = Some y -> estart ph = eend y -> elen ph = 0 ->
  chain a (insert_at (S i) ph m) = Some b.
Proof.
  induction m as [|e t IH]; intros i a b y ph H N Hs Hl; [destruct i; discriminate|].
  cbn [chain] in H. destruct (estart e =? a) eqn:E; [|discriminate].
  destruct i; cbn [nth_error] in N.
  - inversion N; subst y. cbn [insert_at chain]. rewrite E, Hs, N.eqb_refl.
    unfold eend at 1. rewrite Hl, Hs. replace (eend e + 0) with (eend e) by lia. exact H.
  - cbn [insert_at chain]. rewrite E. eapply IH; eauto.
Qed.

Lemma zrel_not_c2pa : forall A pos Z, zrel pos A Z -> existsb is_c2pa Z = false.
Proof.
  induction 1 as [|pos s t e Z Ze Zr IH]; auto.
  cbn [existsb]. destruct Ze as (_ & _ & C & _). rewrite C, IH. reflexivity.
Qed.

Lemma zrel_app : forall X pos Y ZX ZY, zrel pos X ZX -> zrel (pos + len (concat (map enc_seg X))) Y ZY ->
  zrel pos (X ++ Y) (ZX ++ ZY).
Proof.
  induction X as [|s t IH]; intros pos Y ZX ZY HX HY; inversion HX; subst; cbn [app map concat] in *.
  - rewrite len_nil in HY. replace (pos + 0) with pos in HY by lia. exact HY.
  - constructor; auto. apply IH; auto. rewrite len_app in HY.
    replace (pos + len (enc_seg s) + len (concat (map enc_seg t))) with (pos + (len (enc_seg s) + len (concat (map enc_seg t)))) by lia.
    exact HY.
Qed.

(* ---------------------------------------------------------------- assembly *)

Definition soi : jseg := JS [] 216 [] [].

Lemma last_app_ne {A} (d : A) : forall X Y, Y <> [] -> last (X ++ Y) d = last Y d.
Proof.
  induction X as [|x X IH]; intros Y HY; auto.
  cbn [app]. specialize (IH _ HY). destruct (X ++ Y) eqn:E.
  - destruct X; destruct Y; try discriminate; congruence.
  - cbn [last]. rewrite <- IH. reflexivity.
Qed.

Lemma last_sos_false X : no_final_sos X = true -> last_is_sos X = false.
Proof. unfold no_final_sos, last_is_sos. destruct X; auto. intros H. apply negb_true_iff in H. exact H. Qed.

Lemma no_final_sos_soi X : no_final_sos X = true -> no_final_sos (soi :: X) = true.
Proof. unfold no_final_sos. destruct X; auto. Qed.

Lemma no_final_sos_tail X Y : no_final_sos (X ++ Y) = true -> last_is_sos Y = false.
Proof.
  destruct Y as [|y Y]; auto. intros H. apply last_sos_false.
  unfold no_final_sos in *. rewrite last_app_ne in H by discriminate. exact H.
Qed.

Lemma c2pa_run_good R : c2pa_run R = true -> Forall good_seg R.
Proof.
  destruct R as [|s t]; [constructor|]. cbn [c2pa_run]. intros C.
  apply andb_true_iff in C. destruct C as [C Ct]. apply andb_true_iff in C. destruct C as [Cs _].
  constructor; [right; eauto|]. rewrite forallb_forall in Ct. apply Forall_forall. intros x Hx. right; eauto.
Qed.

Lemma plain_good A : forallb plain_seg A = true -> Forall good_seg A.
Proof. rewrite forallb_forall. intros H. apply Forall_forall. intros x Hx. left; auto. Qed.

Lemma concat_map_app a b : concat (map enc_seg (a ++ b)) = concat (map enc_seg a) ++ concat (map enc_seg b).
Proof. rewrite map_app, concat_app. reflexivity. Qed.

Lemma is_c2pa_C p l x : is_c2pa (E C2PA_BOXHASH p l x) = true.
Proof. reflexivity. Qed.

Theorem jpeg_clean_tiling A R B m :
  forallb plain_seg A = true -> c2pa_run R = true -> forallb plain_seg B = true ->
  no_final_sos (A ++ R ++ B) = true ->
  jpeg_box_map (A ++ R ++ B) [] = Ok m ->
  chain 0 m = Some (len (jpeg_file (A ++ R ++ B) [])).
Proof.
  intros FA CR FB NF H.
  set (A' := soi :: A).
  set (EA := concat (map enc_seg A')). set (ER := concat (map enc_seg R)). set (EB := concat (map enc_seg B)).
  set (file := jpeg_file (A ++ R ++ B) []) in *.
  assert (FA' : forallb plain_seg A' = true) by (cbn [forallb A']; rewrite FA; reflexivity).
  assert (Hfile : file = EA ++ ER ++ EB).
  { unfold file, jpeg_file, EA, ER, EB, A'. rewrite app_nil_r, !concat_map_app.
    change (concat (map enc_seg (soi :: A))) with ([255; 216] ++ concat (map enc_seg A)).
    rewrite <- !app_assoc. reflexivity. }
  assert (Hlen : len file = len EA + len ER + len EB) by (rewrite Hfile, !len_app; lia).
  assert (Hf0 : at_off file 0 = EA ++ ER ++ EB) by (rewrite <- Hfile; reflexivity).
  assert (HfR : at_off file (0 + len EA) = ER ++ EB) by (apply at_off_app; exact Hf0).
  assert (HfB : at_off file (0 + len EA + len ER) = EB) by (apply at_off_app; exact HfR).
  assert (Hparsed : jfif_segments (A ++ R ++ B) = jf_all 0 (A' ++ R ++ B)).
  { unfold jfif_segments. rewrite jfif_of_all.
    - reflexivity.
    - apply Forall_app; split; [apply plain_good; auto|].
      apply Forall_app; split; [apply c2pa_run_good; auto|apply plain_good; auto].
    - exact NF. }
  unfold jpeg_box_map, jpeg_box_map_from in H. fold file in H. rewrite Hparsed in H.
  unfold make_box_maps in H. rewrite jf_all_app, steps_app in H.
  destruct (steps (MS [] [] 0 0) (jf_all 0 A')) as [st1| |] eqn:S1; try discriminate.
  destruct (steps_plain _ _ _ _ FA' S1) as (ZA & -> & ZrA). cbn [maps cai_en cai_cnt cai_index app] in H.
  fold EA in H.
  rewrite jf_all_app, steps_app in H. fold ER in H.
  destruct R as [|r0 Rt].
  - (* no manifest: placeholder *)
    cbn [jf_all steps] in H.
    destruct (steps (MS ZA [] 0 0) (jf_all (0 + len EA + len ER) B)) as [st2| |] eqn:S2; try discriminate.
    destruct (steps_plain _ _ _ _ FB S2) as (ZB & -> & ZrB). cbn [maps] in H.
    assert (Zr : zrel 0 (A' ++ B) (ZA ++ ZB)).
    { apply zrel_app; auto. }
    set (Z := ZA ++ ZB) in *.
    assert (FAB : forallb plain_seg (A' ++ B) = true) by (rewrite forallb_app, FA', FB; reflexivity).
    assert (HfZ : at_off file 0 = concat (map enc_seg (A' ++ B)) ++ []).
    { rewrite app_nil_r, concat_map_app. fold EA EB. rewrite Hf0. unfold ER. reflexivity. }
    assert (HL : last_is_sos (A' ++ B) = true -> term_ok [] = true).
    { intros L. exfalso. unfold A' in L. cbn [app] in NF, L.
      pose proof (last_sos_false _ (no_final_sos_soi _ NF)) as L'. cbn [app] in L'. congruence. }
    assert (Hsz : forall mm, map_res (size_entry file) Z = Ok mm -> chain 0 mm = Some (len file)).
    { intros mm Hm. rewrite <- (app_nil_r Z) in Hm.
      destruct (sized_list file _ _ _ _ _ _ Zr FAB HfZ HL Hm) as (mA & mT & -> & Hc & _ & HT).
      cbn [map_res] in HT. injection HT as <-. rewrite app_nil_r. rewrite Hc.
      rewrite concat_map_app. fold EA EB. rewrite Hlen, len_app. assert (len ER = 0) by reflexivity. f_equal; lia. }
    unfold with_placeholder in H. rewrite (zrel_not_c2pa _ _ _ Zr) in H.
    clearbody Z.
    assert (Hph : forall i a, nth_error Z i = Some a -> name_is NAME_SOS a = false ->
              match placeholder_after file i Z with
              | Ok m1 => map_res (size_entry file) m1
              | Err e => Err e
              | Panic => Panic
              end = Ok m -> chain 0 m = Some (len file)).
    { intros i a Hn Hs Hp. unfold placeholder_after in Hp. rewrite Hn in Hp.
      destruct (seg_size (at_off file (estart a))) as [sz| |] eqn:Sz; try discriminate.
      set (ph := E C2PA_BOXHASH (estart a + sz) 0 true) in *.
      assert (Hphs : size_entry file ph = Ok ph) by reflexivity.
      destruct (map_res_insert (size_entry file) ph ph Hphs Z (S i) m Hp) as (mm & Hmm & ->).
      destruct (map_res_nth _ _ _ _ _ Hmm Hn) as (y & Hy & Hsy).
      eapply chain_insert; [apply Hsz; exact Hmm | exact Hy | | reflexivity].
      assert (is_c2pa a = false) as Ca.
      { pose proof (zrel_not_c2pa _ _ _ Zr) as X. apply nth_error_In in Hn.
        destruct (is_c2pa a) eqn:Ca; auto.
        assert (existsb is_c2pa Z = true) by (apply existsb_exists; eauto). congruence. }
      unfold size_entry in Hsy. rewrite Ca, Sz, Hs in Hsy. injection Hsy as <-.
      unfold eend, set_len, ph; cbn [estart elen]. reflexivity. }
    destruct (position (name_is NAME_APP0) Z) as [i|] eqn:Pos.
    + destruct (position_nth _ _ _ Pos) as (a & Hn & Ha).
      eapply Hph; eauto. unfold name_is in *. apply beq_eq in Ha. rewrite Ha. reflexivity.
    + destruct (1 <? len Z) eqn:L1; [|discriminate].
      unfold A' in Zr. cbn [app] in Zr. inversion Zr as [|? ? ? e Z' Ze Zt]; subst.
      eapply (Hph O e); [reflexivity| |exact H].
      destruct Ze as (_ & _ & _ & Hsos & _). rewrite Hsos. reflexivity.
  - (* one contiguous C2PA run *)
    destruct (steps (MS ZA [] 0 0) (jf_all (0 + len EA) (r0 :: Rt))) as [st2| |] eqn:S2; try discriminate.
    assert (M2 : maps st2 = ZA ++ [E C2PA_BOXHASH (0 + len EA) (len ER) false]).
    { apply (steps_run _ _ _ _ CR) in S2; [exact S2|discriminate|reflexivity]. }
    destruct (steps st2 (jf_all (0 + len EA + len ER) B)) as [st3| |] eqn:S3; try discriminate.
    destruct (steps_plain _ _ _ _ FB S3) as (ZB & -> & ZrB). cbn [maps] in H. rewrite M2 in H.
    set (C := E C2PA_BOXHASH (0 + len EA) (len ER) false) in *.
    unfold with_placeholder in H.
    assert (existsb is_c2pa ((ZA ++ [C]) ++ ZB) = true) as X.
    { rewrite !existsb_app. cbn [existsb]. unfold C. rewrite is_c2pa_C. rewrite orb_true_r. reflexivity. }
    rewrite X in H. rewrite <- app_assoc in H.
    assert (HLA : last_is_sos A' = true -> term_ok (ER ++ EB) = true).
    { intros _. unfold ER. cbn [map concat]. rewrite <- app_assoc. apply good_term.
      cbn [c2pa_run] in CR. apply andb_true_iff in CR. destruct CR as [CR _].
      apply andb_true_iff in CR. destruct CR as [CR _]. right. eauto. }
    destruct (sized_list file A' 0 ZA (ER ++ EB) ([C] ++ ZB) m ZrA FA' Hf0 HLA H) as (mA & mT & -> & HcA & _ & HT).
    cbn [app] in HT. rewrite map_res_cons in HT. change (size_entry file C) with (Ok C) in HT.
    destruct (map_res (size_entry file) ZB) as [mB| |] eqn:MB; try discriminate. injection HT as <-.
    rewrite <- (app_nil_r ZB) in MB.
    assert (HfB' : at_off file (0 + len EA + len ER) = concat (map enc_seg B) ++ []) by (rewrite app_nil_r; exact HfB).
    assert (HLB : last_is_sos B = true -> term_ok [] = true).
    { intros L. exfalso. rewrite app_assoc in NF. apply no_final_sos_tail in NF. congruence. }
    destruct (sized_list file B _ ZB [] [] _ ZrB FB HfB' HLB MB) as (mB' & mT' & E' & HcB & _ & HT').
    cbn [map_res] in HT'. injection HT' as <-. rewrite app_nil_r in E'. subst mB'.
    rewrite chain_app, HcA. cbn [chain]. unfold C at 1; cbn [estart]. rewrite N.eqb_refl.
    unfold eend, C; cbn [estart elen]. rewrite HcB. f_equal. fold EB. rewrite Hlen. lia.
Qed.

(* the four layout predicates of the property, for every file of the clean shape *)
Theorem jpeg_clean_layout A R B m :
  forallb plain_seg A = true -> c2pa_run R = true -> forallb plain_seg B = true ->
  no_final_sos (A ++ R ++ B) = true ->
  jpeg_box_map (A ++ R ++ B) [] = Ok m ->
  let n := len (jpeg_file (A ++ R ++ B) []) in
  sorted_map m /\ disjoint_map m /\ in_file n m /\ (forall i, i < n -> cover_count i m = 1%nat).
Proof.
  intros FA CR FB NF H n. pose proof (jpeg_clean_tiling _ _ _ _ FA CR FB NF H) as T. fold n in T.
  repeat split.
  - eapply chain_sorted; eauto.
  - eapply chain_disjoint; eauto.
  - apply chain_bounds in T. eapply Forall_impl; [|exact T]. cbn beta. intros x [_ Hx]. exact Hx.
  - intros i Hi. eapply chain_cover_once; eauto. lia.
Qed.

(* non-vacuity: a signed-shaped file (APP0, two-segment C2PA run, APP1, DQT, SOF0, DHT, SOS, EOI) and an unsigned one *)
Definition ex_A : list jseg := [JS [] 224 [74;70;73;70;0;1;1;0;0;1;0;1;0;0] []].
Definition ex_run (z : N) (tail : bytes) : jseg :=
  JS [] 235 ([74;80;2;17;0;0;0;z;0;0;0;100;106;117;109;98;0;0;0;50;106;117;109;100;99;50;112;97] ++ tail) [].
Definition ex_R : list jseg := [ex_run 1 [1;2;3]; ex_run 2 [4]].
Definition ex_B : list jseg :=
  [JS [] 225 [69;120;105;102;0;0;9] []; JS [] 219 [0;1;2] [];
   JS [] 192 [8;0;16;0;16;1;1;17;0] []; JS [] 196 [0;0;1;0;0;0;0;0;0;0;0;0;0;0;0;0;0;5] [];
   JS [] 218 [1;1;0;0;63;0] [5;6;255;0;7;208]; JS [] 217 [] []].

Lemma jpeg_clean_example :
  forallb plain_seg ex_A = true /\ c2pa_run ex_R = true /\ forallb plain_seg ex_B = true
  /\ no_final_sos (ex_A ++ ex_R ++ ex_B) = true
  /\ (exists m, jpeg_box_map (ex_A ++ ex_R ++ ex_B) [] = Ok m /\ length m = 9%nat)
  /\ (exists m, jpeg_box_map (ex_A ++ [] ++ ex_B) [] = Ok m /\ length m = 9%nat).
Proof. repeat split; try (vm_compute; reflexivity); eexists; split; vm_compute; reflexivity. Qed.
