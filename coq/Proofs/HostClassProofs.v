(* Proofs/HostClassProofs.v — characterisation of host_is_non_global on host strings. *)
From Coq Require Import List NArith Bool Arith Lia ZifyBool ZifyNat ZifyN.
From C2PA Require Import Base.Bytes Model.HostPattern Model.IpPreds Model.IpClass Generated.C27_facts
     Proofs.HostPatternProofs Proofs.IpClassProofs.
Import ListNotations.
Open Scope N_scope.

(* "numeric looking": non-empty and either made of digits and dots only, or some dot-separated label starts 0x / 0X *)
Definition digit_or_dot (b : N) : Prop := is_digit b = true \/ b = c_dot.
Definition numeric_looking (n : bytes) : Prop :=
  n <> [] /\ (Forall digit_or_dot n \/ exists l, In l (split_dot n) /\ starts_0x l = true).

Lemma looks_like_obfuscated_ip_spec n : looks_like_obfuscated_ip n = true <-> numeric_looking n.
Proof.
  unfold looks_like_obfuscated_ip, numeric_looking. destruct n as [| b n]; cbn [is_nil].
  - split; [discriminate | intros [X _]; congruence].
  - set (s := b :: n).
    assert (FA : forallb (fun b0 => is_digit b0 || (b0 =? c_dot)) s = true <-> Forall digit_or_dot s).
    { rewrite forallb_forall, Forall_forall. unfold digit_or_dot.
      split; intros H x I; specialize (H x I); rewrite ?orb_true_iff, ?N.eqb_eq in *; exact H. }
    destruct (forallb (fun b0 => is_digit b0 || (b0 =? c_dot)) s) eqn:E.
    + split; [intros _; split; [discriminate | left; apply FA; reflexivity] | reflexivity].
    + rewrite existsb_exists. split.
      * intros X. split; [discriminate | right; exact X].
      * intros [_ [X | X]]; [apply FA in X; discriminate | exact X].
Qed.

(* the complete characterisation of the hosts that are refused as redirect targets *)
Definition host_blocked (uh : option bytes) : Prop :=
  match uh with
  | None => True
  | Some h =>
      let n := normalize_host h in
      (exists x, parse_ip n = Some x /\ ip_non_global x = true)
      \/ (parse_ip n = None /\ (numeric_looking n \/ n = s_localhost \/ exists p, n = p ++ s_dot_localhost))
  end.

Theorem host_blocked_iff uh : host_is_non_global uh = true <-> host_blocked uh.
Proof.
  unfold host_is_non_global, host_blocked. destruct uh as [h |]; [| tauto]. cbv zeta.
  set (n := normalize_host h). destruct (parse_ip n) as [x |].
  - split.
    + intro G. left. exists x. tauto.
    + intros [[y [E G]] | [E _]]; [inversion E; subst; exact G | discriminate].
  - destruct (looks_like_obfuscated_ip n) eqn:O.
    + apply looks_like_obfuscated_ip_spec in O. split; [intros _; right; tauto | reflexivity].
    + rewrite orb_true_iff, beqb_eq, ends_with_spec. split.
      * intros X. right. tauto.
      * intros [[y [E _]] | [_ [X | X]]]; [discriminate | | exact X].
        apply looks_like_obfuscated_ip_spec in X. congruence.
Qed.

(* ---- localhost in any letter case, with or without the trailing dot ---- *)

Fixpoint case_variants (s : bytes) : list bytes :=
  match s with
  | [] => [[]]
  | b :: t =>
      let r := case_variants t in
      if (97 <=? b) && (b <=? 122) then map (cons b) r ++ map (cons (b - 32)) r else map (cons b) r
  end.

Lemma lower_byte_inv b c : lower_byte b = c -> b = c \/ ((97 <=? c) && (c <=? 122) = true /\ b = c - 32).
Proof. unfold lower_byte. destruct ((65 <=? b) && (b <=? 90)) eqn:E; intros <-; [right; lia | left; reflexivity]. Qed.

Lemma case_variants_complete s l : lower s = l -> In s (case_variants l).
Proof.
  revert l. induction s as [| b s IH]; intros l E; cbn in E; subst l; [left; reflexivity |].
  cbn [case_variants]. specialize (IH _ eq_refl).
  destruct (lower_byte_inv b _ eq_refl) as [Eb | [R Eb]].
  - rewrite <- Eb. destruct ((97 <=? b) && (b <=? 122)); [apply in_or_app; left |]; apply in_map; exact IH.
  - rewrite R. apply in_or_app. right. rewrite <- Eb. apply in_map. exact IH.
Qed.

Lemma localhost_variants_check :
  forallb (fun s => host_is_non_global (Some s) && host_is_non_global (Some (s ++ [c_dot]))) (case_variants s_localhost) = true.
Proof. vm_compute. reflexivity. Qed.

Theorem localhost_blocked s : lower s = s_localhost ->
  host_is_non_global (Some s) = true /\ host_is_non_global (Some (s ++ [c_dot])) = true.
Proof.
  intro E. apply case_variants_complete in E.
  pose proof (proj1 (forallb_forall _ _) localhost_variants_check s E) as H. cbv beta in H.
  apply andb_true_iff in H. exact H.
Qed.

(* numeric-looking hosts never pass: they are refused unless they are a standard literal of a global address *)
Theorem numeric_host_blocked h : numeric_looking (normalize_host h) ->
  host_is_non_global (Some h) = true
  \/ exists x, parse_ip (normalize_host h) = Some x /\ ip_non_global x = false /\ host_is_non_global (Some h) = false.
Proof.
  intro NL. destruct (host_is_non_global (Some h)) eqn:G; [left; reflexivity | right].
  unfold host_is_non_global in G. destruct (parse_ip (normalize_host h)) as [x |] eqn:P.
  - exists x. tauto.
  - apply looks_like_obfuscated_ip_spec in NL. rewrite NL in G. discriminate.
Qed.

(* a host that is a literal of a blocked address is refused, whatever else it looks like *)
Theorem literal_host_blocked h x : parse_ip (normalize_host h) = Some x -> host_is_non_global (Some h) = ip_non_global x.
Proof. intro P. unfold host_is_non_global. rewrite P. reflexivity. Qed.
