(* Proofs/RedactProofs.v — C20: redaction removes exactly what was asked, stays verifiable, and nothing else can go missing. *)
From Coq Require Import List NArith Bool Lia String.
From C2PA Require Import Base.Bytes Model.ByteStr Model.Redact Generated.C20_facts Proofs.ByteStrProofs.
Import ListNotations.
Open Scope N_scope.

(* ------------------------------------------------------------------ lists *)

Lemma remove_first_some {A} (f : A -> bool) l s :
  remove_first f l = Some s ->
  exists l1 x l2, l = l1 ++ x :: l2 /\ s = l1 ++ l2 /\ f x = true /\ (forall y, In y l1 -> f y = false).
Proof.
  revert s. induction l as [|a t IH]; intros s; cbn [remove_first]; [discriminate|].
  destruct (f a) eqn:E.
  - intros [= <-]. exists [], a, t. repeat split; auto. intros y [].
  - destruct (remove_first f t) as [s'|]; cbn [option_map]; [|discriminate].
    intros [= <-]. destruct (IH s' eq_refl) as (l1 & x & l2 & -> & -> & Hx & Hl1).
    exists (a :: l1), x, l2. repeat split; auto. intros y [<- | Hy]; auto.
Qed.

Lemma remove_first_none {A} (f : A -> bool) l : remove_first f l = None -> forall y, In y l -> f y = false.
Proof.
  induction l as [|a t IH]; cbn [remove_first]; [intros _ y []|].
  destruct (f a) eqn:E; [discriminate|].
  destruct (remove_first f t); cbn [option_map]; [discriminate|].
  intros _ y [<- | Hy]; auto.
Qed.

(* ordered sub-list *)
Inductive sub {A} : list A -> list A -> Prop :=
| sub_nil : sub [] []
| sub_cons x s t : sub s t -> sub (x :: s) (x :: t)
| sub_skip x s t : sub s t -> sub s (x :: t).

Lemma sub_refl {A} (l : list A) : sub l l.
Proof. induction l; constructor; auto. Qed.

Lemma sub_nil_l {A} (l : list A) : sub [] l.
Proof. induction l; constructor; auto. Qed.

Lemma sub_trans {A} (a b' c : list A) : sub a b' -> sub b' c -> sub a c.
Proof.
  intros H1 H2. revert a H1. induction H2 as [|x s t H IH|x s t H IH]; intros a H1.
  - exact H1.
  - inversion H1; subst; [constructor; auto|apply sub_skip; auto].
  - apply sub_skip; auto.
Qed.

Lemma sub_of_nil {A} (l : list A) : sub l [] -> l = [].
Proof. inversion 1; reflexivity. Qed.

Lemma rmf_sub {A} (f : A -> bool) l : sub (rmf f l) l.
Proof.
  unfold rmf. induction l as [|a t IH]; cbn [remove_first]; [constructor|].
  destruct (f a); [apply sub_skip, sub_refl|].
  destruct (remove_first f t) as [s|]; cbn [option_map]; [constructor; exact IH|apply sub_refl].
Qed.

Lemma rmf_cons {A} (f : A -> bool) a t : rmf f (a :: t) = if f a then t else a :: rmf f t.
Proof. unfold rmf. cbn [remove_first]. destruct (f a); [reflexivity|]. destruct (remove_first f t); reflexivity. Qed.

Lemma rmf_mono {A} (f : A -> bool) s t : sub s t -> sub (rmf f s) (rmf f t).
Proof.
  induction 1 as [|x s t H IH|x s t H IH].
  - constructor.
  - rewrite !rmf_cons. destruct (f x); [exact H|constructor; exact IH].
  - rewrite rmf_cons. destruct (f x).
    + exact (sub_trans _ _ _ (rmf_sub f s) H).
    + apply sub_skip. exact IH.
Qed.

Lemma track_mono hs : forall s t, sub s t -> sub (track hs s) (track hs t).
Proof. induction hs as [|h r IH]; intros s t H; cbn [track]; [exact H|]. apply IH, rmf_mono, H. Qed.

Lemma remove_first_sub {A} (f : A -> bool) l s : remove_first f l = Some s -> sub s l.
Proof. intros H. pose proof (rmf_sub f l) as R. unfold rmf in R. rewrite H in R. exact R. Qed.

(* ------------------------------------------------------------------ keys *)

Lemma same_key_eq l i a : same_key l i a = true <-> a_label a = l /\ a_inst a = i.
Proof. unfold same_key. rewrite andb_true_iff, beq_eq, N.eqb_eq. tauto. Qed.

Lemma find_remove_other l i l' i' st st' :
  remove_first (same_key l i) st = Some st' -> (l', i') <> (l, i) ->
  find (same_key l' i') st' = find (same_key l' i') st.
Proof.
  intros H Hne. destruct (remove_first_some _ _ _ H) as (l1 & x & l2 & -> & -> & Hx & _). clear H.
  induction l1 as [|a t IH]; cbn [app find].
  - destruct (same_key l' i' x) eqn:E; [|reflexivity].
    apply same_key_eq in Hx. apply same_key_eq in E. exfalso. apply Hne. destruct Hx, E. congruence.
  - destruct (same_key l' i' a); [reflexivity|exact IH].
Qed.

(* ------------------------------------------------------------------ Claim::redact_assertion *)

Definition key_count (l : bytes) (i : N) (st : list assertion) : nat := List.length (filter (same_key l i) st).

Theorem redact_spec m r m' :
  redact_assertion m r = ROk m' ->
  signed_part m' = signed_part m /\
  exists s1 a s2, m_store m = s1 ++ a :: s2 /\ m_store m' = s1 ++ s2
                  /\ same_key (r_label r) (r_inst r) a = true
                  /\ (forall y, In y s1 -> same_key (r_label r) (r_inst r) y = false).
Proof.
  unfold redact_assertion.
  destruct (starts_with L_ACTIONS (r_label r) || starts_with L_HASH_PREFIX (r_label r)); [discriminate|].
  destruct (match r_manifest r with Some l => negb (beq l (m_label m)) | None => false end); [discriminate|].
  destruct (r_store r); try discriminate.
  destruct (remove_first (same_key (r_label r) (r_inst r)) (m_store m)) as [s|] eqn:E; [|discriminate].
  intros [= <-]. split; [reflexivity|].
  destruct (remove_first_some _ _ _ E) as (l1 & x & l2 & H1 & H2 & H3 & H4).
  exists l1, x, l2. cbn [set_store m_store]. auto.
Qed.

(* the redacted box is gone (box labels are unique in a well-formed store) and every other box is kept *)
Theorem redact_gone m r m' :
  redact_assertion m r = ROk m' -> (key_count (r_label r) (r_inst r) (m_store m) <= 1)%nat ->
  forall a, In a (m_store m') -> same_key (r_label r) (r_inst r) a = false.
Proof.
  intros H Hc a Ha. destruct (redact_spec _ _ _ H) as (_ & s1 & x & s2 & E1 & E2 & Hx & Hs1).
  rewrite E2 in Ha. unfold key_count in Hc. rewrite E1, filter_app in Hc. cbn [filter] in Hc. rewrite Hx in Hc.
  rewrite app_length in Hc. cbn [List.length] in Hc.
  apply in_app_or in Ha. destruct Ha as [Ha | Ha]; [auto|].
  destruct (same_key (r_label r) (r_inst r) a) eqn:E; [|reflexivity].
  assert (In a (filter (same_key (r_label r) (r_inst r)) s2)) as Hin by (apply filter_In; auto).
  destruct (filter (same_key (r_label r) (r_inst r)) s2); [destruct Hin|cbn [List.length] in Hc; lia].
Qed.

Theorem redact_keeps_others m r m' :
  redact_assertion m r = ROk m' ->
  forall a, In a (m_store m) -> same_key (r_label r) (r_inst r) a = false -> In a (m_store m').
Proof.
  intros H a Ha Hk. destruct (redact_spec _ _ _ H) as (_ & s1 & x & s2 & E1 & E2 & Hx & _).
  rewrite E1 in Ha. rewrite E2. apply in_app_or in Ha. apply in_or_app.
  destruct Ha as [Ha | [<- | Ha]]; auto. congruence.
Qed.

Theorem redact_refuses_actions_and_hashes m r :
  starts_with L_ACTIONS (r_label r) = true \/ starts_with L_HASH_PREFIX (r_label r) = true ->
  redact_assertion m r = RErr EInvalidRedaction.
Proof. intros [H | H]; unfold redact_assertion; rewrite H; [reflexivity|rewrite orb_true_r; reflexivity]. Qed.

Theorem redact_refuses_other_manifest m r l :
  r_manifest r = Some l -> l <> m_label m ->
  exists e, redact_assertion m r = RErr e.
Proof.
  intros Hm Hne. unfold redact_assertion.
  destruct (starts_with L_ACTIONS (r_label r) || starts_with L_HASH_PREFIX (r_label r)); [eexists; reflexivity|].
  rewrite Hm. apply beq_neq in Hne. rewrite Hne. eexists; reflexivity.
Qed.

(* ------------------------------------------------------------------ the redacting manifest lists exactly the request *)

Lemma obeq_eq x y : obeq x y = true -> x = y.
Proof. destruct x, y; cbn; try discriminate; auto. intros H. apply beq_eq in H. congruence. Qed.

Lemma ruri_eqb_eq x y : ruri_eqb x y = true -> x = y.
Proof.
  unfold ruri_eqb. rewrite !andb_true_iff. intros [[[H1 H2] H3] H4].
  apply obeq_eq in H1. apply beq_eq in H3. apply N.eqb_eq in H4.
  destruct x as [xm xs xl xi], y as [ym ys yl yi]; cbn in *. subst. f_equal. destruct xs, ys; cbn in H2; congruence.
Qed.

Lemma ruri_eqb_refl x : ruri_eqb x x = true.
Proof.
  unfold ruri_eqb. rewrite beq_refl, N.eqb_refl, !andb_true_r.
  destruct (r_manifest x); cbn; [rewrite beq_refl|]; destruct (r_store x); reflexivity.
Qed.

Definition matches (labels : list bytes) (r : ruri) : bool := existsb (fun l => contains_str l (render r)) labels.

Lemma redact_assertion_label x r x' : redact_assertion x r = ROk x' -> m_label x' = m_label x.
Proof. intros H. destruct (redact_spec _ _ _ H) as (E & _). unfold signed_part in E. congruence. Qed.

Lemma redact_in_spec ings r :
  match redact_in ings r with
  | ROk None => matches (map m_label ings) r = false
  | ROk (Some ings') => matches (map m_label ings) r = true /\ map m_label ings' = map m_label ings
  | RErr _ => True
  end.
Proof.
  induction ings as [|x t IH]; cbn [redact_in map matches existsb]; [reflexivity|].
  destruct (contains_str (m_label x) (render r)) eqn:E.
  - destruct (redact_assertion x r) as [x'|] eqn:Er; [|exact I].
    split; [reflexivity|]. cbn [map]. rewrite (redact_assertion_label _ _ _ Er). reflexivity.
  - destruct (redact_in t r) as [[t'|]|]; auto.
    destruct IH as [H1 H2]. split; [exact H1|]. cbn [map]. rewrite H2. reflexivity.
Qed.

Lemma apply_redactions_spec rs : forall ings applied ings' applied',
  apply_redactions ings rs applied = ROk (ings', applied') ->
  applied' = applied ++ filter (matches (map m_label ings)) rs /\ map m_label ings' = map m_label ings.
Proof.
  induction rs as [|r t IH]; intros ings applied ings' applied'; cbn [apply_redactions filter].
  - intros [= <- <-]. rewrite app_nil_r. auto.
  - pose proof (redact_in_spec ings r) as Hs.
    destruct (redact_in ings r) as [[ings1|]|]; [| |discriminate].
    + destruct Hs as [Hm Hl]. intros H. destruct (IH _ _ _ _ H) as [E1 E2].
      rewrite Hm. rewrite Hl in E1, E2. rewrite E1, <- app_assoc. auto.
    + rewrite Hs. apply IH.
Qed.

Lemma dedup_in l : forall seen x, In x (dedup l seen) <-> In x l /\ existsb (ruri_eqb x) seen = false.
Proof.
  induction l as [|r t IH]; intros seen x; cbn [dedup].
  - split; [intros []|intros [[] _]].
  - destruct (existsb (ruri_eqb r) seen) eqn:E.
    + rewrite IH. split; [intros [H1 H2]; split; auto; right; exact H1|].
      intros [[<- | H1] H2]; [congruence|auto].
    + cbn [In]. rewrite IH. cbn [existsb]. split.
      * intros [<- | [H1 H2]]; [split; auto|]. apply orb_false_iff in H2. destruct H2. split; auto.
      * intros [[<- | H1] H2]; [left; reflexivity|].
        destruct (ruri_eqb x r) eqn:Ex; [left; symmetry; apply ruri_eqb_eq; exact Ex|right; split; auto; rewrite Ex; exact H2].
Qed.

Lemma dedup_nodup l : forall seen, NoDup (dedup l seen).
Proof.
  induction l as [|r t IH]; intros seen; cbn [dedup]; [constructor|].
  destruct (existsb (ruri_eqb r) seen); [apply IH|].
  constructor; [|apply IH]. intros Hin. apply dedup_in in Hin. destruct Hin as [_ H]. cbn [existsb] in H.
  rewrite ruri_eqb_refl in H. discriminate.
Qed.

Lemma dedup_id l : forall seen, NoDup l -> (forall x, In x l -> existsb (ruri_eqb x) seen = false) -> dedup l seen = l.
Proof.
  induction l as [|r t IH]; intros seen Hnd Hs; cbn [dedup]; [reflexivity|].
  rewrite (Hs r (or_introl eq_refl)). f_equal. inversion Hnd as [|? ? Hnin Hnd']; subst. apply IH; auto.
  intros x Hx. cbn [existsb]. rewrite (Hs x (or_intror Hx)), orb_false_r.
  destruct (ruri_eqb x r) eqn:E; [|reflexivity]. apply ruri_eqb_eq in E. subst. contradiction.
Qed.

(* a fresh claim (no earlier batch): on success the claim's redaction list is the requested list without repetitions —
   exactly the requested list when it has none *)
Theorem builder_lists_exactly c ings rs c' ings' :
  m_redactions c = [] -> builder_redact c ings rs = ROk (c', ings') ->
  m_redactions c' = dedup rs [] /\ NoDup (m_redactions c') /\ (forall r, In r (m_redactions c') <-> In r rs) /\
  (NoDup rs -> m_redactions c' = rs) /\
  m_label c' = m_label c /\ m_assertions c' = m_assertions c /\ m_ingredients c' = m_ingredients c /\ m_store c' = m_store c.
Proof.
  intros Hc. unfold builder_redact, add_ingredient_data.
  destruct (apply_redactions ings (dedup rs []) []) as [[i1 applied]|] eqn:E; [|discriminate].
  destruct (apply_redactions_spec _ _ _ _ _ E) as [Ha _]. cbn [app] in Ha.
  destruct (forallb _ rs) eqn:F; [|discriminate].
  intros [= <- <-]. cbn [set_redactions m_redactions m_label m_assertions m_ingredients m_store]. rewrite Hc. cbn [app].
  assert (applied = dedup rs []) as ->.
  { rewrite Ha. rewrite forallb_forall in F.
    assert (forall r, In r (dedup rs []) -> matches (map m_label ings) r = true) as Hall.
    { intros r Hr. apply dedup_in in Hr. destruct Hr as [Hr _]. specialize (F r Hr).
      cbn [set_redactions m_redactions] in F. rewrite Hc in F. cbn [app] in F.
      apply existsb_exists in F. destruct F as (r' & Hin & He). apply ruri_eqb_eq in He. subst r'.
      rewrite Ha in Hin. apply filter_In in Hin. tauto. }
    clear -Hall. induction (dedup rs []) as [|r t IH]; cbn [filter]; [reflexivity|].
    rewrite (Hall r (or_introl eq_refl)). f_equal. apply IH. intros r' Hr'. apply Hall. right. exact Hr'. }
  split; [reflexivity|]. split; [apply dedup_nodup|]. split.
  - intros r. rewrite dedup_in. cbn [existsb]. tauto.
  - split; [|repeat split]. intros Hnd. apply dedup_id; auto.
Qed.

(* with earlier batches: the new entries are appended, nothing is dropped *)
Theorem add_ingredient_data_appends c ings rs c' ings' :
  add_ingredient_data c ings rs = ROk (c', ings') ->
  m_redactions c' = m_redactions c ++ filter (matches (map m_label ings)) rs /\ map m_label ings' = map m_label ings.
Proof.
  unfold add_ingredient_data. destruct (apply_redactions ings rs []) as [[i1 applied]|] eqn:E; [|discriminate].
  intros [= <- <-]. destruct (apply_redactions_spec _ _ _ _ _ E) as [Ha Hl]. cbn [set_redactions m_redactions]. rewrite Ha. auto.
Qed.

(* ------------------------------------------------------------------ substring tests *)

Lemma contains_str_cons p a s : contains_str p (a :: s) = starts_with p (a :: s) || contains_str p s.
Proof. reflexivity. Qed.

Lemma contains_here p y : contains_str p (p ++ y) = true.
Proof.
  destruct (p ++ y) as [|a t] eqn:E.
  - destruct p; [reflexivity|discriminate].
  - rewrite contains_str_cons, <- E, starts_with_app. reflexivity.
Qed.

Lemma contains_app p x y : contains_str p (x ++ p ++ y) = true.
Proof.
  induction x as [|a x IH]; cbn [app]; [apply contains_here|].
  rewrite contains_str_cons, IH. apply orb_true_r.
Qed.

Lemma contains_prefix_app q l x y : starts_with q l = true -> contains_str q (x ++ l ++ y) = true.
Proof.
  intros H. apply starts_with_spec in H. destruct H as [rest ->]. rewrite <- app_assoc. apply contains_app.
Qed.

Lemma label_with_instance_prefix l i : exists suf, label_with_instance l i = l ++ suf.
Proof. unfold label_with_instance. destruct (i =? 0); [exists []; rewrite app_nil_r; reflexivity|eexists; reflexivity]. Qed.

Lemma render_contains_label q r : starts_with q (r_label r) = true -> contains_str q (render r) = true.
Proof.
  intros H. unfold render. destruct (label_with_instance_prefix (r_label r) (r_inst r)) as [suf ->].
  rewrite !app_assoc. rewrite <- (app_assoc _ (r_label r) suf). apply contains_prefix_app. exact H.
Qed.

Lemma render_contains_manifest r m : r_manifest r = Some m -> contains_str m (render r) = true.
Proof.
  intros H. unfold render. rewrite H.
  rewrite <- !app_assoc. rewrite (app_assoc (b "self#jumbf=") (b "/c2pa/")). apply contains_app.
Qed.

(* ------------------------------------------------------------------ disallowed redactions are flagged *)

Lemma rule_failures_in c r v :
  In r (m_redactions c) ->
  In v ((if contains_str (m_label c) (render r) then [SelfRedacted] else [])
        ++ (if contains_str L_ACTIONS (render r) then [ActionRedacted] else [])
        ++ (if existsb (fun l => contains_str l (render r)) HASH_LABELS then [HashRedacted] else [])) ->
  In v (redaction_rule_failures c).
Proof. intros Hr Hv. unfold redaction_rule_failures. apply in_flat_map. exists r. split; auto. Qed.

Theorem self_redaction_flagged c r :
  In r (m_redactions c) -> r_manifest r = Some (m_label c) -> In SelfRedacted (redaction_rule_failures c).
Proof.
  intros Hr Hm. apply (rule_failures_in c r); auto.
  rewrite (render_contains_manifest _ _ Hm). left. reflexivity.
Qed.

Theorem action_redaction_flagged c r :
  In r (m_redactions c) -> starts_with L_ACTIONS (r_label r) = true -> In ActionRedacted (redaction_rule_failures c).
Proof.
  intros Hr Hl. apply (rule_failures_in c r); auto.
  rewrite (render_contains_label _ _ Hl). apply in_or_app. right. apply in_or_app. left. left. reflexivity.
Qed.

Theorem hash_redaction_flagged c r hl :
  In r (m_redactions c) -> In hl HASH_LABELS -> starts_with hl (r_label r) = true ->
  In HashRedacted (redaction_rule_failures c).
Proof.
  intros Hr Hin Hl. apply (rule_failures_in c r); auto.
  assert (existsb (fun l => contains_str l (render r)) HASH_LABELS = true) as ->.
  { apply existsb_exists. exists hl. split; auto. apply render_contains_label. exact Hl. }
  apply in_or_app. right. apply in_or_app. right. left. reflexivity.
Qed.

(* the labels refused by redact_assertion and the labels flagged by the validator agree on the generated tables *)
Lemma hash_labels_have_prefix : forallb (starts_with L_HASH_PREFIX) HASH_LABELS = true.
Proof. vm_compute. reflexivity. Qed.

(* ------------------------------------------------------------------ validation after redaction *)

Section Validation.
  Variable H : bytes -> bytes.
  Variable MH : manifest -> bytes.
  Variable SH : manifest -> bytes.

  Lemma is_redacted_mono reds0 reds c h : incl reds0 reds -> is_redacted reds0 c h = true -> is_redacted reds c h = true.
  Proof.
    intros Hi Hr. unfold is_redacted in *. apply existsb_exists in Hr. destruct Hr as (r & Hin & Hr).
    apply existsb_exists. exists r. split; auto.
  Qed.

  Lemma is_redacted_by reds c h r :
    In r reds -> r_manifest r = Some (m_label c) -> r_label r = h_label h -> r_inst r = h_inst h ->
    is_redacted reds c h = true.
  Proof.
    intros Hin Hm Hl Hi. unfold is_redacted. apply existsb_exists. exists r. split; auto.
    rewrite Hm, Hl, Hi, !beq_refl, N.eqb_refl. reflexivity.
  Qed.

  Lemma flat_map_nil {A B} (f : A -> list B) l : flat_map f l = [] <-> forall x, In x l -> f x = [].
  Proof.
    induction l as [|a t IH]; cbn [flat_map]; [split; auto; intros _ x []|].
    split.
    - intros E. apply app_eq_nil in E. destruct E as [E1 E2]. intros x [<- | Hx]; auto. apply IH; auto.
    - intros Hall. rewrite (Hall a (or_introl eq_refl)). apply IH. intros x Hx. apply Hall. right. exact Hx.
  Qed.

  Lemma map_nil_iff {A B} (f : A -> B) l : map f l = [] <-> l = [].
  Proof. destruct l; cbn; split; auto; discriminate. Qed.

  (* Redaction of an ingredient manifest that verified, with the entry listed by the redacting manifest: every hashed
     URI still verifies (the listed one is skipped, the others still find their unchanged box) and no box is left
     unreferenced. *)
  Theorem redaction_still_valid reds0 reds x r x' :
    redact_assertion x r = ROk x' -> r_manifest r <> None ->
    incl reds0 reds -> In r reds ->
    verify_assertions H reds0 x = [] ->
    verify_assertions H reds x' = [].
  Proof.
    intros Hred Hm Hincl Hin Hv.
    unfold verify_assertions in *. apply app_eq_nil in Hv. destruct Hv as [Hh Ht].
    destruct (redact_spec _ _ _ Hred) as (Hs & s1 & a & s2 & E1 & E2 & Ha & _).
    assert (m_label x' = m_label x /\ m_assertions x' = m_assertions x) as [El Ea] by (unfold signed_part in Hs; split; congruence).
    (* the manifest named by the URI is x *)
    assert (r_manifest r = Some (m_label x)) as Hrm.
    { unfold redact_assertion in Hred.
      destruct (starts_with L_ACTIONS (r_label r) || starts_with L_HASH_PREFIX (r_label r)); [discriminate|].
      destruct (r_manifest r) as [l|]; [|contradiction].
      destruct (beq l (m_label x)) eqn:Eb; cbn [negb] in Hred; [|discriminate]. apply beq_eq in Eb. congruence. }
    assert (remove_first (same_key (r_label r) (r_inst r)) (m_store x) = Some (m_store x')) as Hrf.
    { unfold redact_assertion in Hred.
      destruct (starts_with L_ACTIONS (r_label r) || starts_with L_HASH_PREFIX (r_label r)); [discriminate|].
      destruct (match r_manifest r with Some l => negb (beq l (m_label x)) | None => false end); [discriminate|].
      destruct (r_store r); try discriminate.
      destruct (remove_first (same_key (r_label r) (r_inst r)) (m_store x)); [|discriminate].
      injection Hred as <-. reflexivity. }
    rewrite Ea.
    assert (forall (u v : list vcode), u = [] -> v = [] -> u ++ v = []) as Happ by (intros ? ? -> ->; reflexivity).
    apply Happ.
    - apply flat_map_nil. intros h Hh'. rewrite flat_map_nil in Hh. specialize (Hh h Hh').
      unfold check_href in *.
      destruct (is_redacted reds x' h) eqn:Er'; [reflexivity|].
      assert (is_redacted reds0 x h = false) as Er0.
      { destruct (is_redacted reds0 x h) eqn:E0; [|reflexivity].
        apply (is_redacted_mono _ _ _ _ Hincl) in E0. unfold is_redacted in *. rewrite El in Er'. congruence. }
      rewrite Er0 in Hh.
      assert ((h_label h, h_inst h) <> (r_label r, r_inst r)) as Hne.
      { intros [= E3 E4]. rewrite (is_redacted_by reds x' h r) in Er'; auto; congruence. }
      rewrite (find_remove_other _ _ _ _ _ _ Hrf Hne). exact Hh.
    - apply map_nil_iff. apply map_nil_iff in Ht.
      apply sub_of_nil. rewrite <- Ht. apply track_mono. exact (remove_first_sub _ _ _ Hrf).
  Qed.

  (* the ingredient reference of the redacted manifest is then checked through the signature box, which the redaction
     does not touch *)
  Theorem redacted_ingredient_matches reds st i x x' r :
    (forall u v, signed_part u = signed_part v -> SH u = SH v) ->
    redact_assertion x r = ROk x' -> In r reds -> r_manifest r = Some (i_target i) ->
    find_manifest st (i_target i) = Some x' -> i_shash i = SH x ->
    check_ingredient MH SH reds st i = [].
  Proof.
    intros Hsh Hred Hin Hm Hf Hs. unfold check_ingredient. rewrite Hf.
    assert (has_redactions reds (i_target i) = true) as ->.
    { unfold has_redactions. apply existsb_exists. exists r. split; auto. apply render_contains_manifest. exact Hm. }
    destruct (redact_spec _ _ _ Hred) as (Es & _). rewrite Hs, (Hsh _ _ Es), beq_refl. reflexivity.
  Qed.

  (* a box that is gone or altered without a matching redaction entry is reported — or a hash collision is exhibited *)
  Theorem unlisted_removal_detected reds c h d :
    In h (m_assertions c) -> is_redacted reds c h = false -> h_hash h = H d ->
    (forall a, find (same_key (h_label h) (h_inst h)) (m_store c) = Some a -> a_data a <> d) ->
    In AssertionMissing (verify_assertions H reds c) \/ In HashedUriMismatch (verify_assertions H reds c)
    \/ (exists d', d' <> d /\ H d' = H d).
  Proof.
    intros Hin Hr Hh Hd.
    assert (forall v, In v (check_href H reds c h) -> In v (verify_assertions H reds c)) as Hsub.
    { intros v Hv. unfold verify_assertions. apply in_or_app. left. apply in_flat_map. exists h. auto. }
    unfold check_href in Hsub. rewrite Hr in Hsub.
    destruct (find (same_key (h_label h) (h_inst h)) (m_store c)) as [a|] eqn:Ef.
    - destruct (beq (H (a_data a)) (h_hash h)) eqn:Eb.
      + right. right. exists (a_data a). split; [apply Hd; reflexivity|]. apply beq_eq in Eb. congruence.
      + right. left. apply Hsub. left. reflexivity.
    - left. apply Hsub. left. reflexivity.
  Qed.

  (* the same one level up: an ingredient manifest that differs from the one recorded, with no redaction naming it *)
  Theorem unlisted_ingredient_change_detected reds st i x x' :
    has_redactions reds (i_target i) = false -> find_manifest st (i_target i) = Some x' -> i_mhash i = MH x -> x' <> x ->
    In IngredientManifestMismatch (check_ingredient MH SH reds st i) \/ (x' <> x /\ MH x' = MH x).
  Proof.
    intros Hr Hf Hm Hne. unfold check_ingredient. rewrite Hf, Hr.
    destruct (beq (i_mhash i) (MH x')) eqn:Eb.
    - right. apply beq_eq in Eb. split; auto. congruence.
    - left. left. reflexivity.
  Qed.

  (* entries of other manifests never excuse a missing box *)
  Theorem redaction_entry_is_manifest_specific reds c h :
    (forall r, In r reds -> r_manifest r <> Some (m_label c)) -> m_label c <> [] -> is_redacted reds c h = false.
  Proof.
    intros Hall Hne. unfold is_redacted. destruct (existsb _ reds) eqn:E; [|reflexivity].
    apply existsb_exists in E. destruct E as (r & Hin & Hr). apply andb_true_iff in Hr. destruct Hr as [Hr _].
    apply andb_true_iff in Hr. destruct Hr as [Hr _]. apply beq_eq in Hr. specialize (Hall r Hin).
    destruct (r_manifest r); [congruence|]. exfalso. apply Hne. congruence.
  Qed.

  (* ---- load_ingredient_to_claim: conflict between two copies of one manifest *)
  Theorem differs_by_redaction_sound c1 c2 reds d :
    differs_by_redaction c1 c2 reds = Some d ->
    d = map (diff_uri c1) (sym_diff (m_store c1) (m_store c2)) /\ forall u, In u d -> In u reds.
  Proof.
    unfold differs_by_redaction. destruct (negb (signed_eqb c1 c2)); [discriminate|].
    destruct (forallb _ (sym_diff (m_store c1) (m_store c2))) eqn:F; [|discriminate].
    intros [= <-]. split; [reflexivity|]. intros u Hu. apply in_map_iff in Hu. destruct Hu as (a & <- & Ha).
    rewrite forallb_forall in F. specialize (F a Ha). apply existsb_exists in F. destruct F as (r & Hr & He).
    apply ruri_eqb_eq in He. congruence.
  Qed.

  Theorem resolve_conflict_cases cur inc cr ir :
    match resolve_conflict cur inc cr ir with
    | KeepCurrent => cr <> [] /\ ir = [] /\ differs_by_redaction cur inc (cr ++ ir) <> None
    | TakeIncoming => cr = [] /\ ir <> [] /\ differs_by_redaction cur inc (cr ++ ir) <> None
    | ApplyBoth d => differs_by_redaction cur inc (cr ++ ir) = Some d /\ (forall u, In u d -> In u (cr ++ ir))
    | Relabel => differs_by_redaction cur inc (cr ++ ir) = None
    end.
  Proof.
    unfold resolve_conflict. destruct (differs_by_redaction cur inc (cr ++ ir)) as [d|] eqn:E; [|reflexivity].
    destruct cr, ir; repeat split; try discriminate; try reflexivity;
      try (intros u Hu; exact (proj2 (differs_by_redaction_sound _ _ _ _ E) u Hu)).
  Qed.
End Validation.
