(* Proofs/ContextsProofs.v — non-interference, per-thread sequential equivalence and write-once cells for
   Model/Contexts.v.  Everything is proved for arbitrary operation functions (Section variables). *)
From Coq Require Import List Bool Arith Lia.
From C2PA Require Import Model.Contexts.
Import ListNotations.

Section Proofs.
  Variables S I R V T : Type.
  Variable opf : S -> I -> bool -> R.
  Variable mk : bool -> S -> V.
  Variable bf : I -> R.
  Variable tmerge : T -> I -> T.
  Variable tread : T -> I -> R.

  Notation ctx := (ctx S V).
  Notation world := (world S V T).
  Notation action := (action I).
  Notation event := (event I).
  Notation step := (step S I R V T opf mk bf tmerge tread).
  Notation run := (run S I R V T opf mk bf tmerge tread).
  Notation get_or_init := (get_or_init S V mk).
  Notation result := (result R V T).

  Lemma upd_same {A} (f : nat -> A) k v : upd f k v k = v.
  Proof. unfold upd. rewrite Nat.eqb_refl. reflexivity. Qed.

  Lemma upd_other {A} (f : nat -> A) k v k' : k' <> k -> upd f k v k' = f k'.
  Proof. intros H. unfold upd. apply Nat.eqb_neq in H. rewrite H. reflexivity. Qed.

  Lemma updb_same {A} (f : bool -> A) k v : updb f k v k = v.
  Proof. unfold updb. rewrite Bool.eqb_reflx. reflexivity. Qed.

  Lemma updb_other {A} (f : bool -> A) k v k' : k' <> k -> updb f k v k' = f k'.
  Proof. intros H. unfold updb. destruct (Bool.eqb k' k) eqn:E; [apply Bool.eqb_prop in E; contradiction | reflexivity]. Qed.

  (* ---------------------------------------------------------------- get_or_init *)

  Lemma goi_settings x k : settings _ _ (fst (get_or_init x k)) = settings _ _ x.
  Proof. unfold Contexts.get_or_init. destruct (cells _ _ x k); reflexivity. Qed.

  Lemma goi_cancelled x k : cancelled _ _ (fst (get_or_init x k)) = cancelled _ _ x.
  Proof. unfold Contexts.get_or_init. destruct (cells _ _ x k); reflexivity. Qed.

  (* one step of one cell: untouched, or initialised from None exactly once *)
  Definition cell_step (x x' : ctx) (k : bool) : Prop :=
    (cells _ _ x' k = cells _ _ x k /\ inits _ _ x' k = inits _ _ x k)
    \/ (cells _ _ x k = None /\ cells _ _ x' k = Some (mk k (settings _ _ x)) /\ inits _ _ x' k = Datatypes.S (inits _ _ x k)).

  Lemma goi_cell_step x k k' : cell_step x (fst (get_or_init x k)) k'.
  Proof.
    unfold Contexts.get_or_init. destruct (cells _ _ x k) eqn:E; cbn [fst]; [left; auto|].
    destruct (Bool.bool_dec k' k) as [->|Hn].
    - right. cbn. rewrite !updb_same. auto.
    - left. cbn. rewrite !updb_other by exact Hn. auto.
  Qed.

  Lemma goi_value x k :
    snd (get_or_init x k) = match cells _ _ x k with Some v => v | None => mk k (settings _ _ x) end
    /\ cells _ _ (fst (get_or_init x k)) k = Some (snd (get_or_init x k)).
  Proof.
    unfold Contexts.get_or_init. destruct (cells _ _ x k) eqn:E; cbn; [auto|]. rewrite updb_same. auto.
  Qed.

  (* ---------------------------------------------------------------- frame: what a step can touch *)

  Theorem step_settings w e c : settings _ _ (ctxs _ _ _ (fst (step w e)) c) = settings _ _ (ctxs _ _ _ w c).
  Proof.
    destruct e as [t a]. destruct a; cbn; try reflexivity.
    - destruct (Nat.eq_dec c c0) as [->|Hn]; [rewrite upd_same | rewrite upd_other by exact Hn]; reflexivity.
    - destruct (get_or_init (ctxs _ _ _ w c0) k) as [x' v] eqn:E. cbn.
      destruct (Nat.eq_dec c c0) as [->|Hn]; [rewrite upd_same | rewrite upd_other by exact Hn; reflexivity].
      change x' with (fst (x', v)). rewrite <- E. apply goi_settings.
    - destruct (Nat.eq_dec c c0) as [->|Hn]; [rewrite upd_same | rewrite upd_other by exact Hn; reflexivity].
      destruct uses_signer; [apply goi_settings | reflexivity].
  Qed.

  Theorem step_frame_ctx w e c : target _ (snd e) <> Some c -> ctxs _ _ _ (fst (step w e)) c = ctxs _ _ _ w c.
  Proof.
    destruct e as [t a]. destruct a; cbn; intros H; try reflexivity.
    - apply upd_other. congruence.
    - destruct (get_or_init (ctxs _ _ _ w c0) k). cbn. apply upd_other. congruence.
    - apply upd_other. congruence.
  Qed.

  Theorem step_frame_tls w e t : t <> fst e -> tls _ _ _ (fst (step w e)) t = tls _ _ _ w t.
  Proof.
    destruct e as [t' a]. destruct a; cbn; intros H; try reflexivity.
    - destruct (get_or_init (ctxs _ _ _ w c) k). reflexivity.
    - apply upd_other. exact H.
  Qed.

  (* only the legacy entry points touch a thread-local value, and only the caller's *)
  Theorem step_tls_only_legacy w e t :
    (forall i, snd e <> TlsSet _ i) -> tls _ _ _ (fst (step w e)) t = tls _ _ _ w t.
  Proof.
    destruct e as [t' a]. destruct a; cbn; intros H; try reflexivity.
    - destruct (get_or_init (ctxs _ _ _ w c) k). reflexivity.
    - exfalso. eapply H. reflexivity.
  Qed.

  (* the settings-builder API: no effect on any context or thread-local value, result independent of the world *)
  Theorem build_pure w w' t t' i :
    step w (t, Build _ i) = (w, RRes _ _ _ (bf i)) /\ snd (step w (t, Build _ i)) = snd (step w' (t', Build _ i)).
  Proof. split; reflexivity. Qed.

  (* cancel flags only ever go up, and only by a Cancel of that context *)
  Theorem step_cancel_monotone w e c :
    cancelled _ _ (ctxs _ _ _ (fst (step w e)) c) = cancelled _ _ (ctxs _ _ _ w c) || is_cancel_of _ c (snd e).
  Proof.
    destruct e as [t a]. destruct a; cbn; try (rewrite orb_false_r; reflexivity).
    - destruct (Nat.eqb c0 c) eqn:E.
      + apply Nat.eqb_eq in E. subst. rewrite upd_same. cbn. rewrite orb_true_r. reflexivity.
      + apply Nat.eqb_neq in E. rewrite upd_other by congruence. rewrite orb_false_r. reflexivity.
    - destruct (get_or_init (ctxs _ _ _ w c0) k) as [x' v] eqn:E. cbn. rewrite orb_false_r.
      destruct (Nat.eq_dec c c0) as [->|Hn]; [rewrite upd_same | rewrite upd_other by exact Hn; reflexivity].
      change x' with (fst (x', v)). rewrite <- E. apply goi_cancelled.
    - rewrite orb_false_r.
      destruct (Nat.eq_dec c c0) as [->|Hn]; [rewrite upd_same | rewrite upd_other by exact Hn; reflexivity].
      destruct uses_signer; [apply goi_cancelled | reflexivity].
  Qed.

  (* the result of a step depends on the targeted context and on the caller's thread-local value only *)
  Theorem step_result_local w w' e :
    (forall c, target _ (snd e) = Some c -> ctxs _ _ _ w c = ctxs _ _ _ w' c) ->
    tls _ _ _ w (fst e) = tls _ _ _ w' (fst e) ->
    snd (step w e) = snd (step w' e).
  Proof.
    destruct e as [t a]. destruct a; cbn; intros Hc Ht; try reflexivity.
    - rewrite (Hc c eq_refl). reflexivity.
    - rewrite (Hc c eq_refl). destruct (get_or_init (ctxs _ _ _ w' c) k). reflexivity.
    - rewrite (Hc c eq_refl). reflexivity.
    - rewrite Ht. reflexivity.
    - rewrite Ht. reflexivity.
  Qed.

  Lemma target_dec (a : action) c : {target _ a = Some c} + {target _ a <> Some c}.
  Proof.
    destruct (target _ a) as [c'|]; [|right; discriminate].
    destruct (Nat.eq_dec c' c); [left; congruence | right; congruence].
  Qed.

  (* the new value of a context / of a thread-local value depends on its old value only *)
  Lemma step_ctx_local w w' e c :
    ctxs _ _ _ w c = ctxs _ _ _ w' c -> ctxs _ _ _ (fst (step w e)) c = ctxs _ _ _ (fst (step w' e)) c.
  Proof.
    destruct e as [t a]. destruct a; cbn; intros H; try exact H.
    - destruct (Nat.eq_dec c c0) as [->|Hn]; [rewrite !upd_same, H; reflexivity | rewrite !upd_other by exact Hn; exact H].
    - destruct (Nat.eq_dec c c0) as [->|Hn].
      + rewrite H. destruct (get_or_init (ctxs _ _ _ w' c0) k). cbn. rewrite !upd_same. reflexivity.
      + destruct (get_or_init (ctxs _ _ _ w c0) k), (get_or_init (ctxs _ _ _ w' c0) k). cbn.
        rewrite !upd_other by exact Hn. exact H.
    - destruct (Nat.eq_dec c c0) as [->|Hn]; [rewrite !upd_same, H; reflexivity | rewrite !upd_other by exact Hn; exact H].
  Qed.

  Lemma step_tls_local w w' e t :
    tls _ _ _ w t = tls _ _ _ w' t -> tls _ _ _ (fst (step w e)) t = tls _ _ _ (fst (step w' e)) t.
  Proof.
    destruct e as [t' a]. destruct a; cbn; intros H; try exact H.
    - destruct (get_or_init (ctxs _ _ _ w c) k), (get_or_init (ctxs _ _ _ w' c) k). exact H.
    - destruct (Nat.eq_dec t t') as [->|Hn]; [rewrite !upd_same, H; reflexivity | rewrite !upd_other by exact Hn; exact H].
  Qed.

  (* steps on different contexts by different threads commute (pointwise equal worlds, same results) *)
  Definition indep (e1 e2 : event) : Prop :=
    fst e1 <> fst e2 /\ (forall c1 c2, target _ (snd e1) = Some c1 -> target _ (snd e2) = Some c2 -> c1 <> c2).

  Theorem step_commute w e1 e2 :
    indep e1 e2 ->
    let w12 := fst (step (fst (step w e1)) e2) in
    let w21 := fst (step (fst (step w e2)) e1) in
    (forall c, ctxs _ _ _ w12 c = ctxs _ _ _ w21 c) /\ (forall t, tls _ _ _ w12 t = tls _ _ _ w21 t)
    /\ snd (step (fst (step w e1)) e2) = snd (step w e2)
    /\ snd (step (fst (step w e2)) e1) = snd (step w e1).
  Proof.
    intros [Ht Hc]. cbv zeta.
    assert (R2 : snd (step (fst (step w e1)) e2) = snd (step w e2)).
    { apply step_result_local.
      - intros c H2. apply step_frame_ctx. intros H1. exact (Hc c c H1 H2 eq_refl).
      - apply step_frame_tls. congruence. }
    assert (R1 : snd (step (fst (step w e2)) e1) = snd (step w e1)).
    { apply step_result_local.
      - intros c H1. apply step_frame_ctx. intros H2. exact (Hc c c H1 H2 eq_refl).
      - apply step_frame_tls. congruence. }
    split; [|split; [|split; assumption]].
    - intros c.
      destruct (target_dec (snd e1) c) as [E1|N1].
      + (* c is e1's context: e2 does not touch it *)
        assert (N2 : target _ (snd e2) <> Some c) by (intros E2; exact (Hc c c E1 E2 eq_refl)).
        rewrite (step_frame_ctx _ e2 c N2).
        apply (step_ctx_local w (fst (step w e2)) e1 c).
        * symmetry. apply step_frame_ctx. exact N2.
      + rewrite (step_frame_ctx (fst (step w e2)) e1 c N1).
        destruct (target_dec (snd e2) c) as [E2|N2].
        * apply (step_ctx_local (fst (step w e1)) w e2 c). apply step_frame_ctx. exact N1.
        * rewrite !step_frame_ctx by assumption. reflexivity.
    - intros t.
      destruct (Nat.eq_dec t (fst e1)) as [->|N1].
      + rewrite (step_frame_tls _ e2 (fst e1)) by exact Ht.
        apply step_tls_local. symmetry. apply step_frame_tls. exact Ht.
      + rewrite (step_frame_tls (fst (step w e2)) e1 t N1).
        destruct (Nat.eq_dec t (fst e2)) as [->|N2].
        * apply step_tls_local. apply step_frame_tls. congruence.
        * rewrite !step_frame_tls by assumption. reflexivity.
  Qed.

  (* ---------------------------------------------------------------- runs *)

  Lemma run_cons w e s :
    run w (e :: s) = (fst (run (fst (step w e)) s), snd (step w e) :: snd (run (fst (step w e)) s)).
  Proof. cbn [Contexts.run]. destruct (step w e) as [w1 r]. cbn [fst snd]. destruct (run w1 s). reflexivity. Qed.

  (* ---------------------------------------------------------------- a thread sees what it would see running alone *)

  (* full run vs. the run of thread t alone: same settings; same flag on the contexts t uses (U); a cell of the
     alone-run that is initialised holds the same value in the full run, one that is not may already have been
     initialised in the full run -- by another thread, to the value determined by the context's own settings *)
  Definition cell_rel (s : S) (k : bool) (cf ca : option V) : Prop :=
    match ca with Some v => cf = Some v | None => cf = None \/ cf = Some (mk k s) end.

  Definition crel (U : nat -> Prop) (c : nat) (xf xa : ctx) : Prop :=
    settings _ _ xf = settings _ _ xa
    /\ (U c -> cancelled _ _ xf = cancelled _ _ xa)
    /\ forall k, cell_rel (settings _ _ xa) k (cells _ _ xf k) (cells _ _ xa k).

  Definition sim (t : nat) (U : nat -> Prop) (wf wa : world) : Prop :=
    (forall c, crel U c (ctxs _ _ _ wf c) (ctxs _ _ _ wa c)) /\ tls _ _ _ wf t = tls _ _ _ wa t.

  Lemma sim_refl t U w : sim t U w w.
  Proof.
    split; [|reflexivity]. intros c. split; [reflexivity|]. split; [reflexivity|].
    intros k. unfold cell_rel. destruct (cells _ _ (ctxs _ _ _ w c) k); auto.
  Qed.

  Lemma crel_goi_both U c xf xa k :
    crel U c xf xa ->
    crel U c (fst (get_or_init xf k)) (fst (get_or_init xa k)) /\ snd (get_or_init xf k) = snd (get_or_init xa k).
  Proof.
    intros [Hs [Hc Hk]]. pose proof (Hk k) as Hkk. unfold cell_rel in Hkk.
    unfold Contexts.get_or_init. destruct (cells _ _ xa k) as [va|] eqn:EA.
    - rewrite Hkk. cbn. split; [|reflexivity]. split; [exact Hs|]. split; [exact Hc | exact Hk].
    - destruct Hkk as [EF|EF]; rewrite EF; cbn [fst snd].
      + split; [|rewrite Hs; reflexivity]. split; [exact Hs|]. split; [exact Hc|]. cbn.
        intros k'. unfold updb. destruct (Bool.eqb k' k) eqn:E.
        * cbn. rewrite Hs. reflexivity.
        * apply Hk.
      + split; [|reflexivity]. split; [exact Hs|]. split; [exact Hc|]. cbn.
        intros k'. unfold updb. destruct (Bool.eqb k' k) eqn:E.
        * apply Bool.eqb_prop in E. subst k'. cbn. exact EF.
        * apply Hk.
  Qed.

  Lemma crel_goi_left U c xf xa k : crel U c xf xa -> crel U c (fst (get_or_init xf k)) xa.
  Proof.
    intros [Hs [Hc Hk]]. unfold Contexts.get_or_init. destruct (cells _ _ xf k) as [vf|] eqn:EF; cbn [fst].
    - split; [exact Hs|]. split; [exact Hc | exact Hk].
    - split; [exact Hs|]. split; [exact Hc|]. cbn. intros k'. unfold updb. destruct (Bool.eqb k' k) eqn:E.
      + apply Bool.eqb_prop in E. subst k'. pose proof (Hk k) as Hkk. unfold cell_rel in *. rewrite EF in Hkk.
        destruct (cells _ _ xa k); [discriminate|]. right. rewrite Hs. reflexivity.
      + apply Hk.
  Qed.

  Lemma sim_step_same t U wf wa a :
    sim t U wf wa -> (forall c, target _ a = Some c -> U c) ->
    snd (step wf (t, a)) = snd (step wa (t, a)) /\ sim t U (fst (step wf (t, a))) (fst (step wa (t, a))).
  Proof.
    intros [Hc Ht] HU. destruct a; cbn.
    - (* Cancel *) split; [reflexivity|]. split; [|exact Ht]. intros c'. cbn.
      destruct (Nat.eq_dec c' c) as [->|Hn]; [rewrite !upd_same | rewrite !upd_other by exact Hn; apply Hc].
      destruct (Hc c) as [Hs [_ Hk]]. split; [exact Hs|]. split; [reflexivity | exact Hk].
    - (* Check *) destruct (Hc c) as [_ [Hf _]]. rewrite (Hf (HU c eq_refl)). split; [reflexivity|]. split; assumption.
    - (* Init *) destruct (crel_goi_both U c _ _ k (Hc c)) as [Hr Hv].
      destruct (get_or_init (ctxs _ _ _ wf c) k) as [xf vf]. destruct (get_or_init (ctxs _ _ _ wa c) k) as [xa va].
      cbn in *. subst. split; [reflexivity|]. split; [|exact Ht]. intros c'. cbn.
      destruct (Nat.eq_dec c' c) as [->|Hn]; [rewrite !upd_same; exact Hr | rewrite !upd_other by exact Hn; apply Hc].
    - (* Op *) destruct (Hc c) as [Hs [Hf Hk]]. rewrite Hs, (Hf (HU c eq_refl)). split; [reflexivity|].
      split; [|exact Ht]. intros c'. cbn.
      destruct (Nat.eq_dec c' c) as [->|Hn]; [rewrite !upd_same | rewrite !upd_other by exact Hn; apply Hc].
      destruct uses_signer; [exact (proj1 (crel_goi_both U c _ _ true (Hc c))) | apply Hc].
    - split; [reflexivity|]. split; assumption.
    - split; [reflexivity|]. split; [exact Hc|]. cbn. rewrite !upd_same, Ht. reflexivity.
    - rewrite Ht. split; [reflexivity|]. split; assumption.
    - rewrite Ht. split; [reflexivity|]. split; assumption.
  Qed.

  Lemma sim_step_other t U wf wa t' a :
    sim t U wf wa -> t' <> t -> (forall c, a = Cancel _ c -> ~ U c) -> sim t U (fst (step wf (t', a))) wa.
  Proof.
    intros [Hc Ht] Hne HU. destruct a; cbn; try (split; assumption).
    - split; [|exact Ht]. intros c'. cbn.
      destruct (Nat.eq_dec c' c) as [->|Hn]; [rewrite upd_same | rewrite upd_other by exact Hn; apply Hc].
      destruct (Hc c) as [Hs [_ Hk]]. split; [exact Hs|]. split; [|exact Hk].
      intros Hu. exfalso. exact (HU c eq_refl Hu).
    - pose proof (crel_goi_left U c _ _ k (Hc c)) as Hr.
      destruct (get_or_init (ctxs _ _ _ wf c) k) as [xf vf]. cbn in *. split; [|exact Ht]. intros c'. cbn.
      destruct (Nat.eq_dec c' c) as [->|Hn]; [rewrite upd_same; exact Hr | rewrite upd_other by exact Hn; apply Hc].
    - split; [|exact Ht]. intros c'. cbn.
      destruct (Nat.eq_dec c' c) as [->|Hn]; [rewrite upd_same | rewrite upd_other by exact Hn; apply Hc].
      destruct uses_signer; [exact (crel_goi_left U c _ _ true (Hc c)) | apply Hc].
    - split; [exact Hc|]. cbn. rewrite upd_other by congruence. exact Ht.
  Qed.

  (* MAIN: whatever the other threads do in between -- operations on shared or distinct contexts, cell initialisation,
     settings-builder calls, legacy thread-local writes, cancellation of contexts thread t does not use -- thread t
     obtains, operation by operation, the results of running its own program alone *)
  Theorem per_thread_alone t U : forall s wf wa,
    sim t U wf wa ->
    (forall e, In e s -> fst e = t -> forall c, target _ (snd e) = Some c -> U c) ->
    (forall e, In e s -> fst e <> t -> forall c, snd e = Cancel _ c -> ~ U c) ->
    results_of _ _ _ _ t s (snd (run wf s)) = snd (run wa (proj _ t s)).
  Proof.
    induction s as [|e s IH]; intros wf wa Hs H1 H2; [reflexivity|].
    rewrite run_cons. cbn [snd results_of proj filter]. destruct e as [t' a]. cbn [fst].
    destruct (Nat.eqb t' t) eqn:E.
    - apply Nat.eqb_eq in E. subst t'.
      destruct (sim_step_same t U wf wa a Hs) as [Hr Hs'].
      { intros c Hc. exact (H1 (t, a) (or_introl eq_refl) eq_refl c Hc). }
      rewrite run_cons. cbn [snd]. rewrite Hr. f_equal.
      apply IH; [exact Hs' | |]; intros e He; [apply H1 | apply H2]; right; exact He.
    - apply Nat.eqb_neq in E.
      apply IH; [| |]; [| intros e He; apply H1; right; exact He | intros e He; apply H2; right; exact He].
      apply sim_step_other; [exact Hs | exact E |].
      intros c Hc. exact (H2 (t', a) (or_introl eq_refl) E c Hc).
  Qed.

  (* in particular: with no cancellation at all, every thread of every schedule gets the results of its own program
     run alone from the same initial world ... *)
  Definition no_cancel (s : list event) : Prop := forall e c, In e s -> snd e <> Cancel _ c.

  Corollary linearizable w s t :
    no_cancel s -> results_of _ _ _ _ t s (snd (run w s)) = snd (run w (proj _ t s)).
  Proof.
    intros H. apply (per_thread_alone t (fun _ => True)); [apply sim_refl | auto |].
    intros e He _ c Hc. exfalso. exact (H e c He Hc).
  Qed.

  (* ... hence any two interleavings of the same per-thread programs give every thread the same results *)
  Corollary interleavings_agree w s1 s2 t :
    no_cancel s1 -> no_cancel s2 -> proj _ t s1 = proj _ t s2 ->
    results_of _ _ _ _ t s1 (snd (run w s1)) = results_of _ _ _ _ t s2 (snd (run w s2)).
  Proof. intros H1 H2 E. rewrite !linearizable by assumption. rewrite E. reflexivity. Qed.

  (* cancelling a context never affects a thread that does not use it *)
  Corollary cancel_isolated w s t (U : nat -> Prop) :
    (forall e, In e s -> fst e = t -> forall c, target _ (snd e) = Some c -> U c) ->
    (forall e, In e s -> fst e <> t -> forall c, snd e = Cancel _ c -> ~ U c) ->
    results_of _ _ _ _ t s (snd (run w s)) = snd (run w (proj _ t s)).
  Proof. intros H1 H2. apply (per_thread_alone t U); [apply sim_refl | exact H1 | exact H2]. Qed.

  (* ---------------------------------------------------------------- write-once cells *)

  Definition once_rel (x x' : ctx) (k : bool) : Prop :=
    settings _ _ x' = settings _ _ x /\
    match cells _ _ x k with
    | Some v => cells _ _ x' k = Some v /\ inits _ _ x' k = inits _ _ x k
    | None => (cells _ _ x' k = None /\ inits _ _ x' k = inits _ _ x k)
              \/ (cells _ _ x' k = Some (mk k (settings _ _ x)) /\ inits _ _ x' k = Datatypes.S (inits _ _ x k))
    end.

  Lemma once_rel_refl x k : once_rel x x k.
  Proof. split; [reflexivity|]. destruct (cells _ _ x k); auto. Qed.

  Lemma once_rel_trans x y z k : once_rel x y k -> once_rel y z k -> once_rel x z k.
  Proof.
    intros [S1 H1] [S2 H2]. split; [congruence|].
    destruct (cells _ _ x k) as [v|].
    - destruct H1 as [C1 I1]. rewrite C1 in H2. destruct H2 as [C2 I2]. split; congruence.
    - destruct H1 as [[C1 I1]|[C1 I1]]; rewrite C1 in H2.
      + destruct H2 as [[C2 I2]|[C2 I2]]; [left | right]; split; congruence.
      + destruct H2 as [C2 I2]. right. split; congruence.
  Qed.

  Lemma goi_once x k k' : once_rel x (fst (get_or_init x k)) k'.
  Proof.
    split; [apply goi_settings|]. destruct (goi_cell_step x k k') as [[C J]|[C [C' J]]].
    - rewrite C, J. destruct (cells _ _ x k'); auto.
    - rewrite C. right. auto.
  Qed.

  Lemma step_once w e c k : once_rel (ctxs _ _ _ w c) (ctxs _ _ _ (fst (step w e)) c) k.
  Proof.
    destruct (target_dec (snd e) c) as [E|N]; [|rewrite step_frame_ctx by exact N; apply once_rel_refl].
    destruct e as [t a]. destruct a as [c0|c0|c0 kk|c0 i us|i|i| |i]; cbn in E; try discriminate; inversion E; subst; cbn.
    - rewrite upd_same. split; [reflexivity|]. cbn. destruct (cells _ _ (ctxs _ _ _ w c) k); auto.
    - apply once_rel_refl.
    - pose proof (goi_once (ctxs _ _ _ w c) kk k) as H. destruct (get_or_init (ctxs _ _ _ w c) kk). cbn in *.
      rewrite upd_same. exact H.
    - rewrite upd_same. destruct us; [apply goi_once | apply once_rel_refl].
  Qed.

  (* under any schedule a cell is initialised at most once, to the value determined by the context's own settings,
     and an initialised cell never changes *)
  Theorem write_once s : forall w c k, once_rel (ctxs _ _ _ w c) (ctxs _ _ _ (fst (run w s)) c) k.
  Proof.
    induction s as [|e s IH]; intros w c k; [apply once_rel_refl|].
    rewrite run_cons. cbn [fst]. eapply once_rel_trans; [apply step_once | apply IH].
  Qed.

  Corollary initialised_at_most_once s w c k :
    cells _ _ (ctxs _ _ _ w c) k = None -> inits _ _ (ctxs _ _ _ w c) k = 0 ->
    inits _ _ (ctxs _ _ _ (fst (run w s)) c) k <= 1.
  Proof.
    intros Hn Hi. destruct (write_once s w c k) as [_ H]. rewrite Hn in H.
    destruct H as [[_ J]|[_ J]]; rewrite J, Hi; auto.
  Qed.

  (* settings of a shared context never change, under any schedule *)
  Theorem settings_immutable s : forall w c,
    settings _ _ (ctxs _ _ _ (fst (run w s)) c) = settings _ _ (ctxs _ _ _ w c).
  Proof. intros w c. exact (proj1 (write_once s w c true)). Qed.

  (* thread-local values: a schedule without legacy writes by thread t leaves t's value alone; the builder API never
     writes any *)
  Theorem tls_untouched s : forall w t,
    (forall e i, In e s -> fst e = t -> snd e <> TlsSet _ i) ->
    tls _ _ _ (fst (run w s)) t = tls _ _ _ w t.
  Proof.
    induction s as [|e s IH]; intros w t H; [reflexivity|].
    rewrite run_cons. cbn [fst]. rewrite IH by (intros e' i He'; apply H; right; exact He').
    destruct (Nat.eq_dec t (fst e)) as [E|N]; [|apply step_frame_tls; exact N].
    apply step_tls_only_legacy. intros i. apply H; [left; reflexivity | congruence].
  Qed.
End Proofs.
