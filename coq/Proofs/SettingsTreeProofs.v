(* Proofs/SettingsTreeProofs.v — lemmas about Model/SettingsTree.v (property C25). *)
From Coq Require Import List NArith Bool Arith Lia.
From C2PA Require Import Model.SettingsTree.
Import ListNotations.

(* ------------------------------------------------------------------ keys *)
Lemma key_eqb_refl k : key_eqb k k = true.
Proof. induction k; cbn; [reflexivity|]. rewrite N.eqb_refl, IHk. reflexivity. Qed.

Lemma key_eqb_eq a b : key_eqb a b = true <-> a = b.
Proof.
  split.
  - revert b. induction a as [|x a IH]; destruct b as [|y b]; cbn; try discriminate; [reflexivity|].
    intro H. apply andb_true_iff in H as [H1 H2]. apply N.eqb_eq in H1. apply IH in H2. congruence.
  - intros ->. apply key_eqb_refl.
Qed.

Lemma key_eqb_neq a b : key_eqb a b = false <-> a <> b.
Proof.
  split.
  - intros H E. apply key_eqb_eq in E. congruence.
  - intro H. destruct (key_eqb a b) eqn:E; [|reflexivity]. apply key_eqb_eq in E. contradiction.
Qed.

Lemma key_eqb_sym a b : key_eqb a b = key_eqb b a.
Proof.
  destruct (key_eqb a b) eqn:E.
  - apply key_eqb_eq in E. subst. symmetry. apply key_eqb_refl.
  - symmetry. apply key_eqb_neq. apply key_eqb_neq in E. congruence.
Qed.

(* ------------------------------------------------------------------ a usable induction principle *)
Section JsonInd.
  Variable P : json -> Prop.
  Hypothesis Hnull : P JNull.
  Hypothesis Hbool : forall b, P (JBool b).
  Hypothesis Hnum : forall n, P (JNum n).
  Hypothesis Hstr : forall s, P (JStr s).
  Hypothesis Harr : forall l, Forall P l -> P (JArr l).
  Hypothesis Hobj : forall m, Forall (fun kv => P (snd kv)) m -> P (JObj m).

  Fixpoint json_ind' (j : json) : P j :=
    match j with
    | JNull => Hnull
    | JBool b => Hbool b
    | JNum n => Hnum n
    | JStr s => Hstr s
    | JArr l => Harr l ((fix go (l : list json) : Forall P l :=
                           match l with
                           | [] => Forall_nil _
                           | x :: r => Forall_cons x (json_ind' x) (go r)
                           end) l)
    | JObj m => Hobj m ((fix go (m : fields) : Forall (fun kv => P (snd kv)) m :=
                           match m with
                           | [] => Forall_nil _
                           | kv :: r => Forall_cons kv (json_ind' (snd kv)) (go r)
                           end) m)
    end.
End JsonInd.

(* ------------------------------------------------------------------ lookup / insert *)
Lemma lookup_insert_same k v m : lookup k (insert k v m) = Some v.
Proof.
  induction m as [|[k' v'] r IH]; cbn.
  - rewrite key_eqb_refl. reflexivity.
  - destruct (key_eqb k k') eqn:E; cbn; rewrite E; [reflexivity|exact IH].
Qed.

Lemma lookup_insert_other k k' v m : k <> k' -> lookup k (insert k' v m) = lookup k m.
Proof.
  intro Hne. induction m as [|[k2 v2] r IH]; cbn.
  - apply key_eqb_neq in Hne. rewrite Hne. reflexivity.
  - destruct (key_eqb k' k2) eqn:E; cbn.
    + apply key_eqb_eq in E. subst k2. apply key_eqb_neq in Hne. rewrite Hne. reflexivity.
    + destruct (key_eqb k k2); [reflexivity|exact IH].
Qed.

Lemma lookup_none_notin k m : lookup k m = None <-> ~ In k (map fst m).
Proof.
  induction m as [|[k' v'] r IH]; cbn.
  - split; [intros _ []|reflexivity].
  - destruct (key_eqb k k') eqn:E.
    + apply key_eqb_eq in E. subst. split; [discriminate|]. intro H. exfalso. apply H. left. reflexivity.
    + apply key_eqb_neq in E. rewrite IH. split.
      * intros H [H1|H1]; [congruence|contradiction].
      * intros H H1. apply H. right. exact H1.
Qed.

Lemma lookup_in k v m : lookup k m = Some v -> In (k, v) m.
Proof.
  induction m as [|[k' v'] r IH]; cbn; [discriminate|].
  destruct (key_eqb k k') eqn:E.
  - apply key_eqb_eq in E. subst. intro H. inversion H. left. reflexivity.
  - intro H. right. apply IH. exact H.
Qed.

(* keys of an insertion: unchanged when the key is present, appended otherwise *)
Lemma keys_insert k v m :
  map fst (insert k v m) = match lookup k m with Some _ => map fst m | None => map fst m ++ [k] end.
Proof.
  induction m as [|[k' v'] r IH]; cbn; [reflexivity|].
  destruct (key_eqb k k') eqn:E; cbn; [reflexivity|].
  rewrite IH. destruct (lookup k r); reflexivity.
Qed.

Lemma NoDup_app_single {A} (l : list A) x : NoDup l -> ~ In x l -> NoDup (l ++ [x]).
Proof.
  induction l as [|y l IH]; cbn; intros Hnd Hni.
  - constructor; [intros []|constructor].
  - inversion Hnd; subst. constructor.
    + rewrite in_app_iff. intros [H|[H|[]]]; [contradiction|]. subst. apply Hni. left. reflexivity.
    + apply IH; [assumption|]. intro H. apply Hni. right. exact H.
Qed.

Lemma NoDup_keys_insert k v m : NoDup (map fst m) -> NoDup (map fst (insert k v m)).
Proof.
  intro H. rewrite keys_insert. destruct (lookup k m) eqn:E; [exact H|].
  apply NoDup_app_single; [exact H|]. apply lookup_none_notin. exact E.
Qed.

Lemma insert_in kv k v m : In kv (insert k v m) -> In kv m \/ snd kv = v.
Proof.
  induction m as [|[k' v'] r IH]; cbn.
  - intros [<-|[]]. right. reflexivity.
  - destruct (key_eqb k k'); cbn.
    + intros [<-|H]; [right; reflexivity|left; right; exact H].
    + intros [<-|H]; [left; left; reflexivity|]. destruct (IH H) as [H1|H1]; [left; right; exact H1|right; exact H1].
Qed.

(* ------------------------------------------------------------------ well-formed trees: unique keys everywhere *)
Inductive wf : json -> Prop :=
| wf_null : wf JNull
| wf_bool b : wf (JBool b)
| wf_num n : wf (JNum n)
| wf_str s : wf (JStr s)
| wf_arr l : Forall wf l -> wf (JArr l)
| wf_obj m : NoDup (map fst m) -> Forall (fun kv => wf (snd kv)) m -> wf (JObj m).

Definition wff (m : fields) : Prop := NoDup (map fst m) /\ Forall (fun kv => wf (snd kv)) m.

Lemma wf_obj_inv m : wf (JObj m) -> wff m.
Proof. intro H. inversion H; subst. split; assumption. Qed.

Lemma wff_lookup k v m : wff m -> lookup k m = Some v -> wf v.
Proof.
  intros [_ H] E. apply lookup_in in E. rewrite Forall_forall in H. apply (H (k, v)). exact E.
Qed.

Lemma wff_get_or_null k m : wff m -> wf (get_or_null k m).
Proof.
  intro H. unfold get_or_null. destruct (lookup k m) eqn:E; [eapply wff_lookup; eassumption|constructor].
Qed.

Lemma wff_insert k v m : wff m -> wf v -> wff (insert k v m).
Proof.
  intros [H1 H2] Hv. split; [apply NoDup_keys_insert; exact H1|].
  rewrite Forall_forall in *. intros kv Hin. destruct (insert_in _ _ _ _ Hin) as [H|H]; [apply H2; exact H|].
  rewrite H. exact Hv.
Qed.

(* nesting depth of objects (arrays are leaves for the merge) *)
Fixpoint depth (j : json) : nat :=
  match j with
  | JObj m => S ((fix mx (m : fields) : nat := match m with [] => 0 | kv :: r => Nat.max (depth (snd kv)) (mx r) end) m)
  | _ => 0
  end.
Definition depth_fields (m : fields) : nat := fold_right (fun kv a => Nat.max (depth (snd kv)) a) 0 m.

Lemma depth_obj m : depth (JObj m) = S (depth_fields m).
Proof.
  unfold depth_fields. induction m as [|kv r IH]; [reflexivity|].
  change (depth (JObj (kv :: r))) with (S (Nat.max (depth (snd kv)) (pred (depth (JObj r))))).
  rewrite IH. reflexivity.
Qed.

Lemma depth_fields_in kv m : In kv m -> depth (snd kv) <= depth_fields m.
Proof.
  induction m as [|kv' r IH]; [intros []|].
  change (depth_fields (kv' :: r)) with (Nat.max (depth (snd kv')) (depth_fields r)).
  intros [<-|H]; [lia|]. specialize (IH H). lia.
Qed.

(* ------------------------------------------------------------------ merge: unfolding *)
Lemma merge_obj_obj maxd d tm om :
  merge maxd d (JObj tm) (JObj om) = if Nat.ltb d maxd then JObj (merge_fields maxd d om tm) else JObj om.
Proof.
  cbn [merge]. destruct (Nat.ltb d maxd); [|reflexivity]. f_equal.
  revert tm. induction om as [|[k ov] om IH]; intro tm; cbn; [reflexivity|]. apply IH.
Qed.

Definition both_obj (t o : json) : Prop := exists tm om, t = JObj tm /\ o = JObj om.

Lemma merge_replace maxd d t o : ~ both_obj t o -> merge maxd d t o = o.
Proof.
  intro H. destruct o; try reflexivity. destruct t; try reflexivity. exfalso. apply H. eexists _, _. split; reflexivity.
Qed.

(* the depth cut-off: from MERGE_MAX_DEPTH on, the overlay replaces the target wholesale *)
Lemma merge_cutoff maxd d t o : maxd <= d -> merge maxd d t o = o.
Proof.
  intro H. destruct o; try reflexivity. destruct t; try reflexivity. rewrite merge_obj_obj.
  destruct (Nat.ltb d maxd) eqn:E; [|reflexivity]. apply Nat.ltb_lt in E. lia.
Qed.

(* the loop: each overlay key is merged into the (possibly absent = null) target entry; other keys are kept *)
Lemma merge_fields_lookup maxd d om : NoDup (map fst om) ->
  forall tm k,
    lookup k (merge_fields maxd d om tm) =
    match lookup k om with
    | None => lookup k tm
    | Some ov => Some (merge maxd (S d) (get_or_null k tm) ov)
    end.
Proof.
  induction om as [|[k0 ov0] om IH]; intros Hnd tm k; cbn; [reflexivity|].
  cbn in Hnd. inversion Hnd as [|? ? Hni Hnd']; subst. rewrite (IH Hnd').
  destruct (key_eqb k k0) eqn:E.
  - apply key_eqb_eq in E. subst k0. apply lookup_none_notin in Hni. rewrite Hni.
    apply lookup_insert_same.
  - apply key_eqb_neq in E. unfold get_or_null. rewrite (lookup_insert_other k k0 _ tm E). reflexivity.
Qed.

(* key order: target keys first (unchanged order), then the new overlay keys in overlay order *)
Lemma merge_fields_keys maxd d om : forall tm,
  map fst (merge_fields maxd d om tm) =
  map fst tm ++ fold_left (fun acc k => if existsb (key_eqb k) (map fst tm ++ acc) then acc else acc ++ [k]) (map fst om) [].
Proof.
  assert (G : forall om tm,
             map fst (merge_fields maxd d om tm) =
             fold_left (fun acc k => if existsb (key_eqb k) acc then acc else acc ++ [k]) (map fst om) (map fst tm)).
  { clear. induction om as [|[k0 ov0] om IH]; intros tm; cbn; [reflexivity|].
    rewrite IH. f_equal. rewrite keys_insert.
    destruct (lookup k0 tm) eqn:E.
    - assert (existsb (key_eqb k0) (map fst tm) = true) as ->; [|reflexivity].
      apply existsb_exists. exists k0. split; [|apply key_eqb_refl]. apply lookup_in in E. apply (in_map fst) in E. exact E.
    - assert (existsb (key_eqb k0) (map fst tm) = false) as ->; [|reflexivity].
      destruct (existsb (key_eqb k0) (map fst tm)) eqn:E2; [|reflexivity]. exfalso.
      apply existsb_exists in E2 as [x [Hin Hx]]. apply key_eqb_eq in Hx. subst x.
      apply lookup_none_notin in E. contradiction. }
  intro tm. rewrite (G om tm).
  generalize (map fst tm) as base. intro base.
  assert (H : forall ks acc,
             fold_left (fun acc k => if existsb (key_eqb k) acc then acc else acc ++ [k]) ks (base ++ acc) =
             base ++ fold_left (fun acc k => if existsb (key_eqb k) (base ++ acc) then acc else acc ++ [k]) ks acc).
  { induction ks as [|k ks IH]; intro acc; cbn; [reflexivity|].
    destruct (existsb (key_eqb k) (base ++ acc)); [apply IH|]. rewrite <- app_assoc. apply IH. }
  specialize (H (map fst om) []). rewrite app_nil_r in H. exact H.
Qed.

(* ------------------------------------------------------------------ merge preserves well-formedness *)
Lemma merge_wf maxd o : forall d t, wf t -> wf o -> wf (merge maxd d t o).
Proof.
  induction o as [| | | | l _ | om IH] using json_ind'; intros d t Ht Ho; try exact Ho.
  destruct t as [| | | | |tm]; try exact Ho.
  rewrite merge_obj_obj. destruct (Nat.ltb d maxd); [|exact Ho].
  apply wf_obj_inv in Ht. apply wf_obj_inv in Ho. destruct Ho as [_ Hov].
  assert (G : wff (merge_fields maxd d om tm)).
  { revert tm Ht. induction om as [|[k ov] om IHom]; intros tm Ht; cbn; [exact Ht|].
    inversion IH as [|? ? Hk IH']; subst. inversion Hov as [|? ? Hkv Hov']; subst. cbn in Hk, Hkv.
    apply IHom; [exact IH'|exact Hov'|].
    apply wff_insert; [exact Ht|]. apply Hk; [apply wff_get_or_null; exact Ht|exact Hkv]. }
  destruct G. constructor; assumption.
Qed.

(* ------------------------------------------------------------------ the declarative recursive merge *)
(* [Merged t o r]: r is the recursive merge of overlay o onto target t (RFC 7396 shape, except that null is an
   ordinary value): if both are objects, r is an object whose entry for every key is: the target's entry when
   the overlay has none; otherwise the merge of the overlay's entry onto the target's entry (null when the
   target has none).  In every other case r is the overlay. *)
Inductive Merged : json -> json -> json -> Prop :=
| Mg_replace t o : ~ both_obj t o -> Merged t o o
| Mg_obj tm om rm :
    NoDup (map fst rm) ->
    (forall k, lookup k om = None -> lookup k rm = lookup k tm) ->
    (forall k ov, lookup k om = Some ov -> exists r, lookup k rm = Some r /\ Merged (get_or_null k tm) ov r) ->
    Merged (JObj tm) (JObj om) (JObj rm).

Lemma merge_spec maxd o : forall d t, wf t -> wf o -> d + depth o <= maxd -> Merged t o (merge maxd d t o).
Proof.
  induction o as [| | | | l _ | om IH] using json_ind'; intros d t Ht Ho Hd;
    try (rewrite merge_replace; [apply Mg_replace|]; intros (tm & om' & _ & E); discriminate).
  destruct t as [| | | | |tm];
    try (rewrite merge_replace; [apply Mg_replace|]; intros (tm' & om' & E & _); discriminate).
  rewrite depth_obj in Hd. rewrite merge_obj_obj.
  assert (Nat.ltb d maxd = true) as -> by (apply Nat.ltb_lt; lia).
  pose proof (wf_obj_inv _ Ht) as Htm. pose proof (wf_obj_inv _ Ho) as [Hnd Hov].
  apply Mg_obj.
  - assert (G : wf (merge maxd d (JObj tm) (JObj om))) by (apply merge_wf; assumption).
    rewrite merge_obj_obj in G. assert (Nat.ltb d maxd = true) as E by (apply Nat.ltb_lt; lia). rewrite E in G.
    apply wf_obj_inv in G. exact (proj1 G).
  - intros k Hk. rewrite merge_fields_lookup by exact Hnd. rewrite Hk. reflexivity.
  - intros k ov Hk. rewrite merge_fields_lookup by exact Hnd. rewrite Hk. eexists. split; [reflexivity|].
    pose proof (lookup_in _ _ _ Hk) as Hin.
    rewrite Forall_forall in IH, Hov. apply (IH (k, ov) Hin).
    + apply wff_get_or_null. exact Htm.
    + apply (Hov (k, ov) Hin).
    + pose proof (depth_fields_in (k, ov) om Hin) as Hle. cbn [snd] in *. lia.
Qed.

(* The relation determines its result up to the order of keys: [jeq] is equality of trees whose objects are
   read as finite maps. *)
Inductive jeq : json -> json -> Prop :=
| jeq_refl j : jeq j j
| jeq_obj m m' :
    (forall k, lookup k m = None <-> lookup k m' = None) ->
    (forall k a b, lookup k m = Some a -> lookup k m' = Some b -> jeq a b) ->
    jeq (JObj m) (JObj m').

Lemma Merged_det o : forall t r r', Merged t o r -> Merged t o r' -> jeq r r'.
Proof.
  induction o as [| | | | l _ | om IH] using json_ind'; intros t r r' H1 H2;
    try (inversion H1; subst; inversion H2; subst; apply jeq_refl).
  inversion H1 as [? ? Hn1 | tm1 om1 rm1 Hnd1 Hk1 Hov1]; subst.
  - inversion H2 as [? ? Hn2 | tm2 om2 rm2 Hnd2 Hk2 Hov2]; subst; [apply jeq_refl|].
    exfalso. apply Hn1. eexists _, _. split; reflexivity.
  - inversion H2 as [? ? Hn2 | tm2 om2 rm2 Hnd2 Hk2 Hov2]; subst.
    + exfalso. apply Hn2. eexists _, _. split; reflexivity.
    + apply jeq_obj.
      * intro k. destruct (lookup k om) as [ov|] eqn:E.
        -- destruct (Hov1 k ov E) as (r1 & L1 & _). destruct (Hov2 k ov E) as (r2 & L2 & _).
           rewrite L1, L2. split; discriminate.
        -- rewrite (Hk1 k E), (Hk2 k E). split; intro; assumption.
      * intros k a b La Lb. destruct (lookup k om) as [ov|] eqn:E.
        -- destruct (Hov1 k ov E) as (r1 & L1 & M1). destruct (Hov2 k ov E) as (r2 & L2 & M2).
           rewrite L1 in La. rewrite L2 in Lb. inversion La; inversion Lb; subst.
           rewrite Forall_forall in IH. exact (IH (k, ov) (lookup_in _ _ _ E) _ _ _ M1 M2).
        -- rewrite (Hk1 k E) in La. rewrite (Hk2 k E) in Lb. rewrite La in Lb. inversion Lb. apply jeq_refl.
Qed.

(* hence: below the depth limit the coded merge is the declarative merge (any result of the relation is the coded one
   up to key order) *)
Lemma merge_is_Merged maxd o d t r :
  wf t -> wf o -> d + depth o <= maxd -> Merged t o r -> jeq r (merge maxd d t o).
Proof. intros Ht Ho Hd Hr. eapply Merged_det; [exact Hr|]. apply merge_spec; assumption. Qed.


(* ------------------------------------------------------------------ split('.') *)
Lemma split_dot_acc_nonempty cur s : split_dot_acc cur s <> [].
Proof. revert cur. induction s as [|c r IH]; intro cur; cbn; [discriminate|]. destruct (N.eqb c 46); [discriminate|apply IH]. Qed.

Lemma split_dot_nonempty s : split_dot s <> [].
Proof. apply split_dot_acc_nonempty. Qed.

(* joining segments with '.' *)
Fixpoint join_dot (segs : list key) : list N :=
  match segs with
  | [] => []
  | [s] => s
  | s :: r => s ++ 46%N :: join_dot r
  end.

Definition no_dot (s : key) : Prop := ~ In 46%N s.

Lemma split_dot_acc_app cur s rest :
  no_dot s -> split_dot_acc cur (s ++ 46%N :: rest) = (rev cur ++ s) :: split_dot_acc [] rest.
Proof.
  revert cur. induction s as [|c s IH]; intros cur Hnd; cbn.
  - rewrite app_nil_r. reflexivity.
  - destruct (N.eqb c 46) eqn:E.
    + apply N.eqb_eq in E. subst. exfalso. apply Hnd. left. reflexivity.
    + rewrite IH; [|intro H; apply Hnd; right; exact H]. cbn. rewrite <- app_assoc. reflexivity.
Qed.

Lemma split_dot_acc_last cur s : no_dot s -> split_dot_acc cur s = [rev cur ++ s].
Proof.
  revert cur. induction s as [|c s IH]; intros cur Hnd; cbn.
  - rewrite app_nil_r. reflexivity.
  - destruct (N.eqb c 46) eqn:E.
    + apply N.eqb_eq in E. subst. exfalso. apply Hnd. left. reflexivity.
    + rewrite IH; [|intro H; apply Hnd; right; exact H]. cbn. rewrite <- app_assoc. reflexivity.
Qed.

(* every non-empty list of dot-free segments is the split of its dotted spelling *)
Lemma split_join segs : segs <> [] -> Forall no_dot segs -> split_dot (join_dot segs) = segs.
Proof.
  induction segs as [|s r IH]; intros Hne Hnd; [congruence|].
  inversion Hnd; subst. destruct r as [|s2 r].
  - cbn. unfold split_dot. rewrite split_dot_acc_last by assumption. reflexivity.
  - change (join_dot (s :: s2 :: r)) with (s ++ 46%N :: join_dot (s2 :: r)).
    unfold split_dot. rewrite split_dot_acc_app by assumption. cbn [rev app]. f_equal.
    apply IH; [discriminate|assumption].
Qed.

(* ------------------------------------------------------------------ set / get *)
Definition child (t : json) (s : key) : json := match lookup s (as_fields t) with Some c => c | None => JObj [] end.

Lemma set_segs_last t s v : set_segs t [s] v = Some (JObj (insert s v (as_fields t))).
Proof. reflexivity. Qed.

Lemma set_segs_cons2 t s s2 r v :
  set_segs t (s :: s2 :: r) v =
  match set_segs (child t s) (s2 :: r) v with Some c' => Some (JObj (insert s c' (as_fields t))) | None => None end.
Proof. reflexivity. Qed.

Lemma set_segs_some t segs v : segs <> [] -> exists t', set_segs t segs v = Some t'.
Proof.
  revert t. induction segs as [|s r IH]; intros t Hne; [congruence|].
  destruct r as [|s2 r]; [eexists; apply set_segs_last|].
  rewrite set_segs_cons2. destruct (IH (child t s)) as [c' Hc]; [discriminate|].
  rewrite Hc. eexists. reflexivity.
Qed.

Lemma get_set_segs segs : forall t v t', set_segs t segs v = Some t' -> get_segs t' segs = Some v.
Proof.
  induction segs as [|s r IH]; intros t v t' H; [discriminate|].
  destruct r as [|s2 r].
  - rewrite set_segs_last in H. inversion H; subst. cbn. rewrite lookup_insert_same. reflexivity.
  - rewrite set_segs_cons2 in H.
    destruct (set_segs (child t s) (s2 :: r) v) as [c'|] eqn:E; [|discriminate].
    inversion H; subst. cbn [get_segs]. rewrite lookup_insert_same. eapply IH. exact E.
Qed.

(* two paths diverge: after a common prefix they continue with different segments
   (equivalently: neither is a prefix of the other) *)
Definition diverge (p q : list key) : Prop :=
  exists c s1 s2 p' q', p = c ++ s1 :: p' /\ q = c ++ s2 :: q' /\ s1 <> s2.

Fixpoint prefixb (p q : list key) : bool :=
  match p, q with
  | [], _ => true
  | s :: p', t :: q' => key_eqb s t && prefixb p' q'
  | _ :: _, [] => false
  end.

Lemma not_prefix_diverge p q : prefixb p q = false -> prefixb q p = false -> diverge p q.
Proof.
  revert q. induction p as [|s p IH]; intros q H1 H2; [discriminate|].
  destruct q as [|t q]; [discriminate|]. cbn in H1, H2.
  destruct (key_eqb s t) eqn:E.
  - apply key_eqb_eq in E. subst t. rewrite key_eqb_refl in H2. cbn in H1, H2.
    destruct (IH q H1 H2) as (c & s1 & s2 & p' & q' & -> & -> & Hne).
    exists (s :: c), s1, s2, p', q'. repeat split; try reflexivity. exact Hne.
  - apply key_eqb_neq in E. exists [], s, t, p, q. repeat split; try reflexivity. exact E.
Qed.

Lemma get_segs_non_obj t segs : (forall m, t <> JObj m) -> segs <> [] -> get_segs t segs = None.
Proof. intros H Hne. destruct segs; [congruence|]. destruct t; try reflexivity. exfalso. eapply H. reflexivity. Qed.

Lemma get_segs_as_fields t s r :
  get_segs t (s :: r) = match lookup s (as_fields t) with Some c => get_segs c r | None => None end.
Proof. destruct t; reflexivity. Qed.

Lemma set_segs_frame c : forall t s1 s2 p' q' v t',
  s1 <> s2 -> set_segs t (c ++ s1 :: p') v = Some t' -> get_segs t' (c ++ s2 :: q') = get_segs t (c ++ s2 :: q').
Proof.
  induction c as [|s c IH]; intros t s1 s2 p' q' v t' Hne H.
  - cbn [app] in *. rewrite (get_segs_as_fields t). destruct p' as [|s3 p'].
    + rewrite set_segs_last in H. inversion H; subst. cbn [get_segs]. rewrite lookup_insert_other by congruence. reflexivity.
    + rewrite set_segs_cons2 in H.
      destruct (set_segs (child t s1) (s3 :: p') v); [|discriminate].
      inversion H; subst. cbn [get_segs]. rewrite lookup_insert_other by congruence. reflexivity.
  - cbn [app] in *. rewrite (get_segs_as_fields t).
    assert (Hc : exists x y, c ++ s1 :: p' = x :: y) by (destruct c; eexists _, _; reflexivity).
    destruct Hc as (x & y & Hc). rewrite Hc in H. rewrite set_segs_cons2 in H. rewrite <- Hc in H.
    destruct (set_segs (child t s) (c ++ s1 :: p') v) as [c'|] eqn:E; [|discriminate].
    inversion H; subst. cbn [get_segs]. rewrite lookup_insert_same.
    rewrite (IH _ _ _ _ _ _ _ Hne E). unfold child.
    destruct (lookup s (as_fields t)) eqn:El; [reflexivity|].
    (* the entry did not exist: reading through a fresh empty object finds nothing *)
    destruct c; cbn; reflexivity.
Qed.

Lemma set_frame t p q v t' : diverge p q -> set_segs t p v = Some t' -> get_segs t' q = get_segs t q.
Proof. intros (c & s1 & s2 & p' & q' & -> & -> & Hne) H. eapply set_segs_frame; eassumption. Qed.

(* a write keeps the tree well-formed *)
Lemma set_segs_wf segs : forall t v t', wf t -> wf v -> set_segs t segs v = Some t' -> wf t'.
Proof.
  induction segs as [|s r IH]; intros t v t' Ht Hv H; [discriminate|].
  assert (Hm : wff (as_fields t)).
  { destruct t; cbn; try (split; constructor). apply wf_obj_inv. exact Ht. }
  destruct r as [|s2 r].
  - rewrite set_segs_last in H. inversion H; subst. destruct (wff_insert s v _ Hm Hv). constructor; assumption.
  - rewrite set_segs_cons2 in H.
    destruct (set_segs (child t s) (s2 :: r) v) as [c'|] eqn:E; [|discriminate].
    inversion H; subst.
    assert (Hc : wf c').
    { eapply IH; [|exact Hv|exact E]. unfold child. destruct (lookup s (as_fields t)) eqn:El; [eapply wff_lookup; eassumption|].
      constructor; constructor. }
    destruct (wff_insert s c' _ Hm Hc). constructor; assumption.
Qed.

(* ------------------------------------------------------------------ merge and paths *)
(* a non-object value of the overlay is readable at the same path in the result *)
Lemma merge_overlay_wins maxd segs : forall d t o v,
  wf o -> d + length segs <= maxd -> get_segs o segs = Some v -> (forall m, v <> JObj m) ->
  get_segs (merge maxd d t o) segs = Some v.
Proof.
  induction segs as [|s r IH]; intros d t o v Ho Hd Hg Hv.
  - cbn in Hg. inversion Hg; subst. cbn. f_equal. apply merge_replace.
    intros (tm & om & _ & E). eapply Hv. exact E.
  - destruct o as [| | | | |om]; try discriminate. cbn [get_segs] in Hg.
    destruct (lookup s om) as [ov|] eqn:El; [|discriminate].
    destruct t as [| | | | |tm]; try (cbn [merge get_segs]; rewrite El; exact Hg).
    rewrite merge_obj_obj. cbn [length] in Hd. assert (Nat.ltb d maxd = true) as -> by (apply Nat.ltb_lt; lia).
    cbn [get_segs]. pose proof (wf_obj_inv _ Ho) as Hw. rewrite merge_fields_lookup by exact (proj1 Hw). rewrite El.
    apply IH; [eapply wff_lookup; eassumption|lia|exact Hg|exact Hv].
Qed.

(* a top-level key the overlay does not mention keeps the target's subtree *)
Lemma merge_untouched maxd d tm om s r :
  NoDup (map fst om) -> d < maxd -> lookup s om = None ->
  get_segs (merge maxd d (JObj tm) (JObj om)) (s :: r) = get_segs (JObj tm) (s :: r).
Proof.
  intros Hnd Hd El. rewrite merge_obj_obj. assert (Nat.ltb d maxd = true) as -> by (apply Nat.ltb_lt; lia).
  cbn [get_segs]. rewrite merge_fields_lookup by exact Hnd. rewrite El. reflexivity.
Qed.

(* merging a tree onto itself changes nothing *)
Lemma insert_same_value k v m : lookup k m = Some v -> insert k v m = m.
Proof.
  induction m as [|[k' v'] r IH]; cbn; [discriminate|].
  destruct (key_eqb k k') eqn:E.
  - intro H. inversion H. reflexivity.
  - intro H. rewrite (IH H). reflexivity.
Qed.

Lemma merge_idem maxd t : forall d, wf t -> merge maxd d t t = t.
Proof.
  induction t as [| | | | l _ | m IH] using json_ind'; intros d Ht; try reflexivity.
  rewrite merge_obj_obj. destruct (Nat.ltb d maxd); [|reflexivity]. f_equal.
  pose proof (wf_obj_inv _ Ht) as [Hnd Hw].
  (* generalise: merging a sub-list of the fields of tm (same values) onto tm is the identity *)
  assert (G : forall om tm, (forall k v, In (k, v) om -> lookup k tm = Some v) ->
                            Forall (fun kv => forall d, wf (snd kv) -> merge maxd d (snd kv) (snd kv) = snd kv) om ->
                            Forall (fun kv => wf (snd kv)) om ->
                            merge_fields maxd d om tm = tm).
  { clear. induction om as [|[k ov] om IHom]; intros tm Hin Hih Hw; cbn; [reflexivity|].
    inversion Hih; subst. inversion Hw; subst. cbn in *.
    unfold get_or_null. rewrite (Hin k ov (or_introl eq_refl)). rewrite H1 by assumption.
    rewrite insert_same_value by (apply Hin; left; reflexivity).
    apply IHom; [intros; apply Hin; right; assumption|assumption|assumption]. }
  apply G; [|exact IH|exact Hw].
  intros k v Hin. clear - Hnd Hin. induction m as [|[k' v'] r IHr]; [destruct Hin|].
  cbn in Hnd. inversion Hnd; subst. cbn. destruct Hin as [E|Hin].
  - inversion E; subst. rewrite key_eqb_refl. reflexivity.
  - destruct (key_eqb k k') eqn:E.
    + apply key_eqb_eq in E. subst. exfalso. apply H1. apply (in_map fst) in Hin. exact Hin.
    + apply IHr; assumption.
Qed.

(* ------------------------------------------------------------------ statements used by Properties/C25.v *)
Lemma merge_entry maxd d tm om k : NoDup (map fst om) -> d < maxd ->
  get_segs (merge maxd d (JObj tm) (JObj om)) [k] =
  match lookup k om with
  | None => lookup k tm
  | Some ov => Some (merge maxd (S d) (get_or_null k tm) ov)
  end.
Proof.
  intros Hnd Hd. rewrite merge_obj_obj. assert (Nat.ltb d maxd = true) as -> by (apply Nat.ltb_lt; exact Hd).
  cbn [get_segs]. rewrite merge_fields_lookup by exact Hnd. destruct (lookup k om); [|destruct (lookup k tm)]; reflexivity.
Qed.

Lemma get_set_segs_ex t segs v : segs <> [] -> exists t', set_segs t segs v = Some t' /\ get_segs t' segs = Some v.
Proof.
  intro Hne. destruct (set_segs_some t segs v Hne) as [t' H]. exists t'. split; [exact H|]. eapply get_set_segs. exact H.
Qed.

Lemma get_set_path t path v : exists t', set_at_path t path v = Some t' /\ get_at_path t' path = Some v.
Proof. apply get_set_segs_ex. apply split_dot_nonempty. Qed.

(* ------------------------------------------------------------------ the Settings methods *)
Section UpdateProofs.
  Variable settings : Type.
  Variable to_value : settings -> option json.
  Variable typed : json -> option settings.
  Variable validate : settings -> bool.
  Variable parse : format -> list N -> option json.
  Variable maxd : nat.

  Notation with_string := (with_string settings to_value typed validate parse maxd).
  Notation update_from_str := (update_from_str settings to_value typed validate parse maxd).
  Notation with_value := (with_value settings to_value typed validate).
  Notation set_value := (set_value settings to_value typed validate).
  Notation get_value := (get_value settings to_value).

  (* a failed update returns the old state *)
  Lemma update_atomic s f text e : snd (update_from_str s f text) = UErr e -> fst (update_from_str s f text) = s.
  Proof. unfold SettingsTree.update_from_str. destruct (with_string s f text); cbn; [discriminate|reflexivity]. Qed.

  Lemma set_value_atomic s p v e : snd (set_value s p v) = UErr e -> fst (set_value s p v) = s.
  Proof. unfold SettingsTree.set_value. destruct (with_value s p v); cbn; [discriminate|reflexivity]. Qed.

  (* a successful update is the validated typed projection of the merged tree *)
  Lemma update_ok s f text s' :
    update_from_str s f text = (s', UOk tt) ->
    exists overlay cur, parse f text = Some overlay /\ to_value s = Some cur /\
                        typed (merge_json maxd cur overlay) = Some s' /\ validate s' = true.
  Proof.
    unfold SettingsTree.update_from_str, SettingsTree.with_string.
    destruct (parse f text) as [o|] eqn:E1; [|discriminate]. destruct (to_value s) as [c|] eqn:E2; [|discriminate].
    destruct (typed (merge_json maxd c o)) as [x|] eqn:E3; [|discriminate]. destruct (validate x) eqn:E4; [|discriminate].
    intro H. inversion H; subst. exists o, c. repeat split; try reflexivity; assumption.
  Qed.

  (* the result is never an invalid settings value *)
  Lemma with_string_valid s f text s' : with_string s f text = UOk s' -> validate s' = true.
  Proof.
    unfold SettingsTree.with_string.
    destruct (parse f text) as [o|]; [|discriminate]. destruct (to_value s) as [c|]; [|discriminate].
    destruct (typed (merge_json maxd c o)) as [x|]; [|discriminate]. destruct (validate x) eqn:E; [|discriminate].
    intro H. inversion H; subst. exact E.
  Qed.

  (* the document format enters only through the parser *)
  Lemma json_toml_equiv s a b : parse FJson a = parse FToml b -> with_string s FJson a = with_string s FToml b.
  Proof. unfold SettingsTree.with_string. intros ->. reflexivity. Qed.

  (* read-after-write through the typed projection: if serde keeps the written path (to_value (typed x) agrees
     with x at that path), get_value returns the written value *)
  Lemma typed_read_after_write s p v s' cur merged :
    with_value s p v = UOk s' -> to_value s = Some cur -> set_at_path cur p v = Some merged ->
    (forall back, to_value s' = Some back -> get_at_path back p = get_at_path merged p) ->
    (exists back, to_value s' = Some back) ->
    get_value s' p = Some v.
  Proof.
    intros _ _ Hset Hstable [back Hb]. unfold SettingsTree.get_value. rewrite Hb. rewrite (Hstable back Hb).
    unfold get_at_path, set_at_path in *. eapply get_set_segs. exact Hset.
  Qed.
End UpdateProofs.
