(* Proofs/CliPathsProofs.v — the clobbering decision of c2patool over its whole (finite) predicate domain. *)
From Coq Require Import List Bool.
From C2PA Require Import Generated.C32_facts Model.CliPaths.
Import ListNotations.

Ltac fin := match goal with |- In ?x _ => destruct x; simpl; tauto end.

(* the enumeration really is the whole type *)
Lemma all_cli_complete : forall r, In r all_cli.
Proof.
  intros [a b c d e f g h i j k l m n]. unfold all_cli.
  apply in_flat_map; exists a; split; [fin|]. apply in_flat_map; exists b; split; [fin|].
  apply in_flat_map; exists c; split; [fin|]. apply in_flat_map; exists d; split; [fin|].
  apply in_flat_map; exists e; split; [fin|]. apply in_flat_map; exists f; split; [fin|].
  apply in_flat_map; exists g; split; [fin|]. apply in_flat_map; exists h; split; [fin|].
  apply in_flat_map; exists i; split; [fin|]. apply in_flat_map; exists j; split; [fin|].
  apply in_flat_map; exists k; split; [fin|]. apply in_flat_map; exists l; split; [fin|].
  apply in_flat_map; exists m; split; [fin|].
  apply in_map_iff. exists n. split; [reflexivity|fin].
Qed.

Lemma lift (P : cli -> bool) : forallb P all_cli = true -> forall r, P r = true.
Proof. intros H r. exact (proj1 (forallb_forall P all_cli) H r (all_cli_complete r)). Qed.

Lemma no_clobber_all : forallb (fun r => known r || no_clobber_b r) all_cli = true.
Proof. vm_compute. reflexivity. Qed.

Lemma no_clobber_outside_known : forall r, known r = false -> no_clobber_b r = true.
Proof. intros r K. pose proof (lift _ no_clobber_all r) as H. cbv beta in H. rewrite K in H. exact H. Qed.

Lemma no_clobber_prop :
  forall r, known r = false ->
  forall e p, In e (decide r) -> destructive e = Some p -> exists_before r p = true -> force r = true.
Proof.
  intros r K e p He Hd Hx. pose proof (no_clobber_outside_known r K) as H.
  unfold no_clobber_b in H. rewrite forallb_forall in H. specialize (H e He). rewrite Hd, Hx in H.
  destruct (force r); [reflexivity|discriminate].
Qed.

(* witnesses of the two known classes (replayed on the binary by ./check: corpus/C32.jsonl lines 1, 2) *)
Definition sidecar_witness : cli :=
  Build_cli true false OAbsent Different true false true SFile false false FNone false false false.
Definition frag_init_witness : cli :=
  Build_cli true false ODir Different true false false SAbsent false false FGlob true false false.

Lemma sidecar_refuted :
  sidecar_write_guarded = false ->
  exists r, realisable r = true /\ force r = false /\ In (Write PSidecar) (decide r) /\ exists_before r PSidecar = true.
Proof. intro G. exists sidecar_witness. revert G. vm_compute. intuition congruence. Qed.

Lemma frag_init_refuted :
  frag_init_guarded = false ->
  exists r, realisable r = true /\ force r = false /\ In (Write PFragInit) (decide r) /\ exists_before r PFragInit = true.
Proof. intro G. exists frag_init_witness. revert G. vm_compute. intuition congruence. Qed.

(* the known classes are exact on realisable records: known <-> the property fails *)
Lemma known_exact_all : forallb (fun r => implb (realisable r) (eqb (known r) (negb (no_clobber_b r)))) all_cli = true.
Proof. vm_compute. reflexivity. Qed.

Lemma known_exact : forall r, realisable r = true -> known r = negb (no_clobber_b r).
Proof.
  intros r R. pose proof (lift _ known_exact_all r) as H. cbv beta in H. rewrite R in H.
  destruct (known r), (no_clobber_b r); try reflexivity; discriminate H.
Qed.

(* a refusal by the tool itself (bail!) happens before anything is modified *)
Lemma bail_pure_all :
  forallb (fun r => implb (existsb (fun e => match e with Bail => true | _ => false end) (decide r))
                          (forallb (fun e => match destructive e with None => true | _ => false end) (decide r))) all_cli = true.
Proof. vm_compute. reflexivity. Qed.

Lemma bail_pure : forall r, In Bail (decide r) -> forall e, In e (decide r) -> destructive e = None.
Proof.
  intros r HB e He. pose proof (lift _ bail_pure_all r) as H. cbv beta in H.
  assert (X : existsb (fun e => match e with Bail => true | _ => false end) (decide r) = true).
  { apply existsb_exists. exists Bail. split; [exact HB|reflexivity]. }
  rewrite X in H. simpl in H. rewrite forallb_forall in H. specialize (H e He).
  destruct (destructive e); [discriminate|reflexivity].
Qed.

(* the sidecar path is only ever touched with --sidecar *)
Definition names (e : effect) (p : cpath) : bool :=
  match e with
  | Remove q | Write q | RemoveTree q | Mkdir q =>
      match p, q with
      | PIn, PIn | POut, POut | POutParent, POutParent | PSidecar, PSidecar | POutChild, POutChild
      | PFragDir, PFragDir | PFragSeg, PFragSeg | PFragInit, PFragInit => true
      | _, _ => false
      end
  | _ => false
  end.

Lemma sidecar_flag_all :
  forallb (fun r => implb (existsb (fun e => names e PSidecar) (decide r)) (sidecar r && has_manifest r)) all_cli = true.
Proof. vm_compute. reflexivity. Qed.

Lemma sidecar_flag : forall r e, In e (decide r) -> names e PSidecar = true -> sidecar r = true /\ has_manifest r = true.
Proof.
  intros r e He Hn. pose proof (lift _ sidecar_flag_all r) as H. cbv beta in H.
  assert (X : existsb (fun e => names e PSidecar) (decide r) = true) by (apply existsb_exists; eauto).
  rewrite X in H. simpl in H. apply andb_true_iff in H. exact H.
Qed.

(* the input file is never named by an effect unless the output is the input *)
Lemma input_kept_all :
  forallb (fun r => forallb (fun e => negb (names e PIn)) (decide r)) all_cli = true.
Proof. vm_compute. reflexivity. Qed.

Lemma input_kept : forall r e, In e (decide r) -> names e PIn = false.
Proof.
  intros r e He. pose proof (lift _ input_kept_all r) as H. cbv beta in H.
  rewrite forallb_forall in H. specialize (H e He). destruct (names e PIn); [discriminate|reflexivity].
Qed.
