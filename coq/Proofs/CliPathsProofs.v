(* Proofs/CliPathsProofs.v — the clobbering decision of c2patool over its whole (finite) predicate domain. *)
From Coq Require Import List Bool.
From C2PA Require Import Generated.C32_facts Model.CliPaths.
Import ListNotations.

Ltac fin := match goal with |- In ?x _ => destruct x; simpl; tauto end.

(* the enumeration really is the whole type *)
Lemma all_cli_complete : forall r, In r all_cli.
Proof.
  intros [a b c d e f g h i j k l m n]. unfold all_cli.
  apply in_flat_map; exists a; split; [fin|]. apply in_flat_map; exists b; split; [fin|].
  apply in_flat_map; exists c; split; [fin|]. apply in_flat_map; exists d; split; [fin|].
  apply in_flat_map; exists e; split; [fin|]. apply in_flat_map; exists f; split; [fin|].
  apply in_flat_map; exists g; split; [fin|]. apply in_flat_map; exists h; split; [fin|].
  apply in_flat_map; exists i; split; [fin|]. apply in_flat_map; exists j; split; [fin|].
  apply in_flat_map; exists k; split; [fin|]. apply in_flat_map; exists l; split; [fin|].
  apply in_flat_map; exists m; split; [fin|].
  apply in_map_iff. exists n. split; [reflexivity|fin].
Qed.

Lemma lift (P : cli -> bool) : forallb P all_cli = true -> forall r, P r = true.
Proof. intros H r. exact (proj1 (forallb_forall P all_cli) H r (all_cli_complete r)). Qed.

(* the current tree (both writes guarded, facts regenerated from the source): no clobbering anywhere *)
Lemma no_clobber_all : forallb no_clobber_b all_cli = true.
Proof. vm_compute. reflexivity. Qed.

Lemma no_clobber_prop :
  forall r e p, In e (decide r) -> destructive e = Some p -> exists_before r p = true -> force r = true.
Proof.
  intros r e p He Hd Hx. pose proof (lift _ no_clobber_all r) as H.
  unfold no_clobber_b, no_clobber_of in H. rewrite forallb_forall in H. specialize (H e He). rewrite Hd, Hx in H.
  destruct (force r); [reflexivity|discriminate].
Qed.

(* whatever the two guards are: clobbering only in the class of the missing guard *)
Definition guard_class (sg fg : bool) (r : cli) : bool :=
  (negb sg && known_sidecar r) || (negb fg && known_frag_init r).

Lemma no_clobber_any_guards_all :
  forallb (fun sg => forallb (fun fg =>
    forallb (fun r => guard_class sg fg r || no_clobber_of (decide_g sg fg) r) all_cli) bools) bools = true.
Proof. vm_compute. reflexivity. Qed.

Lemma no_clobber_any_guards :
  forall sg fg r, guard_class sg fg r = false ->
  forall e p, In e (decide_g sg fg r) -> destructive e = Some p -> exists_before r p = true -> force r = true.
Proof.
  intros sg fg r K e p He Hd Hx.
  pose proof no_clobber_any_guards_all as A.
  rewrite forallb_forall in A. assert (Is : In sg bools) by fin. specialize (A sg Is).
  rewrite forallb_forall in A. assert (If : In fg bools) by fin. specialize (A fg If).
  pose proof (lift _ A r) as H. cbv beta in H. rewrite K in H. simpl in H.
  unfold no_clobber_of in H. rewrite forallb_forall in H. specialize (H e He). rewrite Hd, Hx in H.
  destruct (force r); [reflexivity|discriminate].
Qed.

(* the behaviour before the repairs, stated about [decide_g false false] *)
Definition sidecar_witness : cli :=
  Build_cli true false OAbsent Different true false true SFile false false FNone false false false.
Definition frag_init_witness : cli :=
  Build_cli true false ODir Different true false false SAbsent false false FGlob true false false.

Lemma old_sidecar_refuted :
  realisable sidecar_witness = true /\ force sidecar_witness = false
  /\ In (Write PSidecar) (decide_g false true sidecar_witness) /\ exists_before sidecar_witness PSidecar = true
  /\ decide_g true true sidecar_witness = [Bail].
Proof. vm_compute. intuition. Qed.

Lemma old_frag_init_refuted :
  realisable frag_init_witness = true /\ force frag_init_witness = false
  /\ In (Write PFragInit) (decide_g true false frag_init_witness) /\ exists_before frag_init_witness PFragInit = true
  /\ decide_g true true frag_init_witness = [Write PFragSeg; Fail].
Proof. vm_compute. intuition. Qed.

(* on realisable records the old classes were exactly where the old decision clobbered *)
Lemma old_known_exact_all :
  forallb (fun r => implb (realisable r) (eqb (old_known r) (negb (no_clobber_of (decide_g false false) r)))) all_cli = true.
Proof. vm_compute. reflexivity. Qed.

Lemma old_known_exact : forall r, realisable r = true -> old_known r = negb (no_clobber_of (decide_g false false) r).
Proof.
  intros r R. pose proof (lift _ old_known_exact_all r) as H. cbv beta in H. rewrite R in H.
  destruct (old_known r), (no_clobber_of (decide_g false false) r); try reflexivity; discriminate H.
Qed.

(* a refusal by the tool itself (bail!) happens before anything is modified *)
Lemma bail_pure_all :
  forallb (fun r => implb (existsb (fun e => match e with Bail => true | _ => false end) (decide r))
                          (forallb (fun e => match destructive e with None => true | _ => false end) (decide r))) all_cli = true.
Proof. vm_compute. reflexivity. Qed.

Lemma bail_pure : forall r, In Bail (decide r) -> forall e, In e (decide r) -> destructive e = None.
Proof.
  intros r HB e He. pose proof (lift _ bail_pure_all r) as H. cbv beta in H.
  assert (X : existsb (fun e => match e with Bail => true | _ => false end) (decide r) = true).
  { apply existsb_exists. exists Bail. split; [exact HB|reflexivity]. }
  rewrite X in H. simpl in H. rewrite forallb_forall in H. specialize (H e He).
  destruct (destructive e); [discriminate|reflexivity].
Qed.

(* the sidecar path is only ever touched with --sidecar *)
Definition names (e : effect) (p : cpath) : bool :=
  match e with
  | Remove q | Write q | RemoveTree q | Mkdir q =>
      match p, q with
      | PIn, PIn | POut, POut | POutParent, POutParent | PSidecar, PSidecar | POutChild, POutChild
      | PFragDir, PFragDir | PFragSeg, PFragSeg | PFragInit, PFragInit => true
      | _, _ => false
      end
  | _ => false
  end.

Lemma sidecar_flag_all :
  forallb (fun r => implb (existsb (fun e => names e PSidecar) (decide r)) (sidecar r && has_manifest r)) all_cli = true.
Proof. vm_compute. reflexivity. Qed.

Lemma sidecar_flag : forall r e, In e (decide r) -> names e PSidecar = true -> sidecar r = true /\ has_manifest r = true.
Proof.
  intros r e He Hn. pose proof (lift _ sidecar_flag_all r) as H. cbv beta in H.
  assert (X : existsb (fun e => names e PSidecar) (decide r) = true) by (apply existsb_exists; eauto).
  rewrite X in H. simpl in H. apply andb_true_iff in H. exact H.
Qed.

(* the input file is never named by an effect unless the output is the input *)
Lemma input_kept_all :
  forallb (fun r => forallb (fun e => negb (names e PIn)) (decide r)) all_cli = true.
Proof. vm_compute. reflexivity. Qed.

Lemma input_kept : forall r e, In e (decide r) -> names e PIn = false.
Proof.
  intros r e He. pose proof (lift _ input_kept_all r) as H. cbv beta in H.
  rewrite forallb_forall in H. specialize (H e He). destruct (names e PIn); [discriminate|reflexivity].
Qed.
