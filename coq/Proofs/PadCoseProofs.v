(* Proofs/PadCoseProofs.v — C14: what pad_cose_sig does, exactly. *)
From Coq Require Import List NArith ZArith Bool Lia Arith ZifyBool ZifyNat ZifyN.
From C2PA Require Import Base.Bytes Base.Cbor Generated.C14_facts Model.PadCose Proofs.CborProofs.
Import ListNotations.
Open Scope N_scope.
Arguments N.add : simpl never.
Arguments N.sub : simpl never.
Arguments N.eqb : simpl never.
Arguments N.ltb : simpl never.
Arguments N.leb : simpl never.
Arguments N.to_nat : simpl never.

(* ------------------------------------------------------------------ generated constants *)
Lemma pad_offset_val : PAD_OFFSET = 7.
Proof. reflexivity. Qed.
Lemma pad2_sub_val : PAD2_SUB = 10.
Proof. reflexivity. Qed.
Lemma pad_label_size : label_size pad_label = 4.
Proof. vm_compute. reflexivity. Qed.
Lemma pad_pad_eq : label_eqb pad_label pad_label = true.
Proof. vm_compute. reflexivity. Qed.
Lemma pad2_pad2_eq : label_eqb pad2_label pad2_label = true.
Proof. vm_compute. reflexivity. Qed.
Lemma pad2_not_pad : label_eqb pad2_label pad_label = false.
Proof. vm_compute. reflexivity. Qed.

(* ------------------------------------------------------------------ labels, duplicates *)

(* some label of ls equals x *)
Definition hasl (x : label) (ls : list label) : bool := existsb (fun a => label_eqb a x) ls.
Definition has_pad (s : sign1) : bool := hasl pad_label (labels s).
Definition has_pad2 (s : sign1) : bool := hasl pad2_label (labels s).

Lemma has_dup_snoc : forall ls x, has_dup (ls ++ [x]) = has_dup ls || hasl x ls.
Proof.
  induction ls as [|a ls IH]; intros x; cbn [has_dup app hasl existsb]; [reflexivity|].
  unfold mem_label. rewrite existsb_app. cbn [existsb]. rewrite IH. unfold hasl.
  destruct (existsb (label_eqb a) ls), (label_eqb a x), (has_dup ls),
    (existsb (fun a0 => label_eqb a0 x) ls); reflexivity.
Qed.

Lemma hasl_snoc : forall ls x y, hasl x (ls ++ [y]) = hasl x ls || label_eqb y x.
Proof. intros. unfold hasl. rewrite existsb_app. cbn [existsb]. rewrite orb_false_r. reflexivity. Qed.

Lemma labels_push : forall s e, labels (push s e) = labels s ++ [fst e].
Proof. intros. unfold labels, push, with_rest. cbn [rest]. rewrite map_app. reflexivity. Qed.

Lemma entries_size_app : forall r1 r2, entries_size (r1 ++ r2) = entries_size r1 + entries_size r2.
Proof. induction r1 as [|e r1 IH]; intros; cbn [app entries_size]; [lia | rewrite IH; lia]. Qed.

Lemma len_snoc : forall {A} (l : list A) x, len (l ++ [x]) = len l + 1.
Proof. intros. unfold len. rewrite app_length. cbn [length]. lia. Qed.

Lemma ser_size_some : forall s c, ser_size s = Some c ->
  has_dup (labels s) = false /\ c = fixed s + map_hdr (count s) + entries_size (rest s).
Proof. intros s c H. unfold ser_size in H. destruct (has_dup (labels s)); [discriminate|]. injection H as <-. tauto. Qed.

Lemma ser_size_push : forall s l v,
  ser_size (push s (l, v)) =
  if has_dup (labels s) || hasl l (labels s) then None
  else Some (fixed s + map_hdr (count s + 1) + entries_size (rest s) + (label_size l + value_size v)).
Proof.
  intros. unfold ser_size. rewrite labels_push, has_dup_snoc. cbn [fst].
  destruct (has_dup (labels s) || hasl l (labels s)); [reflexivity|].
  unfold count, push, with_rest. cbn [fixed nfields rest]. rewrite len_snoc, entries_size_app.
  cbn [entries_size]. unfold entry_size. cbn [fst snd]. rewrite (N.add_assoc (nfields s)). f_equal. lia.
Qed.

(* ------------------------------------------------------------------ replace_pad *)

(* entries other than the two padding labels *)
Definition is_padding (e : entry) : bool :=
  label_eqb (fst e) pad_label || label_eqb (fst e) pad2_label.
Definition strip (r : list entry) : list entry := filter (fun e => negb (is_padding e)) r.

Lemma replace_pad_none : forall r g lp,
  hasl pad_label (map fst r) = false -> replace_pad r g lp = None.
Proof.
  induction r as [|[l v] r IH]; intros g lp H; cbn [replace_pad]; [reflexivity|].
  cbn [map fst hasl existsb] in H. apply orb_false_iff in H as [H1 H2].
  rewrite H1. rewrite IH by exact H2. reflexivity.
Qed.

Lemma replace_pad_some : forall r g lp,
  hasl pad_label (map fst r) = true ->
  exists r' lp', replace_pad r g lp = Some (r', lp')
    /\ map fst r' = map fst r /\ length r' = length r
    /\ bstr_size g <= entries_size r' /\ strip r' = strip r.
Proof.
  induction r as [|[l v] r IH]; intros g lp H; cbn [map fst hasl existsb] in H; [discriminate|].
  cbn [replace_pad]. destruct (label_eqb l pad_label) eqn:El.
  - eexists _, _. split; [reflexivity|]. cbn [map fst length entries_size]. unfold entry_size. cbn [fst snd value_size].
    repeat split; [lia|]. unfold strip. cbn [filter]. unfold is_padding. cbn [fst]. rewrite El. reflexivity.
  - cbn [orb] in H. destruct (IH g lp H) as (r' & lp' & -> & Hm & Hl & Hs & Hst).
    eexists _, _. split; [reflexivity|]. cbn [map fst length entries_size]. rewrite Hm, Hl.
    repeat split; [lia|]. unfold strip in *. cbn [filter]. rewrite Hst. reflexivity.
Qed.

Lemma strip_push_pad : forall r v, strip (r ++ [(pad_label, v)]) = strip r.
Proof. intros. unfold strip. rewrite filter_app. cbn [filter]. unfold is_padding. cbn [fst]. rewrite pad_pad_eq. cbn. apply app_nil_r. Qed.
Lemma strip_push_pad2 : forall r v, strip (r ++ [(pad2_label, v)]) = strip r.
Proof. intros. unfold strip. rewrite filter_app. cbn [filter]. unfold is_padding. cbn [fst]. rewrite pad2_pad2_eq, orb_true_r. cbn. apply app_nil_r. Qed.

(* ------------------------------------------------------------------ exactness *)

(* what an Ok result is allowed to differ in from the input: padding entries only *)
Definition same_but_padding (s s' : sign1) : Prop :=
  fixed s' = fixed s /\ nfields s' = nfields s /\ strip (rest s') = strip (rest s).

Lemma pad_loop_found : forall fuel s E g lp s' n,
  pad_loop fuel s E g lp = LFound s' n ->
  n = E /\ ser_size s' = Some E /\ same_but_padding s s'.
Proof.
  induction fuel as [|f IH]; intros s E g lp s' n H; cbn [pad_loop] in H; [discriminate|].
  destruct (replace_pad (rest s) g lp) as [[r' lp']|] eqn:ER; [|discriminate].
  destruct (ser_size (with_rest s r')) as [m|] eqn:ES; [|discriminate].
  destruct (m <? E) eqn:?; [eapply IH; eassumption|].
  destruct (m =? E) eqn:?; [|discriminate].
  injection H as <- <-. assert (m = E) as -> by lia. repeat split; try assumption.
  unfold with_rest. cbn [rest].
  destruct (hasl pad_label (map fst (rest s))) eqn:Hp.
  - destruct (replace_pad_some (rest s) g lp Hp) as (r2 & lp2 & E2 & _ & _ & _ & Hst).
    rewrite ER in E2. injection E2 as -> ->. exact Hst.
  - rewrite replace_pad_none in ER by exact Hp. discriminate.
Qed.

(* every Ok result has exactly the requested size (and is the serialisation of a structure that
   differs from the input in padding entries only) *)
Lemma pad_cose_exact : forall fuel s e s' n,
  pad_cose_sig fuel s e = POk s' n ->
  ser_size s' = Some n /\ (forall E, e = Some E -> n = E) /\ same_but_padding s s'.
Proof.
  induction fuel as [|f IH]; intros s e s' n H; cbn [pad_cose_sig] in H; [discriminate|].
  destruct (ser_size s) as [cur|] eqn:ES; [|discriminate].
  destruct e as [E|].
  2:{ injection H as <- <-. repeat split; try assumption. intros; discriminate. }
  destruct (cur =? E) eqn:?.
  { injection H as <- <-. repeat split; try assumption. intros E' [= <-]. lia. }
  destruct (E <? cur + PAD_OFFSET) eqn:?; [discriminate|].
  destruct (pad_loop _ s E (E - cur - PAD_OFFSET) 0) eqn:EL; try discriminate.
  - injection H as <- <-. apply pad_loop_found in EL as (-> & HS & HP).
    repeat split; try assumption; try apply HP. intros E' [= <-]. reflexivity.
  - apply IH in H as (H1 & H2 & H3 & H4 & H5). repeat split; try assumption.
    unfold push, with_rest in H5. cbn [rest] in H5. rewrite strip_push_pad in H5. exact H5.
  - destruct (last_pad <? PAD2_SUB); [discriminate|].
    apply IH in H as (H1 & H2 & H3 & H4 & H5). repeat split; try assumption.
    unfold push, with_rest in H5. cbn [rest] in H5. rewrite strip_push_pad2 in H5. exact H5.
Qed.

(* ------------------------------------------------------------------ characterisation (pad-free input) *)

(* the result for an input whose unprotected header has no "pad" entry yet: c0 = unpadded size *)
Definition cose_spec (s : sign1) (c0 E : N) : pres :=
  if c0 =? E then POk s c0
  else if E <? c0 + 7 then PErr BoxSizeTooSmall
  else
    let g := E - c0 - 7 in
    if hdr g + map_hdr (count s + 1) =? 3 + map_hdr (count s)
    then POk (push s (pad_label, VBytes g)) E
    else PErr BoxSizeTooSmall.

Lemma pad_loop_nopad : forall f s E g lp,
  has_pad s = false -> pad_loop (S f) s E g lp = LNoPad g.
Proof. intros. cbn [pad_loop]. rewrite replace_pad_none; [reflexivity | assumption]. Qed.

Lemma nat_plus_one : forall n : nat, (n + 1)%nat = S n.
Proof. intros; lia. Qed.

Lemma cose_char : forall f s c0 E,
  has_pad s = false -> ser_size s = Some c0 ->
  pad_cose_sig (S (S f)) s (Some E) = cose_spec s c0 E.
Proof.
  intros f s c0 E Hnp HS. unfold cose_spec.
  remember (S f) as f1. cbn [pad_cose_sig]. rewrite HS, pad_offset_val.
  destruct (c0 =? E) eqn:?; [reflexivity|].
  destruct (E <? c0 + 7) eqn:?; [reflexivity|].
  rewrite nat_plus_one, pad_loop_nopad by assumption.
  subst f1. cbn [pad_cose_sig]. rewrite ser_size_push.
  apply ser_size_some in HS as (Hd & Hc). rewrite Hd. fold (has_pad s). rewrite Hnp. cbn [orb].
  rewrite pad_label_size. cbn [value_size]. unfold bstr_size. rewrite pad_offset_val.
  set (g := E - c0 - 7). pose proof (hdr_range g).
  pose proof (hdr_range (count s)). pose proof (hdr_range (count s + 1)). unfold map_hdr in *.
  set (c1 := fixed s + hdr (count s + 1) + entries_size (rest s) + (4 + (hdr g + g))).
  destruct (hdr g + hdr (count s + 1) =? 3 + hdr (count s)) eqn:?.
  - assert (c1 = E) as -> by (unfold c1, g in *; lia). rewrite N.eqb_refl. reflexivity.
  - destruct (c1 =? E) eqn:?; [unfold c1, g in *; lia|].
    pose proof (hdr_mono (count s) (count s + 1)).
    destruct (E <? c1 + 7) eqn:?; [reflexivity | unfold c1, g in *; lia].
Qed.

(* the class of F-PADCOSE, for unprotected maps that stay below 24 entries (all real signers) *)
Definition known_gap (gap : N) : Prop := 1 <= gap <= 262 \/ 65543 <= gap.
Definition small_map (s : sign1) : Prop := count s + 1 < 24.

Lemma cose_ample_ok : forall s c0 E,
  has_pad s = false -> ser_size s = Some c0 -> small_map s ->
  c0 <= E -> ~ known_gap (E - c0) ->
  exists s', pad_cose_sig_top s (Some E) = POk s' E.
Proof.
  intros s c0 E Hnp HS Hsm Hle Hk. unfold pad_cose_sig_top. rewrite (cose_char _ s c0 E Hnp HS).
  unfold cose_spec, known_gap, small_map, map_hdr in *.
  destruct (c0 =? E) eqn:?; [exists s; f_equal; lia|].
  destruct (E <? c0 + 7) eqn:?; [lia|]. cbv zeta.
  hdr_split (E - c0 - 7). hdr_split (count s). hdr_split (count s + 1).
  destruct (hdr (E - c0 - 7) + hdr (count s + 1) =? 3 + hdr (count s)) eqn:?; [eexists; reflexivity | lia].
Qed.

Lemma cose_known_fails : forall s c0 E,
  has_pad s = false -> ser_size s = Some c0 -> small_map s ->
  c0 <= E -> known_gap (E - c0) ->
  pad_cose_sig_top s (Some E) = PErr BoxSizeTooSmall.
Proof.
  intros s c0 E Hnp HS Hsm Hle Hk. unfold pad_cose_sig_top. rewrite (cose_char _ s c0 E Hnp HS).
  unfold cose_spec, known_gap, small_map, map_hdr in *.
  destruct (c0 =? E) eqn:?; [lia|].
  destruct (E <? c0 + 7) eqn:?; [reflexivity|]. cbv zeta.
  hdr_split (E - c0 - 7). hdr_split (count s). hdr_split (count s + 1).
  destruct (hdr (E - c0 - 7) + hdr (count s + 1) =? 3 + hdr (count s)) eqn:?; [lia | reflexivity].
Qed.

Lemma cose_below_fails : forall s c0 E,
  has_pad s = false -> ser_size s = Some c0 -> E < c0 ->
  pad_cose_sig_top s (Some E) = PErr BoxSizeTooSmall.
Proof.
  intros s c0 E Hnp HS Hlt. unfold pad_cose_sig_top. rewrite (cose_char _ s c0 E Hnp HS).
  unfold cose_spec. destruct (c0 =? E) eqn:?; [lia|]. destruct (E <? c0 + 7) eqn:?; [reflexivity | lia].
Qed.

(* monotonicity outside the known class: a reserve above a succeeding one succeeds *)
Lemma cose_monotone_outside_known : forall s c0 E1 E2 s1,
  has_pad s = false -> ser_size s = Some c0 -> small_map s ->
  pad_cose_sig_top s (Some E1) = POk s1 E1 -> E1 <= E2 -> ~ known_gap (E2 - c0) ->
  exists s2, pad_cose_sig_top s (Some E2) = POk s2 E2.
Proof.
  intros s c0 E1 E2 s1 Hnp HS Hsm H1 Hle Hk.
  assert (c0 <= E1).
  { destruct (N.le_gt_cases c0 E1); [assumption|].
    rewrite (cose_below_fails s c0 E1) in H1 by assumption. discriminate. }
  apply (cose_ample_ok s c0 E2); try assumption. lia.
Qed.

(* the plain monotonicity clause of the property is false of the code: two witnesses *)
Definition wit : sign1 := Sign1 1229 0 [].
Lemma cose_monotone_refuted :
  exists s c0 E1 E2 E3 E4 s1 s3,
    has_pad s = false /\ small_map s /\ ser_size s = Some c0 /\
    c0 <= E1 /\ E1 < E2 /\ E2 < E3 /\ E3 < E4 /\
    pad_cose_sig_top s (Some E1) = POk s1 E1 /\
    pad_cose_sig_top s (Some E2) = PErr BoxSizeTooSmall /\
    pad_cose_sig_top s (Some E3) = POk s3 E3 /\
    pad_cose_sig_top s (Some E4) = PErr BoxSizeTooSmall.
Proof.
  exists wit, 1230, 1230, 1231, (1230 + 263), (1230 + 65543). eexists. eexists.
  repeat split; try (vm_compute; reflexivity); try (unfold small_map; vm_compute; reflexivity).
  vm_compute. intros [=].
Qed.

(* ------------------------------------------------------------------ no panic, termination *)

Lemma cose_spec_fine : forall s c0 E, cose_spec s c0 E <> PPanic /\ cose_spec s c0 E <> POutOfFuel.
Proof.
  intros. unfold cose_spec. destruct (c0 =? E); [split; discriminate|].
  destruct (E <? c0 + 7); [split; discriminate|]. cbv zeta.
  destruct (_ =? _); split; discriminate.
Qed.

(* for the inputs the SDK produces (no "pad" entry before padding): never a panic, never out of fuel *)
Lemma cose_no_panic : forall s e,
  has_pad s = false ->
  pad_cose_sig_top s e <> PPanic /\ pad_cose_sig_top s e <> POutOfFuel.
Proof.
  intros s e Hnp. unfold pad_cose_sig_top.
  destruct (ser_size s) as [c0|] eqn:HS.
  - destruct e as [E|].
    + rewrite (cose_char _ s c0 E Hnp HS). apply cose_spec_fine.
    + cbn [pad_cose_sig]. rewrite HS. split; discriminate.
  - cbn [pad_cose_sig]. rewrite HS. split; discriminate.
Qed.

(* a Sign1 that already carries a short "pad" can make the routine panic (usize underflow in
   `last_pad - 10`); the SDK never passes such a structure, the hook run confirms the model *)
Definition prepadded : sign1 := Sign1 73 0 [(pad_label, VBytes 0)].
Lemma cose_prepadded_panics :
  ser_size prepadded = Some 79 /\ pad_cose_sig_top prepadded (Some (79 + 24)) = PPanic.
Proof. vm_compute. split; reflexivity. Qed.

(* --- termination for every input: the inner loop's fuel suffices, the recursion depth is <= 4 *)

Lemma replace_pad_found_iff : forall r g lp,
  replace_pad r g lp = None -> hasl pad_label (map fst r) = false.
Proof.
  intros r g lp H. destruct (hasl pad_label (map fst r)) eqn:Hp; [|reflexivity].
  destruct (replace_pad_some r g lp Hp) as (? & ? & E & _). rewrite E in H. discriminate.
Qed.

Lemma pad_loop_fuel : forall fuel s E g lp,
  E <= g + N.of_nat fuel -> (1 <= fuel)%nat -> pad_loop fuel s E g lp <> LOutOfFuel.
Proof.
  induction fuel as [|f IH]; intros s E g lp HE Hf; [lia|]. cbn [pad_loop].
  destruct (replace_pad (rest s) g lp) as [[r' lp']|] eqn:ER; [|discriminate].
  destruct (ser_size (with_rest s r')) as [m|] eqn:ES; [|discriminate].
  destruct (m <? E) eqn:?; [|destruct (m =? E); discriminate].
  assert (g < m).
  { apply ser_size_some in ES as (_ & ->). unfold with_rest. cbn [fixed rest].
    assert (hasl pad_label (map fst (rest s)) = true) as Hp.
    { destruct (hasl pad_label (map fst (rest s))) eqn:Hp; [reflexivity|].
      rewrite replace_pad_none in ER by exact Hp. discriminate. }
    destruct (replace_pad_some (rest s) g lp Hp) as (r2 & lp2 & E2 & _ & _ & Hsz & _).
    rewrite ER in E2. injection E2 as -> ->. pose proof (bstr_gt g). lia. }
  apply IH; lia.
Qed.

Lemma pad_loop_nopad_inv : forall fuel s E g lp g',
  pad_loop fuel s E g lp = LNoPad g' -> has_pad s = false.
Proof.
  induction fuel as [|f IH]; intros s E g lp g' H; cbn [pad_loop] in H; [discriminate|].
  destruct (replace_pad (rest s) g lp) as [[r' lp']|] eqn:ER.
  - destruct (ser_size (with_rest s r')); [|discriminate].
    destruct (_ <? E); [eapply IH; eassumption|]. destruct (_ =? E); discriminate.
  - eapply replace_pad_found_iff; eassumption.
Qed.

Lemma pad_loop_break_inv : forall fuel s E g lp lp',
  pad_loop fuel s E g lp = LBreak lp' -> has_pad s = true.
Proof.
  induction fuel as [|f IH]; intros s E g lp lp' H; cbn [pad_loop] in H; [discriminate|].
  destruct (replace_pad (rest s) g lp) as [[r' lp2]|] eqn:ER; [|discriminate].
  destruct (has_pad s) eqn:Hp; [reflexivity|].
  unfold has_pad, labels in Hp. rewrite replace_pad_none in ER by exact Hp. discriminate.
Qed.

Lemma has_pad_push : forall s l v, has_pad s = true -> has_pad (push s (l, v)) = true.
Proof. intros. unfold has_pad in *. rewrite labels_push, hasl_snoc, H. reflexivity. Qed.
Lemma has_pad_push_pad : forall s v, has_pad (push s (pad_label, v)) = true.
Proof. intros. unfold has_pad. rewrite labels_push, hasl_snoc. cbn [fst]. rewrite pad_pad_eq. apply orb_true_r. Qed.
Lemma has_pad2_push_pad2 : forall s v, has_pad2 (push s (pad2_label, v)) = true.
Proof. intros. unfold has_pad2. rewrite labels_push, hasl_snoc. cbn [fst]. rewrite pad2_pad2_eq. apply orb_true_r. Qed.

(* common shape of one call: either it does not recurse, or it recurses on a pushed structure *)
Lemma call_cases : forall f s E,
  (pad_cose_sig (S f) s (Some E) <> POutOfFuel /\
   forall f', pad_cose_sig (S f') s (Some E) = pad_cose_sig (S f) s (Some E))
  \/ (exists g, has_pad s = false /\
        forall f', pad_cose_sig (S f') s (Some E) = pad_cose_sig f' (push s (pad_label, VBytes g)) (Some E))
  \/ (exists v, has_pad s = true /\ ser_size s <> None /\
        forall f', pad_cose_sig (S f') s (Some E) = pad_cose_sig f' (push s (pad2_label, v)) (Some E)).
Proof.
  intros f s E. cbn [pad_cose_sig].
  destruct (ser_size s) as [cur|] eqn:ES; [|left; split; [discriminate | reflexivity]].
  destruct (cur =? E) eqn:?; [left; split; [discriminate | reflexivity]|].
  destruct (E <? cur + PAD_OFFSET) eqn:?; [left; split; [discriminate | reflexivity]|].
  destruct (pad_loop _ s E (E - cur - PAD_OFFSET) 0) eqn:EL.
  - left; split; [discriminate | reflexivity].
  - right; left. exists g. split; [eapply pad_loop_nopad_inv; eassumption | reflexivity].
  - destruct (last_pad <? PAD2_SUB) eqn:?; [left; split; [discriminate | reflexivity]|].
    right; right. eexists. split; [eapply pad_loop_break_inv; eassumption|]. split; [discriminate | reflexivity].
  - left; split; [discriminate | reflexivity].
  - exfalso. revert EL. apply pad_loop_fuel; rewrite pad_offset_val in *; lia.
Qed.

(* depth 1: pad and pad2 both present *)
Lemma total_3 : forall f s E, has_pad s = true -> has_pad2 s = true ->
  pad_cose_sig (S (S f)) s (Some E) <> POutOfFuel.
Proof.
  intros f s E Hp Hp2.
  destruct (call_cases (S f) s E) as [[H _] | [(g & Hn & _) | (v & _ & _ & H)]]; [exact H | congruence|].
  rewrite H. cbn [pad_cose_sig]. rewrite ser_size_push. fold (has_pad2 s). rewrite Hp2, orb_true_r. discriminate.
Qed.

Lemma total_2 : forall f s E, has_pad s = true ->
  pad_cose_sig (S (S (S f))) s (Some E) <> POutOfFuel.
Proof.
  intros f s E Hp.
  destruct (call_cases (S (S f)) s E) as [[H _] | [(g & Hn & _) | (v & _ & _ & H)]]; [exact H | congruence|].
  rewrite H. apply total_3; [apply has_pad_push; assumption | apply has_pad2_push_pad2].
Qed.

Lemma cose_total : forall s e, pad_cose_sig_top s e <> POutOfFuel.
Proof.
  intros s [E|]; unfold pad_cose_sig_top.
  2:{ cbn [pad_cose_sig]. destruct (ser_size s); discriminate. }
  destruct (call_cases 4 s E) as [[H _] | [(g & Hn & H) | (v & Hp & _ & H)]]; [exact H | |].
  - rewrite H. apply total_2. apply has_pad_push_pad.
  - rewrite H.
    destruct (call_cases 3 (push s (pad2_label, v)) E) as [[H' _] | [(g & Hn & _) | (v' & _ & HS & H')]];
      [exact H' | rewrite has_pad_push in Hn by assumption; discriminate |].
    rewrite H'. cbn [pad_cose_sig]. rewrite ser_size_push.
    fold (has_pad2 (push s (pad2_label, v))). rewrite has_pad2_push_pad2, orb_true_r. discriminate.
Qed.
