From Coq Require Import List NArith Bool Lia ZifyBool ZifyNat ZifyN.
From C2PA Require Import Model.Embeddable.
Import ListNotations.
Open Scope N_scope.
Arguments N.add : simpl never.
Arguments N.ltb : simpl never.

Lemma chead_bounds n : 1 <= chead n <= 9.
Proof. unfold chead. repeat match goal with |- context [if ?b then _ else _] => destruct b end; lia. Qed.

Lemma chead_mono a b : a <= b -> chead a <= chead b.
Proof.
  intro H. unfold chead.
  destruct (a <? 24) eqn:A1; destruct (b <? 24) eqn:B1; try lia;
  destruct (a <? 256) eqn:A2; destruct (b <? 256) eqn:B2; try lia;
  destruct (a <? 65536) eqn:A3; destruct (b <? 65536) eqn:B3; try lia;
  destruct (a <? 4294967296) eqn:A4; destruct (b <? 4294967296) eqn:B4; lia.
Qed.

Lemma excl_size_bounds r : 16 <= excl_size r <= 32.
Proof. unfold excl_size. pose proof (chead_bounds (fst r)). pose proof (chead_bounds (snd r)). lia. Qed.

Lemma sum_sizes_bounds l : 16 * N.of_nat (length l) <= sum_sizes l <= 32 * N.of_nat (length l).
Proof.
  induction l as [|r t IH]; cbn [sum_sizes length]; [lia|].
  pose proof (excl_size_bounds r). lia.
Qed.

Lemma sum_sizes_repeat r k : sum_sizes (repeat r k) = N.of_nat k * excl_size r.
Proof. induction k as [|k IH]; cbn [repeat sum_sizes]; [lia|]. rewrite IH. lia. Qed.

(* the size contract: whatever is returned has exactly the placeholder length *)
Lemma same_or_error dummies K ex n :
  workflow true dummies K ex = SOk n -> n = jumbf_len K dummies.
Proof.
  unfold workflow, sign_embeddable. cbn [andb].
  destruct (jumbf_len K dummies <? jumbf_len K ex) eqn:E1; [discriminate|].
  destruct (jumbf_len K ex <? jumbf_len K dummies) eqn:E2; intro H; inversion H; lia.
Qed.

(* exact characterisation of success: the real exclusion list must not encode longer than the dummies *)
Lemma fits_iff dummies K ex :
  (exists n, workflow true dummies K ex = SOk n) <-> excls_size ex <= excls_size dummies.
Proof.
  unfold workflow, sign_embeddable, jumbf_len. cbn [andb]. split.
  - intros (n & H). destruct (K + excls_size dummies <? K + excls_size ex) eqn:E; [discriminate|]. lia.
  - intro H. replace (K + excls_size dummies <? K + excls_size ex) with false by lia.
    destruct (K + excls_size ex <? K + excls_size dummies); eauto.
Qed.

(* without the rejection the contract is false: 12 one-byte exclusions outgrow ten (0,2) dummies *)
Lemma longer_refuted :
  exists ex n, workflow false (dummy_list 10 0 2) 3355 ex = SOk n /\ jumbf_len 3355 (dummy_list 10 0 2) < n.
Proof.
  exists (repeat (10, 1) 12). eexists. split; [vm_compute; reflexivity|]. vm_compute. reflexivity.
Qed.

(* up to five exclusions with arbitrary 64-bit values always fit in ten (0,2) dummies *)
Lemma five_fit ex K :
  (length ex <= 5)%nat -> exists n, workflow true (dummy_list 10 0 2) K ex = SOk n.
Proof.
  intro H. apply fits_iff. unfold excls_size, dummy_list. rewrite sum_sizes_repeat, repeat_length.
  pose proof (sum_sizes_bounds ex).
  assert (Hc : chead (N.of_nat (length ex)) = 1) by (unfold chead; replace (N.of_nat (length ex) <? 24) with true by lia; reflexivity).
  rewrite Hc. change (chead (N.of_nat 10)) with 1. change (excl_size (0, 2)) with 16. lia.
Qed.

(* ... and six can fail *)
Lemma six_can_fail :
  exists ex, length ex = 6%nat /\ workflow true (dummy_list 10 0 2) 0 ex = SErr.
Proof. exists (repeat (4294967296, 4294967296) 6). split; vm_compute; reflexivity. Qed.

(* ten exclusions below 24 (the dummies' own size class) fit; any list that is pointwise no larger fits *)
Lemma pointwise_fit (dummies ex : list excl) K :
  length ex = length dummies ->
  Forall2 (fun a d => fst a <= fst d /\ snd a <= snd d) ex dummies ->
  exists n, workflow true dummies K ex = SOk n.
Proof.
  intros Hl H. apply fits_iff. unfold excls_size. rewrite Hl.
  assert (sum_sizes ex <= sum_sizes dummies).
  { clear Hl. induction H as [|a d ta td [H1 H2] _ IH]; cbn [sum_sizes]; [lia|].
    unfold excl_size. pose proof (chead_mono _ _ H1). pose proof (chead_mono _ _ H2). lia. }
  lia.
Qed.
