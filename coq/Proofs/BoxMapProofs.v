(* Proofs/BoxMapProofs.v — layout lemmas for tilings, and the PNG box map / object locations. *)
From Coq Require Import List NArith Bool Lia Arith Sorting.Sorted.
From Coq Require Import ZifyBool ZifyNat ZifyN.
From C2PA Require Import Base.Bytes Proofs.BytesProofs Generated.C12_facts Model.BoxMap.
Import ListNotations.
Open Scope N_scope.

Arguments N.add : simpl never.
Arguments N.sub : simpl never.
Arguments N.eqb : simpl never.
Arguments N.ltb : simpl never.
Arguments N.leb : simpl never.
Arguments N.mul : simpl never.

(* ---------------------------------------------------------------- tilings *)

Definition span_end (m : list entry) : N := fold_right (fun e acc => N.max (eend e) acc) 0 m.

Lemma chain_app a m1 m2 :
  chain a (m1 ++ m2) = match chain a m1 with Some b => chain b m2 | None => None end.
Proof.
  revert a; induction m1 as [|e t IH]; intros a; cbn [chain app]; auto.
  destruct (estart e =? a); auto.
Qed.

Lemma chain_le m : forall a b, chain a m = Some b -> a <= b.
Proof.
  induction m as [|e t IH]; intros a b H; cbn [chain] in H.
  - inversion H; lia.
  - destruct (estart e =? a) eqn:Es; [|discriminate].
    apply IH in H. unfold eend in H. lia.
Qed.

Lemma chain_bounds m : forall a b, chain a m = Some b ->
  Forall (fun e => a <= estart e /\ eend e <= b) m.
Proof.
  induction m as [|e t IH]; intros a b H; cbn [chain] in H; constructor.
  - destruct (estart e =? a) eqn:Es; [|discriminate].
    pose proof (chain_le _ _ _ H). lia.
  - destruct (estart e =? a) eqn:Es; [|discriminate].
    apply IH in H. eapply Forall_impl; [|exact H]. cbn beta. intros x [Hx1 Hx2]. unfold eend in *. lia.
Qed.

Lemma chain_sorted m : forall a b, chain a m = Some b ->
  StronglySorted (fun x y => estart x <= estart y) m.
Proof.
  induction m as [|e t IH]; intros a b H; cbn [chain] in H; constructor.
  - destruct (estart e =? a); [|discriminate]. eauto.
  - destruct (estart e =? a) eqn:Es; [|discriminate].
    apply chain_bounds in H. eapply Forall_impl; [|exact H]. cbn beta. intros x [Hx1 Hx2]. unfold eend in *. lia.
Qed.

(* every earlier entry ends before every later entry starts: ordered and non-overlapping *)
Lemma chain_disjoint m : forall a b, chain a m = Some b ->
  ForallOrdPairs (fun x y => eend x <= estart y) m.
Proof.
  induction m as [|e t IH]; intros a b H; cbn [chain] in H; constructor.
  - destruct (estart e =? a) eqn:Es; [|discriminate].
    apply chain_bounds in H. eapply Forall_impl; [|exact H]. cbn beta. intros x [Hx1 Hx2]. lia.
  - destruct (estart e =? a); [|discriminate]. eauto.
Qed.

Lemma chain_cover_none m : forall a b i, chain a m = Some b -> i < a \/ b <= i -> cover_count i m = 0%nat.
Proof.
  induction m as [|e t IH]; intros a b i H Hi; auto.
  cbn [chain] in H. destruct (estart e =? a) eqn:Es; [|discriminate].
  pose proof (chain_le _ _ _ H) as Hle.
  unfold cover_count in *. cbn [filter].
  assert (containsb i e = false) as ->. { unfold containsb, eend in *. lia. }
  eapply IH; [exact H|]. unfold eend in *. lia.
Qed.

Lemma chain_cover_once m : forall a b i, chain a m = Some b -> a <= i < b -> cover_count i m = 1%nat.
Proof.
  induction m as [|e t IH]; intros a b i H Hi; cbn [chain] in H.
  - inversion H; lia.
  - destruct (estart e =? a) eqn:Es; [|discriminate].
    unfold cover_count in *. cbn [filter].
    destruct (containsb i e) eqn:C.
    + cbn [length]. f_equal. change (cover_count i t = 0%nat).
      eapply chain_cover_none; [exact H|]. unfold containsb in C. lia.
    + eapply IH; [exact H|]. unfold containsb, eend in *. lia.
Qed.

Lemma chain_span m : forall a b, chain a m = Some b -> N.max a (span_end m) = b.
Proof.
  induction m as [|e t IH]; intros a b H; cbn [chain] in H; cbn [span_end fold_right].
  - inversion H; lia.
  - destruct (estart e =? a) eqn:Es; [|discriminate].
    pose proof (chain_le _ _ _ H). apply IH in H. fold (span_end t). unfold eend in *. lia.
Qed.

(* ---------------------------------------------------------------- PNG: chunk positions form a chain inside the file *)

Fixpoint cchain (cur : N) (cs : list chunk) : option N :=
  match cs with
  | [] => Some cur
  | c :: t => if cstart c =? cur then cchain (cend c) t else None
  end.

Lemma len_skipn {A} (l : list A) k : k <= len l -> len (skipn (N.to_nat k) l) = len l - k.
Proof. unfold len. rewrite skipn_length. lia. Qed.

Lemma png_chunks_chain fuel total : forall pos rest cs,
  png_chunks fuel total pos rest = Ok cs ->
  exists e, cchain pos cs = Some e /\ e <= pos + len rest /\ cs <> [].
Proof.
  induction fuel as [|f IH]; intros pos rest cs H; cbn [png_chunks] in H; [discriminate|].
  destruct rest as [|l0 [|l1 [|l2 [|l3 r1]]]]; try discriminate.
  destruct r1 as [|n0 [|n1 [|n2 [|n3 r2]]]]; try discriminate.
  set (ln := de [l0; l1; l2; l3]) in *.
  destruct (ln + 4 <=? len r2) eqn:Hl; [|discriminate].
  destruct (utf8_ok [n0; n1; n2; n3]); [|discriminate].
  destruct (beq [n0; n1; n2; n3] PNG_END || (total <? pos + ln + PNG_HDR_LEN)) eqn:Hstop.
  - inversion H; subst cs. cbn [cchain cstart].
    rewrite N.eqb_refl. eexists; split; [reflexivity|]. split; [|discriminate].
    rewrite !len_cons. unfold cend, PNG_HDR_LEN. cbn [cstart clength]. lia.
  - destruct (png_chunks f total (pos + ln + PNG_HDR_LEN) (skipn (N.to_nat (ln + 4)) r2)) as [cs'| |] eqn:R;
      try discriminate.
    inversion H; subst cs.
    apply IH in R. destruct R as (e & Hc & He & _).
    cbn [cchain cstart]. rewrite N.eqb_refl. unfold cend at 1. cbn [cstart clength].
    exists e; split; [exact Hc|]. split; [|discriminate].
    rewrite len_skipn in He by lia. rewrite !len_cons. unfold PNG_HDR_LEN in *. lia.
Qed.

Lemma png_positions_chain b cs :
  png_positions b = Ok cs -> exists e, cchain 8 cs = Some e /\ e <= len b /\ cs <> [].
Proof.
  unfold png_positions. intros H.
  destruct (len b <? 8) eqn:Hb; [discriminate|].
  destruct (beq (firstn 8 b) PNG_ID); [|discriminate].
  apply png_chunks_chain in H. destruct H as (e & Hc & He & Hn).
  exists e; repeat split; auto.
  unfold len in *. rewrite skipn_length in He. lia.
Qed.

Lemma cchain_entries h : forall cs cur e,
  cchain cur cs = Some e -> chain cur (flat_map (png_entries_of h) cs) = Some e.
Proof.
  induction cs as [|c t IH]; intros cur e H; cbn [cchain] in H; cbn [flat_map]; auto.
  destruct (cstart c =? cur) eqn:Es; [|discriminate].
  rewrite chain_app. unfold png_entries_of.
  assert (cstart c + (clength c + PNG_HDR_LEN) = cend c) as A by (unfold cend; lia).
  destruct (is_cai c).
  - cbn [chain estart]. rewrite Es. unfold eend; cbn [estart elen]. rewrite A. apply IH. exact H.
  - destruct (negb h && is_ihdr c); cbn [chain estart]; rewrite Es; unfold eend; cbn [estart elen]; rewrite A.
    + rewrite N.eqb_refl. replace (cend c + 0) with (cend c) by lia. apply IH; exact H.
    + apply IH. exact H.
Qed.

Theorem png_tiling b m :
  png_box_map b = Ok m -> exists e, chain 0 m = Some e /\ 8 <= e <= len b.
Proof.
  unfold png_box_map. destruct (png_positions b) as [cs| |] eqn:P; try discriminate.
  intros H; inversion H; subst m; clear H.
  destruct (png_positions_chain _ _ P) as (e & Hc & He & Hn).
  exists e. split.
  - unfold png_map_of. cbn [chain estart eend elen]. rewrite N.eqb_refl.
    unfold eend; cbn [estart elen]. unfold PNGH_LEN. apply cchain_entries. exact Hc.
  - split; [|exact He].
    destruct cs as [|c t]; [congruence|]. cbn [cchain] in Hc.
    destruct (cstart c =? 8) eqn:E8; [|discriminate].
    assert (forall cs a e, cchain a cs = Some e -> a <= e) as L.
    { clear. induction cs as [|c t IH]; intros a e H; cbn [cchain] in H.
      - inversion H; lia.
      - destruct (cstart c =? a) eqn:E; [|discriminate]. apply IH in H. unfold cend, PNG_HDR_LEN in H. lia. }
    apply L in Hc. unfold cend, PNG_HDR_LEN in Hc. lia.
Qed.

Definition sorted_map (m : list entry) := StronglySorted (fun x y => estart x <= estart y) m.
Definition disjoint_map (m : list entry) := ForallOrdPairs (fun x y => eend x <= estart y) m.
Definition in_file (n : N) (m : list entry) := Forall (fun e => eend e <= n) m.

Theorem png_sorted b m : png_box_map b = Ok m -> sorted_map m.
Proof. intros H. destruct (png_tiling _ _ H) as (e & Hc & _). eapply chain_sorted; eauto. Qed.

Theorem png_disjoint b m : png_box_map b = Ok m -> disjoint_map m.
Proof. intros H. destruct (png_tiling _ _ H) as (e & Hc & _). eapply chain_disjoint; eauto. Qed.

Theorem png_in_file b m : png_box_map b = Ok m -> in_file (len b) m.
Proof.
  intros H. destruct (png_tiling _ _ H) as (e & Hc & He).
  apply chain_bounds in Hc. eapply Forall_impl; [|exact Hc]. cbn beta. intros x [_ Hx]. lia.
Qed.

(* every byte up to the end of the last chunk is in exactly one entry, every byte after it in none *)
Theorem png_cover b m :
  png_box_map b = Ok m ->
  span_end m <= len b
  /\ (forall i, i < span_end m -> cover_count i m = 1%nat)
  /\ (forall i, span_end m <= i -> cover_count i m = 0%nat).
Proof.
  intros H. destruct (png_tiling _ _ H) as (e & Hc & He).
  pose proof (chain_span _ _ _ Hc) as Hs.
  assert (span_end m = e) as -> by lia.
  repeat split; [lia| |].
  - intros i Hi. eapply chain_cover_once; eauto. lia.
  - intros i Hi. eapply chain_cover_none; eauto.
Qed.

Definition trailing (n : N) (m : list entry) : Prop := span_end m < n.

Theorem png_cover_full b m :
  png_box_map b = Ok m -> ~ trailing (len b) m -> forall i, i < len b -> cover_count i m = 1%nat.
Proof.
  intros H Ht i Hi. destruct (png_cover _ _ H) as (Hle & Hin & _).
  apply Hin. unfold trailing in Ht. lia.
Qed.

(* ---------------------------------------------------------------- PNG object locations *)

Lemma cchain_bounds cs : forall a e, cchain a cs = Some e -> Forall (fun c => a <= cstart c /\ cend c <= e) cs.
Proof.
  induction cs as [|c t IH]; intros a e H; cbn [cchain] in H; constructor.
  - destruct (cstart c =? a) eqn:E; [|discriminate].
    assert (forall cs a e, cchain a cs = Some e -> a <= e) as L.
    { clear. induction cs as [|c t IH]; intros a e H; cbn [cchain] in H.
      - inversion H; lia.
      - destruct (cstart c =? a) eqn:E; [|discriminate]. apply IH in H. unfold cend, PNG_HDR_LEN in H. lia. }
    apply L in H. unfold cend, PNG_HDR_LEN in *. lia.
  - destruct (cstart c =? a) eqn:E; [|discriminate].
    apply IH in H. eapply Forall_impl; [|exact H]. cbn beta. intros x [H1 H2]. unfold cend, PNG_HDR_LEN in *. lia.
Qed.

Lemma find_some_in {A} (f : A -> bool) l x : find f l = Some x -> In x l.
Proof. intros H. apply find_some in H. tauto. Qed.

Lemma insert_after_ihdr_bounds ps : forall ps' n,
  insert_after_ihdr ps = Some ps' ->
  Forall (fun c => cend c <= n) ps ->
  Forall (fun c => cend c <= n + PNG_HDR_LEN) ps'.
Proof.
  induction ps as [|c t IH]; intros ps' n H F; cbn [insert_after_ihdr] in H; [discriminate|].
  inversion F as [|? ? Fc Ft]; subst.
  destruct (is_ihdr c).
  - inversion H; subst ps'. constructor; [lia|]. constructor.
    + unfold cend in *. cbn [cstart clength]. lia.
    + eapply Forall_impl; [|exact Ft]. cbn beta. intros; lia.
  - destruct (insert_after_ihdr t) as [t'|] eqn:I; [|discriminate]. inversion H; subst ps'.
    constructor; [lia|]. eapply IH; eauto.
Qed.

(* the three regions tile [0, total): the manifest region is inside and disjoint from the other two;
   total is the file length, plus the 12-byte placeholder chunk when the file has no manifest yet *)
Theorem png_locations_spec b ls :
  png_locations b = Ok ls ->
  exists ps o l r,
    png_positions b = Ok ps
    /\ ls = [L o l Cai; L 0 o Other; L (o + l) r Other]
    /\ o + l + r = (if existsb is_cai ps then len b else len b + PNG_HDR_LEN)
    /\ PNG_HDR_LEN <= l /\ 8 <= o.
Proof.
  unfold png_locations. destruct (png_positions b) as [ps| |] eqn:P; try discriminate.
  destruct (png_positions_chain _ _ P) as (e & Hc & He & _).
  pose proof (cchain_bounds _ _ _ Hc) as HB.
  intros H.
  destruct (existsb is_cai ps) eqn:X.
  - destruct (find is_cai ps) as [pcp|] eqn:F; [|discriminate].
    destruct (len b <? cend pcp) eqn:Hlt; [discriminate|].
    inversion H; subst ls.
    pose proof (find_some_in _ _ _ F) as Hin. rewrite Forall_forall in HB. specialize (HB _ Hin).
    exists ps, (cstart pcp), (clength pcp + PNG_HDR_LEN), (len b - cend pcp).
    repeat split; auto.
    + f_equal. f_equal. f_equal. f_equal. unfold cend. lia.
    + rewrite ?X. unfold cend in *. lia.
    + lia.
    + lia.
  - destruct (insert_after_ihdr ps) as [ps'|] eqn:I; [|discriminate].
    destruct (find is_cai ps') as [pcp|] eqn:F; [|discriminate].
    destruct (len b + PNG_HDR_LEN <? cend pcp) eqn:Hlt; [discriminate|].
    inversion H; subst ls.
    exists ps, (cstart pcp), (clength pcp + PNG_HDR_LEN), (len b + PNG_HDR_LEN - cend pcp).
    repeat split; auto.
    + f_equal. f_equal. f_equal. f_equal. unfold cend. lia.
    + rewrite ?X. unfold cend in *. lia.
    + lia.
    + (* 8 <= cstart pcp: pcp is an original chunk or the placeholder placed at the end of IHDR *)
      assert (Forall (fun c => 8 <= cstart c) ps) as F8.
      { eapply Forall_impl; [|exact HB]. cbn beta. intros x [Hx _]. exact Hx. }
      assert (forall ps ps', insert_after_ihdr ps = Some ps' -> Forall (fun c => 8 <= cstart c) ps ->
                             Forall (fun c => 8 <= cstart c) ps') as LI.
      { clear. induction ps as [|c t IH]; intros ps' H F; cbn [insert_after_ihdr] in H; [discriminate|].
        inversion F as [|? ? Fc Ft]; subst.
        destruct (is_ihdr c).
        - inversion H; subst. constructor; auto. constructor; auto. cbn [cstart]. unfold cend, PNG_HDR_LEN. lia.
        - destruct (insert_after_ihdr t) eqn:I; [|discriminate]. inversion H; subst. constructor; auto. }
      pose proof (LI _ _ I F8) as F8'. rewrite Forall_forall in F8'. apply F8'. eapply find_some_in; eauto.
Qed.

(* the usize subtraction in get_object_locations_from_stream never underflows *)
Theorem png_locations_no_panic b : png_locations b <> Panic.
Proof.
  unfold png_locations. destruct (png_positions b) as [ps| |] eqn:P; try discriminate.
  - destruct (png_positions_chain _ _ P) as (e & Hc & He & _).
    pose proof (cchain_bounds _ _ _ Hc) as HB.
    assert (Forall (fun c => cend c <= len b) ps) as FB.
    { eapply Forall_impl; [|exact HB]. cbn beta. intros x [_ Hx]. lia. }
    destruct (existsb is_cai ps).
    + destruct (find is_cai ps) as [pcp|] eqn:F; [|discriminate].
      pose proof (find_some_in _ _ _ F) as Hin. rewrite Forall_forall in FB. specialize (FB _ Hin).
      destruct (len b <? cend pcp) eqn:Hlt; [lia|discriminate].
    + destruct (insert_after_ihdr ps) as [ps'|] eqn:I; [|discriminate].
      pose proof (insert_after_ihdr_bounds _ _ _ I FB) as FB'.
      destruct (find is_cai ps') as [pcp|] eqn:F; [|discriminate].
      pose proof (find_some_in _ _ _ F) as Hin. rewrite Forall_forall in FB'. specialize (FB' _ Hin).
      destruct (len b + PNG_HDR_LEN <? cend pcp) eqn:Hlt; [lia|discriminate].
  - (* png_positions never panics *)
    exfalso. unfold png_positions in P.
    destruct (len b <? 8); [discriminate|]. destruct (beq (firstn 8 b) PNG_ID); [|discriminate].
    revert P. generalize (S (length b)) (len b) 8 (skipn 8 b).
    induction n as [|f IH]; intros total pos rest H; cbn [png_chunks] in H; [discriminate|].
    destruct rest as [|l0 [|l1 [|l2 [|l3 r1]]]]; try discriminate.
    destruct r1 as [|n0 [|n1 [|n2 [|n3 r2]]]]; try discriminate.
    destruct (de [l0; l1; l2; l3] + 4 <=? len r2); [|discriminate].
    destruct (utf8_ok [n0; n1; n2; n3]); [|discriminate].
    destruct (beq [n0; n1; n2; n3] PNG_END || (total <? pos + de [l0; l1; l2; l3] + PNG_HDR_LEN)); [discriminate|].
    destruct (png_chunks f total _ _) eqn:R; try discriminate. eapply IH; eauto.
Qed.


(* ---------------------------------------------------------------- the file as signature ++ encoded chunks ++ trailer *)

Definition wf_pchunk (c : pchunk) : Prop :=
  length (pname c) = 4%nat /\ utf8_ok (pname c) = true /\ length (pcrc c) = 4%nat /\ len (pdata c) < 4294967296.

(* every chunk but the last is not IEND, the last one is *)
Fixpoint iend_last (cs : list pchunk) : Prop :=
  match cs with
  | [] => False
  | [c] => beq (pname c) PNG_END = true
  | c :: t => beq (pname c) PNG_END = false /\ iend_last t
  end.

Lemma de_be4 n : n < 4294967296 -> de (be 4 n) = n.
Proof.
  intros H. cbn [be app]. unfold de. cbn [de_acc].
  assert (n / 256 < 16777216) by (apply N.div_lt_upper_bound; lia).
  assert (n / 256 / 256 < 65536) by (apply N.div_lt_upper_bound; lia).
  assert (n / 256 / 256 / 256 < 256) by (apply N.div_lt_upper_bound; lia).
  rewrite (N.mod_small (n / 256 / 256 / 256) 256) by lia.
  pose proof (N.div_mod' n 256). pose proof (N.div_mod' (n / 256) 256). pose proof (N.div_mod' (n / 256 / 256) 256).
  lia.
Qed.

Lemma list4 {A} (l : list A) : length l = 4%nat -> exists a b c d, l = [a; b; c; d].
Proof. destruct l as [|a [|b [|c [|d [|e l]]]]]; cbn; intros H; try discriminate. eauto. Qed.

Lemma png_chunks_encoded : forall cs fuel total pos tr ps,
  Forall wf_pchunk cs -> iend_last cs ->
  total = pos + len (concat (map enc_chunk cs) ++ tr) ->
  png_chunks fuel total pos (concat (map enc_chunk cs) ++ tr) = Ok ps ->
  cchain pos ps = Some (pos + len (concat (map enc_chunk cs))).
Proof.
  induction cs as [|c t IH]; intros fuel total pos tr ps W I T H; [destruct I|].
  revert T H. inversion W as [|? ? Wc Wt]; subst. intros T H.
  destruct Wc as (Ln & Un & Lc & Ld).
  destruct (list4 _ Ln) as (n0 & n1 & n2 & n3 & En). destruct (list4 _ Lc) as (c0 & c1 & c2 & c3 & Ec).
  destruct fuel as [|f]; [discriminate|].
  cbn [map concat] in *. unfold enc_chunk at 1 in H. rewrite En in H.
  pose proof (de_be4 _ Ld) as D.
  remember (be 4 (len (pdata c))) as hd eqn:Hhd.
  assert (exists l0 l1 l2 l3, hd = [l0; l1; l2; l3]) as (l0 & l1 & l2 & l3 & Eh).
  { apply list4. subst hd. apply be_length. }
  rewrite Eh in H, D. rewrite <- !app_assoc in H. cbn [app png_chunks] in H. rewrite D in H.
  set (rest := concat (map enc_chunk t) ++ tr) in *.
  assert (len (pdata c) + 4 <=? len (pdata c ++ pcrc c ++ rest) = true) as Hle.
  { unfold len. rewrite !app_length, Lc. lia. }
  rewrite Hle in H. rewrite <- En in H. rewrite Un in H. rewrite En in H.
  assert (len (enc_chunk c) = len (pdata c) + PNG_HDR_LEN) as Lenc.
  { unfold enc_chunk, len. rewrite !app_length, be_length, Ln, Lc. unfold PNG_HDR_LEN. lia. }
  assert (skipn (N.to_nat (len (pdata c) + 4)) (pdata c ++ pcrc c ++ rest) = rest) as Hsk.
  { rewrite app_assoc. rewrite skipn_app.
    assert (N.to_nat (len (pdata c) + 4) = length (pdata c ++ pcrc c)) as -> by (rewrite app_length, Lc; unfold len; lia).
    rewrite skipn_all, Nat.sub_diag. reflexivity. }
  rewrite Hsk in H.
  destruct t as [|cnext tnext].
  - (* last chunk: IEND *)
    cbn [iend_last] in I. rewrite <- En in H. rewrite I in H. cbn [orb] in H. inversion H; subst ps.
    cbn [cchain cstart]. rewrite N.eqb_refl. unfold cend; cbn [cstart clength].
    cbn [map concat]. rewrite app_nil_r, Lenc. f_equal. lia.
  - destruct I as [I It]. rewrite <- En in H. rewrite I in H. cbn [orb] in H.
    assert ((total <? pos + len (pdata c) + PNG_HDR_LEN) = false) as Hnt.
    { subst total. rewrite !len_app, Lenc. lia. }
    rewrite Hnt in H.
    destruct (png_chunks f total (pos + len (pdata c) + PNG_HDR_LEN) rest) as [ps'| |] eqn:R; try discriminate.
    inversion H; subst ps.
    apply IH in R; auto.
    + cbn [cchain cstart]. rewrite N.eqb_refl. unfold cend; cbn [cstart clength]. rewrite R.
      rewrite len_app, Lenc. f_equal. lia.
    + subst total. unfold rest. rewrite !len_app, Lenc. lia.
Qed.

(* for a well-formed chunk list the map ends exactly where the trailer begins:
   the class [trailing] is precisely "bytes after IEND" *)
Theorem png_file_span cs tr m :
  Forall wf_pchunk cs -> iend_last cs ->
  png_box_map (png_file cs tr) = Ok m ->
  span_end m + len tr = len (png_file cs tr) /\ (trailing (len (png_file cs tr)) m <-> tr <> []).
Proof.
  intros W I H.
  destruct (png_tiling _ _ H) as (e & Hc & He).
  pose proof (chain_span _ _ _ Hc) as Hs. assert (span_end m = e) as Es by lia.
  unfold png_box_map in H. destruct (png_positions (png_file cs tr)) as [ps| |] eqn:P; try discriminate.
  inversion H; subst m.
  unfold png_positions in P.
  destruct (len (png_file cs tr) <? 8); [discriminate|].
  destruct (beq (firstn 8 (png_file cs tr)) PNG_ID); [|discriminate].
  change (skipn 8 (png_file cs tr)) with (concat (map enc_chunk cs) ++ tr) in P.
  apply png_chunks_encoded in P; auto.
  2:{ unfold png_file. rewrite len_app. reflexivity. }
  unfold png_map_of in Hc. cbn [chain estart] in Hc. rewrite N.eqb_refl in Hc.
  unfold eend in Hc; cbn [estart elen] in Hc.
  assert (chain 8 (flat_map (png_entries_of (existsb is_cai ps)) ps) = Some (8 + len (concat (map enc_chunk cs)))) as Hc2.
  { apply cchain_entries. exact P. }
  change (0 + PNGH_LEN) with 8 in Hc. rewrite Hc2 in Hc. inversion Hc; subst e.
  assert (len (png_file cs tr) = 8 + len (concat (map enc_chunk cs)) + len tr) as Lf.
  { unfold png_file. rewrite !len_app. change (len PNG_ID) with 8. lia. }
  split; [lia|]. unfold trailing. rewrite Lf. split.
  - intros Hl Hn. subst tr. rewrite len_nil in Hl. lia.
  - intros Hn. destruct tr; [congruence|]. rewrite len_cons. lia.
Qed.

(* ---------------------------------------------------------------- witnesses *)

(* signature, IHDR (0 data bytes), IEND, then one byte after IEND *)
Definition png_trailing_witness : bytes :=
  PNG_ID ++ [0;0;0;0;73;72;68;82;1;2;3;4] ++ [0;0;0;0;73;69;78;68;5;6;7;8] ++ [42].

Theorem png_trailing_refuted :
  exists b m, png_box_map b = Ok m /\ trailing (len b) m /\ exists i, i < len b /\ cover_count i m = 0%nat.
Proof.
  exists png_trailing_witness. eexists. split; [vm_compute; reflexivity|].
  split; [vm_compute; reflexivity|]. exists 32. split; vm_compute; reflexivity.
Qed.
