(* Proofs/PadDataProofs.v — C14: DataHash::pad_to_size reaches exactly every target size. *)
From Coq Require Import List NArith Bool Lia Arith ZifyBool ZifyNat ZifyN.
From C2PA Require Import Base.Bytes Base.Cbor Generated.C14_facts Model.PadData Proofs.CborProofs.
Import ListNotations.
Open Scope N_scope.
Arguments N.add : simpl never.
Arguments N.sub : simpl never.
Arguments N.eqb : simpl never.
Arguments N.ltb : simpl never.
Arguments N.leb : simpl never.
Arguments N.div : simpl never.
Arguments N.to_nat : simpl never.

(* the generated constants the arithmetic below depends on *)
Lemma pad2_key_size : tstr_size (len DH_PAD2_KEY) = 5.
Proof. vm_compute. reflexivity. Qed.
Lemma pad2_div : DH_PAD2_DIV = 2.
Proof. reflexivity. Qed.

(* size of everything but the pad byte string *)
Definition around (b : N) (q : option N) : N :=
  b + match q with Some x => pad2_entry_size x | None => 0 end.

Lemma dh_size_eq : forall b p q, dh_size (DH b p q) = around b q + bstr_size p.
Proof. intros. unfold dh_size, around. cbn [dbase dpad dpad2]. lia. Qed.

(* ---------------------------------------------------------------- the loop *)

Lemma dh_loop_exact : forall (j : nat) b p q desired lp (fuel : nat),
  around b q + bstr_size (p + N.of_nat j) = desired -> (j < fuel)%nat ->
  dh_loop fuel (DH b p q) desired lp = DLDone (DH b (p + N.of_nat j) q).
Proof.
  induction j as [|j IH]; intros b p q desired lp fuel Hd Hf;
    (destruct fuel as [|f]; [lia|]); cbn [dh_loop]; rewrite dh_size_eq.
  - replace (p + N.of_nat 0) with p in * by lia.
    destruct (around b q + bstr_size p =? desired) eqn:?; [reflexivity | lia].
  - pose proof (bstr_strict_mono p (p + N.of_nat (S j))).
    destruct (around b q + bstr_size p =? desired) eqn:?; [lia|].
    destruct (around b q + bstr_size p <? desired) eqn:?; [|lia].
    unfold set_pad. cbn [dbase dpad dpad2].
    rewrite (IH b (p + 1) q desired (lp + 1) f); [f_equal; f_equal; lia | | lia].
    rewrite <- Hd. f_equal. f_equal. lia.
Qed.

Lemma dh_loop_over : forall (j : nat) b p q desired lp (fuel : nat),
  desired < around b q + bstr_size (p + N.of_nat j) ->
  (j = O \/ around b q + bstr_size (p + N.of_nat j - 1) < desired) -> (j < fuel)%nat ->
  dh_loop fuel (DH b p q) desired lp = DLOver (lp + N.of_nat j).
Proof.
  induction j as [|j IH]; intros b p q desired lp fuel Hd Hp Hf;
    (destruct fuel as [|f]; [lia|]); cbn [dh_loop]; rewrite dh_size_eq.
  - replace (p + N.of_nat 0) with p in * by lia.
    destruct (around b q + bstr_size p =? desired) eqn:?; [lia|].
    destruct (around b q + bstr_size p <? desired) eqn:?; [lia|]. f_equal. lia.
  - destruct Hp as [|Hp]; [lia|].
    pose proof (bstr_mono p (p + N.of_nat (S j) - 1)).
    destruct (around b q + bstr_size p =? desired) eqn:?; [lia|].
    destruct (around b q + bstr_size p <? desired) eqn:?; [|lia].
    unfold set_pad. cbn [dbase dpad dpad2].
    rewrite (IH b (p + 1) q desired (lp + 1) f); [f_equal; lia | | | lia].
    + replace (p + 1 + N.of_nat j) with (p + N.of_nat (S j)) by lia. assumption.
    + destruct j; [left; reflexivity | right].
      replace (p + 1 + N.of_nat (S j) - 1) with (p + N.of_nat (S (S j)) - 1) by lia. assumption.
Qed.

Lemma dh_loop_done_inv : forall fuel d desired lp d',
  dh_loop fuel d desired lp = DLDone d' ->
  dh_size d' = desired /\ dbase d' = dbase d /\ dpad2 d' = dpad2 d.
Proof.
  induction fuel as [|f IH]; intros d desired lp d' H; cbn [dh_loop] in H; [discriminate|].
  destruct (dh_size d =? desired) eqn:?.
  - injection H as <-. repeat split. lia.
  - destruct (dh_size d <? desired) eqn:?; [|discriminate].
    apply IH in H. unfold set_pad in H. cbn [dbase dpad2] in H. exact H.
Qed.

(* ---------------------------------------------------------------- pad_to_size *)

(* every Ok result has exactly the requested size; only the padding fields changed *)
Lemma pad_to_size_exact : forall fuel d desired d',
  pad_to_size fuel d desired = DOk d' -> dh_size d' = desired /\ dbase d' = dbase d.
Proof.
  induction fuel as [|f IH]; intros d desired d' H; cbn [pad_to_size] in H; [discriminate|].
  destruct (desired <? dh_size d) eqn:?; [discriminate|].
  destruct (dh_loop _ d desired 0) eqn:HL; try discriminate.
  - injection H as <-. apply dh_loop_done_inv in HL. tauto.
  - destruct (dpad2 d); [discriminate|]. apply IH in H. cbn [dbase] in H. exact H.
Qed.

Lemma pad_to_size_too_small : forall f d desired,
  desired < dh_size d -> pad_to_size (S f) d desired = DErr.
Proof. intros f d desired H. cbn [pad_to_size]. destruct (desired <? dh_size d) eqn:?; [reflexivity | lia]. Qed.

(* walking up from pad = p lands on the target when the target is a byte-string size *)
Lemma walk_lands : forall b p q desired lp,
  around b q + bstr_size p <= desired -> ~ skipped (desired - around b q) ->
  dh_loop (N.to_nat (desired - (around b q + bstr_size p)) + 1) (DH b p q) desired lp
  = DLDone (DH b (bstr_inv (desired - around b q)) q).
Proof.
  intros b p q desired lp Hle Hns.
  set (t := desired - around b q) in *.
  pose proof (bstr_inv_ok t Hns) as Hk. set (k := bstr_inv t) in *.
  assert (p <= k) as Hpk.
  { destruct (N.le_gt_cases p k); [assumption|]. pose proof (bstr_strict_mono k p). lia. }
  pose proof (hdr_mono p k Hpk). unfold bstr_size in *.
  rewrite (dh_loop_exact (N.to_nat (k - p)) b p q desired lp).
  - f_equal. f_equal. lia.
  - unfold bstr_size. replace (p + N.of_nat (N.to_nat (k - p))) with k by lia. lia.
  - lia.
Qed.

(* ... and overshoots at a head-length boundary K when it is not *)
Lemma walk_overshoots : forall b p q desired lp,
  around b q + bstr_size p <= desired -> skipped (desired - around b q) ->
  let K := boundary_of (desired - around b q) in
  p < K /\
  dh_loop (N.to_nat (desired - (around b q + bstr_size p)) + 1) (DH b p q) desired lp
  = DLOver (lp + (K - p)).
Proof.
  intros b p q desired lp Hle Hsk K.
  set (t := desired - around b q) in *.
  assert (1 <= t) as Ht by (pose proof (hdr_range p); unfold bstr_size in Hle; lia).
  destruct (skipped_between t Hsk Ht) as (HK1 & Hlo & Hhi & _). fold K in HK1, Hlo, Hhi.
  assert (p < K) as HpK.
  { destruct (N.le_gt_cases K p); [|lia]. pose proof (bstr_mono K p). lia. }
  split; [assumption|].
  pose proof (hdr_mono p (K - 1)). unfold bstr_size in *.
  rewrite (dh_loop_over (N.to_nat (K - p)) b p q desired lp).
  - f_equal. lia.
  - unfold bstr_size. replace (p + N.of_nat (N.to_nat (K - p))) with K by lia. lia.
  - right. unfold bstr_size. replace (p + N.of_nat (N.to_nat (K - p)) - 1) with (K - 1) by lia. lia.
  - lia.
Qed.

(* the second pad makes the remaining distance a byte-string size: for a skipped t with boundary
   K and any first-walk length L <= K, t - (5 + bstr_size (L / 2)) is >= 1 and not skipped *)
Lemma second_pad_lands : forall t L,
  skipped t -> 1 <= t -> L <= boundary_of t ->
  let q := L / 2 in
  pad2_entry_size q + 1 <= t /\ ~ skipped (t - pad2_entry_size q).
Proof.
  intros t L Hsk Ht HL q.
  destruct (skipped_between t Hsk Ht) as (_ & _ & _ & HK).
  assert (2 * q <= L) by (apply N.mul_div_le; lia).
  unfold pad2_entry_size. rewrite pad2_key_size. unfold bstr_size, skipped in *.
  unfold boundary_of in *. hdr_split q.
  destruct (t =? 25) eqn:?; [lia|].
  destruct (t =? 258) eqn:?; [lia|].
  destruct (t <=? 65540) eqn:?; lia.
Qed.

(* totality from a DataHash without a second pad (whatever `pad` already holds) *)
Lemma pad_to_size_ok : forall b p desired,
  dh_size (DH b p None) <= desired ->
  exists d', pad_to_size_top (DH b p None) desired = DOk d'.
Proof.
  intros b p desired Hle. rewrite dh_size_eq in Hle.
  unfold pad_to_size_top. cbn [pad_to_size]. rewrite !dh_size_eq.
  destruct (desired <? around b None + bstr_size p) eqn:?; [lia|].
  cbn [dbase dpad dpad2]. rewrite ?dh_size_eq.
  set (t := desired - around b None).
  assert (around b None = b) as Hab by (unfold around; lia).
  destruct (skippedb t) eqn:Hs.
  - (* overshoot at a boundary, then the second walk lands *)
    apply skippedb_spec in Hs.
    destruct (walk_overshoots b p None desired 0 Hle Hs) as (HpK & ->). fold t in HpK |- *.
    assert (1 <= t) as Ht by (pose proof (hdr_range p); unfold bstr_size in Hle; lia).
    rewrite pad2_div.
    destruct (second_pad_lands t (0 + (boundary_of t - p)) Hs Ht ltac:(lia)) as (Hfit & Hns).
    set (q := (0 + (boundary_of t - p)) / 2) in *.
    assert (around b (Some q) = b + pad2_entry_size q) as Haq by reflexivity.
    assert (bstr_size 0 = 1) as Hb0 by reflexivity.
    rewrite !dh_size_eq.
    destruct (desired <? around b (Some q) + bstr_size 0) eqn:?; [lia|].
    rewrite walk_lands; [eexists; reflexivity | lia |].
    replace (desired - around b (Some q)) with (t - pad2_entry_size q) by lia. assumption.
  - assert (~ skipped t) as Hns by (rewrite <- skippedb_spec; congruence).
    rewrite walk_lands by assumption. eexists; reflexivity.
Qed.

(* C14, data-hash half: every target size >= the current size is reached exactly; the other
   fields are untouched. *)
Theorem pad_to_size_exact_total : forall b p desired,
  dh_size (DH b p None) <= desired ->
  exists d', pad_to_size_top (DH b p None) desired = DOk d'
             /\ dh_size d' = desired /\ dbase d' = b.
Proof.
  intros b p desired Hle. destruct (pad_to_size_ok b p desired Hle) as (d' & H).
  exists d'. split; [assumption|]. apply pad_to_size_exact in H. exact H.
Qed.

(* with a second pad already present the routine cannot always succeed (JumbfCreationError at a
   skipped distance) — model observation, outside the property's domain (fresh assertions) *)
Lemma pad_to_size_prepadded_fails :
  pad_to_size_top (DH 100 0 (Some 0)) (100 + 6 + 25) = DErr.
Proof. vm_compute. reflexivity. Qed.
