(* Proofs/C10PngProofs.v — C10 for the PNG chunk walker (Model/C10Png.v): the loop ends within
   [length buf + 1] iterations on every byte string, never panics, pushes at most (len - 8) / 12 entries
   and get_cai_data allocates at most the input length. *)
From Coq Require Import List NArith Bool Lia Arith ZifyBool ZifyNat ZifyN.
From C2PA Require Import Base.Bytes Generated.C10_facts Model.C10Mach Model.C10Png Proofs.C10MachProofs.
Import ListNotations.
Open Scope N_scope.
Arguments N.add : simpl never.
Arguments N.sub : simpl never.
Arguments N.mul : simpl never.
Arguments N.eqb : simpl never.
Arguments N.ltb : simpl never.
Arguments N.leb : simpl never.

(* every caBX entry recorded by the walk lies inside the buffer *)
Definition cai_in (buf : bytes) (e : N * N) : Prop := fst e + 12 + snd e <= len buf.

Lemma png_loop_spec buf : forall fuel pos n cai,
  len buf - pos < N.of_nat fuel -> Forall (cai_in buf) cai ->
  match png_loop fuel buf pos n cai with
  | Ok (p, n', cai') => pos + 12 <= p /\ p <= len buf /\ n < n' /\ 12 * (n' - n) <= p - pos /\ Forall (cai_in buf) cai'
  | Err _ => True
  | Panic _ _ _ => False
  | OutOfFuel => False
  end.
Proof.
  induction fuel as [|f IH]; intros pos n cai Hf Hc; [lia|].
  cbn [png_loop].
  destruct (cread_exact buf pos 4) as [[lb p1]|] eqn:E1; [|exact I].
  destruct (cread_exact buf p1 4) as [[name p2]|] eqn:E2; [|exact I].
  destruct (seek_fwd p2 (de lb)) as [p3|] eqn:E3; [|exact I].
  destruct (cread_exact buf p3 4) as [[crc p4]|] eqn:E4; [|exact I].
  apply cread_exact_in in E1; [|lia]. apply cread_exact_in in E2; [|lia].
  apply seek_fwd_spec in E3. apply cread_exact_in in E4; [|lia].
  destruct (negb (valid_utf8 name)); [exact I|].
  set (cai' := if beqb name PNG_CAI then cai ++ [(pos, de lb)] else cai).
  assert (Hc' : Forall (cai_in buf) cai').
  { subst cai'. destruct (beqb name PNG_CAI); [|exact Hc].
    apply Forall_app. split; [exact Hc|]. constructor; [|constructor]. unfold cai_in; cbn [fst snd]. lia. }
  destruct (beqb name PNG_END || (len buf <? p4)).
  - repeat split; try lia. exact Hc'.
  - specialize (IH p4 (n + 1) cai').
    destruct (png_loop f buf p4 (n + 1) cai') as [[[p n'] c'']| | |]; try (apply IH; [lia|exact Hc']).
    assert (Hx : p4 + 12 <= p /\ p <= len buf /\ n + 1 < n' /\ 12 * (n' - (n + 1)) <= p - p4 /\ Forall (cai_in buf) c'')
      by (apply IH; [lia|exact Hc']).
    destruct Hx as (A & B & C & D & F). repeat split; try lia. exact F.
Qed.

(* totality: on every byte string the walker returns Ok or Err with [pfuel buf] units of fuel *)
Lemma png_positions_total buf :
  match png_chunk_positions (pfuel buf) buf with
  | Ok (p, n, cai) => 8 + 12 * n <= p /\ p <= len buf /\ Forall (cai_in buf) cai
  | Err _ => True
  | Panic _ _ _ => False
  | OutOfFuel => False
  end.
Proof.
  unfold png_chunk_positions.
  destruct (cread_exact buf 0 8) as [[hdr p]|] eqn:E; [|exact I].
  apply cread_exact_in in E; [|lia].
  destruct (negb (beqb hdr PNG_ID)); [exact I|].
  pose proof (png_loop_spec buf (pfuel buf) p 0 []) as H.
  destruct (png_loop (pfuel buf) buf p 0 []) as [[[q n] c]| | |].
  - assert (Hx : p + 12 <= q /\ q <= len buf /\ 0 < n /\ 12 * (n - 0) <= q - p /\ Forall (cai_in buf) c).
    { apply H; [unfold pfuel, len; lia|constructor]. }
    destruct Hx as (A & B & C & D & F). repeat split; try lia. exact F.
  - exact I.
  - apply H; [unfold pfuel, len; lia|constructor].
  - apply H; [unfold pfuel, len; lia|constructor].
Qed.

Lemma png_cai_spec dbg buf cai :
  len buf <= U64MAX -> Forall (cai_in buf) cai ->
  match png_cai dbg buf cai with
  | Ok l => l <= len buf
  | Err _ => True
  | Panic _ _ _ => False
  | OutOfFuel => False
  end.
Proof.
  intros Hl Hc. unfold png_cai.
  destruct cai as [|[start length] [|e t]]; try exact I.
  inversion Hc as [|? ? Hin _]; subst. unfold cai_in in Hin; cbn [fst snd] in Hin.
  rewrite add64_ok by lia.
  destruct (read_to_vec buf (start + 8) length) as [p|] eqn:E; [|exact I].
  apply read_to_vec_spec in E. lia.
Qed.

(* the three C10 obligations for the PNG reader, for every byte string (of a length that fits a u64) *)
Lemma png_read_safe dbg buf :
  len buf <= U64MAX ->
  match png_read dbg buf with
  | Ok (n, p, c) =>
    8 + 12 * n <= len buf /\
    match c with Ok l => l <= len buf | Err _ => True | Panic _ _ _ => False | OutOfFuel => False end
  | Err _ => True
  | Panic _ _ _ => False
  | OutOfFuel => False
  end.
Proof.
  intro Hl. unfold png_read. pose proof (png_positions_total buf) as H.
  destruct (png_chunk_positions (pfuel buf) buf) as [[[p n] cai]| | |]; try exact H.
  destruct H as (A & B & C). split; [lia|]. apply png_cai_spec; assumption.
Qed.

(* a non-trivial run: signature, IHDR-like chunk, caBX chunk with 3 bytes, IEND *)
Definition png_example : bytes :=
  PNG_ID ++ [0;0;0;1; 73;72;68;82; 7; 0;0;0;0]
         ++ [0;0;0;3; 99;97;66;88; 1;2;3; 0;0;0;0]
         ++ [0;0;0;0; 73;69;78;68; 0;0;0;0].

Lemma png_example_runs : png_read true png_example = Ok (3, 48, Ok 3).
Proof. vm_compute. reflexivity. Qed.

(* a length field of 2^32-1 is an error, not an allocation *)
Lemma png_example_huge :
  png_read true (PNG_ID ++ [255;255;255;255; 99;97;66;88; 0;0;0;0]) = Err POutOfRange.
Proof. vm_compute. reflexivity. Qed.
