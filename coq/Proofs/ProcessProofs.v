(* Proofs/ProcessProofs.v — C38: operations that do not write what an observer reads cannot change what it sees;
   the context API writes nothing; the thread-local settings entry points are the only writers. *)
From Coq Require Import List String Bool Arith Lia.
From C2PA Require Import Model.Process Generated.C38_facts.
Import ListNotations.
Open Scope string_scope.

Lemma mem_In : forall x l, mem x l = true <-> In x l.
Proof.
  induction l as [|y r IH]; cbn; split; intro H; try discriminate; try contradiction.
  - apply orb_true_iff in H. destruct H as [H|H]; [left; symmetry; apply String.eqb_eq; exact H | right; apply IH; exact H].
  - apply orb_true_iff. destruct H as [H|H]; [left; subst; apply String.eqb_refl | right; apply IH; exact H].
Qed.

Section Sem.
  Variable init_val : cell -> nat.
  Variable eff : string -> nat -> list nat -> cell -> nat.
  Variable obs : string -> nat -> list nat -> nat.

  (* a cell the operation does not write keeps its observable value *)
  Lemma lookup_apply_other : forall o a st c,
      mem c (o_writes o) = false -> lookup init_val (apply init_val eff o a st) c = lookup init_val st c.
  Proof.
    intros o a st c H. unfold lookup, apply. cbn [vals]. destruct (mem c lazy_cells); [reflexivity|]. rewrite H. reflexivity.
  Qed.

  Lemma reads_unchanged : forall o a st (rs : list cell),
      disjointb (o_writes o) rs = true ->
      map (lookup init_val (apply init_val eff o a st)) rs = map (lookup init_val st) rs.
  Proof.
    intros o a st rs H. apply map_ext_in. intros c Hc. apply lookup_apply_other.
    destruct (mem c (o_writes o)) eqn:E; [|reflexivity]. exfalso.
    apply mem_In in E. unfold disjointb in H. rewrite forallb_forall in H. specialize (H c E).
    apply negb_true_iff in H. apply mem_In in Hc. rewrite Hc in H. discriminate.
  Qed.

  (* history independence: any history of operations none of which writes a cell the observer reads *)
  Theorem history_independent : forall (target : op) (h : list (op * nat)) st arg,
      (forall o a, In (o, a) h -> disjointb (o_writes o) (o_reads target) = true) ->
      observe init_val obs target arg (run init_val eff h st) = observe init_val obs target arg st.
  Proof.
    intros target h. induction h as [|[o a] r IH]; intros st arg H; cbn [run].
    - reflexivity.
    - rewrite IH by (intros o' a' Hin; apply (H o' a'); right; exact Hin).
      unfold observe. rewrite reads_unchanged by (apply (H o a); left; reflexivity). reflexivity.
  Qed.

  (* lazily initialised cells never matter: forcing them is invisible *)
  Lemma inits_invisible : forall target arg st f,
      observe init_val obs target arg (mkP (vals st) f) = observe init_val obs target arg st.
  Proof. intros. reflexivity. Qed.
End Sem.

(* the context API writes no cell at all *)
Lemma context_ops_write_nothing : forallb (fun o => match o_writes o with [] => true | _ => false end) context_ops = true.
Proof. vm_compute. reflexivity. Qed.

Lemma context_op_disjoint : forall o target, In o context_ops -> disjointb (o_writes o) (o_reads target) = true.
Proof.
  intros o target H. pose proof (proj1 (forallb_forall _ _) context_ops_write_nothing o H) as E.
  cbv beta in E. destruct (o_writes o) as [|w ws].
  - reflexivity.
  - discriminate E.
Qed.

Theorem context_history_independent :
  forall init_val eff obs (target : op) (h : list (op * nat)) st arg,
    (forall o a, In (o, a) h -> In o context_ops) ->
    observe init_val obs target arg (run init_val eff h st) = observe init_val obs target arg st.
Proof.
  intros init_val eff obs target h st arg H. apply history_independent.
  intros o a Hin. apply context_op_disjoint. apply (H o a Hin).
Qed.

(* the only writers are the deprecated thread-local settings entry points, and they are exactly the functions from
   which the source reaches a write of SETTINGS *)
Lemma legacy_tls :
  map o_name (filter (fun o => match o_writes o with [] => false | _ => true end) all_ops) = SETTINGS_writer_closure
  /\ forallb (fun o => string_list_eqb (o_writes o) ["SETTINGS"]) legacy_writers = true
  /\ mutable_cells = ["SETTINGS"].
Proof. repeat split; vm_compute; reflexivity. Qed.

(* ---- the tie: inventory and closures regenerated from the source equal the modelled ones *)
Lemma inventory_is_modelled : cells_eqb cells modelled_cells = true.
Proof. vm_compute. reflexivity. Qed.

Lemma readers_are_modelled :
  string_list_eqb (filter (fun n => negb (mem n (map o_name legacy_writers))) SETTINGS_callers_1) (map o_name legacy_readers) = true
  /\ string_list_eqb SETTINGS_callers_2 modelled_callers_2 = true
  /\ string_list_eqb SETTINGS_direct_writers ["Settings::from_string"; "Settings::reset"; "Settings::set_thread_local_value"] = true
  /\ string_list_eqb SETTINGS_direct_readers ["Settings::get_thread_local_value"; "get_thread_local_settings"] = true.
Proof. repeat split; vm_compute; reflexivity. Qed.

Lemma initialisers_pure : impure_initialisers = [].
Proof. vm_compute. reflexivity. Qed.

(* ---- the full statement "no earlier operation at all" is false of the faithful model: the context API *reads* the
   thread-local (BMFF handler -> Store::from_jumbf), so a history containing a deprecated settings call can change
   what a context-based operation sees *)
Definition w_eff (_ : string) (arg : nat) (_ : list nat) (_ : cell) : nat := arg.
Definition w_obs (_ : string) (_ : nat) (seen : list nat) : nat := fold_left Nat.add seen 0.
Definition st0 : pstate := mkP (fun _ => 0) (fun _ => false).

Lemma legacy_history_refuted :
  let target := ctx_footprint "Reader::with_stream" in
  observe (fun _ => 0) w_obs target 0 (run (fun _ => 0) w_eff [(legacy_writer "Settings::from_toml", 7)] st0)
  <> observe (fun _ => 0) w_obs target 0 st0.
Proof. vm_compute. intro H. discriminate. Qed.

(* non-vacuity: a context history does force lazies (state changes) yet the observation is the same *)
Lemma example_runs :
  let h := [(ctx_footprint "Builder::sign", 3); (ctx_footprint "Reader::with_stream", 4)] in
  inited (run (fun _ => 5) w_eff h st0) "CAI_WRITERS" = true
  /\ inited st0 "CAI_WRITERS" = false
  /\ observe (fun _ => 5) w_obs (ctx_footprint "Reader::with_stream") 0 (run (fun _ => 5) w_eff h st0) = 70.
Proof. vm_compute. repeat split; reflexivity. Qed.
