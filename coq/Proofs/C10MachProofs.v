(* Proofs/C10MachProofs.v — facts about the Cursor primitives of Model/C10Mach.v used by the C10 proofs. *)
From Coq Require Import List NArith Bool Lia Arith ZifyBool ZifyNat ZifyN.
From C2PA Require Import Base.Bytes Model.C10Mach.
Import ListNotations.
Open Scope N_scope.
Arguments N.add : simpl never.
Arguments N.sub : simpl never.
Arguments N.eqb : simpl never.
Arguments N.ltb : simpl never.
Arguments N.leb : simpl never.

Lemma len_nil {A} : len (@nil A) = 0.
Proof. reflexivity. Qed.

Lemma len_firstn_le {A} (l : list A) k : len (firstn k l) <= len l.
Proof. unfold len. rewrite firstn_length. lia. Qed.

Lemma len_rest buf pos : len (rest buf pos) = len buf - pos.
Proof.
  unfold rest. destruct (len buf <=? pos) eqn:H.
  - rewrite len_nil. lia.
  - unfold len in *. rewrite skipn_length. lia.
Qed.

(* Read::read never moves past the end and returns at most n bytes *)
Lemma cread_spec buf pos n b p :
  cread buf pos n = (b, p) ->
  p = pos + len b /\ len b <= n /\ len b <= len buf - pos /\ (n <= len buf - pos -> len b = n).
Proof.
  unfold cread. intro H. inversion H; subst; clear H.
  pose proof (len_rest buf pos) as Hr.
  assert (Hf : len (firstn (N.to_nat n) (rest buf pos)) = N.min n (len (rest buf pos))).
  { unfold len. rewrite firstn_length. lia. }
  rewrite Hf, Hr. repeat split; lia.
Qed.

(* exactly min(n, remaining) bytes *)
Lemma cread_len buf pos n b p :
  cread buf pos n = (b, p) -> len b = N.min n (len buf - pos) /\ p = pos + len b.
Proof.
  unfold cread. intro H. inversion H; subst; clear H.
  pose proof (len_rest buf pos) as Hr.
  assert (Hf : len (firstn (N.to_nat n) (rest buf pos)) = N.min n (len (rest buf pos))).
  { unfold len. rewrite firstn_length. lia. }
  rewrite Hf, Hr. split; reflexivity.
Qed.

Lemma cread_exact_spec buf pos n b p :
  cread_exact buf pos n = Some (b, p) -> p = pos + n /\ n <= len buf - pos /\ len b = n.
Proof.
  unfold cread_exact, avail. destruct (n <=? len buf - pos) eqn:H; [|discriminate].
  intro E. inversion E; subst; clear E.
  pose proof (len_rest buf pos) as Hr.
  assert (Hf : len (firstn (N.to_nat n) (rest buf pos)) = N.min n (len (rest buf pos))).
  { unfold len. rewrite firstn_length. lia. }
  rewrite Hf, Hr. repeat split; lia.
Qed.

(* a successful read of at least one byte ends inside the buffer *)
Lemma cread_exact_in buf pos n b p :
  cread_exact buf pos n = Some (b, p) -> 0 < n -> p = pos + n /\ p <= len buf.
Proof. intros H Hn. apply cread_exact_spec in H. lia. Qed.

Lemma seek_back_spec pos n p : seek_back pos n = Some p -> p = pos - n /\ n <= pos.
Proof. unfold seek_back. destruct (pos <? n) eqn:H; [discriminate|]. intro E; inversion E. lia. Qed.

Lemma seek_fwd_spec pos n p : seek_fwd pos n = Some p -> p = pos + n.
Proof. unfold seek_fwd. destruct (pos + n <=? U64MAX); [|discriminate]. intro E; inversion E. reflexivity. Qed.

Lemma checked_add64_spec a b c : checked_add64 a b = Some c -> c = a + b /\ c <= U64MAX.
Proof. unfold checked_add64. destruct (a + b <=? U64MAX) eqn:H; [|discriminate]. intro E; inversion E. lia. Qed.

Lemma checked_sub64_spec a b c : checked_sub64 a b = Some c -> c = a - b /\ b <= a.
Proof. unfold checked_sub64. destruct (b <=? a) eqn:H; [|discriminate]. intro E; inversion E. lia. Qed.

Lemma read_to_vec_spec buf pos n p : read_to_vec buf pos n = Some p -> p = pos + n /\ p <= len buf.
Proof.
  unfold read_to_vec. destruct (checked_add64 pos n) as [e|] eqn:H; [|discriminate].
  apply checked_add64_spec in H. destruct (len buf <? e) eqn:H2; [discriminate|].
  intro E; inversion E. lia.
Qed.

Lemma add64_ok {E} dbg site a b : a + b <= U64MAX -> @add64 E dbg site a b = Ok (a + b).
Proof. unfold add64. intro H. destruct (a + b <=? U64MAX) eqn:H2; [reflexivity|lia]. Qed.

Lemma sub64_ok {E} dbg site a b : b <= a -> @sub64 E dbg site a b = Ok (a - b).
Proof. unfold sub64. intro H. destruct (b <=? a) eqn:H2; [reflexivity|lia]. Qed.

Lemma add64_release {E} site a b : exists c, @add64 E false site a b = Ok c.
Proof. unfold add64. destruct (a + b <=? U64MAX); eauto. Qed.

Lemma sub64_release {E} site a b : exists c, @sub64 E false site a b = Ok c.
Proof. unfold sub64. destruct (b <=? a); eauto. Qed.

(* the length of a list is below 2^64 whenever it is at most U64MAX: used as [len buf <= U64MAX] hypotheses *)
Lemma U64MAX_val : U64MAX = 18446744073709551615.
Proof. reflexivity. Qed.
