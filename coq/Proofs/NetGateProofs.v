(* Proofs/NetGateProofs.v — no request unless the governing setting / signer asks for it (C28). *)
From Coq Require Import List NArith Bool Lia.
From C2PA Require Import Model.NetGate.
Import ListNotations.
Open Scope N_scope.

(* the whole finite domain, evaluated *)
Lemma gated_domain : forallb (gated 7) domain = true.
Proof. vm_compute. reflexivity. Qed.

Lemma gated_forall : forall p, In p domain -> gated 7 p = true.
Proof. apply forallb_forall. exact gated_domain. Qed.

Lemma domain_complete : forall c k s o b, In (c, k, s, o, b) domain.
Proof.
  intros c k s o b. unfold domain.
  apply in_flat_map. exists c. split. { destruct c as [[] [] []]; cbn; tauto. }
  apply in_flat_map. exists k. split. { destruct k; cbn; tauto. }
  apply in_flat_map. exists s. split. { destruct s; cbn; tauto. }
  apply in_flat_map. exists o. split. { destruct o; cbn; tauto. }
  apply in_map_iff. exists b. split; auto. destruct b; cbn; tauto.
Qed.

Lemma gated_everywhere : forall c k s o b, gated 7 (c, k, s, o, b) = true.
Proof. intros. apply gated_forall, domain_complete. Qed.

(* the same, for every URL, in propositional form *)
Lemma no_request_unless_enabled : forall u c k s o b rq out,
  requests c (A k u) s o b = (rq, out) ->
  (forall v, In (RManifest v) rq -> v = u /\ rmf c = true /\ remote_only k = true) /\
  (In ROcsp rq -> ocspf c = true \/ csf c = true) /\
  (In RTsa rq -> s = STsa).
Proof.
  intros u [[] [] []] k s o b rq out H; destruct k, s, o, b; cbn in H; inversion H; subst; clear H; cbn;
    (split; [intros v Hv | split; intros Hv]);
    repeat (destruct Hv as [Hv | Hv]; [try discriminate; try (inversion Hv; subst)|]); try contradiction; auto.
Qed.

Lemma remote_only_error : forall u c k s b,
  rmf c = false -> remote_only k = true -> requests c (A k u) s OpRead b = ([], OErrRemoteUrl u).
Proof. intros u [r o f] k s b H K. cbn in H. subst r. destruct k; try discriminate; reflexivity. Qed.

(* ... and the same assets with fetching enabled ask for exactly that URL, once *)
Lemma remote_only_fetch : forall u c k s b,
  rmf c = true -> remote_only k = true ->
  exists rest, fst (requests c (A k u) s OpRead b) = RManifest u :: rest /\ existsb is_manifest rest = false.
Proof.
  intros u [r o f] k s b H K. cbn in H. subst r.
  destruct k; try discriminate; destruct b, o; eexists; split; reflexivity.
Qed.

(* an embedded manifest is never replaced by a remote one: no manifest request whatever the settings *)
Lemma embedded_never_fetches : forall u c k s o b,
  has_embedded k = true -> existsb is_manifest (fst (requests c (A k u) s o b)) = false.
Proof. intros u [[] [] []] k s o b H; destruct k; try discriminate; destruct s, o, b; reflexivity. Qed.

(* everything off: nothing at all *)
Lemma all_off_silent : forall u k o b,
  fst (requests (C false false false) (A k u) SNoTsa o b) = [].
Proof. intros u k o b. destruct k, o, b; reflexivity. Qed.

(* stapled responses (after fix fb08c71da): a usable, conclusive staple settles revocation without any request;
   a staple that is present but unusable does not suppress the fetch that verify.ocsp_fetch asks for *)
Lemma usable_staple_settles : forall u c s o b,
  existsb is_ocsp (fst (requests c (A AEmbeddedStapled u) s o b)) = false.
Proof. intros u [[] [] []] s o b; destruct s, o, b; reflexivity. Qed.

Lemma unusable_staple_falls_through : forall u c s b,
  existsb is_ocsp (fst (requests c (A AEmbeddedStapledUnusable u) s OpRead b)) = ocspf c.
Proof. intros u [[] [] []] s b; destruct s, b; reflexivity. Qed.
