(* Proofs/NetGateProofs.v — no request unless the governing setting / signer asks for it (C28). *)
From Coq Require Import List NArith Bool Lia.
From C2PA Require Import Model.NetGate.
Import ListNotations.
Open Scope N_scope.

(* the whole finite domain, evaluated *)
Lemma gated_domain : forallb (gated 7) domain = true.
Proof. vm_compute. reflexivity. Qed.

Lemma gated_forall : forall p, In p domain -> gated 7 p = true.
Proof. apply forallb_forall. exact gated_domain. Qed.

Lemma domain_complete : forall c k s o b, In (c, k, s, o, b) domain.
Proof.
  intros c k s o b. unfold domain.
  apply in_flat_map. exists c. split. { destruct c as [[] [] [] [] [] []]; vm_compute; tauto. }
  apply in_flat_map. exists k. split. { destruct k; cbn; tauto. }
  apply in_flat_map. exists s. split. { destruct s; cbn; tauto. }
  apply in_flat_map. exists o. split. { destruct o; cbn; tauto. }
  apply in_map_iff. exists b. split; auto. destruct b; cbn; tauto.
Qed.

Lemma gated_everywhere : forall c k s o b, gated 7 (c, k, s, o, b) = true.
Proof. intros. apply gated_forall, domain_complete. Qed.

(* the same, for every URL, in propositional form *)
Lemma no_request_unless_enabled : forall u c k s o b rq out,
  requests c (A k u) s o b = (rq, out) ->
  (forall v, In (RManifest v) rq -> v = u /\ rmf c = true /\ remote_only k = true) /\
  (In ROcsp rq -> ocspf c = true \/ csf c = true) /\
  (In RTsa rq -> s = STsa) /\
  (In RTsaIng rq -> ats_on c = true /\ s = STsa).
Proof.
  (* the auto-timestamp settings are only looked at when signing with a TSA signer: split on them only there *)
  intros u [[] [] [] e1 e2 e3] k s o b rq out H;
    (destruct o, s;
     [ destruct k, b | destruct k, b | destruct k, b | destruct k, b | destruct k, b | destruct e1, e2, e3, k, b ]);
    cbn in H; inversion H; subst; clear H; cbn;
    (split; [intros v Hv | split; [intros Hv | split; intros Hv]]);
    repeat (destruct Hv as [Hv | Hv]; [try discriminate; try (inversion Hv; subst)|]); try contradiction; auto.
Qed.

Lemma remote_only_error : forall u c k s b,
  rmf c = false -> remote_only k = true -> requests c (A k u) s OpRead b = ([], OErrRemoteUrl u).
Proof. intros u [r o f e1 e2 e3] k s b H K. cbn in H. subst r. destruct k; try discriminate; reflexivity. Qed.

(* ... and the same assets with fetching enabled ask for exactly that URL, once *)
Lemma remote_only_fetch : forall u c k s b,
  rmf c = true -> remote_only k = true ->
  exists rest, fst (requests c (A k u) s OpRead b) = RManifest u :: rest /\ existsb is_manifest rest = false.
Proof.
  intros u [r o f e1 e2 e3] k s b H K. cbn in H. subst r.
  destruct k; try discriminate; destruct b, o; eexists; split; reflexivity.
Qed.

(* an embedded manifest is never replaced by a remote one: no manifest request whatever the settings *)
Lemma embedded_never_fetches : forall u c k s o b,
  has_embedded k = true -> existsb is_manifest (fst (requests c (A k u) s o b)) = false.
Proof. intros u [[] [] [] [] [] []] k s o b H; destruct k; try discriminate; destruct s, o, b; reflexivity. Qed.

(* everything off: nothing at all *)
Lemma all_off_silent : forall u k o b sk sc,
  fst (requests (C false false false false sk sc) (A k u) SNoTsa o b) = [].
Proof. intros u k o b sk sc. destruct k, o, b, sk, sc; reflexivity. Qed.

(* stapled responses (after fix fb08c71da): a usable, conclusive staple settles revocation without any request;
   a staple that is present but unusable does not suppress the fetch that verify.ocsp_fetch asks for *)
Lemma usable_staple_settles : forall u c s o b,
  existsb is_ocsp (fst (requests c (A AEmbeddedStapled u) s o b)) = false.
Proof. intros u [[] [] [] [] [] []] s o b; destruct s, o, b; reflexivity. Qed.

Lemma unusable_staple_falls_through : forall u c s b,
  existsb is_ocsp (fst (requests c (A AEmbeddedStapledUnusable u) s OpRead b)) = ocspf c.
Proof. intros u [[] [] [] [] [] []] s b; destruct s, b; reflexivity. Qed.

(* ingredient manifests are time-stamped only when builder.auto_timestamp_assertion.enabled is set (and the signer
   names a time-stamp authority): with enabled = false no such request, whatever skip_existing and fetch_scope say *)
Lemma no_ingredient_timestamp_unless_enabled : forall u c k s o b,
  ats_on c = false -> existsb is_tsa_ing (fst (requests c (A k u) s o b)) = false.
Proof. intros u [[] [] [] e [] []] k s o b H; cbn in H; subst e; destruct k, s, o, b; reflexivity. Qed.

(* ... and when it is enabled the request is made exactly for claims not excluded by skip_existing *)
Lemma ingredient_timestamp_when_enabled : forall u rm oc cs sk sc b,
  fst (requests (C rm oc cs true sk sc) (A ARemoteEmbedded u) STsa OpSign b) = [RTsaIng] /\
  existsb is_tsa_ing (fst (requests (C rm oc cs true sk sc) (A AEmbedded u) STsa OpSign b)) = negb sk.
Proof. intros u [] [] [] [] [] []; split; reflexivity. Qed.
