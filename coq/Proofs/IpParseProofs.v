(* Proofs/IpParseProofs.v — facts about the transcription of std's IpAddr::from_str:
   (1) a string that parses consists of hex digits, dots and colons only, hence no name containing another letter
       (e.g. anything ending in ".localhost") is ever taken for an address;
   (2) the canonical dotted-decimal text of every IPv4 address parses back to that address. *)
From Coq Require Import List NArith Bool Arith Lia ZifyBool ZifyNat ZifyN.
From C2PA Require Import Base.Bytes Model.HostPattern Model.IpPreds Model.IpClass Generated.C27_facts
     Proofs.HostPatternProofs Proofs.IpClassProofs Proofs.HostClassProofs.
Import ListNotations.
Open Scope N_scope.

(* ---- (1) consumed characters ---- *)

Definition ipc (b : N) : Prop := digit_val 16 b <> None \/ b = c_dot \/ b = c_colon.

Definition consumed (s r : bytes) : Prop := exists p, s = p ++ r /\ Forall ipc p.

Lemma consumed_refl s : consumed s s.
Proof. exists []. split; [reflexivity | constructor]. Qed.

Lemma consumed_trans a b c : consumed a b -> consumed b c -> consumed a c.
Proof.
  intros [p [-> P]] [q [-> Q]]. exists (p ++ q). split; [apply app_assoc | apply Forall_app; tauto].
Qed.

Lemma digit_val_ipc radix b v : digit_val radix b = Some v -> ipc b.
Proof.
  unfold ipc, digit_val. intro E. left. destruct (is_digit b); [discriminate |].
  destruct (radix =? 16); [| discriminate]. cbn [N.eqb Pos.eqb].
  destruct ((97 <=? b) && (b <=? 102)); [discriminate |]. destruct ((65 <=? b) && (b <=? 70)); [discriminate | discriminate].
Qed.

Lemma span_digits_consumed radix s ds r : span_digits radix s = (ds, r) -> consumed s r.
Proof.
  revert ds r. induction s as [| b s IH]; intros ds r E; cbn [span_digits] in E.
  - inversion E; subst. apply consumed_refl.
  - destruct (digit_val radix b) as [v |] eqn:D.
    + destruct (span_digits radix s) as [ds' r'] eqn:S. inversion E; subst.
      destruct (IH _ _ eq_refl) as [p [-> P]]. exists (b :: p). split; [reflexivity |].
      constructor; [eapply digit_val_ipc; exact D | exact P].
    + inversion E; subst. apply consumed_refl.
Qed.

Lemma read_number_consumed radix m z mx s v r : read_number radix m z mx s = Some (v, r) -> consumed s r.
Proof.
  unfold read_number. destruct (span_digits radix s) as [ds r'] eqn:S.
  destruct (length ds =? 0)%nat; [discriminate |]. destruct (m <? length ds)%nat; [discriminate |].
  destruct (negb z && match s with [] => false | b :: _ => b =? 48 end && (1 <? length ds)%nat); [discriminate |].
  destruct (digits_value radix ds <=? mx); [| discriminate]. intro E. inversion E; subst.
  eapply span_digits_consumed; exact S.
Qed.

Lemma expect_consumed c s r : c = c_dot \/ c = c_colon -> expect c s = Some r -> consumed s r.
Proof.
  intros C E. unfold expect in E. destruct s as [| b t]; [discriminate |].
  destruct (N.eqb_spec b c) as [-> | _]; [| discriminate]. inversion E; subst.
  exists [c]. split; [reflexivity |]. constructor; [right; exact C | constructor].
Qed.

Lemma sep_consumed first s r : sep c_colon first s = Some r -> consumed s r.
Proof.
  unfold sep. destruct first; [intro E; inversion E; apply consumed_refl |].
  apply expect_consumed. right. reflexivity.
Qed.

Lemma read_ipv4_consumed s x r : read_ipv4 s = Some (x, r) -> consumed s r.
Proof.
  unfold read_ipv4, read_octet.
  destruct (read_number 10 3 false 255 s) as [[a s1] |] eqn:A; [| discriminate].
  destruct (expect c_dot s1) as [s1' |] eqn:E1; [| discriminate].
  destruct (read_number 10 3 false 255 s1') as [[b s2] |] eqn:B; [| discriminate].
  destruct (expect c_dot s2) as [s2' |] eqn:E2; [| discriminate].
  destruct (read_number 10 3 false 255 s2') as [[c s3] |] eqn:C; [| discriminate].
  destruct (expect c_dot s3) as [s3' |] eqn:E3; [| discriminate].
  destruct (read_number 10 3 false 255 s3') as [[d s4] |] eqn:D; [| discriminate].
  intro E. inversion E; subst.
  apply read_number_consumed in A, B, C, D.
  apply expect_consumed in E1, E2, E3; try (left; reflexivity).
  repeat (eapply consumed_trans; [eassumption |]). apply consumed_refl.
Qed.

Lemma read_groups_consumed n : forall first s gs f r, read_groups n first s = (gs, f, r) -> consumed s r.
Proof.
  induction n as [| n IH]; intros first s gs f r E; cbn [read_groups] in E.
  - inversion E; subst. apply consumed_refl.
  - destruct (if (2 <=? S n)%nat then match sep c_colon first s with Some s' => read_ipv4 s' | None => None end else None)
      as [[[a b c d] r4] |] eqn:T.
    + inversion E; subst. destruct (2 <=? S n)%nat; [| discriminate].
      destruct (sep c_colon first s) as [s' |] eqn:S; [| discriminate].
      eapply consumed_trans; [eapply sep_consumed; exact S | eapply read_ipv4_consumed; exact T].
    + destruct (sep c_colon first s) as [s' |] eqn:S.
      * destruct (read_number 16 4 true 65535 s') as [[g rg] |] eqn:G.
        { destruct (read_groups n false rg) as [[gs' f'] r'] eqn:R. inversion E; subst.
          eapply consumed_trans; [eapply sep_consumed; exact S |].
          eapply consumed_trans; [eapply read_number_consumed; exact G | eapply IH; exact R]. }
        { inversion E; subst. apply consumed_refl. }
      * inversion E; subst. apply consumed_refl.
Qed.

Lemma read_ipv6_consumed s gs r : read_ipv6 s = Some (gs, r) -> consumed s r.
Proof.
  unfold read_ipv6. destruct (read_groups 8 true s) as [[head hv4] s1] eqn:H.
  apply read_groups_consumed in H.
  destruct (length head =? 8)%nat; [intro E; inversion E; subst; exact H |].
  destruct hv4; [discriminate |].
  destruct (expect c_colon s1) as [s1' |] eqn:E1; [| discriminate].
  destruct (expect c_colon s1') as [s2 |] eqn:E2; [| discriminate].
  destruct (read_groups (8 - (length head + 1)) true s2) as [[tail tv4] s3] eqn:T.
  intro E. inversion E; subst.
  apply expect_consumed in E1, E2; try (right; reflexivity). apply read_groups_consumed in T.
  repeat (eapply consumed_trans; [eassumption |]). apply consumed_refl.
Qed.

Theorem parse_ip_chars s x : parse_ip s = Some x -> Forall ipc s.
Proof.
  unfold parse_ip. destruct (read_ipv4 s) as [[y r] |] eqn:A.
  - destruct r; cbn [is_nil]; [| discriminate]. intros _. apply read_ipv4_consumed in A.
    destruct A as [p [-> P]]. rewrite app_nil_r. exact P.
  - destruct (read_ipv6 s) as [[gs r] |] eqn:B; [| discriminate].
    destruct r; cbn [is_nil]; [| discriminate]. intros _. apply read_ipv6_consumed in B.
    destruct B as [p [-> P]]. rewrite app_nil_r. exact P.
Qed.

(* ---- names under .localhost, any prefix, any case, with or without the trailing dot ---- *)

Lemma not_ipc_l : ~ ipc 108.
Proof. unfold ipc. intros [H | [H | H]]; [apply H; reflexivity | discriminate | discriminate]. Qed.

Lemma dot_localhost_not_ip p : parse_ip (p ++ s_dot_localhost) = None.
Proof.
  destruct (parse_ip (p ++ s_dot_localhost)) eqn:E; [| reflexivity].
  apply parse_ip_chars in E. apply Forall_app in E. destruct E as [_ E].
  unfold s_dot_localhost, s_localhost in E. inversion E as [| ? ? _ E1]; subst. inversion E1 as [| ? ? L _]; subst.
  elim (not_ipc_l L).
Qed.

Theorem normalized_dot_localhost_blocked h p : normalize_host h = p ++ s_dot_localhost -> host_is_non_global (Some h) = true.
Proof.
  intro E. unfold host_is_non_global. rewrite E, dot_localhost_not_ip.
  destruct (looks_like_obfuscated_ip (p ++ s_dot_localhost)); [reflexivity |].
  apply orb_true_iff. right. apply ends_with_spec. exists p. reflexivity.
Qed.

Lemma strip_suffix1_other c d x : d <> c -> strip_suffix [c] (x ++ [d]) = None.
Proof.
  intro NE. destruct (strip_suffix [c] (x ++ [d])) eqn:E; [| reflexivity].
  apply strip_suffix_spec in E. apply app_inj_tail in E. destruct E as [_ E]. congruence.
Qed.

Lemma strip_suffix1_same c x : strip_suffix [c] (x ++ [c]) = Some x.
Proof. apply strip_suffix_spec. reflexivity. Qed.

(* no bracket stripping, no dot stripping when the last byte is neither ']' nor '.' *)
Lemma normalize_host_plain x d : d <> c_rbr -> d <> c_dot -> normalize_host (x ++ [d]) = lower (x ++ [d]).
Proof.
  intros N1 N2. unfold normalize_host.
  assert (H1 : match strip_prefix [c_lbr] (x ++ [d]) with
               | Some y => match strip_suffix [c_rbr] y with Some z => z | None => x ++ [d] end
               | None => x ++ [d] end = x ++ [d]).
  { destruct (strip_prefix [c_lbr] (x ++ [d])) as [y |] eqn:P; [| reflexivity].
    destruct (strip_suffix [c_rbr] y) as [z |] eqn:S; [| reflexivity].
    apply strip_prefix_spec in P. apply strip_suffix_spec in S. subst y.
    change ([c_lbr] ++ z ++ [c_rbr]) with ((c_lbr :: z) ++ [c_rbr]) in P. apply app_inj_tail in P. destruct P; congruence. }
  rewrite H1. rewrite (strip_suffix1_other c_dot d x N2). reflexivity.
Qed.

Lemma normalize_host_trailing_dot x d : d <> c_rbr -> d <> c_dot -> normalize_host ((x ++ [d]) ++ [c_dot]) = lower (x ++ [d]).
Proof.
  intros N1 N2. unfold normalize_host.
  assert (H1 : match strip_prefix [c_lbr] ((x ++ [d]) ++ [c_dot]) with
               | Some y => match strip_suffix [c_rbr] y with Some z => z | None => (x ++ [d]) ++ [c_dot] end
               | None => (x ++ [d]) ++ [c_dot] end = (x ++ [d]) ++ [c_dot]).
  { destruct (strip_prefix [c_lbr] ((x ++ [d]) ++ [c_dot])) as [y |] eqn:P; [| reflexivity].
    destruct (strip_suffix [c_rbr] y) as [z |] eqn:S; [| reflexivity].
    apply strip_prefix_spec in P. apply strip_suffix_spec in S. subst y.
    change ([c_lbr] ++ z ++ [c_rbr]) with ((c_lbr :: z) ++ [c_rbr]) in P. apply app_inj_tail in P. destruct P; discriminate. }
  rewrite H1. rewrite strip_suffix1_same. reflexivity.
Qed.

Theorem sub_localhost_blocked p s : lower s = s_dot_localhost ->
  host_is_non_global (Some (p ++ s)) = true /\ host_is_non_global (Some ((p ++ s) ++ [c_dot])) = true.
Proof.
  intro E.
  assert (L : exists x d, s = x ++ [d] /\ d <> c_rbr /\ d <> c_dot).
  { destruct (exists_last (l := s)) as [x [d ->]]; [intro; subst; discriminate |]. exists x, d. split; [reflexivity |].
    rewrite lower_app in E. unfold s_dot_localhost, s_localhost in E.
    change [46; 108; 111; 99; 97; 108; 104; 111; 115; 116] with ([46; 108; 111; 99; 97; 108; 104; 111; 115] ++ [116]) in E.
    apply app_inj_tail in E. destruct E as [_ E]. cbn in E.
    unfold lower_byte in E. unfold c_rbr, c_dot. destruct ((65 <=? d) && (d <=? 90)) eqn:X; lia. }
  destruct L as [x [d [-> [N1 N2]]]].
  split.
  - apply (normalized_dot_localhost_blocked _ (lower p)). rewrite app_assoc, normalize_host_plain by assumption.
    rewrite <- app_assoc, lower_app, E. reflexivity.
  - apply (normalized_dot_localhost_blocked _ (lower p)). rewrite (app_assoc p x [d]), normalize_host_trailing_dot by assumption.
    rewrite <- app_assoc, lower_app, E. reflexivity.
Qed.

(* ---- (2) canonical dotted decimal round trip ---- *)

Definition dec (o : N) : bytes :=
  if o <? 10 then [48 + o]
  else if o <? 100 then [48 + o / 10; 48 + o mod 10]
  else [48 + o / 100; 48 + (o / 10) mod 10; 48 + o mod 10].

Definition dotted (a b c d : N) : bytes := dec a ++ [c_dot] ++ dec b ++ [c_dot] ++ dec c ++ [c_dot] ++ dec d.

Definition nondigit_head (r : bytes) : Prop := match r with [] => True | b :: _ => digit_val 10 b = None end.

Lemma span_digits_app p r : Forall (fun b => is_digit b = true) p -> nondigit_head r ->
  span_digits 10 (p ++ r) = (map (fun b => b - 48) p, r).
Proof.
  intros P R. induction p as [| b p IH]; cbn [app map].
  - destruct r as [| x r]; [reflexivity |]. cbn [span_digits]. cbn [nondigit_head] in R. rewrite R. reflexivity.
  - inversion P as [| ? ? Hb Hp]; subst. cbn [span_digits]. unfold digit_val at 1. rewrite Hb. rewrite (IH Hp). reflexivity.
Qed.

Lemma read_octet_app p r v : p <> [] -> Forall (fun b => is_digit b = true) p -> nondigit_head r ->
  read_octet p = Some (v, []) -> read_octet (p ++ r) = Some (v, r).
Proof.
  intros NE P R. unfold read_octet, read_number.
  rewrite (span_digits_app p r P R).
  pose proof (span_digits_app p [] P I) as S0. rewrite app_nil_r in S0. rewrite S0.
  destruct p as [| b p]; [congruence |]. cbn [app].
  set (ds := map (fun b0 => b0 - 48) (b :: p)). cbv iota beta.
  repeat match goal with |- context [if ?c then _ else _] => destruct c end; try discriminate.
  intro E. inversion E; subst. reflexivity.
Qed.

Definition dec_check (o : N) : bool :=
  negb (is_nil (dec o)) && forallb is_digit (dec o)
  && match read_octet (dec o) with Some (v, []) => v =? o | _ => false end
  && forallb (fun b => b <? 65) (dec o).

Lemma dec_check_all : forallb dec_check (map N.of_nat (seq 0 256)) = true.
Proof. vm_compute. reflexivity. Qed.

Lemma dec_ok o : o < 256 ->
  dec o <> [] /\ Forall (fun b => is_digit b = true) (dec o) /\ read_octet (dec o) = Some (o, []) /\ Forall (fun b => b < 65) (dec o).
Proof.
  intro Ho. assert (I : In o (map N.of_nat (seq 0 256))).
  { rewrite <- (N2Nat.id o). apply in_map. apply in_seq. lia. }
  pose proof (proj1 (forallb_forall _ _) dec_check_all o I) as C. unfold dec_check in C.
  rewrite !andb_true_iff in C. destruct C as [[[C1 C2] C3] C4].
  split; [| split; [| split]].
  - intro E. rewrite E in C1. discriminate.
  - apply Forall_forall. intros x Hx. exact (proj1 (forallb_forall _ _) C2 x Hx).
  - destruct (read_octet (dec o)) as [[v [| ? ?]] |]; try discriminate. apply N.eqb_eq in C3. subst. reflexivity.
  - apply Forall_forall. intros x Hx. apply N.ltb_lt. exact (proj1 (forallb_forall _ _) C4 x Hx).
Qed.

Lemma dec_last o : exists y, dec o = y ++ [48 + o mod 10].
Proof.
  unfold dec. destruct (N.ltb_spec o 10).
  - exists []. rewrite N.mod_small by assumption. reflexivity.
  - destruct (o <? 100); [exists [48 + o / 10] | exists [48 + o / 100; 48 + (o / 10) mod 10]]; reflexivity.
Qed.

Lemma nondigit_dot r : nondigit_head (c_dot :: r).
Proof. reflexivity. Qed.

Theorem read_ipv4_dotted a b c d r : a < 256 -> b < 256 -> c < 256 -> d < 256 -> nondigit_head r ->
  read_ipv4 (dotted a b c d ++ r) = Some (V4 a b c d, r).
Proof.
  intros Ha Hb Hc Hd R.
  destruct (dec_ok a Ha) as [A1 [A2 [A3 _]]]. destruct (dec_ok b Hb) as [B1 [B2 [B3 _]]].
  destruct (dec_ok c Hc) as [C1 [C2 [C3 _]]]. destruct (dec_ok d Hd) as [D1 [D2 [D3 _]]].
  unfold dotted, read_ipv4. rewrite <- !app_assoc. cbn [app].
  rewrite (read_octet_app (dec a) _ a A1 A2 (nondigit_dot _) A3). cbn [app expect]. rewrite N.eqb_refl.
  rewrite (read_octet_app (dec b) _ b B1 B2 (nondigit_dot _) B3). cbn [app expect]. rewrite N.eqb_refl.
  rewrite (read_octet_app (dec c) _ c C1 C2 (nondigit_dot _) C3). cbn [app expect]. rewrite N.eqb_refl.
  rewrite (read_octet_app (dec d) r d D1 D2 R D3). reflexivity.
Qed.

Theorem parse_ip_dotted a b c d : a < 256 -> b < 256 -> c < 256 -> d < 256 ->
  parse_ip (dotted a b c d) = Some (Ip4 (V4 a b c d)).
Proof.
  intros Ha Hb Hc Hd. unfold parse_ip.
  pose proof (read_ipv4_dotted a b c d [] Ha Hb Hc Hd I) as E. rewrite app_nil_r in E. rewrite E. reflexivity.
Qed.

Lemma lower_small s : Forall (fun b => b < 65) s -> lower s = s.
Proof.
  induction 1 as [| b s Hb _ IH]; [reflexivity |]. cbn [lower map]. fold (lower s). rewrite IH. f_equal.
  unfold lower_byte. destruct ((65 <=? b) && (b <=? 90)) eqn:E; [lia | reflexivity].
Qed.

(* every IPv4 address, written in the standard way (optionally with the trailing dot), is classified by its value *)
Theorem dotted_host_class a b c d : a < 256 -> b < 256 -> c < 256 -> d < 256 ->
  host_is_non_global (Some (dotted a b c d)) = ipv4_non_global (V4 a b c d)
  /\ host_is_non_global (Some (dotted a b c d ++ [c_dot])) = ipv4_non_global (V4 a b c d).
Proof.
  intros Ha Hb Hc Hd.
  destruct (dec_ok a Ha) as [_ [_ [_ A4]]]. destruct (dec_ok b Hb) as [_ [_ [_ B4]]].
  destruct (dec_ok c Hc) as [_ [_ [_ C4]]]. destruct (dec_ok d Hd) as [_ [_ [_ D4]]].
  assert (SM : Forall (fun x => x < 65) (dotted a b c d)).
  { unfold dotted. repeat (apply Forall_app; split); try assumption; repeat constructor; unfold c_dot; lia. }
  destruct (dec_last d) as [y Ey].
  assert (Ex : dotted a b c d = (dec a ++ [c_dot] ++ dec b ++ [c_dot] ++ dec c ++ [c_dot] ++ y) ++ [48 + d mod 10]).
  { unfold dotted. rewrite Ey, <- !app_assoc. reflexivity. }
  pose proof (N.mod_lt d 10 ltac:(lia)) as M.
  assert (N1 : 48 + d mod 10 <> c_rbr) by (unfold c_rbr; lia).
  assert (N2 : 48 + d mod 10 <> c_dot) by (unfold c_dot; lia).
  assert (P : parse_ip (lower (dotted a b c d)) = Some (Ip4 (V4 a b c d))) by (rewrite (lower_small _ SM); apply parse_ip_dotted; assumption).
  split; unfold host_is_non_global.
  - rewrite Ex at 1. rewrite normalize_host_plain by assumption. rewrite <- Ex, P. reflexivity.
  - rewrite Ex at 1. rewrite normalize_host_trailing_dot by assumption. rewrite <- Ex, P. reflexivity.
Qed.

Corollary dotted_host_blocks a b c d : a < 256 -> b < 256 -> c < 256 -> d < 256 ->
  (host_is_non_global (Some (dotted a b c d)) = true <-> v4_blocked (v4_value a b c d)).
Proof.
  intros Ha Hb Hc Hd. rewrite (proj1 (dotted_host_class a b c d Ha Hb Hc Hd)). apply ipv4_blocks; assumption.
Qed.

Theorem dotted_decimal_host a b c d : a < 256 -> b < 256 -> c < 256 -> d < 256 ->
  parse_ip (dotted a b c d) = Some (Ip4 (V4 a b c d))
  /\ (host_is_non_global (Some (dotted a b c d)) = true <-> v4_blocked (v4_value a b c d))
  /\ host_is_non_global (Some (dotted a b c d ++ [c_dot])) = host_is_non_global (Some (dotted a b c d)).
Proof.
  intros Ha Hb Hc Hd. pose proof (dotted_host_class a b c d Ha Hb Hc Hd) as [E1 E2].
  split; [apply parse_ip_dotted; assumption | split; [apply dotted_host_blocks; assumption | congruence]].
Qed.
