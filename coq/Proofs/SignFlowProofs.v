(* Proofs/SignFlowProofs.v — C03: lemmas about Model/SignFlow.v *)
From Coq Require Import List NArith Bool String Ascii Arith Lia ZifyBool ZifyNat ZifyN.
From C2PA Require Import Base.Cbor Base.Bytes Generated.C03_facts Model.SignFlow.
Import ListNotations.
Close Scope string_scope.
Open Scope N_scope.
Arguments N.add : simpl never. Arguments N.sub : simpl never. Arguments N.eqb : simpl never.
Arguments N.ltb : simpl never. Arguments N.leb : simpl never.

(* ------------------------------------------------------------------------------------------------ *)
(* A. two-pass sizes *)

Lemma hdr_bounds : forall n, 1 <= hdr n <= 9.
Proof. intro n. unfold hdr. repeat (destruct (_ <? _)); lia. Qed.

(* the check after the second serialisation: a successful start_save returns two equal sizes *)
Lemma two_pass_same_size :
  forall pad_loop others m al hl e0 e1 s1 s2,
    SIZE_CHECK_PRESENT = true ->
    start_save pad_loop others m al hl e0 e1 = SOk (s1, s2) -> s1 = s2.
Proof.
  intros pl others m al hl e0 e1 s1 s2 Hc H. unfold start_save in H.
  destruct (pad_to_size pl _ _); [|discriminate].
  rewrite Hc in H. cbn [andb] in H.
  destruct (N.eqb_spec (store_size (others ++ [with_hash_assertion m (dh_size (placeholder_dh al hl e0))]))
                       (store_size (others ++ [with_hash_assertion m (dh_size d)]))) as [E|E];
    cbn [negb] in H; [|discriminate].
  inversion H; subst. exact E.
Qed.

Lemma placeholder_size :
  forall al hl e0,
    dh_size (placeholder_dh al hl e0) =
    1 + excl_size e0 + (tstr_size 4 + tstr_size 14) + (tstr_size 3 + tstr_size al) + (tstr_size 4 + bstr_size hl)
    + (tstr_size 3 + (1 + DH_SLACK)).
Proof.
  intros. unfold dh_size, placeholder_dh, dh_entries; cbn [dh_excl dh_pad2 dh_name dh_alg dh_hash dh_pad].
  assert (Hm : forall k, k <= 6 -> map_hdr k = 1) by (intros k Hk; unfold map_hdr, hdr; destruct (k <? 24) eqn:E; lia).
  rewrite Hm by (destruct e0; lia).
  assert (Hb : bstr_size DH_SLACK = 1 + DH_SLACK) by (unfold bstr_size, hdr, DH_SLACK; reflexivity).
  rewrite Hb. lia.
Qed.

Lemma final_size :
  forall al hl e1,
    dh_size (final_dh al hl e1) =
    1 + excl_size e1 + (tstr_size 4 + tstr_size 14) + (tstr_size 3 + tstr_size al) + (tstr_size 4 + bstr_size hl)
    + (tstr_size 3 + 1).
Proof.
  intros. unfold dh_size, final_dh, dh_entries; cbn [dh_excl dh_pad2 dh_name dh_alg dh_hash dh_pad].
  assert (Hm : forall k, k <= 6 -> map_hdr k = 1) by (intros k Hk; unfold map_hdr, hdr; destruct (k <? 24) eqn:E; lia).
  rewrite Hm by (destruct e1; lia).
  assert (Hb : bstr_size 0 = 1) by reflexivity. rewrite Hb. lia.
Qed.

Section Exact.
  Variable pad_loop : DataHashM -> N -> option DataHashM.
  (* DataHash::pad_to_size reaches every target that is not below the current size (C14) *)
  Hypothesis pad_exact :
    forall d t, dh_size d <= t -> exists d', pad_loop d t = Some d' /\ dh_size d' = t.

  (* the two-pass save succeeds exactly when the located exclusions grew by at most the slack, and then both
     serialisations have the size of the placeholder store *)
  Lemma two_pass_exact :
    forall others m al hl e0 e1,
      (excl_size e1 <= excl_size e0 + DH_SLACK ->
       exists s, start_save pad_loop others m al hl e0 e1 = SOk (s, s)
                 /\ s = store_size (others ++ [with_hash_assertion m (dh_size (placeholder_dh al hl e0))]))
      /\ (excl_size e0 + DH_SLACK < excl_size e1 ->
          start_save pad_loop others m al hl e0 e1 = SErrJumbfCreation).
  Proof.
    intros others m al hl e0 e1. split; intro H; unfold start_save, pad_to_size.
    - assert (Hle : dh_size (final_dh al hl e1) <= dh_size (placeholder_dh al hl e0))
        by (rewrite placeholder_size, final_size; lia).
      destruct (N.ltb_spec (dh_size (placeholder_dh al hl e0)) (dh_size (final_dh al hl e1))) as [L|L]; [lia|].
      destruct (pad_exact _ _ Hle) as [d' [Hp Hs]]. rewrite Hp, Hs.
      rewrite N.eqb_refl. cbn [negb]. rewrite andb_false_r. eexists; split; reflexivity.
    - assert (Hlt : dh_size (placeholder_dh al hl e0) < dh_size (final_dh al hl e1))
        by (rewrite placeholder_size, final_size; lia).
      destruct (N.ltb_spec (dh_size (placeholder_dh al hl e0)) (dh_size (final_dh al hl e1))) as [L|L]; [reflexivity|lia].
  Qed.
End Exact.

(* one exclusion whose start does not move (every container that embeds the store at a fixed position): the
   length field can grow from 1 to at most 9 bytes, which the slack covers *)
Lemma single_exclusion_fits :
  forall s l0 l1, excl_size [(s, l1)] <= excl_size [(s, l0)] + DH_SLACK.
Proof.
  intros. unfold excl_size, excl_entry_size, DH_SLACK. cbn [map sumN fst snd].
  change (len [(s, l1)]) with 1. change (len [(s, l0)]) with 1.
  pose proof (hdr_bounds l0). pose proof (hdr_bounds l1). lia.
Qed.

(* no exclusion in either pass (sidecar / remote manifests) *)
Lemma no_exclusion_fits : excl_size [] <= excl_size [] + DH_SLACK.
Proof. unfold DH_SLACK. cbn. lia. Qed.

(* the slack is not enough in general: two located ranges whose four integers all grow *)
Lemma slack_can_be_exceeded :
  exists e0 e1, List.length e0 = List.length e1 /\ excl_size e0 + DH_SLACK < excl_size e1.
Proof. exists [(8, 4); (20, 4)], [(70000, 70000); (140010, 4)]. split; [reflexivity|]. vm_compute. reflexivity. Qed.

(* ------------------------------------------------------------------------------------------------ *)
(* B. the second embed *)

Lemma to_nat_len : forall (l : bytes), N.to_nat (len l) = List.length l.
Proof. intro l. unfold len. apply Nat2N.id. Qed.

Section EmbedProofs.
  Variable pre post : bytes -> N -> bytes.
  Variable wrap : bytes -> bytes.

  Lemma sel_excl_embed :
    forall a j, sel_excl (embed pre post wrap a j) (cai_range pre wrap a j) = pre a (len j) ++ post a (len j).
  Proof.
    intros a j. unfold sel_excl, embed, cai_range; cbn [fst snd].
    rewrite to_nat_len. rewrite firstn_app, firstn_all, Nat.sub_diag, firstn_O, app_nil_r.
    f_equal.
    replace (N.to_nat (len (pre a (len j)) + len (wrap j))) with (List.length (pre a (len j)) + List.length (wrap j))%nat
      by (rewrite N2Nat.inj_add, !to_nat_len; reflexivity).
    rewrite app_assoc, <- app_length.
    rewrite skipn_app, skipn_all, Nat.sub_diag. reflexivity.
  Qed.

  (* The hash computed on the first output (placeholder store) is the hash of the final output: the bytes outside the
     located manifest range depend on the store only through its length. *)
  Lemma hash_survives_second_embed :
    forall (H : bytes -> bytes) a j1 j2,
      len j1 = len j2 ->
      H (sel_excl (embed pre post wrap a j2) (cai_range pre wrap a j2))
      = H (sel_excl (embed pre post wrap a j1) (cai_range pre wrap a j1)).
  Proof. intros H a j1 j2 E. rewrite !sel_excl_embed, E. reflexivity. Qed.

  (* with a framing whose length depends only on the store's length, the range recorded in the first pass is the
     range located in the final output, so verification recomputes exactly the recorded hash *)
  Lemma sign_then_verify_hash :
    forall (H : bytes -> bytes) a j1 j2,
      (forall x y, len x = len y -> len (wrap x) = len (wrap y)) ->
      len j1 = len j2 ->
      let recorded_range := cai_range pre wrap a j1 in
      let recorded_hash := H (sel_excl (embed pre post wrap a j1) recorded_range) in
      cai_range pre wrap a j2 = recorded_range
      /\ H (sel_excl (embed pre post wrap a j2) recorded_range) = recorded_hash.
  Proof.
    intros H a j1 j2 Hw E rr rh. subst rr rh.
    assert (R : cai_range pre wrap a j2 = cai_range pre wrap a j1)
      by (unfold cai_range; rewrite E, (Hw j2 j1) by (symmetry; exact E); reflexivity).
    split; [exact R|].
    transitivity (H (sel_excl (embed pre post wrap a j2) (cai_range pre wrap a j2))); [rewrite R; reflexivity|].
    apply hash_survives_second_embed. exact E.
  Qed.
End EmbedProofs.

(* ------------------------------------------------------------------------------------------------ *)
(* C. field mapping *)
Open Scope string_scope.

Lemma prefix_refl : forall s, prefix s s = true.
Proof. induction s as [|c s IH]; cbn; [reflexivity|]. destruct (ascii_dec c c); [exact IH|congruence]. Qed.

Lemma prefix_app : forall s t, prefix s (s ++ t) = true.
Proof.
  induction s as [|c s IH]; intro t; cbn; [destruct t; reflexivity|].
  destruct (ascii_dec c c); [apply IH|congruence].
Qed.

Lemma contains_app_r : forall p s, contains s (p ++ s) = true.
Proof.
  induction p as [|c p IH]; intro s; cbn [append].
  - destruct s; cbn [contains]; rewrite prefix_refl; reflexivity.
  - cbn [contains]. rewrite IH. apply orb_true_r.
Qed.

(* views: everything of a claim assertion / an addition except the instance number *)
Definition view := (string * akind * bool * arole * option nat)%type.
Definition ca_view (x : CA) : view := (ca_label x, ca_kind x, ca_created x, ca_role x, ca_src x).
Definition add_view (a : Add) : view := (ad2_label a, ad2_kind a, ad2_created a, ad2_role a, ad2_src a).

Definition v_created (v : view) : bool := match v with (_, _, c, _, _) => c end.
Definition v_visible (v : view) : bool :=
  match v with
  | (l, k, _, r, _) =>
      match r, k with
      | RUser, KCbor | RUser, KJson => true
      | RHash, _ => negb (hidden_hash_label l)
      | _, _ => false
      end
  end.
Definition v_report (v : view) : string * bool * bool * option nat :=
  match v with (l, k, c, _, s) => (l, match k with KJson => true | _ => false end, c, s) end.

Lemma add_all_view :
  forall adds store, map ca_view (add_all store adds) = (map ca_view store ++ map add_view adds)%list.
Proof.
  induction adds as [|a t IH]; intro store; cbn [add_all map].
  - rewrite app_nil_r. reflexivity.
  - rewrite IH, map_app. cbn [map]. rewrite <- app_assoc. reflexivity.
Qed.

Lemma to_claim_view : forall d h, map ca_view (to_claim d h) = map add_view (additions d h).
Proof. intros. unfold to_claim. rewrite add_all_view. reflexivity. Qed.

Lemma filter_map_view :
  forall {A B} (f : A -> B) (p : B -> bool) (l : list A),
    map f (filter (fun x => p (f x)) l) = filter p (map f l).
Proof.
  intros A B f p l. induction l as [|x t IH]; cbn; [reflexivity|].
  destruct (p (f x)); cbn; rewrite IH; reflexivity.
Qed.

(* After fix 9afceaf9c the lookup is exact, so a gathered assertion is loaded as created only when its label with
   instance suffix is literally that of a created assertion — which needs labels that use the reserved `__<n>` instance
   syntax themselves (e.g. label "a__1" next to a second "a"); such definitions do not sign. *)
Definition label_collision (c : list CA) : Prop :=
  exists x y, In x c /\ In y c /\ ca_created x = false /\ ca_created y = true
              /\ label_with_instance (ca_label x) (ca_inst x) = label_with_instance (ca_label y) (ca_inst y).

Definition no_collision_b (c : list CA) : bool :=
  forallb (fun x => ca_created x
                    || negb (existsb (fun y => ca_created y
                                               && String.eqb (label_with_instance (ca_label x) (ca_inst x))
                                                             (label_with_instance (ca_label y) (ca_inst y))) c)) c.

Lemma no_collision_b_sound : forall c, no_collision_b c = true -> ~ label_collision c.
Proof.
  intros c H [x [y [Hx [Hy [Cx [Cy E]]]]]]. unfold no_collision_b in H. rewrite forallb_forall in H.
  specialize (H x Hx). rewrite Cx in H. cbn [orb] in H. apply negb_true_iff in H.
  assert (T : existsb (fun y0 => ca_created y0 && String.eqb (label_with_instance (ca_label x) (ca_inst x))
                                                            (label_with_instance (ca_label y0) (ca_inst y0))) c = true).
  { apply existsb_exists. exists y. split; [exact Hy|]. rewrite Cy, E, String.eqb_refl. reflexivity. }
  congruence.
Qed.

Lemma loaded_created_sound :
  forall c x, In x c -> ca_created x = true -> loaded_created 2 c x = true.
Proof.
  intros c x Hin Hc. unfold loaded_created. cbn [Nat.leb].
  apply existsb_exists. exists (label_with_instance (ca_label x) (ca_inst x)). split.
  - unfold created_segments. apply in_map_iff. exists x. split; [reflexivity|]. apply filter_In. auto.
  - apply String.eqb_refl.
Qed.

Lemma loaded_created_exact :
  forall c, ~ label_collision c -> forall x, In x c -> loaded_created 2 c x = ca_created x.
Proof.
  intros c Hk x Hin. destruct (ca_created x) eqn:Hc; [apply loaded_created_sound; assumption|].
  unfold loaded_created. cbn [Nat.leb].
  destruct (existsb _ (created_segments c)) eqn:E; [|reflexivity].
  exfalso. apply Hk. apply existsb_exists in E. destruct E as [u [Hu Heq]].
  unfold created_segments in Hu. apply in_map_iff in Hu. destruct Hu as [y [Hy Hyin]].
  apply filter_In in Hyin. destruct Hyin as [Hyin Hyc].
  exists x, y. subst u. apply String.eqb_eq in Heq. repeat split; assumption.
Qed.

Definition ra_view (r : RA) : string * bool * bool * option nat := (ra_label r, ra_json r, ra_created r, ra_src r).

Lemma visible_view : forall x, visible x = v_visible (ca_view x).
Proof. intro x. unfold visible, v_visible, ca_view. reflexivity. Qed.

(* claim v2: outside the known class, the reported assertions are exactly the visible additions, created ones first,
   each with its label, kind, created flag and payload as added *)
Lemma report_v2_of_additions :
  forall d h,
    d_version d = 2%nat -> ~ label_collision (to_claim d h) ->
    map ra_view (r_assertions (sign_report d h))
    = map v_report (filter v_visible
                      (filter v_created (map add_view (additions d h))
                       ++ filter (fun v => negb (v_created v)) (map add_view (additions d h)))%list).
Proof.
  intros d h Hv Hk. unfold sign_report, report. rewrite Hv. cbn [r_assertions].
  set (c := to_claim d h) in *.
  rewrite map_map.
  assert (Hin : forall x, In x (filter visible (claim_order 2 c)) -> In x c).
  { intros x Hx. apply filter_In in Hx. destruct Hx as [Hx _]. unfold claim_order in Hx. cbn [Nat.leb] in Hx.
    apply in_app_or in Hx. destruct Hx as [Hx|Hx]; apply filter_In in Hx; tauto. }
  rewrite (map_ext_in _ (fun x => v_report (ca_view x))).
  2:{ intros x Hx. unfold ra_view, report_item; cbn [ra_label ra_json ra_created ra_src].
      rewrite (loaded_created_exact c Hk x (Hin x Hx)). reflexivity. }
  rewrite <- map_map. f_equal.
  rewrite (filter_ext visible (fun x => v_visible (ca_view x))) by (intro; apply visible_view).
  rewrite filter_map_view. f_equal.
  unfold claim_order. cbn [Nat.leb]. rewrite map_app.
  rewrite (filter_ext ca_created (fun x => v_created (ca_view x))) by reflexivity.
  rewrite (filter_ext (fun x => negb (ca_created x)) (fun x => negb (v_created (ca_view x)))) by reflexivity.
  rewrite (filter_map_view ca_view v_created), (filter_map_view ca_view (fun v => negb (v_created v))).
  unfold c. rewrite to_claim_view. reflexivity.
Qed.

(* the supplied assertions as they must appear: label after the dispatch of to_claim, kind, created flag, position *)
Definition user_items (d : Defn) : list (string * bool * bool * option nat) :=
  map (fun (it : nat * ADef) =>
         (claim_label (ad_label (snd it)),
          match claim_kind (snd it) with KJson => true | _ => false end,
          claim_created (snd it), Some (fst it)))
      (index_from 0 (d_assertions d)).

Definition it_created (t : string * bool * bool * option nat) : bool := match t with (_, _, c, _) => c end.

Lemma filter_app_l : forall {A} (p : A -> bool) (a b : list A), filter p (a ++ b)%list = (filter p a ++ filter p b)%list.
Proof. intros. apply filter_app. Qed.

Lemma filter_none : forall {A} (p : A -> bool) l, (forall x, In x l -> p x = false) -> filter p l = [].
Proof.
  intros A p l H. induction l as [|x t IH]; cbn; [reflexivity|].
  rewrite (H x (or_introl eq_refl)). apply IH. intros y Hy. apply H. right. exact Hy.
Qed.

Lemma filter_all : forall {A} (p : A -> bool) l, (forall x, In x l -> p x = true) -> filter p l = l.
Proof.
  intros A p l H. induction l as [|x t IH]; cbn; [reflexivity|].
  rewrite (H x (or_introl eq_refl)). f_equal. apply IH. intros y Hy. apply H. right. exact Hy.
Qed.

Lemma claim_kind_not_binary : forall a, claim_kind a <> KBinary.
Proof.
  intro a. unfold claim_kind.
  destruct (is_actions _); [discriminate|]. destruct (_ || _); [discriminate|]. destruct (ad_json a); discriminate.
Qed.

(* the visible part of the additions: the supplied assertions (no automatic actions assertion, hidden hash label) *)
Lemma visible_additions :
  forall d h,
    d_auto_actions d = false -> hidden_hash_label h = true ->
    filter v_visible (map add_view (additions d h))
    = map (fun (it : nat * ADef) =>
             (claim_label (ad_label (snd it)), claim_kind (snd it), claim_created (snd it), RUser, Some (fst it)))
          (index_from 0 (d_assertions d)).
Proof.
  intros d h Ha Hh. unfold additions. rewrite Ha, andb_false_r.
  rewrite !map_app, !filter_app_l. cbn [map app].
  rewrite (filter_none v_visible (map add_view (if d_thumb d then _ else _)))
    by (intros x Hx; destruct (d_thumb d); cbn in Hx; [destruct Hx as [<-|[]]; reflexivity|contradiction]).
  rewrite (filter_none v_visible (map add_view (List.concat _))).
  2:{ intros x Hx. apply in_map_iff in Hx. destruct Hx as [a [<- Hx]]. apply in_concat in Hx.
      destruct Hx as [l [Hl Hx]]. apply in_map_iff in Hl. destruct Hl as [it [<- _]].
      apply in_app_or in Hx. destruct Hx as [Hx|Hx].
      - destruct (snd it); cbn in Hx; [destruct Hx as [<-|[]]; reflexivity|contradiction].
      - cbn in Hx. destruct Hx as [<-|[]]. reflexivity. }
  cbn [app filter add_view v_visible ad2_label ad2_kind ad2_created ad2_role ad2_src]. rewrite Hh. cbn [negb app].
  rewrite app_nil_r. rewrite map_map. cbn [add_view ad2_label ad2_kind ad2_created ad2_role ad2_src].
  apply filter_all. intros x Hx. apply in_map_iff in Hx. destruct Hx as [it [<- _]].
  cbn [v_visible]. pose proof (claim_kind_not_binary (snd it)). destruct (claim_kind (snd it)); congruence.
Qed.

Lemma filter_filter_comm : forall {A} (p q : A -> bool) l, filter p (filter q l) = filter q (filter p l).
Proof.
  intros A p q l. induction l as [|x t IH]; cbn; [reflexivity|].
  destruct (q x) eqn:Q, (p x) eqn:P; cbn; rewrite ?Q, ?P, IH; reflexivity.
Qed.

(* definition -> report, claim v2: the report lists exactly the supplied assertions — created ones first, each group
   in the supplied order — with label (after to_claim's dispatch), kind, created flag and payload as given *)
Lemma report_v2_as_given :
  forall d h,
    d_version d = 2%nat -> d_auto_actions d = false -> hidden_hash_label h = true ->
    ~ label_collision (to_claim d h) ->
    map ra_view (r_assertions (sign_report d h))
    = (filter it_created (user_items d) ++ filter (fun t => negb (it_created t)) (user_items d))%list.
Proof.
  intros d h Hv Ha Hh Hk. rewrite (report_v2_of_additions d h Hv Hk).
  rewrite filter_app_l, map_app.
  rewrite (filter_filter_comm v_visible v_created), (filter_filter_comm v_visible (fun v => negb (v_created v))).
  rewrite (visible_additions d h Ha Hh).
  unfold user_items.
  rewrite <- (filter_map_view (fun it : nat * ADef => (claim_label (ad_label (snd it)), claim_kind (snd it), claim_created (snd it), RUser, Some (fst it))) v_created).
  rewrite <- (filter_map_view (fun it : nat * ADef => (claim_label (ad_label (snd it)), claim_kind (snd it), claim_created (snd it), RUser, Some (fst it))) (fun v => negb (v_created v))).
  rewrite !map_map. cbn [v_report v_created].
  rewrite <- (filter_map_view (fun it : nat * ADef => (claim_label (ad_label (snd it)), match claim_kind (snd it) with KJson => true | _ => false end, claim_created (snd it), Some (fst it))) it_created).
  rewrite <- (filter_map_view (fun it : nat * ADef => (claim_label (ad_label (snd it)), match claim_kind (snd it) with KJson => true | _ => false end, claim_created (snd it), Some (fst it))) (fun t => negb (it_created t))).
  reflexivity.
Qed.

(* claim v1: no created/gathered lists; the report lists the supplied assertions in the supplied order *)
Lemma report_v1_as_given :
  forall d h,
    d_version d = 1%nat -> d_auto_actions d = false -> hidden_hash_label h = true ->
    map (fun r => (ra_label r, ra_json r, ra_src r)) (r_assertions (sign_report d h))
    = map (fun t => match t with (l, j, _, s) => (l, j, s) end) (user_items d)
    /\ Forall (fun r => ra_created r = false) (r_assertions (sign_report d h)).
Proof.
  intros d h Hv Ha Hh. unfold sign_report, report. rewrite Hv. cbn [r_assertions claim_order Nat.leb].
  split.
  - rewrite map_map. cbn [report_item ra_label ra_json ra_src].
    rewrite (map_ext _ (fun x => match v_report (ca_view x) with (l, j, _, s) => (l, j, s) end)) by reflexivity.
    rewrite <- (map_map (fun x => v_report (ca_view x)) (fun t => match t with (l, j, _, s) => (l, j, s) end)).
    rewrite <- (map_map ca_view v_report).
    rewrite (filter_ext visible (fun x => v_visible (ca_view x))) by (intro; apply visible_view).
    rewrite filter_map_view, to_claim_view, (visible_additions d h Ha Hh).
    unfold user_items. rewrite !map_map. reflexivity.
  - apply Forall_forall. intros r Hr. apply in_map_iff in Hr. destruct Hr as [x [<- _]]. reflexivity.
Qed.

(* ingredients are reported in the supplied order (claim v2) *)
Lemma v_ingredient_additions :
  forall d h,
    map ca_src (filter (fun x => match ca_role x with RIngredient => true | _ => false end)
                       (filter (fun x => negb (ca_created x)) (to_claim d h)))
    = map (fun it => Some (fst it)) (index_from 0 (d_ingredients d))
    /\ filter (fun x => match ca_role x with RIngredient => true | _ => false end) (filter ca_created (to_claim d h)) = [].
Proof.
  intros d h.
  set (isI := fun v : view => match v with (_, _, _, RIngredient, _) => true | _ => false end).
  set (vsrc := fun v : view => match v with (_, _, _, _, s) => s end).
  assert (E1 : forall l, map ca_src (filter (fun x => match ca_role x with RIngredient => true | _ => false end)
                                        (filter (fun x => negb (ca_created x)) l))
                         = map vsrc (filter isI (filter (fun v => negb (v_created v)) (map ca_view l)))).
  { intro l. rewrite <- (filter_map_view ca_view (fun v => negb (v_created v))).
    rewrite <- (filter_map_view ca_view isI). rewrite map_map. reflexivity. }
  split.
  - rewrite E1, to_claim_view. unfold additions.
    set (T := (if d_thumb d then _ else _) : list Add).
    set (A := map _ (index_from 0 (d_assertions d))).
    set (U := (if negb (has_actions d) && d_auto_actions d then _ else _) : list Add).
    rewrite !map_app, !filter_app_l.
    assert (Hn : forall l, (forall v, In v l -> isI v = false \/ v_created v = true) ->
                           filter isI (filter (fun v => negb (v_created v)) l) = []).
    { intros l H. induction l as [|v t IH]; cbn [filter]; [reflexivity|].
      destruct (H v (or_introl eq_refl)) as [Hi|Hc].
      - destruct (v_created v); cbn [negb filter]; [|rewrite Hi]; apply IH; intros; apply H; right; assumption.
      - rewrite Hc. cbn [negb]. apply IH; intros; apply H; right; assumption. }
    rewrite (Hn (map add_view T))
      by (intros v Hv; subst T; destruct (d_thumb d); cbn in Hv; [destruct Hv as [<-|[]]; left; reflexivity|contradiction]).
    rewrite (Hn (map add_view A))
      by (intros v Hv; apply in_map_iff in Hv; destruct Hv as [a [<- Ha]]; subst A; apply in_map_iff in Ha;
          destruct Ha as [it [<- _]]; left; reflexivity).
    rewrite (Hn (map add_view U))
      by (intros v Hv; subst U; destruct (negb (has_actions d) && d_auto_actions d); cbn in Hv; [destruct Hv as [<-|[]]; left; reflexivity|contradiction]).
    rewrite (Hn (map add_view [mkAdd h KCbor true RHash None])) by (intros v Hv; cbn in Hv; destruct Hv as [<-|[]]; left; reflexivity).
    cbn [app]. rewrite !app_nil_r.
    generalize 0%nat. induction (d_ingredients d) as [|b t IH]; intro k; cbn [index_from map List.concat]; [reflexivity|].
    rewrite map_app, !filter_app_l, map_app. rewrite IH. cbn [fst snd].
    destruct b; reflexivity.
  - apply filter_none. intros x Hx. apply filter_In in Hx. destruct Hx as [Hx Hc].
    destruct (ca_role x) eqn:R; try reflexivity. exfalso.
    assert (Hv : In (ca_view x) (map ca_view (to_claim d h))) by (apply in_map; exact Hx).
    rewrite to_claim_view in Hv. apply in_map_iff in Hv. destruct Hv as [a [Ea Ha]].
    unfold ca_view, add_view in Ea. inversion Ea as [[E1' E2' E3' E4' E5']].
    rewrite Hc in E3'. rewrite R in E4'.
    unfold additions in Ha. repeat (apply in_app_or in Ha; destruct Ha as [Ha|Ha]).
    + destruct (d_thumb d); cbn in Ha; [destruct Ha as [<-|[]]; discriminate|contradiction].
    + apply in_concat in Ha. destruct Ha as [l [Hl Ha]]. apply in_map_iff in Hl. destruct Hl as [it [<- _]].
      apply in_app_or in Ha. destruct Ha as [Ha|Ha].
      * destruct (snd it); cbn in Ha; [destruct Ha as [<-|[]]; discriminate|contradiction].
      * cbn in Ha. destruct Ha as [<-|[]]. discriminate.
    + apply in_map_iff in Ha. destruct Ha as [it [<- _]]. discriminate.
    + destruct (negb (has_actions d) && d_auto_actions d); cbn in Ha; [destruct Ha as [<-|[]]; discriminate|contradiction].
    + cbn in Ha. destruct Ha as [<-|[]]. discriminate.
Qed.

Lemma ingredients_v2_as_given :
  forall d h, d_version d = 2%nat ->
    r_ingredients (sign_report d h) = map (fun it => Some (fst it)) (index_from 0 (d_ingredients d)).
Proof.
  intros d h Hv. unfold sign_report, report. rewrite Hv. cbn [r_ingredients claim_order Nat.leb].
  rewrite filter_app_l, map_app. destruct (v_ingredient_additions d h) as [E1 E2]. rewrite E2, E1. reflexivity.
Qed.

(* the repaired class F-CREATED-SUBSTR: org.a gathered next to org.ab created, and duplicate labels with mixed flags, are
   now reported with the supplied flags *)
Definition substr_witness : Defn :=
  mkD 2 false [] [mkA "c2pa.actions" false false; mkA "org.a" false false; mkA "org.ab" false true;
                  mkA "com.x" false false; mkA "com.x" false false; mkA "com.x" false true] false.

Lemma substring_labels_fixed :
  no_collision_b (to_claim substr_witness "c2pa.hash.data") = true
  /\ map ra_view (r_assertions (sign_report substr_witness "c2pa.hash.data"))
     = [("org.ab", false, true, Some 2%nat); ("com.x", false, true, Some 5%nat);
        ("c2pa.actions.v2", false, false, Some 0%nat); ("org.a", false, false, Some 1%nat);
        ("com.x", false, false, Some 3%nat); ("com.x", false, false, Some 4%nat)].
Proof. vm_compute. split; reflexivity. Qed.

(* the label dispatch drops the version suffix of a custom label (known class F-USER-VERSION) and nothing else *)
Lemma version_suffix_refuted : claim_label "com.acme.review.v2" = "com.acme.review".
Proof. vm_compute. reflexivity. Qed.

(* the created flag is kept for every label, stds.schema-org.CreativeWork included (repaired class F-CW-CREATED) *)
Lemma created_kept : forall a, claim_created a = ad_created a.
Proof. reflexivity. Qed.

Definition cw_witness : Defn :=
  mkD 2 false [] [mkA "c2pa.actions" false false; mkA "stds.schema-org.CreativeWork" true true] false.

Lemma creative_work_created_fixed :
  map ra_view (r_assertions (sign_report cw_witness "c2pa.hash.data"))
  = [("stds.schema-org.CreativeWork", true, true, Some 1%nat); ("c2pa.actions.v2", false, false, Some 0%nat)].
Proof. vm_compute. reflexivity. Qed.

Definition plain_label (l : string) : Prop :=
  is_actions l = false /\ version_suffix_rev (rev_str l "") = None.

Lemma plain_label_kept : forall l, plain_label l -> claim_label l = l.
Proof.
  intros l [Ha Hv]. unfold claim_label. rewrite Ha. destruct (_ || _); [reflexivity|].
  unfold strip_version. rewrite Hv. reflexivity.
Qed.
