(* Proofs/SyncAsyncProofs.v — C40: the two readings of a macro-generated body agree when every branch site has
   arms that are equal up to await-erasure; and the generated list of today's sites satisfies that, apart from
   the individually justified allow-list. *)
From Coq Require Import List String Bool Arith Lia.
From C2PA Require Import Model.SyncAsync Generated.C40_pairs.
Import ListNotations.
Open Scope string_scope.

Lemma toks_eqb_eq : forall a b, toks_eqb a b = true <-> a = b.
Proof.
  induction a as [|x a IH]; destruct b as [|y b]; cbn; split; intro H; try reflexivity; try discriminate.
  - apply andb_true_iff in H. destruct H as [H1 H2]. apply String.eqb_eq in H1. apply IH in H2. subst. reflexivity.
  - inversion H; subst. apply andb_true_iff. split. apply String.eqb_refl. apply IH. reflexivity.
Qed.

Lemma lists_eqb_eq : forall a b, lists_eqb a b = true <-> a = b.
Proof.
  induction a as [|x a IH]; destruct b as [|y b]; cbn; split; intro H; try reflexivity; try discriminate.
  - apply andb_true_iff in H. destruct H as [H1 H2]. apply toks_eqb_eq in H1. apply IH in H2. subst. reflexivity.
  - inversion H; subst. apply andb_true_iff. split. apply toks_eqb_eq. reflexivity. apply IH. reflexivity.
Qed.

(* the macro leaves, in both flavours, chunk lists with the same erasure *)
Lemma flat_agree : forall t, branches_ok t = true -> map erase (flat true t) = map erase (flat false t).
Proof.
  induction t as [|ts k IHk|s IHs a IHa k IHk]; cbn; intro H.
  - reflexivity.
  - rewrite IHk by exact H. reflexivity.
  - repeat (apply andb_true_iff in H; destruct H as [H ?]).
    apply lists_eqb_eq in H. rewrite !map_app. rewrite H. rewrite IHk by assumption. reflexivity.
Qed.

Section Interp.
  Variables (St R : Type).
  Variable sem_s sem_a : list token -> St -> outcome St R.
  (* what "equal up to" means: a normal form of chunks; [erase] for plain sites, [rules ∘ erase] for allow-listed ones *)
  Variable nf : list token -> list token.
  (* chunks with the same normal form mean the same in both flavours: callee pairs agree and awaiting a future
     yields the value the synchronous call returns *)
  Hypothesis Hsem : forall t1 t2 st, nf t1 = nf t2 -> sem_a t2 st = sem_s t1 st.

  Lemma run_chunks_agree : forall cs1 cs2 st,
      map nf cs1 = map nf cs2 -> run_chunks St R sem_a cs2 st = run_chunks St R sem_s cs1 st.
  Proof.
    induction cs1 as [|c1 r1 IH]; destruct cs2 as [|c2 r2]; cbn; intros st H; try reflexivity; try discriminate.
    inversion H as [[H1 H2]]. rewrite (Hsem c1 c2 st H1).
    destruct (sem_s c1 st); [apply IH; exact H2 | reflexivity].
  Qed.

  (* the scheduler only decides *when* the rest of the body runs, not what it computes *)
  Lemma block_on_complete : forall cs st fuel,
      awaits cs < fuel -> block_on St R sem_a fuel cs st = Some (run_chunks St R sem_a cs st).
  Proof.
    induction cs as [|c r IH]; intros st fuel Hf; destruct fuel as [|f]; try lia.
    - reflexivity.
    - cbn [block_on poll run_chunks]. destruct (sem_a c st) as [st'|x] eqn:E; [|reflexivity].
      unfold awaits in Hf. cbn [filter] in Hf.
      destruct (has_await c) eqn:Ha.
      + cbn [List.length] in Hf. apply IH. unfold awaits. lia.
      + specialize (IH st' (S f)). cbn [block_on] in IH. apply IH. unfold awaits. exact Hf.
  Qed.

  Lemma block_on_sound : forall cs st fuel o,
      block_on St R sem_a fuel cs st = Some o -> o = run_chunks St R sem_a cs st.
  Proof.
    induction cs as [|c r IH]; intros st fuel o H; destruct fuel as [|f]; try discriminate.
    - cbn in H. inversion H. reflexivity.
    - cbn [block_on poll run_chunks] in *. destruct (sem_a c st) as [st'|x] eqn:E.
      + destruct (has_await c).
        * eapply IH. exact H.
        * apply (IH st' (S f)). cbn [block_on]. exact H.
      + inversion H. reflexivity.
  Qed.
End Interp.

(* ------------------------------------------------------------------ c40_interp_agree *)
Lemma interp_agree :
  forall (St R : Type) (sem_s sem_a : list token -> St -> outcome St R),
    (forall t1 t2 st, erase t1 = erase t2 -> sem_a t2 st = sem_s t1 st) ->
    forall t, branches_ok t = true ->
    forall st,
      (exists fuel, run_async St R sem_a fuel t st = Some (run_sync St R sem_s t st))
      /\ (forall fuel o, run_async St R sem_a fuel t st = Some o -> o = run_sync St R sem_s t st).
Proof.
  intros St R sem_s sem_a Hsem t Hok st.
  assert (E : run_chunks St R sem_a (flat false t) st = run_chunks St R sem_s (flat true t) st).
  { apply (run_chunks_agree St R sem_s sem_a erase Hsem). apply flat_agree. exact Hok. }
  split.
  - exists (S (awaits (flat false t))). unfold run_async, run_sync.
    rewrite block_on_complete by lia. rewrite E. reflexivity.
  - intros fuel o H. unfold run_async, run_sync in *. apply block_on_sound in H. rewrite H. exact E.
Qed.

(* one site, any normal form *)
Lemma site_agree_nf :
  forall (St R : Type) (sem_s sem_a : list token -> St -> outcome St R) (nf : list token -> list token),
    (forall t1 t2 st, nf t1 = nf t2 -> sem_a t2 st = sem_s t1 st) ->
    forall p, nf (s_sync p) = nf (s_async p) ->
    forall st,
      run_async St R sem_a 2 (site_tm p) st = Some (run_sync St R sem_s (site_tm p) st)
      /\ (forall fuel o, run_async St R sem_a fuel (site_tm p) st = Some o -> o = run_sync St R sem_s (site_tm p) st).
Proof.
  intros St R sem_s sem_a nf Hsem p Hp st.
  assert (E : run_chunks St R sem_a (flat false (site_tm p)) st = run_chunks St R sem_s (flat true (site_tm p)) st).
  { apply (run_chunks_agree St R sem_s sem_a nf Hsem). cbn. rewrite Hp. reflexivity. }
  split.
  - unfold run_async, run_sync. rewrite block_on_complete.
    + rewrite E. reflexivity.
    + cbn. unfold awaits. cbn. destruct (has_await (s_async p)); cbn; lia.
  - intros fuel o H. unfold run_async, run_sync in *. apply block_on_sound in H. rewrite H. exact E.
Qed.

(* ------------------------------------------------------------------ today's sites *)
Lemma all_pairs_equal : forallb (pair_equal allow) pairs = true.
Proof. vm_compute. reflexivity. Qed.

Lemma allow_justified : forallb entry_justified allow = true.
Proof. vm_compute. reflexivity. Qed.

Lemma allow_used : forallb (entry_used pairs) allow = true.
Proof. vm_compute. reflexivity. Qed.

Lemma allow_entries_are_divergent :
  forallb (fun e => negb (toks_eqb (a_sync e) (a_async e))) allow = true.
Proof. vm_compute. reflexivity. Qed.

Lemma handwritten_modelled :
  same_set_string handwritten_callees modelled_handwritten = true
  /\ same_set_string handwritten_async_fns modelled_handwritten_fns = true.
Proof. split; vm_compute; reflexivity. Qed.

Lemma macro_modelled :
  String.eqb macro_version modelled_macro_version = true /\ String.eqb macro_checksum modelled_macro_checksum = true.
Proof. split; vm_compute; reflexivity. Qed.

Lemma adjusted_settings_benign :
  mem_string "verify.verify_timestamp_trust" cose_sign_settings_reads = false
  /\ forallb (fun f => negb (String.prefix "verify" f)) cose_sign_settings_reads = true.
Proof. split; vm_compute; reflexivity. Qed.

(* the normal form under which a site's arms coincide: erasure, followed by the rules of its allow entry if any *)
Definition site_rules (p : site) : list (list token * list token) :=
  if plain_equal p then []
  else match find (fun e => entry_matches e p) allow with
       | Some e => a_rules e
       | None => []
       end.

Definition site_nf (p : site) (ts : list token) : list token := apply_rules (site_rules p) (erase ts).

Lemma site_nf_equal : forall p, In p pairs -> site_nf p (s_sync p) = site_nf p (s_async p).
Proof.
  intros p Hin. unfold site_nf, site_rules.
  pose proof (proj1 (forallb_forall _ _) all_pairs_equal p Hin) as H.
  unfold pair_equal in H. destruct (plain_equal p) eqn:Hp.
  - unfold plain_equal in Hp. apply toks_eqb_eq in Hp. cbn. exact Hp.
  - change (existsb (fun e => entry_matches e p) allow = true) in H.
    destruct (find (fun e => entry_matches e p) allow) as [e|] eqn:Hf.
    + apply find_some in Hf. destruct Hf as [He Hm].
      pose proof (proj1 (forallb_forall _ _) allow_justified e He) as Hj.
      unfold entry_justified in Hj. apply toks_eqb_eq in Hj.
      unfold entry_matches in Hm. repeat (apply andb_true_iff in Hm; destruct Hm as [Hm ?]).
      match goal with H1 : toks_eqb (a_sync e) _ = true, H2 : toks_eqb (a_async e) _ = true |- _ =>
        apply toks_eqb_eq in H1; apply toks_eqb_eq in H2; rewrite <- H1, <- H2 end.
      exact Hj.
    + exfalso. apply existsb_exists in H. destruct H as [e [He Hm]].
      pose proof (find_none _ _ Hf e He) as Hn. cbn in Hn. rewrite Hm in Hn. discriminate.
Qed.

Lemma every_site_agrees :
  forall p, In p pairs ->
  forall (St R : Type) (sem_s sem_a : list token -> St -> outcome St R),
    (forall t1 t2 st, site_nf p t1 = site_nf p t2 -> sem_a t2 st = sem_s t1 st) ->
    forall st,
      run_async St R sem_a 2 (site_tm p) st = Some (run_sync St R sem_s (site_tm p) st)
      /\ (forall fuel o, run_async St R sem_a fuel (site_tm p) st = Some o -> o = run_sync St R sem_s (site_tm p) st).
Proof.
  intros p Hin St R sem_s sem_a Hsem st.
  apply (site_agree_nf St R sem_s sem_a (site_nf p) Hsem p (site_nf_equal p Hin)).
Qed.

(* outside the allow-list the normal form is plain erasure *)
Lemma site_nf_plain : forall p ts, plain_equal p = true -> site_nf p ts = erase ts.
Proof. intros p ts H. unfold site_nf, site_rules. rewrite H. reflexivity. Qed.

Definition divergent_sites : list (string * string) :=
  map (fun p => (s_file p, s_fn p)) (filter (fun p => negb (plain_equal p)) pairs).

Lemma divergent_sites_are :
  divergent_sites = [("builder.rs", "sign"); ("builder.rs", "save_to_stream"); ("cose_sign.rs", "cose_sign");
                     ("store.rs", "sign_claim"); ("crypto/cose/sign.rs", "sign_v1"); ("crypto/cose/sign.rs", "sign_v2_embedded")].
Proof. vm_compute. reflexivity. Qed.

(* the scheduler model is not vacuous: a body that awaits needs more than one poll and gives the sync value *)
Definition ex_tm : tm :=
  Call ["let"; "a"; "="; "f"; "("; ")"; ";"]
    (Branch (Call ["g"; "("; "a"; ")"; ";"] Ret) (Call ["g_async"; "("; "a"; ")"; "."; "await"; ";"] Ret)
      (Branch (Call ["h"; "("; ")"] Ret) (Call ["Box"; "::"; "pin"; "("; "h_async"; "("; ")"; ")"; "."; "await"] Ret) Ret)).

Definition ex_sem (ts : list token) (st : nat) : outcome nat nat :=
  if mem_string "h" (erase ts) then Return (st + List.length (erase ts)) else Cont (st + List.length (erase ts)).

Lemma example_runs :
  branches_ok ex_tm = true
  /\ run_sync nat nat ex_sem ex_tm 0 = Return 15
  /\ run_async nat nat ex_sem 1 ex_tm 0 = None
  /\ run_async nat nat ex_sem 2 ex_tm 0 = Some (Return 15)
  /\ (forall t1 t2 st, erase t1 = erase t2 -> ex_sem t2 st = ex_sem t1 st).
Proof.
  repeat split; try (vm_compute; reflexivity).
  intros t1 t2 st H. unfold ex_sem. rewrite H. reflexivity.
Qed.

(* a divergent branch is detected: one token of difference that erasure does not explain *)
Lemma divergence_detected :
  pair_equal allow (mkSite "store.rs" "sign_claim" 1
     ["verify_cose"; "("; "&"; "sig"; ","; "&"; "adjusted_settings"; ")"]
     ["verify_cose_async"; "("; "&"; "sig"; ","; "settings"; ")"; "."; "await"]) = false.
Proof. vm_compute. reflexivity. Qed.
