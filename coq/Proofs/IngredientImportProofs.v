(* Proofs/IngredientImportProofs.v — C39: lemmas about Model/IngredientImport.v *)
From Coq Require Import List NArith Bool Arith Lia.
From C2PA Require Import Model.IngredientImport.
Import ListNotations.

Lemma label_eqb_refl : forall l, label_eqb l l = true.
Proof.
  intros [g [[v [r|]]|]]; unfold label_eqb; cbn [fst snd]; rewrite ?Nat.eqb_refl; reflexivity.
Qed.

Lemma label_eqb_eq : forall a b, label_eqb a b = true -> a = b.
Proof.
  intros [g [[v [r|]]|]] [g' [[v' [r'|]]|]]; unfold label_eqb; cbn [fst snd]; intro H;
    repeat match goal with
           | X : _ && _ = true |- _ => apply andb_prop in X; destruct X
           | X : Nat.eqb _ _ = true |- _ => apply Nat.eqb_eq in X; subst
           end; try discriminate; reflexivity.
Qed.

Lemma label_dec : forall a b : Label, {a = b} + {a <> b}.
Proof. repeat decide equality. Qed.

Lemma label_eqb_neq : forall a b, a <> b -> label_eqb a b = false.
Proof. intros a b H. destruct (label_eqb a b) eqn:E; [|reflexivity]. apply label_eqb_eq in E. contradiction. Qed.

Lemma find_some_label : forall l s m, find l s = Some m -> mf_label m = l /\ In m s.
Proof.
  intros l s. induction s as [|x t IH]; intros m H; cbn [find] in H; [discriminate|].
  destruct (label_eqb l (mf_label x)) eqn:E.
  - inversion H; subst. split; [symmetry; apply label_eqb_eq; exact E|left; reflexivity].
  - destruct (IH m H) as [A B]. split; [exact A|right; exact B].
Qed.

Lemma find_app : forall l a b, find l (a ++ b) = match find l a with Some m => Some m | None => find l b end.
Proof.
  intros l a b. induction a as [|x t IH]; cbn [find app]; [reflexivity|].
  destruct (label_eqb l (mf_label x)); [reflexivity|exact IH].
Qed.

Lemma find_map_replace_same :
  forall m s, find (mf_label m) s <> None ->
    find (mf_label m) (map (fun x => if label_eqb (mf_label m) (mf_label x) then m else x) s) = Some m.
Proof.
  intros m s. induction s as [|x t IH]; intro H; cbn [find map] in *; [congruence|].
  destruct (label_eqb (mf_label m) (mf_label x)) eqn:E.
  - rewrite label_eqb_refl. reflexivity.
  - rewrite E. apply IH. exact H.
Qed.

Lemma find_map_replace_other :
  forall m l s, l <> mf_label m ->
    find l (map (fun x => if label_eqb (mf_label m) (mf_label x) then m else x) s) = find l s.
Proof.
  intros m l s Hn. induction s as [|x t IH]; cbn [find map]; [reflexivity|].
  destruct (label_eqb (mf_label m) (mf_label x)) eqn:E.
  - apply label_eqb_eq in E. rewrite (label_eqb_neq l (mf_label m) Hn).
    rewrite <- E. rewrite (label_eqb_neq l (mf_label m) Hn). exact IH.
  - destruct (label_eqb l (mf_label x)); [reflexivity|exact IH].
Qed.

(* replace_or_insert: the manifest is found under its label afterwards, other labels are untouched *)
Lemma roi_same : forall m s, find (mf_label m) (replace_or_insert m s) = Some m.
Proof.
  intros m s. unfold replace_or_insert. destruct (find (mf_label m) s) eqn:E.
  - apply find_map_replace_same. congruence.
  - rewrite find_app, E. cbn [find]. rewrite label_eqb_refl. reflexivity.
Qed.

Lemma roi_other : forall m l s, l <> mf_label m -> find l (replace_or_insert m s) = find l s.
Proof.
  intros m l s Hn. unfold replace_or_insert. destruct (find (mf_label m) s) eqn:E.
  - apply find_map_replace_other. exact Hn.
  - rewrite find_app. destruct (find l s); [reflexivity|]. cbn [find]. rewrite (label_eqb_neq l (mf_label m) Hn). reflexivity.
Qed.

Definition insert_all (inc s : list Mf) : list Mf := fold_left (fun s m => replace_or_insert m s) inc s.

Lemma insert_all_other :
  forall inc l s, ~ In l (map mf_label inc) -> find l (insert_all inc s) = find l s.
Proof.
  induction inc as [|a t IH]; intros l s H; cbn [insert_all fold_left]; [reflexivity|].
  fold (insert_all t (replace_or_insert a s)). rewrite IH by (intro X; apply H; right; exact X).
  apply roi_other. intro X. apply H. left. symmetry. exact X.
Qed.

Lemma insert_all_in :
  forall inc s m, NoDup (map mf_label inc) -> In m inc -> find (mf_label m) (insert_all inc s) = Some m.
Proof.
  induction inc as [|a t IH]; intros s m Hnd Hin; [contradiction|].
  cbn [insert_all fold_left]. fold (insert_all t (replace_or_insert a s)).
  cbn [map] in Hnd. inversion Hnd as [|x xs Hnotin Hnd']; subst.
  destruct Hin as [<-|Hin].
  - rewrite insert_all_other by exact Hnotin. apply roi_same.
  - apply IH; assumption.
Qed.

(* no conflict: an incoming manifest with a label already in the store has the same bytes *)
Definition compatible (cur inc : list Mf) : Prop :=
  forall i c, In i inc -> find (mf_label i) cur = Some c -> mf_bytes c = mf_bytes i.

Lemma no_conflicts : forall cur inc, compatible cur inc -> filter (conflicting cur) inc = [].
Proof.
  intros cur inc H. induction inc as [|i t IH]; cbn [filter]; [reflexivity|].
  assert (Hc : conflicting cur i = false).
  { unfold conflicting. destruct (find (mf_label i) cur) as [c|] eqn:E; [|reflexivity].
    rewrite (H i c (or_introl eq_refl) E), Nat.eqb_refl. reflexivity. }
  rewrite Hc. apply IH. intros i' c Hi. apply H. right. exact Hi.
Qed.

(* c39_manifests_unchanged: without a label conflict, every manifest of the ingredient's store is in the parent's
   store under its own label with its own bytes, and every manifest that was there before is still there unchanged *)
Lemma load_unchanged :
  forall cur inc,
    NoDup (map mf_label inc) -> compatible cur inc ->
    exists s, load_ingredient cur inc = MOk s
              /\ (forall m, In m inc -> find (mf_label m) s = Some m)
              /\ (forall c, find (mf_label c) cur = Some c -> find (mf_label c) s = Some c).
Proof.
  intros cur inc Hnd Hc. unfold load_ingredient. rewrite (no_conflicts cur inc Hc). cbn [resolve].
  eexists. split; [reflexivity|]. fold (insert_all inc cur). split.
  - intros m Hm. apply insert_all_in; assumption.
  - intros c Hf. destruct (in_dec label_dec (mf_label c) (map mf_label inc)) as [Hin|Hnot].
    + apply in_map_iff in Hin. destruct Hin as [i [El Hi]].
      assert (Ei : i = c).
      { pose proof (Hc i c Hi) as Hb. rewrite El in Hb. specialize (Hb Hf).
        destruct i as [li bi], c as [lc bc]. cbn in *. subst. reflexivity. }
      subst i. apply insert_all_in; assumption.
    + rewrite insert_all_other by exact Hnot. exact Hf.
Qed.

(* the store grows only by labels of the ingredient *)
Lemma load_adds_only_incoming :
  forall cur inc s l, compatible cur inc -> load_ingredient cur inc = MOk s ->
    ~ In l (map mf_label inc) -> find l s = find l cur.
Proof.
  intros cur inc s l Hc H Hn. unfold load_ingredient in H. rewrite (no_conflicts cur inc Hc) in H. cbn [resolve] in H.
  inversion H; subst. fold (insert_all inc cur). apply insert_all_other. exact Hn.
Qed.

(* ---- one conflicting manifest ---- *)

(* documented relabelling: the conflicting incoming manifest is also stored under guid::(max version + 1)_1 with its bytes;
   without a versioned label in the store the call fails *)
Lemma conflict_relabelled :
  forall cur i c,
    find (mf_label i) cur = Some c -> mf_bytes c <> mf_bytes i ->
    match max_version cur with
    | None => load_ingredient cur [i] = MErrLabelMalformed
    | Some v => exists s, load_ingredient cur [i] = MOk s
                          /\ (relabel (mf_label i) (S v) <> mf_label i ->
                              find (relabel (mf_label i) (S v)) s = Some (mkMf (relabel (mf_label i) (S v)) (mf_bytes i)))
                          /\ find (mf_label i) s = Some i
    end.
Proof.
  intros cur i c Hf Hb. unfold load_ingredient. cbn [filter].
  assert (Hc : conflicting cur i = true).
  { unfold conflicting. rewrite Hf. apply negb_true_iff. apply Nat.eqb_neq. exact Hb. }
  rewrite Hc. cbn [resolve]. destruct (max_version cur) as [v|]; [|reflexivity].
  eexists. split; [reflexivity|]. cbn [fold_left]. split.
  - intro Hne. rewrite roi_other by exact Hne.
    exact (roi_same (mkMf (relabel (mf_label i) (S v)) (mf_bytes i)) cur).
  - apply roi_same.
Qed.

(* ---- validation results ---- *)
Section ImportProofs.
  Variable Asset : Type.
  Variable store_of : Asset -> option (list Mf).
  Variable validate : Asset -> list Mf -> ReadM.

  Lemma validation_copied :
    forall a, ig_validation (add_ingredient_from_stream Asset store_of validate a) = standalone_read Asset store_of validate a.
  Proof. intro a. unfold add_ingredient_from_stream, standalone_read. destruct (store_of a); reflexivity. Qed.

  Lemma manifest_data_copied :
    forall a, ig_manifest_data (add_ingredient_from_stream Asset store_of validate a) = store_of a.
  Proof. intro a. unfold add_ingredient_from_stream. destruct (store_of a); reflexivity. Qed.

  Lemma unsigned_nothing :
    forall cur a, store_of a = None ->
      import Asset store_of validate cur a = (MOk cur, mkIngr None None None).
  Proof. intros cur a H. unfold import, add_ingredient_from_stream, add_to_claim. rewrite H. reflexivity. Qed.

  Lemma signed_import_unchanged :
    forall cur a st,
      store_of a = Some st -> NoDup (map mf_label st) -> compatible cur st ->
      exists s, fst (import Asset store_of validate cur a) = MOk s
                /\ (forall m, In m st -> find (mf_label m) s = Some m)
                /\ (forall c, find (mf_label c) cur = Some c -> find (mf_label c) s = Some c)
                /\ ig_validation (snd (import Asset store_of validate cur a)) = Some (validate a st).
  Proof.
    intros cur a st Hs Hnd Hc. unfold import, add_ingredient_from_stream, add_to_claim. rewrite Hs. cbn [fst snd ig_manifest_data ig_validation].
    destruct (load_unchanged cur st Hnd Hc) as [s [E [A B]]]. exists s. repeat split; assumption.
  Qed.
End ImportProofs.

(* the relabelling does not protect the manifest that was in the store: the incoming manifest then also replaces it
   under the shared label (known class F-CONFLICT-OVERWRITE) *)
Definition overwrite_cur : list Mf := [mkMf (7, Some (1, None)) 100].
Definition overwrite_inc : Mf := mkMf (7, Some (1, None)) 200.

Lemma conflict_overwrites_refuted :
  exists s, load_ingredient overwrite_cur [overwrite_inc] = MOk s
            /\ find (7, Some (1, None)) overwrite_cur = Some (mkMf (7, Some (1, None)) 100)
            /\ find (7, Some (1, None)) s = Some (mkMf (7, Some (1, None)) 200)
            /\ find (7, Some (2, Some 1)) s = Some (mkMf (7, Some (2, Some 1)) 200).
Proof. eexists. vm_compute. repeat split. Qed.
