(* Proofs/ContJpegBytes.v — the img-parts JPEG parser inverts the img-parts encoder on well-formed
   segment lists (every valid JPEG as the handler sees it: segments up to the first SOS, whose
   entropy field is the rest of the file), and write_cai/remove/read on bytes are the generic
   operations on segments. *)
From Coq Require Import List NArith Bool Lia Arith.
From C2PA Require Import Base.Bytes Model.Container Model.ContPng Model.ContJpeg
     Proofs.BytesProofs Proofs.ContainerProofs Proofs.ContPngProofs Proofs.ContJpegProofs.
Require Import ZifyBool ZifyNat ZifyN.
Import ListNotations.
Open Scope nat_scope.

(* a segment in front of the scan *)
Definition jseg_enc_ok (s : jseg) : Prop :=
  je s = [] /\ jm s <> 255%N /\ jm s <> M_EOI /\ jm s <> M_SOS
  /\ (if has_length (jm s) then (len (jc s) <= 65533)%N else jc s = []).
(* the scan segment: SOS header, then everything up to the end of the file *)
Definition jlast_ok (s : jseg) : Prop := jm s = M_SOS /\ je s <> [] /\ (len (jc s) <= 65533)%N.

Definition jwf (l : list jseg) : Prop :=
  exists init last, l = init ++ [last] /\ Forall jseg_enc_ok init /\ jlast_ok last.

Lemma be2 n : be 2 n = [(n / 256) mod 256; n mod 256]%N.
Proof. reflexivity. Qed.

Lemma be2_value n : (n < 65536)%N -> ((n / 256) mod 256 * 256 + n mod 256 = n)%N.
Proof.
  intro H. rewrite (N.mod_small (n / 256) 256) by (apply N.div_lt_upper_bound; lia).
  rewrite N.mul_comm. symmetry. apply N.div_mod. lia.
Qed.

Lemma skip_ff_marker m t : m <> 255%N -> skip_ff (m :: t) = Some (m, t).
Proof. intro H. cbn. apply N.eqb_neq in H. rewrite H. reflexivity. Qed.

Lemma jparse_seg_len f m c rest :
  m <> 255%N -> m <> M_EOI -> m <> M_SOS -> has_length m = true -> (len c <= 65533)%N ->
  jparse (S f) (255%N :: m :: be 2 (len c + 2) ++ c ++ rest) = option_map (cons (JSeg m c [])) (jparse f rest).
Proof.
  intros H1 H2 H3 H4 H5. cbn [jparse]. change (negb (255 =? 255)%N) with false. cbn iota.
  rewrite (skip_ff_marker m _ H1).
  apply N.eqb_neq in H2. rewrite H2. rewrite H4. cbn [negb]. rewrite be2. cbn [app].
  rewrite be2_value by lia.
  replace (len c + 2 <? 2)%N with false by (symmetry; apply N.ltb_ge; lia).
  replace (len c + 2 - 2)%N with (len c) by lia.
  replace (len (c ++ rest) <? len c)%N with false by (symmetry; apply N.ltb_ge; unfold len; rewrite app_length; lia).
  rewrite len_length. rewrite (firstn_len_app _ c rest eq_refl), (skipn_len_app _ c rest eq_refl).
  apply N.eqb_neq in H3. rewrite H3. reflexivity.
Qed.

Lemma jparse_sos f c e :
  e <> [] -> (len c <= 65533)%N ->
  jparse (S f) (255%N :: M_SOS :: be 2 (len c + 2) ++ c ++ e) = Some [JSeg M_SOS c e].
Proof.
  intros He H5. cbn [jparse]. change (negb (255 =? 255)%N) with false. cbn iota.
  rewrite (skip_ff_marker M_SOS _ ltac:(discriminate)).
  change (M_SOS =? M_EOI)%N with false. change (has_length M_SOS) with true. cbn [negb]. rewrite be2. cbn [app].
  rewrite be2_value by lia.
  replace (len c + 2 <? 2)%N with false by (symmetry; apply N.ltb_ge; lia).
  replace (len c + 2 - 2)%N with (len c) by lia.
  replace (len (c ++ e) <? len c)%N with false by (symmetry; apply N.ltb_ge; unfold len; rewrite app_length; lia).
  rewrite len_length. rewrite (firstn_len_app _ c e eq_refl), (skipn_len_app _ c e eq_refl).
  change (M_SOS =? M_SOS)%N with true. destruct e; [contradiction|reflexivity].
Qed.

Lemma jparse_seg_nolen f m rest :
  m <> 255%N -> m <> M_EOI -> has_length m = false ->
  jparse (S (S (S f))) (255%N :: m :: 0%N :: 0%N :: rest) = option_map (cons (JSeg m [] [])) (jparse f rest).
Proof.
  intros H1 H2 H4. cbn [jparse]. change (negb (255 =? 255)%N) with false. cbn iota.
  rewrite (skip_ff_marker m _ H1).
  apply N.eqb_neq in H2. rewrite H2. rewrite H4. cbn [negb]. reflexivity.
Qed.

Lemma enc_jseg_len_form s : has_length (jm s) = true ->
  enc_jseg s = 255%N :: jm s :: be 2 (len (jc s) + 2) ++ jc s ++ je s.
Proof.
  intro H. unfold enc_jseg, jlen. rewrite H. replace (4 + len (jc s) - 2)%N with (len (jc s) + 2)%N by lia. reflexivity.
Qed.

Lemma jparse_enc init : Forall jseg_enc_ok init -> forall last fuel, jlast_ok last ->
  length (concat (map enc_jseg init) ++ enc_jseg last) <= fuel ->
  jparse fuel (concat (map enc_jseg init) ++ enc_jseg last) = Some (init ++ [last]).
Proof.
  induction 1 as [|s t Hs Ht IH]; intros last fuel Hl Hf.
  - cbn [map concat app] in *. destruct Hl as (Hm & He & Hc). destruct last as [m c e]. cbn in Hm, He, Hc. subst m.
    rewrite (enc_jseg_len_form (JSeg M_SOS c e) eq_refl) in *. cbn [jm jc je] in *.
    destruct fuel; [cbn in Hf; lia|]. apply jparse_sos; assumption.
  - cbn [map concat] in *. rewrite <- app_assoc in *.
    set (R := concat (map enc_jseg t) ++ enc_jseg last) in *.
    destruct Hs as (He & H1 & H2 & H3 & H4). destruct s as [m c e]. cbn in He, H1, H2, H3, H4. subst e.
    destruct (has_length m) eqn:Hh.
    + assert (E : enc_jseg (JSeg m c []) ++ R = 255%N :: m :: be 2 (len c + 2) ++ c ++ R).
      { rewrite enc_jseg_len_form by exact Hh. cbn [jm jc je app]. rewrite app_nil_r, <- app_assoc. reflexivity. }
      rewrite E in *.
      destruct fuel; [cbn in Hf; lia|].
      rewrite jparse_seg_len by assumption.
      unfold R. rewrite IH; [reflexivity| exact Hl|].
      fold R. cbn [length] in Hf. rewrite !app_length in Hf. lia.
    + subst c.
      assert (E : enc_jseg (JSeg m [] []) ++ R = 255%N :: m :: 0%N :: 0%N :: R).
      { unfold enc_jseg, jlen. cbn [jm jc je]. rewrite Hh. reflexivity. }
      rewrite E in *.
      destruct fuel as [|[|[|f]]]; try (cbn [length] in Hf; lia).
      rewrite jparse_seg_nolen by assumption.
      unfold R. rewrite IH; [reflexivity| exact Hl|]. fold R. cbn [length] in Hf. lia.
Qed.

Theorem jpeg_dec_enc l : jwf l -> jpeg_dec (jpeg_enc l) = Some l.
Proof.
  intros (init & last & -> & Hi & Hl). unfold jpeg_dec, jpeg_enc. cbn [app M_SOI].
  rewrite map_app, concat_app. cbn [map concat]. rewrite app_nil_r.
  apply jparse_enc; [exact Hi| exact Hl| lia].
Qed.

(* ------------------------------------------------------------------ invariants kept by write / remove *)

Lemma jcai_app_last init last : jlong last = false -> forall en cnt,
  jcai (init ++ [last]) en cnt = rbind (jcai init en cnt) (fun m => ROk (m ++ [false])).
Proof.
  intro Hl. induction init as [|s t IH]; intros en cnt.
  - cbn [app]. rewrite jcai_cons, Hl. reflexivity.
  - cbn [app]. rewrite !jcai_cons.
    destruct (jlong s).
    + destruct ((0 <? cnt)%N && (beq en (jen s) && (jz s =? cnt + 1)%N)).
      * rewrite IH. destruct (jcai t en (cnt + 1)%N); reflexivity.
      * destruct (jshort s); [reflexivity|]. destruct (jstart s); rewrite IH.
        -- destruct (jcai t (jen s) 1%N); reflexivity.
        -- destruct (jcai t en cnt); reflexivity.
    + rewrite IH. destruct (jcai t en cnt); reflexivity.
Qed.

Lemma select_forall {A} (P : A -> Prop) w l m : Forall P l -> Forall P (select w l m).
Proof.
  intro H. revert m. induction H as [|x t Hx Ht IH]; intros [|b m]; cbn; try constructor.
  destruct (Bool.eqb b w); [constructor; [exact Hx| apply IH]| apply IH].
Qed.

Lemma select_app_last {A} (l : list A) x m : length m = length l ->
  select false (l ++ [x]) (m ++ [false]) = select false l m ++ [x].
Proof. intro H. rewrite select_app by (symmetry; exact H). reflexivity. Qed.

Lemma rfind_index_app_last {A} (p : A -> bool) l x : p x = false -> rfind_index p (l ++ [x]) = rfind_index p l.
Proof.
  intro H. induction l as [|a t IH]; cbn.
  - rewrite H. reflexivity.
  - rewrite IH. reflexivity.
Qed.

Lemma find_index_app_false (m : list bool) :
  find_index (fun x : bool => x) (m ++ [false]) = find_index (fun x : bool => x) m.
Proof.
  induction m as [|x t IH]; [reflexivity|]. cbn. destruct x; [reflexivity|]. rewrite IH. reflexivity.
Qed.

Lemma jlast_not_long last : jlast_ok last -> jlong last = false /\ is_app0 last = false.
Proof.
  intros (Hm & _). unfold jlong, is_app11_long, is_app0. rewrite Hm. split; reflexivity.
Qed.

(* shape of the scan of a well-formed asset *)
Lemma jwf_scan init last : Forall jseg_enc_ok init -> jlast_ok last ->
  Forall jseg_ok (strip jpeg_format (init ++ [last])) ->
  exists m, jcai init [] 0%N = ROk m /\ length m = length init
            /\ strip jpeg_format (init ++ [last]) = select false init m ++ [last]
            /\ jins (init ++ [last]) <= length (select false init m).
Proof.
  intros Hi Hl Hok. destruct (jlast_not_long last Hl) as [Hnl Hna].
  destruct (jcai_ok_of_strip _ Hok) as [m' Em']. rewrite (jcai_app_last init last Hnl) in Em'.
  destruct (jcai init [] 0%N) as [m|] eqn:Em; cbn in Em'; [|discriminate]. injection Em' as <-.
  pose proof (jcai_length _ _ _ _ Em) as Hlen.
  assert (Es : jcai (init ++ [last]) [] 0%N = ROk (m ++ [false])) by (rewrite (jcai_app_last init last Hnl), Em; reflexivity).
  exists m. repeat split; auto.
  - rewrite (jstrip_eq _ _ Es). apply select_app_last. exact Hlen.
  - rewrite jins_eq, Es, find_index_app_false, (select_app_last _ _ _ Hlen).
    destruct (find_index (fun x : bool => x) m) as [[|i]|] eqn:Ef.
    + unfold default_ip. rewrite (rfind_index_app_last _ _ _ Hna). apply default_ip_bound.
    + apply first_true_le_unmarked; [exact Hlen| exact Ef].
    + unfold default_ip. rewrite (rfind_index_app_last _ _ _ Hna). apply default_ip_bound.
Qed.

Definition jstore_ok (b : bytes) : Prop := jadm b.

Lemma jmk_enc_ok b : Forall jseg_enc_ok (jmk b).
Proof.
  rewrite jmk_eq.
  assert (Hc : Forall (fun ch : bytes => length ch <= MAX_JPEG_MARKER_SIZE) (chunks (length b) MAX_JPEG_MARKER_SIZE b)).
  { generalize (length b) at 1. intro fuel. revert b. induction fuel as [|f IH]; intro b; cbn [chunks]; [constructor|].
    destruct b; [constructor|]. constructor; [apply firstn_le_length| apply IH]. }
  revert Hc. generalize 0. induction (chunks (length b) MAX_JPEG_MARKER_SIZE b) as [|c t IH]; intros k Hc; cbn [mapi_from]; constructor.
  - inversion Hc as [|? ? Hlen _]; subst. unfold jseg_enc_ok. cbn [je jm jc jf].
    split; [reflexivity|]. split; [discriminate|]. split; [discriminate|]. split; [discriminate|].
    change (has_length M_APP11) with true. cbn iota. unfold len. rewrite !app_length, be_length. cbn [JP_CI JP_EN length].
    assert (length (if Nat.eqb k 0 then [] else firstn 8 b) <= 8) by (destruct (Nat.eqb k 0); [cbn; lia| apply firstn_le_length]).
    assert (HM : (N.of_nat MAX_JPEG_MARKER_SIZE <= 64000)%N) by (apply N.leb_le; vm_compute; reflexivity).
    set (M := MAX_JPEG_MARKER_SIZE) in *. clearbody M. unfold bytes in *. lia.
  - apply IH. inversion Hc; assumption.
Qed.

Theorem gwrite_jwf l b : jwf l -> Forall jseg_ok (strip jpeg_format l) -> jwf (gwrite jpeg_format l b).
Proof.
  intros (init & last & -> & Hi & Hl) Hok.
  destruct (jwf_scan init last Hi Hl Hok) as (m & Em & Hlen & Hs & Hins).
  unfold gwrite. change (ins jpeg_format (init ++ [last])) with (jins (init ++ [last])). change (mk jpeg_format b) with (jmk b).
  rewrite Hs. rewrite insert_at_app_left by exact Hins.
  eexists _, last. split; [reflexivity|]. split; [|exact Hl].
  unfold insert_at. apply Forall_app. split; [apply forall_firstn, select_forall; exact Hi|].
  apply Forall_app. split; [apply jmk_enc_ok| apply forall_skipn, select_forall; exact Hi].
Qed.

Theorem gremove_jwf l : jwf l -> Forall jseg_ok (strip jpeg_format l) -> jwf (gremove jpeg_format l).
Proof.
  intros (init & last & -> & Hi & Hl) Hok.
  destruct (jwf_scan init last Hi Hl Hok) as (m & Em & Hlen & Hs & Hins).
  unfold gremove. rewrite Hs. eexists _, last. split; [reflexivity|]. split; [apply select_forall; exact Hi| exact Hl].
Qed.

(* ------------------------------------------------------------------ the handler on bytes *)

Theorem jpeg_write_bytes l b : jwf l -> Forall jseg_ok (strip jpeg_format l) ->
  jpeg_write (jpeg_enc l) b = ROk (jpeg_enc (gwrite jpeg_format l b)).
Proof.
  intros Hw Hok. unfold jpeg_write. rewrite (jpeg_dec_enc l Hw), (jpeg_write_segs_generic l b Hok). reflexivity.
Qed.

Theorem jpeg_remove_bytes l : jwf l -> Forall jseg_ok (strip jpeg_format l) ->
  jpeg_remove (jpeg_enc l) = ROk (jpeg_enc (gremove jpeg_format l)).
Proof.
  intros Hw Hok. unfold jpeg_remove. rewrite (jpeg_dec_enc l Hw).
  destruct (jcai_ok_of_strip l Hok) as [m Em]. rewrite Em. cbn [rbind]. rewrite (jpeg_remove_segs_generic l m Em). reflexivity.
Qed.

Lemma jwf_is_jpeg l : jwf l -> is_jpeg (jpeg_enc l) = true /\ l <> [].
Proof.
  intros (init & last & -> & Hi & Hl). split; [|destruct init; discriminate].
  unfold jpeg_enc. rewrite map_app, concat_app. cbn [map concat]. rewrite app_nil_r.
  destruct init as [|s t].
  - cbn [map concat app]. destruct Hl as (Hm & He & _). unfold enc_jseg. rewrite be2. cbn [app].
    destruct (jc last); destruct (je last); try contradiction; reflexivity.
  - cbn [map concat app]. unfold enc_jseg at 1. rewrite be2. reflexivity.
Qed.

Theorem jpeg_read_bytes l : jwf l -> jpeg_read (jpeg_enc l) = nonempty_or_notfound (gread jpeg_format l).
Proof.
  intro Hw. destruct (jwf_is_jpeg l Hw) as [Hj Hne]. unfold jpeg_read. rewrite Hj, (jpeg_dec_enc l Hw). cbn [negb].
  destruct l; [contradiction|reflexivity].
Qed.

(* any sequence of write/remove operations on the bytes of a valid JPEG *)
Fixpoint jpeg_run (a : bytes) (ops : list gop) : res bytes :=
  match ops with
  | [] => ROk a
  | OpW b :: t => rbind (jpeg_write a b) (fun a' => jpeg_run a' t)
  | OpR :: t => rbind (jpeg_remove a) (fun a' => jpeg_run a' t)
  end.

Theorem jpeg_run_bytes ops : forall l,
  jwf l -> okl jpeg_format jseg_ok l -> Forall (adm_op jadm) ops ->
  jpeg_run (jpeg_enc l) ops = ROk (jpeg_enc (grun jpeg_format l ops))
  /\ jwf (grun jpeg_format l ops) /\ okl jpeg_format jseg_ok (grun jpeg_format l ops).
Proof.
  induction ops as [|[b|] t IH]; intros l Hw Hok Hops.
  - cbn [jpeg_run grun]. repeat split; assumption.
  - inversion Hops as [|? ? Hb Ht]; subst. cbn in Hb. cbn [jpeg_run grun].
    rewrite (jpeg_write_bytes l b Hw Hok). cbn [rbind].
    apply IH; [apply gwrite_jwf; assumption| apply (okl_write _ _ _ jpeg_laws); assumption| exact Ht].
  - inversion Hops as [|? ? _ Ht]; subst. cbn [jpeg_run grun].
    rewrite (jpeg_remove_bytes l Hw Hok). cbn [rbind].
    apply IH; [apply gremove_jwf; assumption| apply (okl_remove _ _ _ jpeg_laws); assumption| exact Ht].
Qed.

(* every valid JPEG satisfies the side condition of the region theorem *)
Lemma jwf_len_ok l : jwf l -> Forall jseg_len_ok l.
Proof.
  intros (init & last & -> & Hi & Hl). apply Forall_app. split.
  - eapply Forall_impl; [|exact Hi]. intros s (He & _ & _ & _ & H). unfold jseg_len_ok.
    destruct (has_length (jm s)); [left; reflexivity| right; split; assumption].
  - constructor; [|constructor]. left. destruct Hl as (Hm & _). rewrite Hm. reflexivity.
Qed.

Lemma strip_len_ok l : Forall jseg_len_ok l -> Forall jseg_len_ok (strip jpeg_format l).
Proof. intro H. unfold strip. apply select_forall. exact H. Qed.
