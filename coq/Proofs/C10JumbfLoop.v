(* Proofs/C10JumbfLoop.v — C10 for the JUMBF box reader, second part: one loop iteration advances
   ([step_ok]), the prefix of read_super_box_impl ([head_ok]), the induction over the call tree
   ([jsuper_safe]) and the two refutations ([hang_forever], [overflow_panics]). *)
From Coq Require Import List NArith Bool Lia Arith ZifyBool ZifyNat ZifyN.
From C2PA Require Import Base.Bytes Generated.C10_facts Model.C10Mach Model.C10Jumbf Proofs.C10MachProofs
     Proofs.C10JumbfProofs.
Import ListNotations.
Open Scope N_scope.
Arguments N.add : simpl never.
Arguments N.sub : simpl never.
Arguments N.mul : simpl never.
Arguments N.eqb : simpl never.
Arguments N.ltb : simpl never.
Arguments N.leb : simpl never.
Arguments N.min : simpl never.
Arguments N.max : simpl never.
Arguments N.modulo : simpl never.
Arguments N.land : simpl never.

Section P.
  Variable strict : bool.
  Variable cadd : bool.
  Variable dbg : bool.
  Variable buf : bytes.
  Hypothesis HL : len buf <= U64MAX.

  (* the lemmas of the first part at this reader and buffer *)
  Let hcases := jread_header_cases strict buf HL.
  Let hrange := jread_header_range strict buf HL.
  Let hfull := jread_header_full strict buf HL.
  Let a_plain := plain_arm strict buf HL.
  Let a_uuid := uuid_arm strict buf HL.
  Let a_bfdb := bfdb_arm strict dbg buf HL.
  Let d_ok := desc_ok strict dbg buf HL.

  Lemma unknown_arm p0 size hn hs q :
    p0 <= len buf ->
    jread_header strict buf p0 = Some (hn, hs, q) ->
    match jskip_unknown strict buf p0 size with
    | Ok p => arm_ok q hs size p 0 /\ p <= len buf
    | Err _ => True
    | Panic _ _ _ => False
    | OutOfFuel => False
    end.
  Proof.
    intros Hp0 EH. unfold jskip_unknown, arm_ok. rewrite EH, HS8.
    apply hrange in EH; [|exact Hp0].
    destruct (hs =? 0) eqn:H0; [exact I|].
    destruct (hs =? size) eqn:Hsz.
    - destruct (checked_sub64 size 8) as [dl|] eqn:Ed; [|exact I]. apply checked_sub64_spec in Ed.
      destruct (read_to_vec buf q dl) as [p3|] eqn:E3; [|exact I]. apply read_to_vec_spec in E3.
      split; [right|]; lia.
    - destruct (seek_back q 8) as [p2|] eqn:E2; [|exact I]. apply seek_back_spec in E2.
      destruct (checked_sub64 size 8) as [dl|] eqn:Ed; [|exact I]. apply checked_sub64_spec in Ed.
      destruct (read_to_vec buf p2 dl) as [p3|] eqn:E3; [|exact I]. apply read_to_vec_spec in E3.
      split; [right|]; lia.
  Qed.

  (* ---------------------------------------------------------------- one loop iteration *)

  (* the hypothesis under which the loop advances: the repaired header reader, or no critical tail *)
  Definition advancing : Prop := strict = true \/ short_tailb buf = false.

  (* where the arm's own header read (at p0 = p1 - 8) stands relative to the iteration start [pos] *)
  Definition inner (pos name size p0 hs q : N) : Prop :=
    (p0 = pos /\ hs = size /\ q = pos + 8)                                  (* same header, read again *)
    \/ (p0 = pos + 8 /\ p0 + 8 <= q)                                        (* XLBox: the arm starts inside the box *)
    \/ (strict = false /\ p0 + 8 = len buf /\ q = len buf /\ pos < len buf /\ len buf < pos + 8 /\
        5 <= len buf - pos /\ name mod 256 = 0 /\ size = tail_size buf (len buf - pos)).   (* short read *)

  Lemma inner_facts pos name size p1 p0 hn hs q :
    pos <= len buf -> jread_header strict buf pos = Some (name, size, p1) -> name <> 0 ->
    seek_back p1 8 = Some p0 -> jread_header strict buf p0 = Some (hn, hs, q) ->
    p0 <= len buf /\ inner pos name size p0 hs q.
  Proof.
    intros Hp EH Hn E0 EI. apply seek_back_spec in E0.
    pose proof (hcases _ _ _ _ Hp EH) as C.
    destruct C as [C|[C|[C|C]]].
    - lia.
    - (* full, not XL: p0 = pos, the same call *)
      assert (p0 = pos) by lia. subst p0. rewrite EH in EI. inversion EI; subst.
      split; [lia|]. left. lia.
    - (* XL *)
      assert (Hp0 : p0 = pos + 8) by lia.
      assert (Hp0L : p0 <= len buf) by lia.
      pose proof (hcases _ _ _ _ Hp0L EI) as D.
      split; [lia|]. right. left. destruct D as [D|[D|[D|D]]]; lia.
    - (* short *)
      destruct C as (Hst & Hlt & Hgt & Hp1 & [Hz|(H5 & Hm & Hts)]); [contradiction|].
      assert (Hp0L : p0 <= len buf) by lia.
      pose proof (hcases _ _ _ _ Hp0L EI) as D.
      split; [lia|]. right. right.
      destruct D as [D|[D|[D|D]]]; lia.
  Qed.

  Lemma arm_progress pos name size p0 hs q p a :
    inner pos name size p0 hs q -> (name mod 256 <> 0) -> arm_ok q hs size p a -> pos + 8 + a <= p.
  Proof.
    unfold inner, arm_ok. intros [I|[I|I]] Hm A; [| |lia]; destruct A as [A|(A1 & A2 & [A|A])]; lia.
  Qed.

  Lemma skip_progress pos name size p0 hs q p :
    advancing -> inner pos name size p0 hs q -> arm_ok q hs size p 0 -> p <= len buf -> pos < p.
  Proof.
    unfold inner, arm_ok. intros Adv [I|[I|I]] A HpL.
    - destruct A as [A|(A1 & A2 & [A|A])]; lia.
    - destruct A as [A|(A1 & A2 & [A|A])]; lia.
    - destruct I as (Hst & Hp0 & Hq & Hlt & Hgt & H5 & Hm & Hts).
      destruct Adv as [Adv|Adv]; [congruence|].
      destruct A as [A|(A1 & A2 & [A|A])]; try lia.
      pose proof (short_tail_no buf (len buf - pos) Adv) as HS.
      rewrite <- Hts in HS. lia.
  Qed.

  Lemma known_not_mult256 :
    J_JUMB mod 256 <> 0 /\ J_JSON mod 256 <> 0 /\ J_CBOR mod 256 <> 0 /\ J_FREE mod 256 <> 0 /\
    J_JP2C mod 256 <> 0 /\ J_BROB mod 256 <> 0 /\ J_UUID mod 256 <> 0 /\ J_BFDB mod 256 <> 0 /\
    J_BIDB mod 256 <> 0 /\ J_JUMD mod 256 <> 0.
  Proof. repeat split; vm_compute; discriminate. Qed.

  Lemma step_ok pos :
    pos <= len buf -> advancing ->
    match jchild_step strict dbg buf pos with
    | SEnd p => pos <= p /\ p <= len buf
    | SLeaf p a => pos + 8 + a <= p /\ p <= len buf
    | SSkip p => pos < p /\ p <= len buf
    | SJumb p0 => pos <= p0 /\ p0 <= len buf
    | SFail _ => True
    | SPanic _ _ _ => False
    end.
  Proof.
    intros Hp Adv. unfold jchild_step.
    destruct (jread_header strict buf pos) as [[[name size] p1]|] eqn:EH; [|exact I].
    pose proof (hrange _ _ _ _ Hp EH) as HR.
    destruct (name =? 0) eqn:En; [lia|].
    assert (Hn : name <> 0) by lia.
    rewrite HS8.
    destruct (seek_back p1 8) as [p0|] eqn:E0; [|exact I].
    pose proof (seek_back_spec _ _ _ E0) as Hp0.
    destruct known_not_mult256 as (K1 & K2 & K3 & K4 & K5 & K6 & K7 & K8 & K9 & K10).
    (* the arm's own header read *)
    destruct (jread_header strict buf p0) as [[[hn hs] q]|] eqn:EI.
    2:{ (* no inner header: every arm fails; a nested superbox is just reported *)
      assert (Hp0L : p0 <= len buf) by lia.
      destruct (name =? J_JUMB) eqn:T1.
      { pose proof (hcases _ _ _ _ Hp EH) as C. destruct C as [C|[C|[C|C]]]; lia. }
      unfold jread_plain, jread_uuid, jread_bfdb, jskip_unknown. rewrite EI.
      repeat match goal with |- context [if ?c then _ else _] => destruct c end; exact I. }
    pose proof (inner_facts _ _ _ _ _ _ _ _ Hp EH Hn E0 EI) as (Hp0L & HI).
    destruct (name =? J_JUMB) eqn:T1.
    { apply N.eqb_eq in T1; subst name.
      destruct HI as [I|[I|I]]; lia. }
    destruct (name =? J_JSON) eqn:T2.
    { apply N.eqb_eq in T2; subst name. unfold leaf.
      destruct (jread_plain strict buf p0 size) as [[p a]|] eqn:EP; [|exact I].
      pose proof (a_plain _ _ _ _ _ _ _ Hp0L EI EP) as (A & B).
      split; [|exact B]. eapply arm_progress; eauto. }
    destruct (name =? J_CBOR) eqn:T3.
    { apply N.eqb_eq in T3; subst name. unfold leaf.
      destruct (jread_plain strict buf p0 size) as [[p a]|] eqn:EP; [|exact I].
      pose proof (a_plain _ _ _ _ _ _ _ Hp0L EI EP) as (A & B).
      split; [|exact B]. eapply arm_progress; eauto. }
    destruct (name =? J_FREE) eqn:T4.
    { apply N.eqb_eq in T4; subst name. unfold leaf.
      destruct (jread_plain strict buf p0 size) as [[p a]|] eqn:EP; [|exact I].
      pose proof (a_plain _ _ _ _ _ _ _ Hp0L EI EP) as (A & B).
      split; [|exact B]. eapply arm_progress; eauto. }
    destruct (name =? J_JP2C) eqn:T5.
    { apply N.eqb_eq in T5; subst name. unfold leaf.
      destruct (jread_plain strict buf p0 size) as [[p a]|] eqn:EP; [|exact I].
      pose proof (a_plain _ _ _ _ _ _ _ Hp0L EI EP) as (A & B).
      split; [|exact B]. eapply arm_progress; eauto. }
    destruct (name =? J_BROB) eqn:T6.
    { apply N.eqb_eq in T6; subst name. unfold leaf.
      destruct (jread_plain strict buf p0 size) as [[p a]|] eqn:EP; [|exact I].
      pose proof (a_plain _ _ _ _ _ _ _ Hp0L EI EP) as (A & B).
      split; [|exact B]. eapply arm_progress; eauto. }
    destruct (name =? J_UUID) eqn:T7.
    { apply N.eqb_eq in T7; subst name. unfold leaf.
      destruct (jread_uuid strict buf p0 size) as [[p a]|] eqn:EP; [|exact I].
      pose proof (a_uuid _ _ _ _ _ _ _ Hp0L EI EP) as (A & B).
      split; [|exact B]. eapply arm_progress; eauto. }
    destruct (name =? J_BFDB) eqn:T8.
    { apply N.eqb_eq in T8; subst name.
      pose proof (a_bfdb p0 size hn hs q Hp0L EI) as HB.
      destruct (jread_bfdb strict dbg buf p0 size) as [[p a]| | |]; try exact I; try contradiction.
      destruct HB as (A & B). split; [|exact B]. eapply arm_progress; eauto. }
    destruct (name =? J_BIDB) eqn:T9.
    { apply N.eqb_eq in T9; subst name. unfold leaf.
      destruct (jread_plain strict buf p0 size) as [[p a]|] eqn:EP; [|exact I].
      pose proof (a_plain _ _ _ _ _ _ _ Hp0L EI EP) as (A & B).
      split; [|exact B]. eapply arm_progress; eauto. }
    pose proof (unknown_arm p0 size hn hs q Hp0L EI) as HU.
    destruct (jskip_unknown strict buf p0 size) as [p| | |]; try exact I; try contradiction.
    destruct HU as (A & B). split; [|exact B]. eapply skip_progress; eauto.
  Qed.
  (* ---------------------------------------------------------------- the prefix of read_super_box_impl *)

  Lemma head_ok depth pos :
    pos <= len buf ->
    match jsuper_head strict cadd dbg depth buf pos with
    | Ok (p3, dest) => pos + 8 <= p3 /\ p3 <= len buf /\ depth < MAX_JUMB_DEPTH
    | Err _ => True
    | Panic s x y => cadd = false /\ dbg = true /\ s = SITE_DEST_POS /\ x = pos /\ U64MAX < x + y
    | OutOfFuel => False
    end.
  Proof.
    intro Hp. unfold jsuper_head.
    destruct (MAX_JUMB_DEPTH <=? depth) eqn:Hd; [exact I|].
    destruct (jread_header strict buf pos) as [[[name size] p1]|] eqn:EH; [|exact I].
    destruct (name =? 0) eqn:E0; [exact I|].
    destruct (name =? J_JUMB) eqn:EJ; cbn [negb]; [|exact I].
    apply N.eqb_eq in EJ. subst name.
    assert (K0 : J_JUMB <> 0) by (vm_compute; discriminate).
    assert (K1 : J_JUMB mod 256 <> 0) by (vm_compute; discriminate).
    pose proof (hfull _ _ _ _ Hp EH K0 K1) as (Hp1 & Hp1L).
    assert (Tail : forall dest : N,
      match
        match jread_header strict buf p1 with
        | Some (name2, size2, p2) =>
            if negb (name2 =? J_JUMD) then Err EExpectedJumdError
            else match jread_desc strict dbg buf p2 size2 with
                 | Ok (p3, lab) => if negb (has_text lab) then Err EUnexpectedEof else Ok (p3, dest)
                 | Err _ => Err EUnexpectedEof
                 | Panic s x y => Panic s x y
                 | OutOfFuel => OutOfFuel
                 end
        | None => Err EExpectedJumdError
        end
      with
      | Ok (p3, _) => pos + 8 <= p3 /\ p3 <= len buf /\ depth < MAX_JUMB_DEPTH
      | Err _ => True
      | Panic s x y => cadd = false /\ dbg = true /\ s = SITE_DEST_POS /\ x = pos /\ U64MAX < x + y
      | OutOfFuel => False
      end).
    { intro dest.
      destruct (jread_header strict buf p1) as [[[n2 s2] p2]|] eqn:E2; [|exact I].
      apply hrange in E2; [|lia].
      destruct (negb (n2 =? J_JUMD)); [exact I|].
      assert (Hp2 : p2 <= len buf) by lia.
      pose proof (d_ok p2 s2 Hp2) as HD.
      destruct (jread_desc strict dbg buf p2 s2) as [[p3 lab]| | |]; try exact I; try contradiction.
      destruct (negb (has_text lab)); [exact I|]. lia. }
    destruct cadd.
    - destruct (checked_add64 pos size) as [d|]; [apply Tail|exact I].
    - unfold add64. destruct (pos + size <=? U64MAX) eqn:Ho; [apply Tail|].
      destruct dbg; [|apply Tail].
      repeat split; try reflexivity. lia.
  Qed.

  (* ---------------------------------------------------------------- the call tree *)

  Lemma jsuper_S f depth pos :
    jsuper strict cadd dbg (S f) depth buf pos =
    (do r <- jsuper_head strict cadd dbg depth buf pos;
     let '(p3, dest) := r in jchildren strict cadd dbg f depth buf p3 dest 1 0 depth).
  Proof. reflexivity. Qed.

  Lemma jchildren_S f depth pos dest boxes pay deep :
    jchildren strict cadd dbg (S f) depth buf pos dest boxes pay deep =
    match jchild_step strict dbg buf pos with
    | SEnd p => if dest <? p then Err EInvalidJumbBox else Ok (p, boxes, pay, deep)
    | SLeaf p a =>
      if p =? dest then Ok (p, boxes + 1, pay + a, deep)
      else if dest <? p then Err EInvalidJumbBox
      else jchildren strict cadd dbg f depth buf p dest (boxes + 1) (pay + a) deep
    | SSkip p => jchildren strict cadd dbg f depth buf p dest boxes pay deep
    | SJumb p0 =>
      match jsuper strict cadd dbg f (depth + 1) buf p0 with
      | Ok (p, b, a, d) =>
        if p =? dest then Ok (p, boxes + b, pay + a, N.max deep d)
        else if dest <? p then Err EInvalidJumbBox
        else jchildren strict cadd dbg f depth buf p dest (boxes + b) (pay + a) (N.max deep d)
      | Err e => Err e
      | Panic s x y => Panic s x y
      | OutOfFuel => OutOfFuel
      end
    | SFail e => Err e
    | SPanic s x y => Panic s x y
    end.
  Proof. reflexivity. Qed.

  Definition panic_ok (s x y : N) : Prop :=
    cadd = false /\ dbg = true /\ s = SITE_DEST_POS /\ x <= len buf /\ U64MAX < x + y.

  Definition cgood (pos boxes pay deep : N) (r : out jerr jres) : Prop :=
    match r with
    | Ok (p, b', a', d') =>
      pos <= p /\ p <= len buf /\ boxes <= b' /\ pay <= a' /\
      8 * (b' - boxes) + (a' - pay) <= p - pos /\ deep <= d' /\ d' < MAX_JUMB_DEPTH
    | Err _ => True
    | Panic s x y => panic_ok s x y
    | OutOfFuel => False
    end.

  Definition sgood (depth pos : N) (r : out jerr jres) : Prop :=
    match r with
    | Ok (p, b, a, d) =>
      pos + 8 <= p /\ p <= len buf /\ 1 <= b /\ 8 * b + a <= p - pos /\ depth <= d /\ d < MAX_JUMB_DEPTH
    | Err _ => True
    | Panic s x y => panic_ok s x y
    | OutOfFuel => False
    end.

  Definition stmt_super (f : nat) : Prop :=
    forall depth pos, pos <= len buf -> len buf - pos + 1 <= N.of_nat f ->
      sgood depth pos (jsuper strict cadd dbg f depth buf pos).
  Definition stmt_children (f : nat) : Prop :=
    forall depth pos dest boxes pay deep, pos <= len buf -> deep < MAX_JUMB_DEPTH ->
      len buf - pos + 2 <= N.of_nat f ->
      cgood pos boxes pay deep (jchildren strict cadd dbg f depth buf pos dest boxes pay deep).

  Lemma tree_ok : advancing -> forall f, stmt_super f /\ stmt_children f.
  Proof.
    intro Adv. induction f as [|f (IHs & IHc)].
    { split; [intros depth pos Hp Hf|intros depth pos dest boxes pay deep Hp Hd Hf]; lia. }
    split.
    - (* jsuper *)
      intros depth pos Hp Hf. rewrite jsuper_S.
      pose proof (head_ok depth pos Hp) as HH.
      destruct (jsuper_head strict cadd dbg depth buf pos) as [[p3 dest]| | |]; try exact I; try contradiction.
      2:{ unfold sgood, panic_ok. destruct HH as (A & B & C & D & E). subst. repeat split; try lia; assumption. }
      destruct HH as (H1 & H2 & H3).
      assert (G : cgood p3 1 0 depth (jchildren strict cadd dbg f depth buf p3 dest 1 0 depth)).
      { apply IHc; lia. }
      unfold cgood, sgood in *.
      destruct (jchildren strict cadd dbg f depth buf p3 dest 1 0 depth) as [[[[p b] a] d]| | |]; try exact G.
      destruct G as (A & B & C & D & E & F & G). repeat split; lia.
    - (* jchildren *)
      intros depth pos dest boxes pay deep Hp Hd Hf. rewrite jchildren_S.
      pose proof (step_ok pos Hp Adv) as HS.
      destruct (jchild_step strict dbg buf pos) as [p|p a|p|p0|e|s x y]; try exact I; try contradiction.
      + (* SEnd *)
        destruct (dest <? p); [exact I|]. unfold cgood. repeat split; lia.
      + (* SLeaf *)
        destruct HS as (H1 & H2).
        destruct (p =? dest). { unfold cgood. repeat split; lia. }
        destruct (dest <? p); [exact I|].
        assert (G : cgood p (boxes + 1) (pay + a) deep
                      (jchildren strict cadd dbg f depth buf p dest (boxes + 1) (pay + a) deep)).
        { apply IHc; lia. }
        unfold cgood in *.
        destruct (jchildren strict cadd dbg f depth buf p dest (boxes + 1) (pay + a) deep)
          as [[[[p' b'] a'] d']| | |]; try exact G.
        destruct G as (A & B & C & D & E & F & G). repeat split; lia.
      + (* SSkip *)
        destruct HS as (H1 & H2).
        assert (G : cgood p boxes pay deep (jchildren strict cadd dbg f depth buf p dest boxes pay deep)).
        { apply IHc; lia. }
        unfold cgood in *.
        destruct (jchildren strict cadd dbg f depth buf p dest boxes pay deep)
          as [[[[p' b'] a'] d']| | |]; try exact G.
        destruct G as (A & B & C & D & E & F & G). repeat split; lia.
      + (* SJumb *)
        destruct HS as (H1 & H2).
        assert (G0 : sgood (depth + 1) p0 (jsuper strict cadd dbg f (depth + 1) buf p0)).
        { apply IHs; lia. }
        unfold sgood in G0.
        destruct (jsuper strict cadd dbg f (depth + 1) buf p0) as [[[[p b] a] d]| | |]; try exact G0.
        destruct G0 as (A0 & B0 & C0 & D0 & E0 & F0).
        destruct (p =? dest). { unfold cgood. repeat split; lia. }
        destruct (dest <? p); [exact I|].
        assert (G : cgood p (boxes + b) (pay + a) (N.max deep d)
                      (jchildren strict cadd dbg f depth buf p dest (boxes + b) (pay + a) (N.max deep d))).
        { apply IHc; lia. }
        unfold cgood in *.
        destruct (jchildren strict cadd dbg f depth buf p dest (boxes + b) (pay + a) (N.max deep d))
          as [[[[p' b'] a'] d']| | |]; try exact G.
        destruct G as (A & B & C & D & E & F & G). repeat split; lia.
  Qed.

  (* BoxReader::read_super_box on every byte string outside the known class (or with the repaired header
     reader): Ok or Err with [jfuel buf]; boxes, retained bytes and nesting are bounded; the only panic is the
     unchecked dest_pos addition of a debug build *)
  Lemma jumbf_safe :
    advancing ->
    match jread_super_box strict cadd dbg (jfuel buf) buf with
    | Ok (p, b, a, d) => p <= len buf /\ 8 * b + a <= len buf /\ d < MAX_JUMB_DEPTH
    | Err _ => True
    | Panic s x y => cadd = false /\ dbg = true /\ s = SITE_DEST_POS /\ x <= len buf /\ U64MAX < x + y
    | OutOfFuel => False
    end.
  Proof.
    intro Adv. unfold jread_super_box.
    destruct (tree_ok Adv (jfuel buf)) as (Hs & _).
    assert (G : sgood 0 0 (jsuper strict cadd dbg (jfuel buf) 0 buf 0)).
    { apply Hs; [lia|]. unfold jfuel, len. lia. }
    unfold sgood, panic_ok in G.
    destruct (jsuper strict cadd dbg (jfuel buf) 0 buf 0) as [[[[p b] a] d]| | |]; try exact G.
    destruct G as (A & B & C & D & E & F). repeat split; lia.
  Qed.
End P.

(* nesting beyond the limit is refused before anything is read *)
Lemma too_deep strict cadd dbg depth buf pos :
  MAX_JUMB_DEPTH <= depth -> jsuper_head strict cadd dbg depth buf pos = Err EBoxNestingTooDeep.
Proof.
  intro H. unfold jsuper_head. destruct (MAX_JUMB_DEPTH <=? depth) eqn:E; [reflexivity|lia].
Qed.

(* ---------------------------------------------------------------- refutations (findings) *)

(* jumb(41){ jumd(27, label "a") } followed by the six bytes 00 00 00 0a 'x' 'y' inside the superbox *)
Definition hang_witness : bytes :=
  [0;0;0;41; 106;117;109;98;  0;0;0;27; 106;117;109;100; 1;1;1;1;1;1;1;1;1;1;1;1;1;1;1;1; 3; 97;0;
   0;0;0;10; 120;121].

Lemma hang_children cadd dbg : forall f, jchildren false cadd dbg f 0 hang_witness 35 41 1 0 0 = OutOfFuel.
Proof.
  induction f as [|f IH]; [reflexivity|].
  rewrite jchildren_S.
  assert (E : jchild_step false dbg hang_witness 35 = SSkip 35) by (destruct dbg; vm_compute; reflexivity).
  rewrite E. exact IH.
Qed.

(* the as-coded reader never returns on this input, whatever the fuel *)
Lemma hang_forever cadd dbg fuel : jread_super_box false cadd dbg fuel hang_witness = OutOfFuel.
Proof.
  destruct fuel as [|f]; [reflexivity|].
  unfold jread_super_box. rewrite jsuper_S.
  assert (E : jsuper_head false cadd dbg 0 hang_witness 0 = Ok (35, 41))
    by (destruct cadd, dbg; vm_compute; reflexivity).
  rewrite E. apply hang_children.
Qed.

Lemma hang_witness_known : short_tailb hang_witness = true.
Proof. vm_compute. reflexivity. Qed.

(* the repaired header reader rejects it *)
Lemma hang_witness_repaired cadd dbg :
  jread_super_box true cadd dbg (jfuel hang_witness) hang_witness = Err EInvalidJumbfHeader.
Proof. destruct cadd, dbg; vm_compute; reflexivity. Qed.

(* jumb(59){ jumd(27) , 00000001 'jumb' | 00000001 'jumb' | ff*8 }: the loop re-enters 8 bytes into the XLBox
   field and finds a superbox header whose 64-bit size is 2^64-1 at start_pos 43 *)
Definition overflow_witness : bytes :=
  [0;0;0;59; 106;117;109;98;  0;0;0;27; 106;117;109;100; 1;1;1;1;1;1;1;1;1;1;1;1;1;1;1;1; 3; 97;0;
   0;0;0;1; 106;117;109;98;  0;0;0;1; 106;117;109;98;  255;255;255;255;255;255;255;255].

Lemma overflow_panics :
  jread_super_box false false true (jfuel overflow_witness) overflow_witness = Panic SITE_DEST_POS 43 U64MAX.
Proof. vm_compute. reflexivity. Qed.

Lemma overflow_release :
  jread_super_box false false false (jfuel overflow_witness) overflow_witness = Err EExpectedJumdError.
Proof. vm_compute. reflexivity. Qed.

Lemma overflow_checked dbg :
  jread_super_box false true dbg (jfuel overflow_witness) overflow_witness = Err EInvalidJumbBox.
Proof. destruct dbg; vm_compute; reflexivity. Qed.

(* a well-formed store skeleton: jumb{ jumd, json(2 bytes), jumb{ jumd, cbor(1 byte) } } *)
Definition jumbf_example : bytes :=
  [0;0;0;89; 106;117;109;98;  0;0;0;27; 106;117;109;100; 1;1;1;1;1;1;1;1;1;1;1;1;1;1;1;1; 3; 97;0;
   0;0;0;10; 106;115;111;110; 123;125;
   0;0;0;44; 106;117;109;98;  0;0;0;27; 106;117;109;100; 2;2;2;2;2;2;2;2;2;2;2;2;2;2;2;2; 3; 98;0;
   0;0;0;9; 99;98;111;114; 160].

Lemma jumbf_example_runs :
  jread_super_box false false true (jfuel jumbf_example) jumbf_example = Ok (89, 4, 3, 1).
Proof. vm_compute. reflexivity. Qed.

Lemma jumbf_example_advancing : short_tailb jumbf_example = false.
Proof. vm_compute. reflexivity. Qed.
