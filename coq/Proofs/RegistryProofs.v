(* Proofs/RegistryProofs.v — the registry refines "the set of live handles with their types". *)
From Coq Require Import NArith List Bool Lia.
From C2PA Require Import Model.Registry.
Import ListNotations.
Open Scope N_scope.

(* ---- lookup / remove / track *)

Lemma lookup_remove : forall r a x, lookup x (remove a r) = if x =? a then None else lookup x r.
Proof.
  induction r as [|[k e] r IH]; intros a x; cbn [remove filter lookup fst].
  - destruct (x =? a); reflexivity.
  - destruct (N.eqb_spec k a) as [->|Hka]; cbn [negb].
    + fold (remove a r). rewrite IH. destruct (N.eqb_spec x a) as [->|Hxa].
      * reflexivity.
      * destruct (N.eqb_spec a x); [congruence|reflexivity].
    + cbn [lookup]. fold (remove a r). rewrite IH.
      destruct (N.eqb_spec k x) as [->|Hkx].
      * destruct (N.eqb_spec x a); [congruence|reflexivity].
      * reflexivity.
Qed.

Lemma track_null : forall r e, track r 0 e = r.
Proof. reflexivity. Qed.

Lemma lookup_track : forall r a e x, a <> 0 -> lookup x (track r a e) = if x =? a then Some e else lookup x r.
Proof.
  intros r a e x Ha. unfold track. destruct (N.eqb_spec a 0); [congruence|].
  cbn [lookup]. rewrite lookup_remove. rewrite (N.eqb_sym a x). destruct (x =? a); reflexivity.
Qed.

(* ---- refinement: each concrete operation is the abstract one on the partial function *)

Theorem abs_track : forall r a e x, a <> 0 -> abs (track r a e) x = l_add (abs r) a e x.
Proof. intros. unfold abs, l_add. apply lookup_track; assumption. Qed.

Theorem abs_remove : forall r a x, abs (remove a r) x = l_del (abs r) a x.
Proof. intros. unfold abs, l_del. apply lookup_remove. Qed.

Theorem abs_empty : forall x, abs [] x = l_empty x.
Proof. reflexivity. Qed.

(* ---- validate *)

Theorem validate_iff_live : forall r a t,
  validate r a t = ROk <-> a <> 0 /\ exists i, lookup a r = Some (E t i).
Proof.
  intros r a t. unfold validate. destruct (N.eqb_spec a 0) as [->|Ha].
  - split; [discriminate|intros [H _]; congruence].
  - destruct (lookup a r) as [[ty i]|] eqn:L; cbn [e_ty].
    + destruct (N.eqb_spec ty t) as [->|Ht].
      * split; [intros _; split; [assumption|exists i; reflexivity]|reflexivity].
      * split; [discriminate|]. intros [_ [j Hj]]. inversion Hj. congruence.
    + split; [discriminate|]. intros [_ [j Hj]]. discriminate.
Qed.

Theorem validate_err_cases : forall r a t e,
  validate r a t = RErr e ->
  (e = ENullPtr /\ a = 0) \/
  (e = EUntracked /\ a <> 0 /\ lookup a r = None) \/
  (e = EWrongType /\ a <> 0 /\ exists e', lookup a r = Some e' /\ e_ty e' <> t).
Proof.
  intros r a t e. unfold validate. destruct (N.eqb_spec a 0) as [->|Ha].
  - intros H; inversion H. left; split; reflexivity.
  - destruct (lookup a r) as [e'|] eqn:L.
    + destruct (N.eqb_spec (e_ty e') t) as [Ht|Ht]; [discriminate|].
      intros H; inversion H. right; right. repeat split; try assumption. exists e'. split; [reflexivity|assumption].
    + intros H; inversion H. right; left. repeat split; assumption.
Qed.

Lemma validate_remove_mono : forall r b a t, validate (remove b r) a t = ROk -> validate r a t = ROk.
Proof.
  intros r b a t H. apply validate_iff_live in H. destruct H as [Ha [i Hi]].
  apply validate_iff_live. split; [assumption|]. exists i.
  rewrite lookup_remove in Hi. destruct (a =? b); [discriminate|assumption].
Qed.

(* ---- untrack / free against validate and lookup *)

Lemma untrack_ok : forall r a t, validate r a t = ROk ->
  exists i, lookup a r = Some (E t i) /\ untrack r a t = (remove a r, ROk, Some i).
Proof.
  intros r a t H. apply validate_iff_live in H. destruct H as [Ha [i Hi]]. exists i. split; [assumption|].
  unfold untrack. destruct (N.eqb_spec a 0); [congruence|]. rewrite Hi. cbn [e_ty e_id]. rewrite N.eqb_refl. reflexivity.
Qed.

Lemma untrack_err : forall r a t e, validate r a t = RErr e -> untrack r a t = (r, RErr e, None).
Proof.
  intros r a t e. unfold validate, untrack. destruct (a =? 0).
  - intros H; inversion H; reflexivity.
  - destruct (lookup a r) as [e'|].
    + destruct (e_ty e' =? t); [discriminate|]. intros H; inversion H; reflexivity.
    + intros H; inversion H; reflexivity.
Qed.

Lemma free_null : forall r, free r 0 = (r, ROk, []).
Proof. reflexivity. Qed.

Lemma free_live : forall r a e, a <> 0 -> lookup a r = Some e -> free r a = (remove a r, ROk, [e_id e]).
Proof. intros r a e Ha L. unfold free. destruct (N.eqb_spec a 0); [congruence|]. rewrite L. reflexivity. Qed.

Lemma free_dead : forall r a, a <> 0 -> lookup a r = None -> free r a = (r, RErr EUntracked, []).
Proof. intros r a Ha L. unfold free. destruct (N.eqb_spec a 0); [congruence|]. rewrite L. reflexivity. Qed.

(* ---- allocation identities held by the registry *)

Definition ids (r : reg) : list aid := map (fun kv => e_id (snd kv)) r.

Lemma lookup_in_ids : forall r a e, lookup a r = Some e -> In (e_id e) (ids r).
Proof.
  induction r as [|[k e0] r IH]; intros a e; cbn [lookup ids map snd]; [discriminate|].
  destruct (k =? a).
  - intros H; inversion H. left; reflexivity.
  - intros H. right. eapply IH; eassumption.
Qed.

Lemma ids_remove_incl : forall r a, incl (ids (remove a r)) (ids r).
Proof.
  induction r as [|[k e0] r IH]; intros a x; cbn [remove filter fst ids map snd]; [tauto|].
  destruct (negb (k =? a)); cbn [map snd]; fold (remove a r); fold (ids (remove a r)); fold (ids r).
  - intros [H|H]; [left; assumption|right; apply (IH a); assumption].
  - intros H. right. apply (IH a); assumption.
Qed.

Lemma nodup_ids_remove : forall r a, NoDup (ids r) -> NoDup (ids (remove a r)).
Proof.
  induction r as [|[k e0] r IH]; intros a H; cbn [remove filter fst ids map snd]; [constructor|].
  cbn [ids map snd] in H. fold (ids r) in H. inversion H as [|? ? Hn Hd]; subst.
  destruct (negb (k =? a)); cbn [map snd]; fold (remove a r); fold (ids (remove a r)).
  - constructor; [|apply IH; assumption]. intros Hin. apply Hn. apply (ids_remove_incl r a). assumption.
  - apply IH; assumption.
Qed.

Lemma removed_id_gone : forall r a e, NoDup (ids r) -> lookup a r = Some e -> ~ In (e_id e) (ids (remove a r)).
Proof.
  induction r as [|[k e0] r IH]; intros a e H L; cbn [lookup] in L; [discriminate|].
  cbn [ids map snd] in H. fold (ids r) in H. inversion H as [|? ? Hn Hd]; subst.
  cbn [remove filter fst]. destruct (N.eqb_spec k a) as [->|Hka]; cbn [negb].
  - inversion L; subst. fold (remove a r). intros Hin. apply Hn. apply (ids_remove_incl r a). assumption.
  - cbn [ids map snd]. fold (remove a r). fold (ids (remove a r)). intros [Heq|Hin].
    + apply Hn. rewrite Heq. eapply lookup_in_ids; eassumption.
    + eapply IH; eassumption.
Qed.

(* ---- list facts used by the history invariant *)

Lemma nodup_app_iff : forall (A : Type) (l1 l2 : list A),
  NoDup (l1 ++ l2) <-> NoDup l1 /\ NoDup l2 /\ (forall x, In x l1 -> ~ In x l2).
Proof.
  intros A l1 l2. induction l1 as [|a l1 IH]; cbn [app].
  - split; [intros H; repeat split; [constructor|assumption|intros x []]|tauto].
  - split.
    + intros H. inversion H as [|? ? Hn Hd]; subst. apply IH in Hd. destruct Hd as [H1 [H2 H3]].
      repeat split; try assumption.
      * constructor; [|assumption]. intros Hin. apply Hn. apply in_or_app. left; assumption.
      * intros x [->|Hx]; [|apply H3; assumption]. intros Hin. apply Hn. apply in_or_app. right; assumption.
    + intros [H1 [H2 H3]]. inversion H1 as [|? ? Hn Hd]; subst. constructor.
      * intros Hin. apply in_app_or in Hin. destruct Hin as [Hin|Hin]; [apply Hn; assumption|].
        apply (H3 a); [left; reflexivity|assumption].
      * apply IH. repeat split; try assumption. intros x Hx. apply H3. right; assumption.
Qed.

Lemma nodup_app_sub : forall (A : Type) (xs ys zs : list A),
  NoDup (xs ++ ys) -> NoDup zs -> incl zs ys -> NoDup (xs ++ zs).
Proof.
  intros A xs ys zs H Hz Hi. apply nodup_app_iff in H. destruct H as [H1 [H2 H3]].
  apply nodup_app_iff. repeat split; try assumption. intros x Hx Hin. apply (H3 x Hx). apply Hi. assumption.
Qed.
