(* Proofs/ValStateProofs.v — the decision of Model/ValState.v against its specification (C04). *)
From Coq Require Import List NArith Bool Lia.
From C2PA Require Import Base.Bytes Model.ByteStr Generated.C04_facts Model.ValState Proofs.ByteStrProofs.
Import ListNotations.
Open Scope N_scope.

(* ---------------- specification vocabulary ---------------- *)

Definition codes (l : list status) : list code := map scode l.

(* success codes recorded for the active manifest *)
Definition active_success (r : results) : list code :=
  match active r with Some a => codes (success a) | None => [] end.

Definition delta_list (r : results) : list delta :=
  match deltas r with Some ds => ds | None => [] end.

(* every failure code: of the active manifest and of every ingredient delta *)
Definition all_failures (r : results) : list code :=
  (match active r with Some a => codes (failure a) | None => [] end)
  ++ flat_map (fun d => codes (failure (dcodes d))) (delta_list r).

(* "one of the explicitly tolerated credential codes" *)
Definition tolerated (c : code) : Prop :=
  In c tolerated_exact \/ exists p rest, In p tolerated_prefixes /\ c = p ++ rest.

Definition valid_cond (r : results) : Prop :=
  active r <> None
  /\ incl valid_success_req (active_success r)
  /\ Forall tolerated (all_failures r).

Definition trusted_cond (r : results) : Prop :=
  valid_cond r
  /\ incl trusted_success_req (active_success r)
  /\ all_failures r = [].

Definition vle (a b' : vstate) : Prop :=
  match a, b' with
  | Invalid, _ => True
  | Valid, (Valid | Trusted) => True
  | Trusted, Trusted => True
  | _, _ => False
  end.

(* ---------------- boolean tests against their meaning ---------------- *)

Lemma is_tolerated_spec c : is_tolerated c = true <-> tolerated c.
Proof.
  unfold is_tolerated, tolerated. rewrite orb_true_iff, existsb_beq_In, existsb_exists.
  split; (intros [H|H]; [left; exact H | right]).
  - destruct H as [p [Hin Hs]]. apply starts_with_spec in Hs. destruct Hs as [rest ->]. exists p, rest. auto.
  - destruct H as [p [rest [Hin ->]]]. exists p. split; [exact Hin | apply starts_with_app].
Qed.

Lemma is_tolerated_false c : is_tolerated c = false <-> ~ tolerated c.
Proof.
  split; intros H.
  - intros T. apply is_tolerated_spec in T. congruence.
  - destruct (is_tolerated c) eqn:E; [apply is_tolerated_spec in E; contradiction | reflexivity].
Qed.

Lemma has_code_spec c l : has_code c l = true <-> In c (codes l).
Proof.
  unfold has_code, codes. rewrite existsb_exists, in_map_iff. split.
  - intros [s [Hin E]]. apply beq_eq in E. exists s. auto.
  - intros [s [E Hin]]. exists s. split; [exact Hin | apply beq_eq; exact E].
Qed.

Lemma req_spec req l : forallb (fun c => has_code c l) req = true <-> incl req (codes l).
Proof.
  rewrite forallb_forall. unfold incl. split; intros H c Hc.
  - apply has_code_spec, H, Hc.
  - apply has_code_spec, H, Hc.
Qed.

Lemma forallb_tol l : forallb (fun s => is_tolerated (scode s)) l = true <-> Forall tolerated (codes l).
Proof.
  unfold codes. rewrite forallb_forall, Forall_forall. split.
  - intros H c Hc. apply in_map_iff in Hc. destruct Hc as [s [<- Hin]]. apply is_tolerated_spec, H, Hin.
  - intros H s Hin. apply is_tolerated_spec, H, in_map, Hin.
Qed.

Lemma fails_ok_spec sc : fails_ok sc = true <-> Forall tolerated (codes (failure sc)).
Proof.
  unfold fails_ok. rewrite orb_true_iff, forallb_tol. split.
  - intros [H|H]; [|exact H]. destruct (failure sc); [constructor | discriminate].
  - intros H; right; exact H.
Qed.

Lemma is_nil_spec {A} (l : list A) : is_nil l = true <-> l = [].
Proof. destruct l; cbn; split; congruence. Qed.

Lemma deltas_all_spec p r :
  deltas_all p r = true <-> Forall (fun d => p (dcodes d) = true) (delta_list r).
Proof.
  unfold deltas_all, delta_list. destruct (deltas r) as [ds|].
  - rewrite forallb_forall, Forall_forall. reflexivity.
  - split; [constructor | reflexivity].
Qed.

Lemma Forall_flat_map {A B} (P : B -> Prop) (f : A -> list B) l :
  Forall P (flat_map f l) <-> Forall (fun a => Forall P (f a)) l.
Proof.
  induction l as [|a l IH]; cbn.
  - split; constructor.
  - rewrite Forall_app, IH. split.
    + intros [H1 H2]; constructor; assumption.
    + intros H; inversion H; auto.
Qed.

Lemma flat_map_nil {A B} (f : A -> list B) l :
  flat_map f l = [] <-> Forall (fun a => f a = []) l.
Proof.
  induction l as [|a l IH]; cbn.
  - split; constructor.
  - split.
    + intros H. apply app_eq_nil in H. destruct H. constructor; [assumption | apply IH; assumption].
    + intros H; inversion H; subst. rewrite H2. apply IH in H3. rewrite H3. reflexivity.
Qed.

Lemma Forall_iff {A} (P Q : A -> Prop) l : (forall a, P a <-> Q a) -> (Forall P l <-> Forall Q l).
Proof. intros H. rewrite !Forall_forall. split; intros F a Ha; apply H, F, Ha. Qed.

(* the two conjunctions of validation_state, for a results object with an active manifest *)
Definition is_valid_b (a : status_codes) (r : results) : bool :=
  forallb (fun c => has_code c (success a)) valid_success_req && fails_ok a && deltas_all fails_ok r.
Definition is_trusted_b (a : status_codes) (r : results) : bool :=
  forallb (fun c => has_code c (success a)) trusted_success_req && is_nil (failure a)
  && deltas_all (fun sc => is_nil (failure sc)) r && is_valid_b a r.

Lemma state_unfold r :
  validation_state r =
  match active r with
  | None => Invalid
  | Some a => if is_trusted_b a r then Trusted else if is_valid_b a r then Valid else Invalid
  end.
Proof. reflexivity. Qed.

Lemma is_valid_spec r a : active r = Some a -> (is_valid_b a r = true <-> valid_cond r).
Proof.
  intros Ha. unfold is_valid_b, valid_cond, active_success, all_failures. rewrite Ha.
  rewrite !andb_true_iff, req_spec, fails_ok_spec, deltas_all_spec, Forall_app, Forall_flat_map.
  rewrite (Forall_iff _ _ (delta_list r) (fun d => fails_ok_spec (dcodes d))).
  split.
  - intros [[H1 H2] H3]. split; [congruence | auto].
  - intros [_ [H1 [H2 H3]]]. auto.
Qed.

Lemma is_trusted_spec r a : active r = Some a -> (is_trusted_b a r = true <-> trusted_cond r).
Proof.
  intros Ha. unfold is_trusted_b, trusted_cond. rewrite !andb_true_iff, (is_valid_spec r a Ha).
  unfold active_success, all_failures. rewrite Ha, req_spec, is_nil_spec, deltas_all_spec.
  rewrite (Forall_iff _ _ (delta_list r) (fun d => @is_nil_spec _ (failure (dcodes d)))).
  split.
  - intros [[[H1 H2] H3] H4]. split; [exact H4|]. split; [exact H1|].
    unfold codes. rewrite H2. cbn. apply flat_map_nil.
    revert H3. apply Forall_impl. intros d ->. reflexivity.
  - intros [H4 [H1 H]]. apply app_eq_nil in H. destruct H as [H2 H3].
    split; [split; [split|]|]; auto.
    + unfold codes in H2. apply map_eq_nil in H2. exact H2.
    + apply flat_map_nil in H3. revert H3. apply Forall_impl. intros d Hd. apply map_eq_nil in Hd. exact Hd.
Qed.

(* ---------------- the decision is exactly the specification ---------------- *)

Theorem state_trusted_iff r : validation_state r = Trusted <-> trusted_cond r.
Proof.
  rewrite state_unfold. destruct (active r) as [a|] eqn:Ha.
  - rewrite <- (is_trusted_spec r a Ha). destruct (is_trusted_b a r); [tauto|].
    destruct (is_valid_b a r); split; congruence.
  - split; [discriminate|]. intros [[H _] _]. congruence.
Qed.

Theorem state_not_invalid_iff r : validation_state r <> Invalid <-> valid_cond r.
Proof.
  rewrite state_unfold. destruct (active r) as [a|] eqn:Ha.
  - rewrite <- (is_valid_spec r a Ha). destruct (is_trusted_b a r) eqn:T.
    + unfold is_trusted_b in T. apply andb_true_iff in T. destruct T as [_ ->]. split; congruence.
    + destruct (is_valid_b a r); split; congruence.
  - split; [congruence|]. intros [H _]. congruence.
Qed.

Theorem state_valid_iff r : validation_state r = Valid <-> valid_cond r /\ ~ trusted_cond r.
Proof.
  rewrite <- state_not_invalid_iff, <- state_trusted_iff.
  destruct (validation_state r); split; intros H; try congruence; try (split; congruence); destruct H as [H1 H2]; try congruence; exfalso; apply H2; reflexivity.
Qed.

Theorem valid_only_if r :
  validation_state r = Valid \/ validation_state r = Trusted ->
  incl valid_success_req (active_success r) /\ Forall tolerated (all_failures r).
Proof.
  intros H. assert (V : valid_cond r) by (apply state_not_invalid_iff; destruct H as [H|H]; rewrite H; discriminate).
  destruct V as [_ V]. exact V.
Qed.

Theorem trusted_only_if r :
  validation_state r = Trusted ->
  incl trusted_success_req (active_success r) /\ all_failures r = []
  /\ incl valid_success_req (active_success r).
Proof.
  intros H. apply state_trusted_iff in H. destruct H as [[_ [V _]] [T F]]. auto.
Qed.

Theorem invalid_otherwise r : ~ valid_cond r -> validation_state r = Invalid.
Proof.
  intros H. destruct (validation_state r) eqn:E; [reflexivity| |]; exfalso; apply H, state_not_invalid_iff; congruence.
Qed.

Theorem no_active_invalid r : active r = None -> validation_state r = Invalid.
Proof. intros H. unfold validation_state. rewrite H. reflexivity. Qed.

(* ---------------- monotonicity ---------------- *)

Theorem bad_failure_invalid r c :
  In c (all_failures r) -> ~ tolerated c -> validation_state r = Invalid.
Proof.
  intros Hin Hn. apply invalid_otherwise. intros [_ [_ F]]. rewrite Forall_forall in F. apply Hn, F, Hin.
Qed.

Lemma sc_add_failure sc s : skind s = KFailure ->
  success (sc_add sc s) = success sc /\ failure (sc_add sc s) = failure sc ++ [s].
Proof. intros H. unfold sc_add. rewrite H. cbn. auto. Qed.

Lemma add_delta_failures u s ds : skind s = KFailure ->
  forall c, In c (flat_map (fun d => codes (failure (dcodes d))) ds) \/ c = scode s ->
            In c (flat_map (fun d => codes (failure (dcodes d))) (add_delta u s ds)).
Proof.
  intros Hk. induction ds as [|d t IH]; intros c H; cbn [add_delta].
  - cbn. unfold sc_add. rewrite Hk. cbn. destruct H as [[] | ->]. left; reflexivity.
  - destruct (beq (duri d) u).
    + cbn. destruct (sc_add_failure (dcodes d) s Hk) as [_ ->]. unfold codes at 1. rewrite map_app.
      cbn in H. rewrite !in_app_iff in *. cbn. unfold codes in *. intuition (subst; auto).
    + cbn. cbn in H. rewrite in_app_iff in *. destruct H as [[H|H]|H]; [left; exact H | right; apply IH; left; exact H | right; apply IH; right; exact H].
Qed.

(* adding a failure keeps every earlier failure and records the new one; success codes are untouched *)
Lemma add_status_failures r s : skind s = KFailure ->
  (forall c, In c (all_failures r) \/ c = scode s -> In c (all_failures (add_status r s)))
  /\ active_success (add_status r s) = active_success r.
Proof.
  intros Hk. unfold add_status, all_failures, active_success, delta_list.
  destruct (suri s) as [u|]; cbn [active deltas].
  - split; [|reflexivity]. intros c H. rewrite in_app_iff in *.
    destruct H as [[H|H]|H]; [left; exact H | right | right].
    + apply add_delta_failures; [exact Hk | left; destruct (deltas r); exact H].
    + apply add_delta_failures; [exact Hk | right; exact H].
  - destruct (sc_add_failure (match active r with Some a => a | None => sc_empty end) s Hk) as [Es Ef].
    rewrite Es, Ef. split.
    + intros c H. unfold codes at 1. rewrite map_app. rewrite !in_app_iff in *. cbn.
      destruct (active r); cbn in *; unfold codes in *; intuition (subst; auto).
    + destruct (active r); reflexivity.
Qed.

Theorem monotone_add_status r s :
  skind s = KFailure -> ~ tolerated (scode s) -> validation_state (add_status r s) = Invalid.
Proof.
  intros Hk Hn. apply (bad_failure_invalid _ (scode s)); [|exact Hn].
  apply (add_status_failures r s Hk). right; reflexivity.
Qed.

Lemma valid_req_nonempty : valid_success_req <> [].
Proof. discriminate. Qed.

Lemma valid_cond_add_failure r s : skind s = KFailure -> valid_cond (add_status r s) -> valid_cond r.
Proof.
  intros Hk [Ha [Hs Hf]]. destruct (add_status_failures r s Hk) as [Hin Es]. rewrite Es in Hs.
  split; [|split].
  - intros Hn. unfold active_success in Hs. rewrite Hn in Hs.
    destruct valid_success_req as [|c l] eqn:E; [exact (valid_req_nonempty E)|]. apply (Hs c). left; reflexivity.
  - exact Hs.
  - rewrite Forall_forall in *. intros c Hc. apply Hf, Hin. left; exact Hc.
Qed.

(* adding any failure (tolerated or not) never raises the state *)
Theorem failure_never_raises r s :
  skind s = KFailure -> vle (validation_state (add_status r s)) (validation_state r).
Proof.
  intros Hk. destruct (validation_state (add_status r s)) eqn:E1; [exact I| |].
  - assert (V : valid_cond r).
    { apply (valid_cond_add_failure r s Hk), state_not_invalid_iff. congruence. }
    apply state_not_invalid_iff in V. destruct (validation_state r); cbn; auto.
  - exfalso. apply state_trusted_iff in E1. destruct E1 as [_ [_ F]].
    destruct (add_status_failures r s Hk) as [Hin _].
    specialize (Hin (scode s) (or_intror eq_refl)). rewrite F in Hin. exact Hin.
Qed.

(* ---------------- routing of add_status ---------------- *)

Definition bucket (k : kind) (sc : status_codes) : list status :=
  match k with KSuccess => success sc | KInformational => informational sc | KFailure => failure sc end.

Lemma sc_add_bucket sc s k :
  bucket k (sc_add sc s) = if match k, skind s with
                                | KSuccess, KSuccess | KInformational, KInformational | KFailure, KFailure => true
                                | _, _ => false end
                           then bucket k sc ++ [s] else bucket k sc.
Proof. unfold sc_add. destruct k, (skind s); reflexivity. Qed.

(* first delta whose URI is v *)
Fixpoint find_delta (v : bytes) (ds : list delta) : option status_codes :=
  match ds with
  | [] => None
  | d :: t => if beq (duri d) v then Some (dcodes d) else find_delta v t
  end.

Theorem add_status_active r s :
  suri s = None ->
  add_status r s = VR (Some (sc_add (match active r with Some a => a | None => sc_empty end) s)) (deltas r).
Proof. intros H. unfold add_status. rewrite H. reflexivity. Qed.

Lemma find_add_delta u s ds v :
  find_delta v (add_delta u s ds)
  = if beq u v then Some (sc_add (match find_delta u ds with Some sc => sc | None => sc_empty end) s)
    else find_delta v ds.
Proof.
  induction ds as [|d t IH]; cbn [add_delta find_delta].
  - cbn. destruct (beq u v); reflexivity.
  - destruct (beq (duri d) u) eqn:E.
    + apply beq_eq in E. cbn [find_delta duri dcodes]. rewrite E. destruct (beq u v); reflexivity.
    + cbn [find_delta]. rewrite IH. destruct (beq (duri d) v) eqn:E2; [|reflexivity].
      apply beq_eq in E2. destruct (beq u v) eqn:E3; [|reflexivity].
      apply beq_eq in E3. subst. rewrite beq_refl in E. discriminate.
Qed.

Lemma uris_add_delta u s ds :
  map duri (add_delta u s ds) = if existsb (fun d => beq (duri d) u) ds then map duri ds else map duri ds ++ [u].
Proof.
  induction ds as [|d t IH]; cbn [add_delta existsb map]; [reflexivity|].
  destruct (beq (duri d) u); cbn; [reflexivity|]. rewrite IH. destruct (existsb _ t); reflexivity.
Qed.

Theorem add_status_ingredient r s u :
  suri s = Some u ->
  active (add_status r s) = active r
  /\ (forall v, find_delta v (delta_list (add_status r s))
                = if beq u v then Some (sc_add (match find_delta u (delta_list r) with Some sc => sc | None => sc_empty end) s)
                  else find_delta v (delta_list r))
  /\ map duri (delta_list (add_status r s))
     = if existsb (fun d => beq (duri d) u) (delta_list r) then map duri (delta_list r) else map duri (delta_list r) ++ [u].
Proof.
  intros H. unfold add_status. rewrite H. unfold delta_list. cbn [active deltas].
  split; [reflexivity|]. split; [intros v; apply find_add_delta | apply uris_add_delta].
Qed.

(* ---------------- log_kind agrees with what the decision needs ---------------- *)

Theorem log_kind_required :
  Forall (fun c => log_kind c = KSuccess) (valid_success_req ++ trusted_success_req)
  /\ Forall (fun c => log_kind c = KFailure) tolerated_exact.
Proof. split; repeat constructor. Qed.

(* ---------------- the Reader ---------------- *)

Theorem reader_with_results rd r : rd_results rd = Some r -> reader_state rd = validation_state r.
Proof. intros H. unfold reader_state. rewrite H. reflexivity. Qed.

Theorem legacy_bad_failure vt l :
  Exists (fun c => c <> legacy_tolerated) l -> legacy_state vt (Some l) = Invalid.
Proof.
  intros H. unfold legacy_state.
  assert (existsb (fun c => negb (beq c legacy_tolerated)) l = true) as ->; [|reflexivity].
  apply existsb_exists. apply Exists_exists in H. destruct H as [c [Hin Hn]].
  exists c. split; [exact Hin|]. apply negb_true_iff, beq_neq, Hn.
Qed.

Theorem legacy_not_invalid vt st :
  legacy_state vt st <> Invalid ->
  (forall l, st = Some l -> Forall (fun c => c = legacy_tolerated) l)
  /\ legacy_state vt st = (if vt then Trusted else Valid).
Proof.
  intros H. destruct st as [l|]; cbn in *.
  - destruct (existsb (fun c => negb (beq c legacy_tolerated)) l) eqn:E; [congruence|].
    split; [|reflexivity]. intros l' [= <-]. apply Forall_forall. intros c Hc.
    destruct (beq c legacy_tolerated) eqn:B; [apply beq_eq; exact B|].
    exfalso. assert (existsb (fun c => negb (beq c legacy_tolerated)) l = true); [|congruence].
    apply existsb_exists. exists c. rewrite B. auto.
  - split; [discriminate | reflexivity].
Qed.

(* the known class F-LEGACY: the status list is absent or holds nothing but the one tolerated code *)
Definition known_legacy (st : option (list code)) : Prop :=
  match st with None => True | Some l => Forall (fun c => c = legacy_tolerated) l end.

Theorem legacy_outside_known vt st : ~ known_legacy st -> legacy_state vt st = Invalid.
Proof.
  intros H. destruct (legacy_state vt st) eqn:E; [reflexivity| |]; exfalso; apply H;
    (destruct (legacy_not_invalid vt st) as [F _]; [congruence|]); (destruct st as [l|]; [apply F; reflexivity | exact I]).
Qed.

(* F-LEGACY: the fallback reports Trusted although a failure is listed, and although nothing at all is known *)
Theorem legacy_refuted :
  legacy_state true (Some [legacy_tolerated]) = Trusted /\ legacy_state true None = Trusted
  /\ legacy_state false None = Valid.
Proof. repeat split. Qed.
