(* Proofs/MerkleAccProofs.v — lemmas about Model/MerkleAcc.v (C17). *)
From Coq Require Import List NArith Bool Arith Lia ZifyBool ZifyNat ZifyN.
From C2PA Require Import Base.Bytes Proofs.BytesProofs Model.Merkle Model.MerkleAcc Generated.C17_facts
     Proofs.MerkleProofs.
Import ListNotations.
Open Scope nat_scope.

(* ---- specification device: feed the Merkle region one byte at a time ---- *)
Fixpoint feed (k : nat) (done : list bytes) (cur : bytes) (x : bytes) : list bytes * bytes :=
  match x with
  | [] => (done, cur)
  | b :: t => if length (cur ++ [b]) =? k then feed k (done ++ [cur ++ [b]]) [] t
              else feed k done (cur ++ [b]) t
  end.

Lemma feed_app k : forall x y done cur,
  feed k done cur (x ++ y) = feed k (fst (feed k done cur x)) (snd (feed k done cur x)) y.
Proof.
  induction x as [|b t IH]; intros y done cur; cbn [feed app fst snd]; [reflexivity|].
  destruct (length (cur ++ [b]) =? k); apply IH.
Qed.

Lemma feed_small k : forall x done cur,
  length cur + length x < k -> feed k done cur x = (done, cur ++ x).
Proof.
  induction x as [|b t IH]; intros done cur H; cbn [feed].
  - rewrite app_nil_r. reflexivity.
  - cbn [length] in H. rewrite app_length. cbn [length].
    replace (length cur + 1 =? k) with false by (symmetry; apply Nat.eqb_neq; lia).
    rewrite IH by (rewrite app_length; cbn [length]; lia).
    rewrite <- app_assoc. reflexivity.
Qed.

Lemma feed_fill k : forall x done cur,
  length cur < k -> k <= length cur + length x ->
  feed k done cur x
  = feed k (done ++ [cur ++ firstn (k - length cur) x]) [] (skipn (k - length cur) x).
Proof.
  induction x as [|b t IH]; intros done cur Hc Hx; cbn [length] in Hx; [lia|].
  cbn [feed]. rewrite app_length. cbn [length].
  destruct (length cur + 1 =? k) eqn:E.
  - apply Nat.eqb_eq in E. replace (k - length cur) with 1 by lia. reflexivity.
  - apply Nat.eqb_neq in E.
    rewrite IH by (rewrite ?app_length; cbn [length]; lia).
    rewrite app_length. cbn [length].
    replace (k - length cur) with (S (k - (length cur + 1))) by lia.
    cbn [firstn skipn]. rewrite <- app_assoc. reflexivity.
Qed.

Lemma feed_done_len k : forall x done cur,
  1 <= k -> length cur < k -> Forall (fun c => length c = k) done ->
  Forall (fun c => length c = k) (fst (feed k done cur x)) /\ length (snd (feed k done cur x)) < k.
Proof.
  induction x as [|b t IH]; intros done cur Hk Hc Hd; cbn [feed fst snd]; [split; assumption|].
  destruct (length (cur ++ [b]) =? k) eqn:E.
  - apply Nat.eqb_eq in E. apply IH; [exact Hk|cbn; lia|].
    apply Forall_app. split; [exact Hd|]. constructor; [exact E|constructor].
  - apply Nat.eqb_neq in E. apply IH; [exact Hk| |exact Hd].
    rewrite app_length in *. cbn [length] in *. lia.
Qed.

Definition optlist (b : bytes) : list bytes := match b with [] => [] | _ => [b] end.

Lemma chunks_nil {A} f k : @chunks A f k [] = [].
Proof. destruct f; reflexivity. Qed.

(* feeding from an empty buffer produces the chunks of Base.Bytes *)
Lemma feed_chunks k : forall fuel q done,
  1 <= k -> length q <= fuel ->
  fst (feed k done [] q) ++ optlist (snd (feed k done [] q)) = done ++ chunks fuel k q.
Proof.
  induction fuel as [|f IH]; intros q done Hk Hf.
  - destruct q; [|cbn in Hf; lia]. cbn. reflexivity.
  - destruct q as [|b t]; [cbn; reflexivity|].
    destruct (Nat.lt_ge_cases (length (b :: t)) k) as [Hlt|Hge].
    + rewrite feed_small by (cbn [length] in *; lia). cbn [fst snd app optlist].
      cbn [chunks]. rewrite firstn_all2 by lia. rewrite skipn_all2 by lia. rewrite chunks_nil. reflexivity.
    + rewrite feed_fill by (cbn [length] in *; lia). cbn [length app]. rewrite Nat.sub_0_r.
      rewrite IH; [|exact Hk|rewrite skipn_length; cbn [length] in *; lia].
      cbn [chunks]. rewrite <- app_assoc. reflexivity.
Qed.

(* ---- the accumulator state as a function of the fed region ---- *)
Definition optl (l : list leaf) : option (list leaf) := match l with [] => None | _ => Some l end.
Definition optb (b : bytes) : option bytes := match b with [] => None | _ => Some b end.
Definition enc (fs : N) (done : list bytes) (cur : bytes) : mstate :=
  MS (optl (map (fun c => (fs, c)) done)) (optb cur).

Lemma push_enc fs done c :
  push_leaf (optl (map (fun c => (fs, c)) done)) (fs, c) = optl (map (fun c => (fs, c)) (done ++ [c])).
Proof.
  rewrite map_app. destruct done as [|d done]; cbn; reflexivity.
Qed.

Lemma len_length {A} (l : list A) : len l = N.of_nat (length l).
Proof. reflexivity. Qed.

Lemma loop_spec : forall fuel fs done cur d dlen,
  1 <= N.to_nat fs -> length cur < N.to_nat fs -> length d < fuel -> (cur <> [] -> dlen = len d) ->
  fixed_loop fuel fs (enc fs done cur) d (len d) dlen
  = AOk (enc fs (fst (feed (N.to_nat fs) done cur d)) (snd (feed (N.to_nat fs) done cur d))).
Proof.
  induction fuel as [|fuel IH]; intros fs done cur d dlen Hk Hc Hf Hd; [lia|].
  set (k := N.to_nat fs) in *.
  destruct cur as [|c0 cur'].
  - (* no pending remainder *)
    cbn [fixed_loop enc rem optb leaves].
    destruct (Nat.lt_ge_cases (length d) k) as [Hlt|Hge].
    + rewrite feed_small by (cbn [length]; lia). cbn [fst snd app].
      replace (N.min fs (len d)) with (len d) by (rewrite len_length; lia).
      destruct d as [|b t].
      * cbn. reflexivity.
      * replace (len (b :: t) =? 0)%N with false by (symmetry; apply N.eqb_neq; rewrite len_length; cbn [length]; lia).
        replace (len (b :: t) <? len (b :: t))%N with false by (symmetry; apply N.ltb_ge; lia).
        replace (len (b :: t) <? fs)%N with true by (symmetry; apply N.ltb_lt; rewrite len_length; lia).
        unfold len. rewrite Nat2N.id, firstn_all. reflexivity.
    + rewrite feed_fill by (cbn [length]; lia). cbn [length app]. rewrite Nat.sub_0_r.
      replace (N.min fs (len d)) with fs by (rewrite len_length; lia).
      replace (fs =? 0)%N with false by (symmetry; apply N.eqb_neq; lia).
      replace (len d <? fs)%N with false by (symmetry; apply N.ltb_ge; rewrite len_length; lia).
      rewrite N.ltb_irrefl. fold k.
      rewrite push_enc.
      replace (len d - fs)%N with (len (skipn k d)) by (rewrite !len_length, skipn_length; lia).
      change (MS (optl (map (fun c => (fs, c)) (done ++ [firstn k d]))) None)
        with (enc fs (done ++ [firstn k d]) []).
      apply IH; [exact Hk|cbn [length]; lia|rewrite skipn_length; lia|intro H; congruence].
  - (* pending remainder: only on the first iteration, data_len = data_left *)
    rewrite (Hd ltac:(discriminate)).
    cbn [fixed_loop enc rem optb leaves].
    set (cur := c0 :: cur') in *.
    destruct (Nat.lt_ge_cases (length cur + length d) k) as [Hlt|Hge].
    + rewrite feed_small by lia. cbn [fst snd].
      replace (N.min (fs - len cur) (len d)) with (len d) by (rewrite !len_length; lia).
      rewrite N.ltb_irrefl. unfold len. rewrite Nat2N.id, firstn_all.
      replace (N.of_nat (length (cur ++ d)) =? fs)%N with false
        by (symmetry; apply N.eqb_neq; rewrite app_length; lia).
      subst cur. reflexivity.
    + rewrite feed_fill by lia.
      replace (N.min (fs - len cur) (len d)) with (N.of_nat (k - length cur)) by (rewrite !len_length; lia).
      replace (len d <? N.of_nat (k - length cur))%N with false
        by (symmetry; apply N.ltb_ge; rewrite len_length; lia).
      rewrite Nat2N.id.
      replace (len (cur ++ firstn (k - length cur) d) =? fs)%N with true
        by (symmetry; apply N.eqb_eq; rewrite len_length, app_length, firstn_length; lia).
      rewrite push_enc.
      replace (len d - N.of_nat (k - length cur))%N with (len (skipn (k - length cur) d))
        by (rewrite !len_length, skipn_length; lia).
      change (MS (optl (map (fun c => (fs, c)) (done ++ [cur ++ firstn (k - length cur) d]))) None)
        with (enc fs (done ++ [cur ++ firstn (k - length cur) d]) []).
      apply IH; [exact Hk|cbn [length]; lia|rewrite skipn_length; lia|intro H; congruence].
Qed.

Lemma feed_concat k : forall x done cur,
  concat (fst (feed k done cur x)) ++ snd (feed k done cur x) = concat done ++ cur ++ x.
Proof.
  induction x as [|b t IH]; intros done cur; cbn [feed fst snd].
  - rewrite app_nil_r. reflexivity.
  - destruct (length (cur ++ [b]) =? k).
    + rewrite IH. rewrite concat_app. cbn [concat]. rewrite app_nil_r, <- !app_assoc. reflexivity.
    + rewrite IH. rewrite <- !app_assoc. reflexivity.
Qed.

Definition state_of (fs : N) (q : bytes) : mstate :=
  enc fs (fst (feed (N.to_nat fs) [] [] q)) (snd (feed (N.to_nat fs) [] [] q)).

Lemma state_of_nil fs : state_of fs [] = fresh_state.
Proof. reflexivity. Qed.

Lemma state_of_nonfirst fs q :
  q <> [] -> is_none (leaves (state_of fs q)) && is_none (rem (state_of fs q)) = false.
Proof.
  intro Hq. unfold state_of, enc. cbn [leaves rem].
  pose proof (feed_concat (N.to_nat fs) q [] []) as H. cbn [concat app] in H.
  destruct (fst (feed (N.to_nat fs) [] [] q)) as [|d ds]; destruct (snd (feed (N.to_nat fs) [] [] q)) as [|c cs];
    cbn in *; try reflexivity. congruence.
Qed.

Lemma add_nonfirst fs large q d :
  1 <= N.to_nat fs -> (large = true \/ q <> []) ->
  add_leaf (Some fs) (state_of fs q) large d = AOk (state_of fs (q ++ d)).
Proof.
  intros Hk Hnf. unfold add_leaf.
  assert (Hfirst : negb large && is_none (leaves (state_of fs q)) && is_none (rem (state_of fs q)) = false).
  { destruct Hnf as [-> | Hq]; [reflexivity|].
    rewrite <- andb_assoc. rewrite (state_of_nonfirst fs q Hq). apply andb_false_r. }
  rewrite Hfirst. cbn [andb]. cbn [N.to_nat skipn]. rewrite N.sub_0_r.
  unfold state_of at 1.
  destruct (feed_done_len (N.to_nat fs) q [] [] Hk ltac:(cbn; lia) ltac:(constructor)) as [_ Hc].
  rewrite loop_spec; [|exact Hk|exact Hc|lia|reflexivity].
  unfold state_of. rewrite (feed_app (N.to_nat fs) q d). reflexivity.
Qed.

Lemma add_first_long fs d :
  1 <= N.to_nat fs -> 8 < length d ->
  add_leaf (Some fs) fresh_state false d = AOk (state_of fs (skipn 8 d)).
Proof.
  intros Hk Hd. unfold add_leaf. cbn [fresh_state leaves rem is_none negb andb].
  unfold SKIP_EARLY_MAX, HEADER_SKIP.
  replace (len d <=? 8)%N with false by (symmetry; apply N.leb_gt; unfold len; lia).
  change (N.to_nat 8) with 8.
  replace (len d - 8)%N with (len (skipn 8 d)) by (unfold len; rewrite skipn_length; lia).
  change fresh_state with (enc fs [] []).
  rewrite loop_spec; [reflexivity|exact Hk|cbn; lia|rewrite skipn_length; lia|congruence].
Qed.

Lemma add_first_short fixed d :
  length d <= 8 -> add_leaf fixed fresh_state false d = AOk fresh_state.
Proof.
  intro Hd. unfold add_leaf. cbn [fresh_state leaves rem is_none negb andb]. unfold SKIP_EARLY_MAX.
  replace (len d <=? 8)%N with true by (symmetry; apply N.leb_le; unfold len; lia). reflexivity.
Qed.

Lemma run_nonfirst fs large : forall cs q,
  1 <= N.to_nat fs -> (large = true \/ q <> []) ->
  run_chunks (Some fs) large cs (state_of fs q) = AOk (state_of fs (q ++ concat cs)).
Proof.
  induction cs as [|c t IH]; intros q Hk Hnf; cbn [run_chunks concat].
  - rewrite app_nil_r. reflexivity.
  - rewrite add_nonfirst by assumption. rewrite IH; [rewrite app_assoc; reflexivity|exact Hk|].
    destruct Hnf as [H|H]; [left; exact H|right]. destruct q; [congruence|discriminate].
Qed.

(* ---- the leading chunks of at most 8 bytes ---- *)
Fixpoint lead (cs : list bytes) : nat :=
  match cs with
  | [] => 0
  | c :: t => if length c <=? 8 then length c + lead t else 0
  end.
Fixpoint drop_short (cs : list bytes) : list bytes :=
  match cs with
  | [] => []
  | c :: t => if length c <=? 8 then drop_short t else cs
  end.

Lemma run_drop_short fixed cs :
  run_chunks fixed false cs fresh_state = run_chunks fixed false (drop_short cs) fresh_state.
Proof.
  induction cs as [|c t IH]; [reflexivity|]. cbn [drop_short].
  destruct (length c <=? 8) eqn:E; [|reflexivity].
  cbn [run_chunks]. rewrite add_first_short by (apply Nat.leb_le; exact E). exact IH.
Qed.

Lemma drop_short_head cs c t : drop_short cs = c :: t -> 8 < length c.
Proof.
  induction cs as [|c0 t0 IH]; cbn [drop_short]; [discriminate|].
  destruct (length c0 <=? 8) eqn:E; [exact IH|]. intro H. injection H as -> ->. apply Nat.leb_gt. exact E.
Qed.

Lemma lead0_concat cs : lead cs = 0 -> concat cs = concat (drop_short cs).
Proof.
  induction cs as [|c t IH]; [reflexivity|]. cbn [lead drop_short].
  destruct (length c <=? 8) eqn:E; [|reflexivity].
  intro H. assert (Hc : length c = 0) by lia. destruct c; [|discriminate Hc].
  cbn [concat app]. apply IH. lia.
Qed.

(* bytes the accumulator drops in front of the Merkle region of a standard-header mdat *)
Definition skip_of (large : bool) : nat := if large then 0 else N.to_nat HEADER_SKIP.

(* the chunk list as the accumulator effectively sees it *)
Definition effective (large : bool) (cs : list bytes) : list bytes := if large then cs else drop_short cs.

Lemma run_fixed_char fs large cs :
  1 <= N.to_nat fs ->
  run_chunks (Some fs) large cs fresh_state
  = AOk (state_of fs (skipn (skip_of large) (concat (effective large cs)))).
Proof.
  intro Hk. destruct large; cbn [skip_of effective skipn].
  - rewrite <- (state_of_nil fs). rewrite run_nonfirst; [reflexivity|exact Hk|left; reflexivity].
  - rewrite run_drop_short. destruct (drop_short cs) as [|c t] eqn:E.
    + reflexivity.
    + pose proof (drop_short_head _ _ _ E) as Hc.
      cbn [run_chunks]. rewrite add_first_long by assumption.
      rewrite run_nonfirst; [|exact Hk|right].
      * cbn [concat]. unfold HEADER_SKIP. change (N.to_nat 8) with 8.
        rewrite skipn_app. replace (8 - length c) with 0 by lia. reflexivity.
      * intro H. apply (f_equal (@length N)) in H. rewrite skipn_length in H. cbn in H. lia.
Qed.

Definition mk (c : bytes) : leaf := (len c, c).

Lemma final_enc fs (done : list bytes) cur :
  Forall (fun c => length c = N.to_nat fs) done ->
  final_leaves (enc fs done cur) = map mk (done ++ optlist cur).
Proof.
  intro Hd.
  assert (Hm : map (fun c : bytes => (fs, c)) done = map mk done).
  { apply map_ext_in. intros c Hc. rewrite Forall_forall in Hd. specialize (Hd c Hc).
    unfold mk, len. rewrite Hd, N2Nat.id. reflexivity. }
  unfold final_leaves, flush, enc. cbn [rem leaves].
  destruct cur as [|b cur]; cbn [optb optlist].
  - rewrite app_nil_r. cbn [leaves]. rewrite Hm. destruct (map mk done); reflexivity.
  - cbn [leaves]. rewrite map_app. cbn [map]. rewrite Hm.
    destruct (map mk done); reflexivity.
Qed.

Lemma final_state_of fs q :
  1 <= N.to_nat fs ->
  final_leaves (state_of fs q) = map mk (chunks (length q) (N.to_nat fs) q).
Proof.
  intro Hk. unfold state_of.
  destruct (feed_done_len (N.to_nat fs) q [] [] Hk ltac:(cbn; lia) ltac:(constructor)) as [Hd _].
  rewrite final_enc by exact Hd.
  rewrite (feed_chunks (N.to_nat fs) (length q) q [] Hk (le_n _)). reflexivity.
Qed.

(* exact characterisation of the fixed-size leaves for every chunking (inside and outside F-MDAT8) *)
Lemma fixed_char fs large cs :
  (1 <= fs)%N ->
  exists st, run_chunks (Some fs) large cs fresh_state = AOk st
    /\ final_leaves st
       = map mk (let q := skipn (skip_of large) (concat (effective large cs)) in chunks (length q) (N.to_nat fs) q).
Proof.
  intro Hfs. assert (Hk : 1 <= N.to_nat fs) by lia.
  eexists. split; [apply run_fixed_char; exact Hk|]. cbn zeta. apply final_state_of. exact Hk.
Qed.

(* F-MDAT8: the payload of a standard-header mdat starts with chunks of at most 8 bytes that are not all empty *)
Definition known_mdat8 (large : bool) (cs : list bytes) : Prop := large = false /\ 0 < lead cs.

Lemma effective_concat large cs : ~ known_mdat8 large cs -> concat (effective large cs) = concat cs.
Proof.
  intro H. destruct large; cbn [effective]; [reflexivity|]. symmetry. apply lead0_concat.
  unfold known_mdat8 in H. destruct (lead cs); [reflexivity|]. exfalso. apply H. split; [reflexivity|lia].
Qed.

Lemma fixed_leaves fs large cs :
  (1 <= fs)%N -> ~ known_mdat8 large cs ->
  exists st, run_chunks (Some fs) large cs fresh_state = AOk st
    /\ final_leaves st
       = map mk (let q := skipn (skip_of large) (concat cs) in chunks (length q) (N.to_nat fs) q).
Proof.
  intros Hfs Hk. destruct (fixed_char fs large cs Hfs) as [st [H1 H2]].
  exists st. split; [exact H1|]. rewrite H2. rewrite (effective_concat large cs Hk). reflexivity.
Qed.

Lemma fixed_split_independent fs large cs cs' :
  (1 <= fs)%N -> concat cs = concat cs' -> ~ known_mdat8 large cs -> ~ known_mdat8 large cs' ->
  exists st st', run_chunks (Some fs) large cs fresh_state = AOk st
    /\ run_chunks (Some fs) large cs' fresh_state = AOk st'
    /\ final_leaves st = final_leaves st'.
Proof.
  intros Hfs He Hk Hk'.
  destruct (fixed_leaves fs large cs Hfs Hk) as [st [H1 H2]].
  destruct (fixed_leaves fs large cs' Hfs Hk') as [st' [H1' H2']].
  exists st, st'. split; [exact H1|split; [exact H1'|]]. rewrite H2, H2', He. reflexivity.
Qed.

(* ---- variable mode ---- *)
Lemma run_var_some large : forall cs l,
  run_chunks None large cs (MS (Some l) None) = AOk (MS (Some (l ++ map mk cs)) None).
Proof.
  induction cs as [|c t IH]; intro l; cbn [run_chunks map].
  - rewrite app_nil_r. reflexivity.
  - unfold add_leaf. cbn [leaves rem is_none]. rewrite andb_false_r. cbn [andb push_leaf N.to_nat skipn].
    rewrite N.sub_0_r. rewrite IH. rewrite <- app_assoc. reflexivity.
Qed.

Definition var_leaves (large : bool) (cs : list bytes) : list leaf :=
  match effective large cs with
  | [] => []
  | c :: t => (len c - N.of_nat (skip_of large), skipn (skip_of large) c)%N :: map mk t
  end.

Lemma var_char large cs :
  exists st, run_chunks None large cs fresh_state = AOk st /\ final_leaves st = var_leaves large cs.
Proof.
  unfold var_leaves. destruct large; cbn [effective skip_of].
  - destruct cs as [|c t].
    + exists fresh_state. split; reflexivity.
    + cbn [run_chunks]. unfold add_leaf. cbn [fresh_state leaves rem is_none negb andb push_leaf N.to_nat skipn].
      rewrite run_var_some. eexists. split; [reflexivity|]. reflexivity.
  - rewrite run_drop_short. destruct (drop_short cs) as [|c t] eqn:E.
    + exists fresh_state. split; reflexivity.
    + pose proof (drop_short_head _ _ _ E) as Hc.
      cbn [run_chunks]. unfold add_leaf. cbn [fresh_state leaves rem is_none negb andb push_leaf].
      unfold SKIP_EARLY_MAX, HEADER_SKIP.
      replace (len c <=? 8)%N with false by (symmetry; apply N.leb_gt; unfold len; lia).
      rewrite run_var_some. eexists. split; [reflexivity|]. reflexivity.
Qed.

Lemma map_snd_mk l : map snd (map mk l) = l.
Proof. induction l as [|c t IH]; [reflexivity|]. cbn. rewrite IH. reflexivity. Qed.

Lemma effective_suffix large cs : exists pre, cs = pre ++ effective large cs.
Proof.
  destruct large; cbn [effective]; [exists []; reflexivity|].
  induction cs as [|c t [pre IH]]; [exists []; reflexivity|]. cbn [drop_short].
  destruct (length c <=? 8); [|exists []; reflexivity].
  exists (c :: pre). cbn. rewrite <- IH. reflexivity.
Qed.

Lemma effective_head large cs c t : effective large cs = c :: t -> skip_of large <= length c /\ (c <> [] -> skipn (skip_of large) c <> []).
Proof.
  destruct large; cbn [effective skip_of].
  - intros _. split; [lia|]. cbn. tauto.
  - intro E. apply drop_short_head in E. unfold HEADER_SKIP. change (N.to_nat 8) with 8. split; [lia|].
    intros _ H. apply (f_equal (@length N)) in H. rewrite skipn_length in H. cbn in H. lia.
Qed.

Lemma variable_cover large cs :
  ~ known_mdat8 large cs ->
  exists st, run_chunks None large cs fresh_state = AOk st
    /\ concat (map snd (final_leaves st)) = skipn (skip_of large) (concat cs)
    /\ Forall (fun lf => fst lf = len (snd lf)) (final_leaves st)
    /\ (Forall (fun c => c <> []) (effective large cs) -> Forall (fun lf => snd lf <> []) (final_leaves st)).
Proof.
  intro Hk. destruct (var_char large cs) as [st [H1 H2]]. exists st. split; [exact H1|].
  rewrite H2. rewrite <- (effective_concat large cs Hk). unfold var_leaves.
  destruct (effective large cs) as [|c t] eqn:E.
  - cbn. rewrite skipn_nil. repeat split; constructor.
  - destruct (effective_head _ _ _ _ E) as [Hs Hne].
    cbn [map snd concat fst]. rewrite map_snd_mk. split; [|split].
    + rewrite skipn_app. replace (skip_of large - length c) with 0 by lia. reflexivity.
    + constructor.
      * cbn [fst snd]. unfold len. rewrite skipn_length. lia.
      * rewrite Forall_map. apply Forall_forall. intros x _. reflexivity.
    + intro Hall.
      inversion Hall as [|? ? Hc Ht]; subst. constructor.
      * cbn [snd]. apply Hne. exact Hc.
      * rewrite Forall_map. cbn [mk snd]. exact Ht.
Qed.

(* ---- the validator on what the accumulator recorded ---- *)
Definition header_len (large : bool) : nat := if large then N.to_nat LARGE_HEADER else N.to_nat STD_HEADER.

Lemma validator_region large (hdr p : bytes) :
  length hdr = header_len large ->
  skipn (N.to_nat MDAT_EXCLUSION_SIZE) (hdr ++ p) = skipn (skip_of large) p.
Proof.
  intro H. rewrite skipn_app. rewrite skipn_all2.
  - cbn [app]. f_equal. rewrite H. destruct large; reflexivity.
  - rewrite H. destruct large; cbn; lia.
Qed.

Lemma check_none_row0 (row : list bytes) i p :
  nth_error row i = Some p ->
  check_merkle_tree Hsym (length row) row p (N.of_nat i) None = true.
Proof.
  intro Hp. assert (Hi : i < length row) by (apply nth_error_Some; congruence).
  unfold check_merkle_tree.
  destruct (N.of_nat (length row) <=? N.of_nat i)%N eqn:E; [lia|].
  rewrite Nat2N.id. unfold layout. destruct (length row) as [|n] eqn:El; [lia|].
  cbn [layout_f skip_rows]. rewrite Nat.eqb_refl.
  apply hash_check_true. exact Hp.
Qed.

Lemma check_pieces_ok : forall ps pre,
  check_pieces (N.of_nat (length (pre ++ ps))) (map range_digest (pre ++ ps)) (length pre) ps = true.
Proof.
  induction ps as [|p t IH]; intro pre; cbn [check_pieces]; [reflexivity|].
  apply andb_true_iff. split.
  - rewrite Nat2N.id. rewrite <- (map_length range_digest (pre ++ p :: t)).
    apply check_none_row0. rewrite map_app. rewrite nth_error_app2 by (rewrite map_length; lia).
    rewrite map_length, Nat.sub_diag. reflexivity.
  - specialize (IH (pre ++ [p])). rewrite <- app_assoc in IH. cbn [app] in IH.
    replace (length (pre ++ [p])) with (S (length pre)) in IH by (rewrite app_length; cbn [length]; lia). exact IH.
Qed.

Lemma leaf_range_digest (X : list bytes) :
  Forall (fun c => c <> []) X -> map leaf_digest X = map range_digest X.
Proof.
  induction 1 as [|c t Hc _ IH]; [reflexivity|]. cbn [map]. rewrite IH.
  destruct c; [congruence|reflexivity].
Qed.

Lemma validate_finish box (X : list bytes) f v :
  Forall (fun c => c <> []) X ->
  validator_pieces box (MM (len X) (map leaf_digest X) f v) = VOk X ->
  validate_mdat box (MM (len X) (map leaf_digest X) f v) = VOk tt.
Proof.
  intros Hne H. unfold validate_mdat. rewrite H. cbn [mm_count mm_hashes].
  rewrite N.eqb_refl. cbn [negb].
  replace (len (map leaf_digest X)) with (len X) by (unfold len; rewrite map_length; reflexivity).
  replace ((len X =? 1)%N && (1 <? len X)%N) with false
    by (symmetry; destruct (len X =? 1)%N eqn:E; [apply N.eqb_eq in E; rewrite E; reflexivity|reflexivity]).
  rewrite (leaf_range_digest X Hne).
  pose proof (check_pieces_ok X []) as Hc. cbn [app length] in Hc. unfold len. rewrite Hc. reflexivity.
Qed.

Lemma nsum_mk (X : list bytes) : nsum (map fst (map mk X)) = len (concat X).
Proof.
  induction X as [|c t IH]; [reflexivity|]. cbn [map mk fst nsum fold_right concat].
  fold (nsum (map fst (map mk t))). rewrite IH. rewrite len_app. reflexivity.
Qed.

Lemma chunks_single {A} (q : list A) k : 1 <= length q <= k -> chunks (length q) k q = [q].
Proof.
  intro H. destruct q as [|a q]; [cbn in H; lia|]. cbn [length chunks].
  rewrite firstn_all2 by (cbn [length] in *; lia). rewrite skipn_all2 by (cbn [length] in *; lia).
  rewrite chunks_nil. reflexivity.
Qed.

Lemma validate_fixed fs large (hdr : bytes) cs st mm :
  (2 <= fs)%N -> ~ known_mdat8 large cs -> length hdr = header_len large ->
  2 <= length (skipn (skip_of large) (concat cs)) ->
  run_chunks (Some fs) large cs fresh_state = AOk st ->
  create_mm (Some fs) (final_leaves st) = AOk mm ->
  validate_mdat (hdr ++ concat cs) mm = VOk tt.
Proof.
  intros Hfs Hk Hh Hq Hrun Hmm.
  destruct (fixed_leaves fs large cs ltac:(lia) Hk) as [st' [H1 H2]].
  rewrite Hrun in H1. injection H1 as <-. cbn zeta in H2.
  set (q := skipn (skip_of large) (concat cs)) in *.
  set (X := chunks (length q) (N.to_nat fs) q) in *.
  assert (HX : concat X = q) by (apply chunks_concat; lia).
  unfold create_mm in Hmm. replace (fs =? 0)%N with false in Hmm by (symmetry; apply N.eqb_neq; lia).
  injection Hmm as <-. rewrite H2. rewrite nsum_mk, HX.
  rewrite map_map.
  replace (len (map mk X)) with (len X) by (unfold len; rewrite map_length; reflexivity).
  lazymatch goal with |- validate_mdat ?b (MM ?c ?h ?f ?v) = _ =>
    change (validate_mdat b (MM c (map leaf_digest X) f v) = VOk tt) end.
  apply validate_finish; [apply chunks_nonempty; lia|]. unfold validator_pieces. cbn [mm_fixed mm_var].
  rewrite (validator_region large hdr (concat cs) Hh). fold q.
  unfold MIN_FIXED_BLOCK_EXCL.
  replace (N.min (len q) fs <=? 1)%N with false by (symmetry; apply N.leb_gt; unfold len; lia).
  f_equal. unfold X.
  destruct (N.le_gt_cases fs (len q)) as [Hle|Hgt].
  - rewrite N.min_r by exact Hle. reflexivity.
  - rewrite N.min_l by lia. unfold len. rewrite Nat2N.id.
    rewrite (chunks_single q (length q)) by lia.
    rewrite (chunks_single q (N.to_nat fs)) by (unfold len in Hgt; lia). reflexivity.
Qed.

Lemma nsum_fst (L : list leaf) :
  Forall (fun lf => fst lf = len (snd lf)) L -> nsum (map fst L) = len (concat (map snd L)).
Proof.
  induction 1 as [|x l Hx _ IH]; [reflexivity|]. cbn [map concat].
  change (nsum (fst x :: map fst l)) with (fst x + nsum (map fst l))%N.
  rewrite len_app. f_equal; [exact Hx|exact IH].
Qed.

Lemma split_by_concat (L : list leaf) :
  Forall (fun lf => fst lf = len (snd lf)) L ->
  split_by (map fst L) (concat (map snd L)) = map snd L.
Proof.
  induction L as [|[n c] l IH]; intro H; [reflexivity|].
  inversion H as [|? ? Hx Hl]; subst. cbn [fst snd] in Hx. subst n.
  cbn [map split_by concat fst snd].
  unfold len. rewrite Nat2N.id.
  rewrite firstn_app, Nat.sub_diag, firstn_all. cbn [firstn]. rewrite app_nil_r.
  rewrite skipn_app, Nat.sub_diag, skipn_all. cbn [skipn app]. rewrite (IH Hl). reflexivity.
Qed.

(* F-MDAT-EMPTY: variable mode records a zero-length leaf (with an empty digest) for an empty chunk *)
Definition known_empty (large : bool) (cs : list bytes) : Prop := In [] (effective large cs).

Lemma not_known_empty large cs : ~ known_empty large cs -> Forall (fun c => c <> []) (effective large cs).
Proof.
  intro H. apply Forall_forall. intros c Hc E. subst c. apply H. exact Hc.
Qed.

Lemma validate_variable large (hdr : bytes) cs st mm :
  ~ known_mdat8 large cs -> ~ known_empty large cs -> length hdr = header_len large ->
  run_chunks None large cs fresh_state = AOk st ->
  create_mm None (final_leaves st) = AOk mm ->
  validate_mdat (hdr ++ concat cs) mm = VOk tt.
Proof.
  intros Hk Hne Hh Hrun Hmm.
  destruct (variable_cover large cs Hk) as [st' [H1 [Hc [Hf Hn]]]].
  rewrite Hrun in H1. injection H1 as <-.
  specialize (Hn (not_known_empty _ _ Hne)).
  unfold create_mm in Hmm. injection Hmm as <-.
  replace (len (final_leaves st)) with (len (map snd (final_leaves st)))
    by (unfold len; rewrite map_length; reflexivity).
  rewrite <- (map_map snd leaf_digest).
  apply validate_finish; [rewrite Forall_map; exact Hn|]. unfold validator_pieces. cbn [mm_fixed mm_var].
  rewrite (validator_region large hdr (concat cs) Hh). rewrite <- Hc.
  rewrite (nsum_fst _ Hf). rewrite N.eqb_refl. rewrite (split_by_concat _ Hf). reflexivity.
Qed.

(* the class is real: 12-byte payload of a large-header mdat fed as 5 + 0 + 7 bytes *)
Definition empty_payload : bytes := map N.of_nat (seq 0 12).
Definition empty_chunks : list bytes := [firstn 5 empty_payload; []; skipn 5 empty_payload].
Definition large_header : bytes := [0; 0; 0; 1; 109; 100; 97; 116; 0; 0; 0; 0; 0; 0; 0; 28]%N.

Lemma empty_refuted :
  concat empty_chunks = empty_payload /\ known_empty true empty_chunks /\ ~ known_mdat8 true empty_chunks /\
  exists st mm,
    run_chunks None true empty_chunks fresh_state = AOk st
    /\ map fst (final_leaves st) = [5; 0; 7]%N
    /\ create_mm None (final_leaves st) = AOk mm
    /\ validate_mdat (large_header ++ empty_payload) mm = VErr VHashMismatch.
Proof.
  split; [reflexivity|]. split; [right; left; reflexivity|]. split; [intros [H _]; discriminate H|].
  eexists. eexists. split; [vm_compute; reflexivity|].
  split; [vm_compute; reflexivity|]. split; [vm_compute; reflexivity|]. vm_compute. reflexivity.
Qed.

(* F-MDAT-FBS1: a Merkle region of one byte gives fixedBlockSize = min(1, fs) = 1, which the validator refuses *)
Lemma fbs1_refuted :
  exists st mm,
    run_chunks (Some 1024%N) false [map N.of_nat (seq 0 9)] fresh_state = AOk st
    /\ map snd (final_leaves st) = [[8]]%N
    /\ create_mm (Some 1024%N) (final_leaves st) = AOk mm /\ mm_fixed mm = Some 1%N
    /\ validate_mdat ([0; 0; 0; 17; 109; 100; 97; 116]%N ++ map N.of_nat (seq 0 9)) mm = VErr VHashMismatch.
Proof.
  eexists. eexists. split; [vm_compute; reflexivity|].
  split; [vm_compute; reflexivity|]. split; [vm_compute; reflexivity|]. split; vm_compute; reflexivity.
Qed.

(* ---- F-MDAT8 is real: a 4-byte first chunk of a 20-byte payload, 4-byte leaves ---- *)
Definition mdat8_payload : bytes := map N.of_nat (seq 0 20).
Definition mdat8_chunks : list bytes := [firstn 4 mdat8_payload; skipn 4 mdat8_payload].
Definition mdat8_header : bytes := [0; 0; 0; 28; 109; 100; 97; 116]%N.

Lemma mdat8_refuted :
  concat mdat8_chunks = mdat8_payload /\ known_mdat8 false mdat8_chunks /\
  exists st mm,
    run_chunks (Some 4%N) false mdat8_chunks fresh_state = AOk st
    /\ map snd (final_leaves st) = [[12; 13; 14; 15]; [16; 17; 18; 19]]%N
    /\ chunks 12 4 (skipn 8 mdat8_payload) = [[8; 9; 10; 11]; [12; 13; 14; 15]; [16; 17; 18; 19]]%N
    /\ create_mm (Some 4%N) (final_leaves st) = AOk mm
    /\ validate_mdat (mdat8_header ++ mdat8_payload) mm = VErr VValidation.
Proof.
  split; [reflexivity|]. split; [split; [reflexivity|cbn; lia]|].
  eexists. eexists. split; [vm_compute; reflexivity|].
  split; [vm_compute; reflexivity|]. split; [vm_compute; reflexivity|].
  split; [vm_compute; reflexivity|]. vm_compute. reflexivity.
Qed.

(* the skipped bytes in general: chunks of at most 8 bytes in front are dropped entirely *)
Lemma mdat8_characterised fixed cs :
  run_chunks fixed false cs fresh_state = run_chunks fixed false (drop_short cs) fresh_state.
Proof. apply run_drop_short. Qed.
