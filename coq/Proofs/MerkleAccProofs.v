(* Proofs/MerkleAccProofs.v — lemmas about Model/MerkleAcc.v (C17). *)
From Coq Require Import List NArith Bool Arith Lia ZifyBool ZifyNat ZifyN.
From C2PA Require Import Base.Bytes Proofs.BytesProofs Model.Merkle Model.MerkleAcc Generated.C17_facts
     Proofs.MerkleProofs.
Import ListNotations.
Open Scope nat_scope.

(* ---- specification device: feed the Merkle region one byte at a time ---- *)
Fixpoint feed (k : nat) (done : list bytes) (cur : bytes) (x : bytes) : list bytes * bytes :=
  match x with
  | [] => (done, cur)
  | b :: t => if length (cur ++ [b]) =? k then feed k (done ++ [cur ++ [b]]) [] t
              else feed k done (cur ++ [b]) t
  end.

Lemma feed_app k : forall x y done cur,
  feed k done cur (x ++ y) = feed k (fst (feed k done cur x)) (snd (feed k done cur x)) y.
Proof.
  induction x as [|b t IH]; intros y done cur; cbn [feed app fst snd]; [reflexivity|].
  destruct (length (cur ++ [b]) =? k); apply IH.
Qed.

Lemma feed_small k : forall x done cur,
  length cur + length x < k -> feed k done cur x = (done, cur ++ x).
Proof.
  induction x as [|b t IH]; intros done cur H; cbn [feed].
  - rewrite app_nil_r. reflexivity.
  - cbn [length] in H. rewrite app_length. cbn [length].
    replace (length cur + 1 =? k) with false by (symmetry; apply Nat.eqb_neq; lia).
    rewrite IH by (rewrite app_length; cbn [length]; lia).
    rewrite <- app_assoc. reflexivity.
Qed.

Lemma feed_fill k : forall x done cur,
  length cur < k -> k <= length cur + length x ->
  feed k done cur x
  = feed k (done ++ [cur ++ firstn (k - length cur) x]) [] (skipn (k - length cur) x).
Proof.
  induction x as [|b t IH]; intros done cur Hc Hx; cbn [length] in Hx; [lia|].
  cbn [feed]. rewrite app_length. cbn [length].
  destruct (length cur + 1 =? k) eqn:E.
  - apply Nat.eqb_eq in E. replace (k - length cur) with 1 by lia. reflexivity.
  - apply Nat.eqb_neq in E.
    rewrite IH by (rewrite ?app_length; cbn [length]; lia).
    rewrite app_length. cbn [length].
    replace (k - length cur) with (S (k - (length cur + 1))) by lia.
    cbn [firstn skipn]. rewrite <- app_assoc. reflexivity.
Qed.

Lemma feed_done_len k : forall x done cur,
  1 <= k -> length cur < k -> Forall (fun c => length c = k) done ->
  Forall (fun c => length c = k) (fst (feed k done cur x)) /\ length (snd (feed k done cur x)) < k.
Proof.
  induction x as [|b t IH]; intros done cur Hk Hc Hd; cbn [feed fst snd]; [split; assumption|].
  destruct (length (cur ++ [b]) =? k) eqn:E.
  - apply Nat.eqb_eq in E. apply IH; [exact Hk|cbn; lia|].
    apply Forall_app. split; [exact Hd|]. constructor; [exact E|constructor].
  - apply Nat.eqb_neq in E. apply IH; [exact Hk| |exact Hd].
    rewrite app_length in *. cbn [length] in *. lia.
Qed.

Definition optlist (b : bytes) : list bytes := match b with [] => [] | _ => [b] end.

Lemma chunks_nil {A} f k : @chunks A f k [] = [].
Proof. destruct f; reflexivity. Qed.

(* feeding from an empty buffer produces the chunks of Base.Bytes *)
Lemma feed_chunks k : forall fuel q done,
  1 <= k -> length q <= fuel ->
  fst (feed k done [] q) ++ optlist (snd (feed k done [] q)) = done ++ chunks fuel k q.
Proof.
  induction fuel as [|f IH]; intros q done Hk Hf.
  - destruct q; [|cbn in Hf; lia]. cbn. reflexivity.
  - destruct q as [|b t]; [cbn; reflexivity|].
    destruct (Nat.lt_ge_cases (length (b :: t)) k) as [Hlt|Hge].
    + rewrite feed_small by (cbn [length] in *; lia). cbn [fst snd app optlist].
      cbn [chunks]. rewrite firstn_all2 by lia. rewrite skipn_all2 by lia. rewrite chunks_nil. reflexivity.
    + rewrite feed_fill by (cbn [length] in *; lia). cbn [length app]. rewrite Nat.sub_0_r.
      rewrite IH; [|exact Hk|rewrite skipn_length; cbn [length] in *; lia].
      cbn [chunks]. rewrite <- app_assoc. reflexivity.
Qed.

(* ---- the accumulator state as a function of the fed region ---- *)
Definition optl (l : list leaf) : option (list leaf) := match l with [] => None | _ => Some l end.
Definition optb (b : bytes) : option bytes := match b with [] => None | _ => Some b end.
Definition enc (fs sk : N) (done : list bytes) (cur : bytes) : mstate :=
  MS (optl (map (fun c => (fs, c)) done)) (optb cur) sk.

Lemma push_enc fs done c :
  push_leaf (optl (map (fun c => (fs, c)) done)) (fs, c) = optl (map (fun c => (fs, c)) (done ++ [c])).
Proof.
  rewrite map_app. destruct done as [|d done]; cbn; reflexivity.
Qed.

Lemma len_length {A} (l : list A) : len l = N.of_nat (length l).
Proof. reflexivity. Qed.

Lemma loop_spec : forall fuel fs sk done cur d dlen,
  1 <= N.to_nat fs -> length cur < N.to_nat fs -> length d < fuel -> (cur <> [] -> dlen = len d) ->
  fixed_loop fuel fs (enc fs sk done cur) d (len d) dlen
  = AOk (enc fs sk (fst (feed (N.to_nat fs) done cur d)) (snd (feed (N.to_nat fs) done cur d))).
Proof.
  induction fuel as [|fuel IH]; intros fs sk done cur d dlen Hk Hc Hf Hd; [lia|].
  set (k := N.to_nat fs) in *.
  destruct cur as [|c0 cur'].
  - (* no pending remainder *)
    cbn [fixed_loop enc rem optb leaves skipped].
    destruct (Nat.lt_ge_cases (length d) k) as [Hlt|Hge].
    + rewrite feed_small by (cbn [length]; lia). cbn [fst snd app].
      replace (N.min fs (len d)) with (len d) by (rewrite len_length; lia).
      destruct d as [|b t].
      * cbn. reflexivity.
      * replace (len (b :: t) =? 0)%N with false by (symmetry; apply N.eqb_neq; rewrite len_length; cbn [length]; lia).
        replace (len (b :: t) <? len (b :: t))%N with false by (symmetry; apply N.ltb_ge; lia).
        replace (len (b :: t) <? fs)%N with true by (symmetry; apply N.ltb_lt; rewrite len_length; lia).
        unfold len. rewrite Nat2N.id, firstn_all. reflexivity.
    + rewrite feed_fill by (cbn [length]; lia). cbn [length app]. rewrite Nat.sub_0_r.
      replace (N.min fs (len d)) with fs by (rewrite len_length; lia).
      replace (fs =? 0)%N with false by (symmetry; apply N.eqb_neq; lia).
      replace (len d <? fs)%N with false by (symmetry; apply N.ltb_ge; rewrite len_length; lia).
      rewrite N.ltb_irrefl. fold k.
      rewrite push_enc.
      replace (len d - fs)%N with (len (skipn k d)) by (rewrite !len_length, skipn_length; lia).
      change (MS (optl (map (fun c => (fs, c)) (done ++ [firstn k d]))) None sk)
        with (enc fs sk (done ++ [firstn k d]) []).
      apply IH; [exact Hk|cbn [length]; lia|rewrite skipn_length; lia|intro H; congruence].
  - (* pending remainder: only on the first iteration, data_len = data_left *)
    rewrite (Hd ltac:(discriminate)).
    cbn [fixed_loop enc rem optb leaves skipped].
    set (cur := c0 :: cur') in *.
    destruct (Nat.lt_ge_cases (length cur + length d) k) as [Hlt|Hge].
    + rewrite feed_small by lia. cbn [fst snd].
      replace (N.min (fs - len cur) (len d)) with (len d) by (rewrite !len_length; lia).
      rewrite N.ltb_irrefl. unfold len. rewrite Nat2N.id, firstn_all.
      replace (N.of_nat (length (cur ++ d)) =? fs)%N with false
        by (symmetry; apply N.eqb_neq; rewrite app_length; lia).
      subst cur. reflexivity.
    + rewrite feed_fill by lia.
      replace (N.min (fs - len cur) (len d)) with (N.of_nat (k - length cur)) by (rewrite !len_length; lia).
      replace (len d <? N.of_nat (k - length cur))%N with false
        by (symmetry; apply N.ltb_ge; rewrite len_length; lia).
      rewrite Nat2N.id.
      replace (len (cur ++ firstn (k - length cur) d) =? fs)%N with true
        by (symmetry; apply N.eqb_eq; rewrite len_length, app_length, firstn_length; lia).
      rewrite push_enc.
      replace (len d - N.of_nat (k - length cur))%N with (len (skipn (k - length cur) d))
        by (rewrite !len_length, skipn_length; lia).
      change (MS (optl (map (fun c => (fs, c)) (done ++ [cur ++ firstn (k - length cur) d]))) None sk)
        with (enc fs sk (done ++ [cur ++ firstn (k - length cur) d]) []).
      apply IH; [exact Hk|cbn [length]; lia|rewrite skipn_length; lia|intro H; congruence].
Qed.

Lemma feed_concat k : forall x done cur,
  concat (fst (feed k done cur x)) ++ snd (feed k done cur x) = concat done ++ cur ++ x.
Proof.
  induction x as [|b t IH]; intros done cur; cbn [feed fst snd].
  - rewrite app_nil_r. reflexivity.
  - destruct (length (cur ++ [b]) =? k).
    + rewrite IH. rewrite concat_app. cbn [concat]. rewrite app_nil_r, <- !app_assoc. reflexivity.
    + rewrite IH. rewrite <- !app_assoc. reflexivity.
Qed.

Definition state_of (fs sk : N) (q : bytes) : mstate :=
  enc fs sk (fst (feed (N.to_nat fs) [] [] q)) (snd (feed (N.to_nat fs) [] [] q)).

Lemma state_of_nil fs sk : state_of fs sk [] = MS None None sk.
Proof. reflexivity. Qed.

Lemma state_of_nonfirst fs sk q :
  q <> [] -> is_none (leaves (state_of fs sk q)) && is_none (rem (state_of fs sk q)) = false.
Proof.
  intro Hq. unfold state_of, enc. cbn [leaves rem].
  pose proof (feed_concat (N.to_nat fs) q [] []) as H. cbn [concat app] in H.
  destruct (fst (feed (N.to_nat fs) [] [] q)) as [|d ds]; destruct (snd (feed (N.to_nat fs) [] [] q)) as [|c cs];
    cbn in *; try reflexivity. congruence.
Qed.

Lemma len_zero_nil (d : bytes) : (len d =? 0)%N = true -> d = [].
Proof. destruct d; [reflexivity|]. unfold len. cbn [length]. intro H. apply N.eqb_eq in H. lia. Qed.

(* a call that is not the first recording call for its mdat: the chunk is appended to the Merkle region *)
Lemma add_nonfirst fs sk large q d :
  1 <= N.to_nat fs -> (large = true \/ q <> []) ->
  add_leaf (Some fs) (state_of fs sk q) large d = AOk (state_of fs sk (q ++ d)).
Proof.
  intros Hk Hnf. unfold add_leaf.
  destruct (len d =? 0)%N eqn:E0.
  - apply len_zero_nil in E0. subst d. rewrite app_nil_r. reflexivity.
  - assert (Hfirst : negb large && is_none (leaves (state_of fs sk q)) && is_none (rem (state_of fs sk q)) = false).
    { destruct Hnf as [-> | Hq]; [reflexivity|].
      rewrite <- andb_assoc. rewrite (state_of_nonfirst fs sk q Hq). apply andb_false_r. }
    cbv zeta. rewrite Hfirst. cbn [andb N.to_nat skipn]. rewrite N.sub_0_r.
    unfold state_of at 1.
    destruct (feed_done_len (N.to_nat fs) q [] [] Hk ltac:(cbn; lia) ltac:(constructor)) as [_ Hc].
    rewrite loop_spec; [|exact Hk|exact Hc|lia|reflexivity].
    unfold state_of. rewrite (feed_app (N.to_nat fs) q d). reflexivity.
Qed.

(* a call while nothing has been recorded yet for a standard-header mdat: what is left of the 8 excluded bytes is
   taken from the front of the chunk, whatever the chunk length *)
Lemma add_first fs sk d :
  1 <= N.to_nat fs -> (sk <= 8)%N ->
  add_leaf (Some fs) (MS None None sk) false d
  = AOk (state_of fs (sk + N.min (8 - sk) (len d))%N (skipn (N.to_nat (8 - sk)) d)).
Proof.
  intros Hk Hsk. unfold add_leaf.
  destruct (len d =? 0)%N eqn:E0.
  - apply len_zero_nil in E0. subst d. rewrite skipn_nil, state_of_nil.
    replace (sk + N.min (8 - sk) (len []))%N with sk by (unfold len; cbn [length]; lia). reflexivity.
  - apply N.eqb_neq in E0. cbv zeta. cbn [leaves rem skipped is_none negb andb]. unfold HEADER_SKIP.
    destruct (N.min (8 - sk) (len d) =? len d)%N eqn:E1.
    + apply N.eqb_eq in E1. rewrite skipn_all2 by (unfold len in *; lia). rewrite state_of_nil. reflexivity.
    + apply N.eqb_neq in E1.
      assert (Hm : (N.min (8 - sk) (len d) = 8 - sk)%N) by lia. rewrite Hm.
      replace (len d - (8 - sk))%N with (len (skipn (N.to_nat (8 - sk)) d))
        by (unfold len in *; rewrite skipn_length; lia).
      change (MS None None (sk + (8 - sk))%N) with (enc fs (sk + (8 - sk))%N [] []).
      rewrite loop_spec; [reflexivity|exact Hk|cbn; lia|rewrite skipn_length; lia|congruence].
Qed.

Lemma run_nonfirst fs sk large : forall cs q,
  1 <= N.to_nat fs -> (large = true \/ q <> []) ->
  run_chunks (Some fs) large cs (state_of fs sk q) = AOk (state_of fs sk (q ++ concat cs)).
Proof.
  induction cs as [|c t IH]; intros q Hk Hnf; cbn [run_chunks concat].
  - rewrite app_nil_r. reflexivity.
  - rewrite add_nonfirst by assumption. rewrite IH; [rewrite app_assoc; reflexivity|exact Hk|].
    destruct Hnf as [H|H]; [left; exact H|right]. destruct q; [congruence|discriminate].
Qed.

(* standard header: the state after feeding the bytes [t] in any pieces *)
Definition std_state (fs : N) (t : bytes) : mstate := state_of fs (N.min 8 (len t)) (skipn 8 t).

Lemma add_std fs t c :
  1 <= N.to_nat fs -> add_leaf (Some fs) (std_state fs t) false c = AOk (std_state fs (t ++ c)).
Proof.
  intro Hk. unfold std_state.
  destruct (Nat.le_gt_cases (length t) 8) as [Hle|Hgt].
  - rewrite (skipn_all2 t) by exact Hle. rewrite state_of_nil.
    replace (N.min 8 (len t)) with (len t) by (unfold len; lia).
    rewrite add_first by (try exact Hk; unfold len; lia).
    f_equal. f_equal.
    + unfold len. rewrite app_length. lia.
    + rewrite skipn_app. rewrite (skipn_all2 t) by exact Hle. cbn [app]. f_equal. unfold len. lia.
  - replace (N.min 8 (len t)) with 8%N by (unfold len; lia).
    replace (N.min 8 (len (t ++ c))) with 8%N by (unfold len; rewrite app_length; lia).
    rewrite add_nonfirst; [|exact Hk|right].
    + f_equal. f_equal. rewrite skipn_app. replace (8 - length t) with 0 by lia. reflexivity.
    + intro H. apply (f_equal (@length N)) in H. rewrite skipn_length in H. cbn in H. lia.
Qed.

Lemma run_std fs : forall cs t,
  1 <= N.to_nat fs ->
  run_chunks (Some fs) false cs (std_state fs t) = AOk (std_state fs (t ++ concat cs)).
Proof.
  induction cs as [|c r IH]; intros t Hk; cbn [run_chunks concat].
  - rewrite app_nil_r. reflexivity.
  - rewrite add_std by exact Hk. rewrite IH by exact Hk. rewrite app_assoc. reflexivity.
Qed.

(* bytes the accumulator drops in front of the Merkle region of a standard-header mdat *)
Definition skip_of (large : bool) : nat := if large then 0 else N.to_nat HEADER_SKIP.

Definition mk (c : bytes) : leaf := (len c, c).

Lemma final_enc fs sk (done : list bytes) cur :
  Forall (fun c => length c = N.to_nat fs) done ->
  final_leaves (enc fs sk done cur) = map mk (done ++ optlist cur).
Proof.
  intro Hd.
  assert (Hm : map (fun c : bytes => (fs, c)) done = map mk done).
  { apply map_ext_in. intros c Hc. rewrite Forall_forall in Hd. specialize (Hd c Hc).
    unfold mk, len. rewrite Hd, N2Nat.id. reflexivity. }
  unfold final_leaves, flush, enc. cbn [rem leaves].
  destruct cur as [|b cur]; cbn [optb optlist].
  - rewrite app_nil_r. cbn [leaves]. rewrite Hm. destruct (map mk done); reflexivity.
  - cbn [leaves]. rewrite map_app. cbn [map]. rewrite Hm.
    destruct (map mk done); reflexivity.
Qed.

Lemma final_state_of fs sk q :
  1 <= N.to_nat fs ->
  final_leaves (state_of fs sk q) = map mk (chunks (length q) (N.to_nat fs) q).
Proof.
  intro Hk. unfold state_of.
  destruct (feed_done_len (N.to_nat fs) q [] [] Hk ltac:(cbn; lia) ltac:(constructor)) as [Hd _].
  rewrite final_enc by exact Hd.
  rewrite (feed_chunks (N.to_nat fs) (length q) q [] Hk (le_n _)). reflexivity.
Qed.

(* fixed leaf size, EVERY chunking (short first chunks, empty chunks anywhere): the recorded leaves are the
   fs-byte pieces of the payload after the header skip *)
Lemma fixed_leaves fs large cs :
  (1 <= fs)%N ->
  exists st, run_chunks (Some fs) large cs fresh_state = AOk st
    /\ final_leaves st
       = map mk (let q := skipn (skip_of large) (concat cs) in chunks (length q) (N.to_nat fs) q).
Proof.
  intro Hfs. assert (Hk : 1 <= N.to_nat fs) by lia. destruct large; cbn [skip_of skipn].
  - change fresh_state with (state_of fs 0 []).
    eexists. split; [apply run_nonfirst; [exact Hk|left; reflexivity]|]. cbn [app]. apply final_state_of. exact Hk.
  - change fresh_state with (std_state fs []).
    eexists. split; [apply run_std; exact Hk|]. cbn [app]. unfold std_state, HEADER_SKIP.
    change (N.to_nat 8) with 8. apply final_state_of. exact Hk.
Qed.

Lemma fixed_split_independent fs large cs cs' :
  (1 <= fs)%N -> concat cs = concat cs' ->
  exists st st', run_chunks (Some fs) large cs fresh_state = AOk st
    /\ run_chunks (Some fs) large cs' fresh_state = AOk st'
    /\ final_leaves st = final_leaves st'.
Proof.
  intros Hfs He.
  destruct (fixed_leaves fs large cs Hfs) as [st [H1 H2]].
  destruct (fixed_leaves fs large cs' Hfs) as [st' [H1' H2']].
  exists st, st'. split; [exact H1|split; [exact H1'|]]. rewrite H2, H2', He. reflexivity.
Qed.

(* ---- variable mode: an invariant over the bytes fed so far ---- *)
Definition lv (st : mstate) : list leaf := match leaves st with Some l => l | None => [] end.
Definition good (lf : leaf) : Prop := fst lf = len (snd lf) /\ snd lf <> [].

Record VInv (large : bool) (t : bytes) (st : mstate) : Prop := {
  vi_rem : rem st = None;
  vi_sk : large = false -> skipped st = N.min 8 (len t);
  vi_cat : concat (map snd (lv st)) = skipn (skip_of large) t;
  vi_good : Forall good (lv st);
  vi_some : large = false -> leaves st <> None -> 8 <= length t }.

Lemma lv_push l x r sk : lv (MS (push_leaf l x) r sk) = lv (MS l r sk) ++ [x].
Proof. destruct l; reflexivity. Qed.

Lemma var_push large t st c :
  VInv large t st -> c <> [] -> (large = false -> 8 <= length t) ->
  VInv large (t ++ c) (MS (push_leaf (leaves st) (len c - 0, skipn 0 c)%N) (rem st) (skipped st)).
Proof.
  intros [Hr Hs Hc Hg Hsome] Hne H8. cbn [skipn]. rewrite N.sub_0_r. constructor; cbn [rem leaves skipped].
  - exact Hr.
  - intro Hl. rewrite (Hs Hl). specialize (H8 Hl). unfold len. rewrite app_length. lia.
  - rewrite lv_push. change (lv (MS (leaves st) (rem st) (skipped st))) with (lv st).
    rewrite map_app, concat_app.
    lazymatch goal with |- ?a ++ ?b = _ => transitivity (skipn (skip_of large) t ++ b); [f_equal; exact Hc|] end.
    cbn [map snd concat]. rewrite app_nil_r.
    destruct large; cbn [skip_of skipn] in *; [reflexivity|].
    unfold HEADER_SKIP. change (N.to_nat 8) with 8. rewrite skipn_app.
    replace (8 - length t) with 0 by (specialize (H8 eq_refl); lia). reflexivity.
  - rewrite lv_push. change (lv (MS (leaves st) (rem st) (skipped st))) with (lv st).
    apply Forall_app. split; [exact Hg|]. constructor; [|constructor]. split; [reflexivity|exact Hne].
  - intros Hl _. specialize (H8 Hl). rewrite app_length. lia.
Qed.

Lemma var_step large t st c :
  VInv large t st -> exists st', add_leaf None st large c = AOk st' /\ VInv large (t ++ c) st'.
Proof.
  intro Hinv. unfold add_leaf.
  destruct (len c =? 0)%N eqn:E0.
  - apply len_zero_nil in E0. subst c. rewrite app_nil_r. exists st. split; [reflexivity|exact Hinv].
  - assert (Hne : c <> []) by (intro; subst c; discriminate E0).
    cbv zeta. destruct large.
    + cbn [negb andb N.to_nat]. eexists. split; [reflexivity|].
      apply var_push; [exact Hinv|exact Hne|discriminate].
    + destruct (is_none (leaves st)) eqn:En.
      2:{ cbn [negb andb N.to_nat]. eexists. split; [reflexivity|].
          apply var_push; [exact Hinv|exact Hne|].
          intros _. apply (vi_some _ _ _ Hinv eq_refl). intro H. rewrite H in En. discriminate. }
      * assert (El : leaves st = None) by (destruct (leaves st); [discriminate|reflexivity]).
        destruct Hinv as [Hr Hs Hc Hg Hsome]. rewrite Hr, El. cbn [negb andb is_none leaves rem skipped].
        specialize (Hs eq_refl).
        assert (Hlv : lv st = []) by (unfold lv; rewrite El; reflexivity).
        rewrite Hlv in Hc. cbn [map concat skip_of] in Hc. unfold HEADER_SKIP in *. change (N.to_nat 8) with 8 in Hc.
        assert (Ht : length t <= 8).
        { symmetry in Hc. apply (f_equal (@length N)) in Hc. rewrite skipn_length in Hc. cbn in Hc. lia. }
        assert (Hsk : skipped st = len t) by (rewrite Hs; unfold len; lia).
        rewrite Hsk.
        destruct (N.min (8 - len t) (len c) =? len c)%N eqn:E1.
        -- apply N.eqb_eq in E1. eexists. split; [reflexivity|]. constructor; cbn [rem leaves skipped].
           ++ reflexivity.
           ++ intros _. unfold len in *. rewrite app_length. lia.
           ++ unfold lv. cbn [leaves map concat skip_of]. unfold HEADER_SKIP. change (N.to_nat 8) with 8.
              symmetry. apply skipn_all2. unfold len in *. rewrite app_length. lia.
           ++ unfold lv. cbn [leaves]. constructor.
           ++ intros _ H. congruence.
        -- apply N.eqb_neq in E1.
           assert (Hm : (N.min (8 - len t) (len c) = 8 - len t)%N) by lia. rewrite Hm.
           eexists. split; [reflexivity|]. constructor; cbn [rem leaves skipped push_leaf].
           ++ reflexivity.
           ++ intros _. unfold len in *. rewrite app_length. lia.
           ++ unfold lv. cbn [leaves map snd concat skip_of]. rewrite app_nil_r.
              unfold HEADER_SKIP. change (N.to_nat 8) with 8.
              rewrite skipn_app. rewrite (skipn_all2 t) by exact Ht. cbn [app]. f_equal. unfold len. lia.
           ++ unfold lv. cbn [leaves]. constructor; [|constructor]. split; cbn [fst snd].
              ** unfold len in *. rewrite skipn_length. lia.
              ** intro H. apply (f_equal (@length N)) in H. rewrite skipn_length in H. cbn [length] in H. unfold len in *. lia.
           ++ intros _ _. unfold len in *. rewrite app_length. lia.
Qed.

Lemma var_run large : forall cs t st,
  VInv large t st -> exists st', run_chunks None large cs st = AOk st' /\ VInv large (t ++ concat cs) st'.
Proof.
  induction cs as [|c r IH]; intros t st Hinv; cbn [run_chunks concat].
  - rewrite app_nil_r. exists st. split; [reflexivity|exact Hinv].
  - destruct (var_step large t st c Hinv) as [st1 [H1 Hinv1]]. rewrite H1.
    destruct (IH (t ++ c) st1 Hinv1) as [st2 [H2 Hinv2]]. exists st2. split; [exact H2|].
    rewrite app_assoc. exact Hinv2.
Qed.

Lemma vinv_fresh large : VInv large [] fresh_state.
Proof.
  constructor; cbn; try reflexivity; try constructor.
  - destruct large; reflexivity.
  - intros _ H. congruence.
Qed.

(* variable leaves, EVERY chunking: contents concatenate to the payload after the header skip, recorded lengths are
   the content lengths, and no leaf is empty *)
Lemma variable_cover large cs :
  exists st, run_chunks None large cs fresh_state = AOk st
    /\ concat (map snd (final_leaves st)) = skipn (skip_of large) (concat cs)
    /\ Forall (fun lf => fst lf = len (snd lf)) (final_leaves st)
    /\ Forall (fun lf => snd lf <> []) (final_leaves st).
Proof.
  destruct (var_run large cs [] fresh_state (vinv_fresh large)) as [st [H1 [Hr _ Hc Hg _]]].
  exists st. split; [exact H1|]. cbn [app] in Hc.
  assert (Hf : final_leaves st = lv st) by (unfold final_leaves, flush, lv; rewrite Hr; reflexivity).
  rewrite Hf. split; [exact Hc|]. split; eapply Forall_impl; try exact Hg; intros a [Ha Hb]; assumption.
Qed.

Lemma map_snd_mk l : map snd (map mk l) = l.
Proof. induction l as [|c t IH]; [reflexivity|]. cbn. rewrite IH. reflexivity. Qed.

(* ---- the validator on what the accumulator recorded ---- *)
Definition header_len (large : bool) : nat := if large then N.to_nat LARGE_HEADER else N.to_nat STD_HEADER.

Lemma validator_region large (hdr p : bytes) :
  length hdr = header_len large ->
  skipn (N.to_nat MDAT_EXCLUSION_SIZE) (hdr ++ p) = skipn (skip_of large) p.
Proof.
  intro H. rewrite skipn_app. rewrite skipn_all2.
  - cbn [app]. f_equal. rewrite H. destruct large; reflexivity.
  - rewrite H. destruct large; cbn; lia.
Qed.

Lemma check_none_row0 (row : list bytes) i p :
  nth_error row i = Some p ->
  check_merkle_tree Hsym (length row) row p (N.of_nat i) None = true.
Proof.
  intro Hp. assert (Hi : i < length row) by (apply nth_error_Some; congruence).
  unfold check_merkle_tree.
  destruct (N.of_nat (length row) <=? N.of_nat i)%N eqn:E; [lia|].
  rewrite Nat2N.id. unfold layout. destruct (length row) as [|n] eqn:El; [lia|].
  cbn [layout_f skip_rows]. rewrite Nat.eqb_refl.
  apply hash_check_true. exact Hp.
Qed.

Lemma check_pieces_ok : forall ps pre,
  check_pieces (N.of_nat (length (pre ++ ps))) (map range_digest (pre ++ ps)) (length pre) ps = true.
Proof.
  induction ps as [|p t IH]; intro pre; cbn [check_pieces]; [reflexivity|].
  apply andb_true_iff. split.
  - rewrite Nat2N.id. rewrite <- (map_length range_digest (pre ++ p :: t)).
    apply check_none_row0. rewrite map_app. rewrite nth_error_app2 by (rewrite map_length; lia).
    rewrite map_length, Nat.sub_diag. reflexivity.
  - specialize (IH (pre ++ [p])). rewrite <- app_assoc in IH. cbn [app] in IH.
    replace (length (pre ++ [p])) with (S (length pre)) in IH by (rewrite app_length; cbn [length]; lia). exact IH.
Qed.

Lemma leaf_range_digest (X : list bytes) :
  Forall (fun c => c <> []) X -> map leaf_digest X = map range_digest X.
Proof.
  induction 1 as [|c t Hc _ IH]; [reflexivity|]. cbn [map]. rewrite IH.
  destruct c; [congruence|reflexivity].
Qed.

Lemma validate_finish box (X : list bytes) f v :
  Forall (fun c => c <> []) X ->
  validator_pieces box (MM (len X) (map leaf_digest X) f v) = VOk X ->
  validate_mdat box (MM (len X) (map leaf_digest X) f v) = VOk tt.
Proof.
  intros Hne H. unfold validate_mdat. rewrite H. cbn [mm_count mm_hashes].
  rewrite N.eqb_refl. cbn [negb].
  replace (len (map leaf_digest X)) with (len X) by (unfold len; rewrite map_length; reflexivity).
  replace ((len X =? 1)%N && (1 <? len X)%N) with false
    by (symmetry; destruct (len X =? 1)%N eqn:E; [apply N.eqb_eq in E; rewrite E; reflexivity|reflexivity]).
  rewrite (leaf_range_digest X Hne).
  pose proof (check_pieces_ok X []) as Hc. cbn [app length] in Hc. unfold len. rewrite Hc. reflexivity.
Qed.

Lemma nsum_mk (X : list bytes) : nsum (map fst (map mk X)) = len (concat X).
Proof.
  induction X as [|c t IH]; [reflexivity|]. cbn [map mk fst nsum fold_right concat].
  fold (nsum (map fst (map mk t))). rewrite IH. rewrite len_app. reflexivity.
Qed.

Lemma chunks_single {A} (q : list A) k : 1 <= length q <= k -> chunks (length q) k q = [q].
Proof.
  intro H. destruct q as [|a q]; [cbn in H; lia|]. cbn [length chunks].
  rewrite firstn_all2 by (cbn [length] in *; lia). rewrite skipn_all2 by (cbn [length] in *; lia).
  rewrite chunks_nil. reflexivity.
Qed.

Lemma validate_fixed fs large (hdr : bytes) cs st mm :
  (2 <= fs)%N -> length hdr = header_len large ->
  2 <= length (skipn (skip_of large) (concat cs)) ->
  run_chunks (Some fs) large cs fresh_state = AOk st ->
  create_mm (Some fs) (final_leaves st) = AOk mm ->
  validate_mdat (hdr ++ concat cs) mm = VOk tt.
Proof.
  intros Hfs Hh Hq Hrun Hmm.
  destruct (fixed_leaves fs large cs ltac:(lia)) as [st' [H1 H2]].
  rewrite Hrun in H1. injection H1 as <-. cbn zeta in H2.
  set (q := skipn (skip_of large) (concat cs)) in *.
  set (X := chunks (length q) (N.to_nat fs) q) in *.
  assert (HX : concat X = q) by (apply chunks_concat; lia).
  unfold create_mm in Hmm. replace (fs =? 0)%N with false in Hmm by (symmetry; apply N.eqb_neq; lia).
  injection Hmm as <-. rewrite H2. rewrite nsum_mk, HX.
  rewrite map_map.
  replace (len (map mk X)) with (len X) by (unfold len; rewrite map_length; reflexivity).
  lazymatch goal with |- validate_mdat ?b (MM ?c ?h ?f ?v) = _ =>
    change (validate_mdat b (MM c (map leaf_digest X) f v) = VOk tt) end.
  apply validate_finish; [apply chunks_nonempty; lia|]. unfold validator_pieces. cbn [mm_fixed mm_var].
  rewrite (validator_region large hdr (concat cs) Hh). fold q.
  unfold MIN_FIXED_BLOCK_EXCL.
  replace (N.min (len q) fs <=? 1)%N with false by (symmetry; apply N.leb_gt; unfold len; lia).
  f_equal. unfold X.
  destruct (N.le_gt_cases fs (len q)) as [Hle|Hgt].
  - rewrite N.min_r by exact Hle. reflexivity.
  - rewrite N.min_l by lia. unfold len. rewrite Nat2N.id.
    rewrite (chunks_single q (length q)) by lia.
    rewrite (chunks_single q (N.to_nat fs)) by (unfold len in Hgt; lia). reflexivity.
Qed.

Lemma nsum_fst (L : list leaf) :
  Forall (fun lf => fst lf = len (snd lf)) L -> nsum (map fst L) = len (concat (map snd L)).
Proof.
  induction 1 as [|x l Hx _ IH]; [reflexivity|]. cbn [map concat].
  change (nsum (fst x :: map fst l)) with (fst x + nsum (map fst l))%N.
  rewrite len_app. f_equal; [exact Hx|exact IH].
Qed.

Lemma split_by_concat (L : list leaf) :
  Forall (fun lf => fst lf = len (snd lf)) L ->
  split_by (map fst L) (concat (map snd L)) = map snd L.
Proof.
  induction L as [|[n c] l IH]; intro H; [reflexivity|].
  inversion H as [|? ? Hx Hl]; subst. cbn [fst snd] in Hx. subst n.
  cbn [map split_by concat fst snd].
  unfold len. rewrite Nat2N.id.
  rewrite firstn_app, Nat.sub_diag, firstn_all. cbn [firstn]. rewrite app_nil_r.
  rewrite skipn_app, Nat.sub_diag, skipn_all. cbn [skipn app]. rewrite (IH Hl). reflexivity.
Qed.

Lemma validate_variable large (hdr : bytes) cs st mm :
  length hdr = header_len large ->
  run_chunks None large cs fresh_state = AOk st ->
  create_mm None (final_leaves st) = AOk mm ->
  validate_mdat (hdr ++ concat cs) mm = VOk tt.
Proof.
  intros Hh Hrun Hmm.
  destruct (variable_cover large cs) as [st' [H1 [Hc [Hf Hn]]]].
  rewrite Hrun in H1. injection H1 as <-.
  unfold create_mm in Hmm. injection Hmm as <-.
  replace (len (final_leaves st)) with (len (map snd (final_leaves st)))
    by (unfold len; rewrite map_length; reflexivity).
  rewrite <- (map_map snd leaf_digest).
  apply validate_finish; [rewrite Forall_map; exact Hn|]. unfold validator_pieces. cbn [mm_fixed mm_var].
  rewrite (validator_region large hdr (concat cs) Hh). rewrite <- Hc.
  rewrite (nsum_fst _ Hf). rewrite N.eqb_refl. rewrite (split_by_concat _ Hf). reflexivity.
Qed.

(* F-MDAT-FBS1 (open): a Merkle region of one byte gives fixedBlockSize = min(1, fs) = 1, which the validator refuses *)
Lemma fbs1_refuted :
  exists st mm,
    run_chunks (Some 1024%N) false [map N.of_nat (seq 0 9)] fresh_state = AOk st
    /\ map snd (final_leaves st) = [[8]]%N
    /\ create_mm (Some 1024%N) (final_leaves st) = AOk mm /\ mm_fixed mm = Some 1%N
    /\ validate_mdat ([0; 0; 0; 17; 109; 100; 97; 116]%N ++ map N.of_nat (seq 0 9)) mm = VErr VHashMismatch.
Proof.
  eexists. eexists. split; [vm_compute; reflexivity|].
  split; [vm_compute; reflexivity|]. split; [vm_compute; reflexivity|]. split; vm_compute; reflexivity.
Qed.

(* the inputs that used to witness F-MDAT8 and F-MDAT-EMPTY (kept in the corpus) *)
Definition mdat8_payload : bytes := map N.of_nat (seq 0 20).
Definition mdat8_chunks : list bytes := [firstn 4 mdat8_payload; skipn 4 mdat8_payload].
Definition mdat8_header : bytes := [0; 0; 0; 28; 109; 100; 97; 116]%N.
Definition empty_payload : bytes := map N.of_nat (seq 0 12).
Definition empty_chunks : list bytes := [firstn 5 empty_payload; []; skipn 5 empty_payload].
Definition large_header : bytes := [0; 0; 0; 1; 109; 100; 97; 116; 0; 0; 0; 0; 0; 0; 0; 28]%N.
