(* Proofs/ContGifProofs.v — the GIF and RIFF instances of the generic container theory (block / chunk
   level).  RIFF: inject_c2pa with a store is the generic write, with strip_c2pa and an empty store it is
   the generic remove (fix eec3bf439; before it remove kept the C2PA chunk). *)
From Coq Require Import List NArith Bool Lia Arith.
From C2PA Require Import Base.Bytes Model.Container Model.ContPng Model.ContJpeg Model.ContGif Model.ContRiff
     Proofs.BytesProofs Proofs.ContainerProofs Proofs.ContPngProofs Proofs.ContJpegProofs.
Require Import ZifyBool ZifyNat ZifyN.
Import ListNotations.
Open Scope nat_scope.

Local Notation GF := gif_format.

Definition gif_adm (b : bytes) : Prop := b <> [].

Lemma gif_marks l : marks GF l = map is_c2pa_block l.
Proof. reflexivity. Qed.

Lemma is_c2pa_gmk b : is_c2pa_block (gmk b) = true.
Proof. reflexivity. Qed.

Lemma gmk_data b : gblock_data (gmk b) = b.
Proof. unfold gmk, gblock_data. cbn [gsubs]. apply chunks_concat; [unfold GIF_SUB_MAX; lia| lia]. Qed.

Lemma find_index_unmarked_le {A} (p : A -> bool) l j :
  find_index p l = Some j -> j <= length (filter (fun x => negb (p x)) l).
Proof.
  intro H. destruct l as [|d l']; [discriminate|].
  destruct (find_index_some p (d :: l') j d H) as (_ & _ & H3 & H4).
  rewrite H4, filter_app, app_length.
  rewrite filter_all by (eapply Forall_impl; [|exact H3]; cbn; intros a Ha; rewrite Ha; reflexivity).
  rewrite firstn_length. destruct (find_index_some p (d :: l') j d H) as (Hlt & _). lia.
Qed.

Lemma find_index_insert {A} (p : A -> bool) s i x :
  Forall (fun y => p y = false) s -> i <= length s -> p x = true ->
  find_index p (insert_at i [x] s) = Some i.
Proof.
  intros Hs Hi Hx. unfold insert_at. rewrite find_index_app_right by (apply forall_firstn; exact Hs).
  cbn. rewrite Hx. cbn. rewrite firstn_length. f_equal. lia.
Qed.

Definition gif_ins (l : list gblock) : nat := match find_index is_c2pa_block l with Some j => j | None => 0 end.

Theorem gif_laws : laws GF (fun _ => True) gif_adm.
Proof.
  constructor.
  - apply (sl_marks_len _ _ gif_marks).
  - apply (sl_strip_clean _ _ gif_marks).
  - intros s i b Hc _ _ Hi. apply (sl_ins_marks _ _ gif_marks); [exact Hc| repeat constructor| exact Hi].
  - intros s i b Hc _ Ha Hi. apply (sl_clean_iff _ _ gif_marks) in Hc.
    change (gif_payload (insert_at i [gmk b] s) = ROk b). unfold gif_payload, insert_at.
    rewrite find_app_skip by (apply forall_firstn; exact Hc). cbn [app find]. rewrite is_c2pa_gmk, gmk_data.
    destruct b; [contradiction|reflexivity].
  - intros s Hc _. apply (sl_clean_iff _ _ gif_marks) in Hc. change (gif_payload s = RErr EJumbfNotFound).
    unfold gif_payload. rewrite (find_none (A:=gblock) is_c2pa_block s Hc). reflexivity.
  - intros l. change (ins GF l) with (gif_ins l). unfold gif_ins. rewrite (sl_strip _ _ gif_marks).
    destruct (find_index is_c2pa_block l) eqn:E; [|lia]. apply find_index_unmarked_le. exact E.
  - intros l b _ _. change (gif_ins (gwrite GF l b) = gif_ins l). unfold gwrite.
    change (ins GF l) with (gif_ins l). change (mk GF b) with [gmk b].
    pose proof (sl_strip_clean _ _ gif_marks l) as Hc. apply (sl_clean_iff _ _ gif_marks) in Hc.
    assert (Hi : gif_ins l <= length (strip GF l)).
    { unfold gif_ins. rewrite (sl_strip _ _ gif_marks). change (seg GF) with gblock in *. destruct (find_index is_c2pa_block l) eqn:E; [|lia].
      apply find_index_unmarked_le. exact E. }
    unfold gif_ins at 1. change (seg GF) with gblock in *.
    rewrite (find_index_insert is_c2pa_block _ _ (gmk b) Hc Hi (is_c2pa_gmk b)). reflexivity.
  - intros b _. discriminate.
  - intros b1 b2 H. change (length (enc_gblock (gmk b1) ++ []) = length (enc_gblock (gmk b2) ++ [])).
    rewrite !app_nil_r. unfold enc_gblock, gmk. cbn [glabel gfixed gsubs]. rewrite !app_length. f_equal. f_equal.
    unfold enc_subs. rewrite !app_length. f_equal.
    assert (Hl : forall cl : list bytes, length (concat (map (fun s => len s :: s) cl)) = list_sum (map (fun n => S n) (map (@length N) cl))).
    { induction cl as [|c t IH]; [reflexivity|]. cbn [map concat list_sum]. rewrite app_length, IH. cbn [length]. reflexivity. }
    rewrite !Hl, H. rewrite (chunks_lengths (length b2) GIF_SUB_MAX b1 b2 H). reflexivity.
Qed.

(* write_cai (replace_block | insert_block) and remove_block are the generic operations for at most one C2PA block *)
Theorem gif_write_blocks_generic bs b : count is_c2pa_block bs <= 1 -> gif_write_blocks bs b = gwrite GF bs b.
Proof.
  intro Hc. unfold gif_write_blocks, gwrite. change (ins GF bs) with (gif_ins bs). unfold gif_ins.
  rewrite (sl_strip _ _ gif_marks). change (mk GF b) with [gmk b]. change (seg GF) with gblock in *.
  destruct (find_index is_c2pa_block bs) as [j|] eqn:Ej.
  - destruct (at_most_one_split _ _ _ (GBlock 0 [] None) Ej Hc) as (A & c & B & -> & Hj & Hcc & HA & HB). subst j.
    rewrite filter_app. cbn [filter]. rewrite Hcc. cbn [negb].
    rewrite !filter_all by (eapply Forall_impl; [|eassumption]; cbn; intros a Ha; rewrite Ha; reflexivity).
    unfold insert_at. rewrite !firstn_app_exact.
    replace (S (length A)) with (length A + 1) by lia. rewrite skipn_app_2, skipn_app_exact. reflexivity.
  - apply find_index_none in Ej.
    rewrite filter_all by (eapply Forall_impl; [|exact Ej]; cbn; intros a Ha; rewrite Ha; reflexivity).
    reflexivity.
Qed.

Theorem gif_remove_blocks_generic bs : count is_c2pa_block bs <= 1 ->
  (match find_index is_c2pa_block bs with Some j => remove_nth j bs | None => bs end) = gremove GF bs.
Proof.
  intro Hc. unfold gremove. rewrite (sl_strip _ _ gif_marks). change (seg GF) with gblock in *.
  destruct (find_index is_c2pa_block bs) as [j|] eqn:Ej.
  - destruct (at_most_one_split _ _ _ (GBlock 0 [] None) Ej Hc) as (A & c & B & -> & Hj & Hcc & HA & HB). subst j.
    unfold remove_nth. rewrite firstn_app_exact.
    replace (S (length A)) with (length A + 1) by lia. rewrite skipn_app_2. cbn [skipn].
    rewrite filter_app. cbn [filter]. rewrite Hcc. cbn [negb].
    rewrite !filter_all by (eapply Forall_impl; [|eassumption]; cbn; intros a Ha; rewrite Ha; reflexivity).
    reflexivity.
  - apply find_index_none in Ej.
    rewrite filter_all by (eapply Forall_impl; [|exact Ej]; cbn; intros a Ha; rewrite Ha; reflexivity).
    reflexivity.
Qed.

(* ------------------------------------------------------------------ RIFF *)

Local Notation RF := riff_format.

Definition riff_adm (b : bytes) : Prop := b <> [].

Lemma riff_marks l : marks RF l = map is_c2pa_chunk l.
Proof. reflexivity. Qed.

Lemma le_length k n : length (le k n) = k.
Proof. unfold le. rewrite rev_length. apply be_length. Qed.

Theorem riff_laws : laws RF (fun _ => True) riff_adm.
Proof.
  constructor.
  - apply (sl_marks_len _ _ riff_marks).
  - apply (sl_strip_clean _ _ riff_marks).
  - intros s i b Hc _ _ Hi. apply (sl_ins_marks _ _ riff_marks); [exact Hc| repeat constructor| exact Hi].
  - intros s i b Hc _ Ha Hi. apply (sl_clean_iff _ _ riff_marks) in Hc.
    change (riff_payload (insert_at i [RData C2PA_CHUNK_ID b] s) = ROk b). unfold riff_payload, insert_at.
    rewrite find_app_skip by (apply forall_firstn; exact Hc). cbn [app find].
    change (is_c2pa_chunk (RData C2PA_CHUNK_ID b)) with true. cbn iota.
    destruct b; [contradiction|reflexivity].
  - intros s Hc _. apply (sl_clean_iff _ _ riff_marks) in Hc. change (riff_payload s = RErr EJumbfNotFound).
    unfold riff_payload. rewrite (find_none (A:=rchunk) is_c2pa_chunk s Hc). reflexivity.
  - intros l. apply le_n.
  - intros l b _ _. change (length (strip RF (gwrite RF l b)) = length (strip RF l)). unfold gwrite.
    rewrite (sl_strip_insert _ _ riff_marks); [reflexivity| apply (sl_strip_clean _ _ riff_marks)| repeat constructor].
  - intros b _. discriminate.
  - intros b1 b2 H. change (length (renc (RData C2PA_CHUNK_ID b1) ++ []) = length (renc (RData C2PA_CHUNK_ID b2) ++ [])).
    rewrite !app_nil_r. cbn [renc]. rewrite !app_length, !le_length. unfold len. rewrite H. reflexivity.
Qed.

(* inject_c2pa at the top level with a non-empty store is the generic write (retain drops every C2PA chunk) *)
Theorem riff_write_children_generic cs b : b <> [] -> riff_write_children false cs b = gwrite RF cs b.
Proof.
  intro Hb. unfold riff_write_children. destruct b as [|x b']; [contradiction|]. cbn [negb orb].
  unfold gwrite. change (ins RF cs) with (length (strip RF cs)). change (mk RF (x :: b')) with [RData C2PA_CHUNK_ID (x :: b')].
  unfold insert_at. rewrite firstn_all, skipn_all. rewrite app_nil_r. rewrite (sl_strip _ _ riff_marks). reflexivity.
Qed.

(* remove = write_cai_impl with an empty store and strip_c2pa: the generic remove *)
Theorem riff_remove_children_generic cs : riff_write_children true cs [] = gremove RF cs.
Proof. unfold riff_write_children, gremove. cbn [negb orb]. rewrite (sl_strip _ _ riff_marks). reflexivity. Qed.

(* ------------------------------------------------------------------ GIF object locations of a written asset *)
Theorem gif_loc_written bs b plen total :
  let w := gwrite GF bs b in
  let off := (plen + N.of_nat (goff GF bs))%N in
  let ln := N.of_nat (glen GF b) in
  gif_loc_blocks plen w total
  = [(0%N, (off - 1)%N, KOther); (off, ln, KCai); ((off + ln)%N, (total - (off + ln))%N, KOther)].
Proof.
  cbn zeta. unfold gif_loc_blocks, gwrite. change (mk GF b) with [gmk b].
  pose proof (sl_strip_clean _ _ gif_marks bs) as Hc. apply (sl_clean_iff _ _ gif_marks) in Hc.
  pose proof (ins_bound _ _ _ gif_laws bs) as Hi.
  change (seg GF) with gblock in *.
  rewrite (find_index_insert is_c2pa_block _ _ (gmk b) Hc Hi (is_c2pa_gmk b)).
  assert (Hnth : nth (ins GF bs) (insert_at (ins GF bs) [gmk b] (strip GF bs)) (GBlock 0 [] None) = gmk b).
  { unfold insert_at. rewrite app_nth2; rewrite (firstn_length_le _ Hi); [|lia]. rewrite Nat.sub_diag. reflexivity. }
  assert (Hfn : firstn (ins GF bs) (insert_at (ins GF bs) [gmk b] (strip GF bs)) = firstn (ins GF bs) (strip GF bs)).
  { unfold insert_at. rewrite firstn_app_le by (rewrite (firstn_length_le _ Hi); lia). rewrite firstn_firstn, Nat.min_id. reflexivity. }
  change (seg GF) with gblock in *. rewrite Hnth, Hfn.
  unfold goff, glen, encs. change (mk GF b) with [gmk b]. cbn [map concat enc gif_format]. rewrite app_nil_r.
  reflexivity.
Qed.
