(* Proofs/StreamsProofs.v — C35: schedule independence of the exact/complete I/O helpers, propagation of
   injected failures, and the schedule dependence of a bare read. *)
From Coq Require Import List NArith Arith Bool Lia.
From C2PA Require Import Model.Streams.
Import ListNotations.

(* ------------------------------------------------------------------ lists *)
Lemma firstn_add : forall (A : Type) m j (l : list A), firstn (m + j) l = firstn m l ++ firstn j (skipn m l).
Proof.
  induction m as [|m IH]; intros j l; cbn [Nat.add].
  - reflexivity.
  - destruct l as [|x l]; cbn [firstn skipn app].
    + destruct j; reflexivity.
    + rewrite IH. reflexivity.
Qed.

Lemma skipn_add : forall (A : Type) m j (l : list A), skipn j (skipn m l) = skipn (m + j) l.
Proof.
  induction m as [|m IH]; intros j l; cbn [Nat.add].
  - reflexivity.
  - destruct l as [|x l]; cbn [skipn].
    + destruct j; reflexivity.
    + apply IH.
Qed.

Lemma skipn_length' : forall (A : Type) m (l : list A), length (skipn m l) = length l - m.
Proof. intros. apply skipn_length. Qed.

Lemma firstn_nil_iff : forall (A : Type) m (l : list A), m <= length l -> firstn m l = [] -> m = 0.
Proof. intros A m l H E. apply (f_equal (@length A)) in E. rewrite firstn_length_le in E by exact H. exact E. Qed.

(* ------------------------------------------------------------------ schedules *)
Lemma nofail_cons : forall e r, nofail (e :: r) = true -> is_fail e = false /\ nofail r = true.
Proof.
  intros e r H. unfold nofail in *. cbn in H. apply andb_true_iff in H. destruct H as [H1 H2].
  split; [destruct (is_fail e); [discriminate|reflexivity] | exact H2].
Qed.

Lemma nofail_tl : forall s, nofail s = true -> nofail (tl s) = true.
Proof. intros [|e r] H; [reflexivity | apply nofail_cons in H; apply H]. Qed.

Lemma nofail_app : forall a b, nofail (a ++ b) = true <-> nofail a = true /\ nofail b = true.
Proof. intros. unfold nofail. rewrite forallb_app. apply andb_true_iff. Qed.

(* what was consumed between two states contained no failing event *)
Definition consumed (s s' : st) : Prop := exists used, sched s = used ++ sched s' /\ nofail used = true.

Lemma consumed_refl : forall s, consumed s s.
Proof. intro s. exists []. split; reflexivity. Qed.

Lemma consumed_trans : forall a b c, consumed a b -> consumed b c -> consumed a c.
Proof.
  intros a b c [u1 [E1 N1]] [u2 [E2 N2]]. exists (u1 ++ u2). split.
  - rewrite E1, E2. rewrite app_assoc. reflexivity.
  - apply nofail_app. split; assumption.
Qed.

Lemma consumed_nofail : forall s s', consumed s s' -> nofail (sched s) = true -> nofail (sched s') = true.
Proof. intros s s' [u [E N]] H. rewrite E in H. apply nofail_app in H. apply H. Qed.

(* ------------------------------------------------------------------ the primitives *)
Lemma piece_bounds : forall e want avail,
    piece e want avail <= want /\ piece e want avail <= avail
    /\ (0 < want -> 0 < avail -> 0 < piece e want avail).
Proof. intros [[n|]|] want avail; cbn; lia. Qed.

Lemma prim_read_ok : forall k s bs s',
    prim_read k s = Ok (bs, s') ->
    consumed s s' /\ sched s' = tl (sched s) /\
    exists m, m <= k /\ m <= length (rest s) /\ (0 < k -> 0 < length (rest s) -> 0 < m)
              /\ bs = firstn m (rest s) /\ data s' = data s /\ rest s' = skipn m (rest s) /\ out s' = out s.
Proof.
  intros k s bs s' H. unfold prim_read in H. destruct (sched s) as [|[n|] r] eqn:E; try discriminate;
    inversion H; subst; clear H; cbn [sched data rest out tl].
  - split; [exists []; rewrite E; split; reflexivity|]. split; [reflexivity|].
    exists (piece None k (length (rest s))). pose proof (piece_bounds None k (length (rest s))). intuition.
  - split; [exists [Short n]; rewrite E; split; reflexivity|]. split; [reflexivity|].
    exists (piece (Some (Short n)) k (length (rest s))).
    pose proof (piece_bounds (Some (Short n)) k (length (rest s))). intuition.
Qed.

Lemma prim_read_nofail : forall k s, nofail (sched s) = true -> exists bs s', prim_read k s = Ok (bs, s').
Proof.
  intros k s H. unfold prim_read. destruct (sched s) as [|[n|] r]; eauto.
  apply nofail_cons in H. destruct H as [H _]. discriminate.
Qed.

Lemma prim_write_ok : forall bs s m s',
    prim_write bs s = Ok (m, s') ->
    consumed s s' /\ sched s' = tl (sched s) /\ m <= length bs /\ (0 < length bs -> 0 < m)
    /\ data s' = data s /\ rest s' = rest s /\ out s' = out s ++ firstn m bs.
Proof.
  intros bs s m s' H. unfold prim_write in H. destruct (sched s) as [|[n|] r] eqn:E; try discriminate;
    inversion H; subst; clear H; cbn [sched data rest out tl].
  - split; [exists []; rewrite E; split; reflexivity|]. rewrite firstn_all. intuition.
  - split; [exists [Short n]; rewrite E; split; reflexivity|].
    pose proof (piece_bounds (Some (Short n)) (length bs) (length bs)). intuition.
Qed.

Lemma prim_write_nofail : forall bs s, nofail (sched s) = true -> exists m s', prim_write bs s = Ok (m, s').
Proof.
  intros bs s H. unfold prim_write. destruct (sched s) as [|[n|] r]; eauto.
  apply nofail_cons in H. destruct H as [H _]. discriminate.
Qed.

Lemma prim_seek_ok : forall p s s',
    prim_seek p s = Ok s' ->
    consumed s s' /\ sched s' = tl (sched s) /\ data s' = data s /\ rest s' = skipn p (data s) /\ out s' = out s.
Proof.
  intros p s s' H. unfold prim_seek in H. destruct (sched s) as [|[n|] r] eqn:E; try discriminate;
    inversion H; subst; clear H; cbn [sched data rest out tl].
  - split; [exists []; rewrite E; split; reflexivity|]. intuition.
  - split; [exists [Short n]; rewrite E; split; reflexivity|]. intuition.
Qed.

Lemma prim_seek_nofail : forall p s, nofail (sched s) = true -> exists s', prim_seek p s = Ok s'.
Proof.
  intros p s H. unfold prim_seek. destruct (sched s) as [|[n|] r]; eauto.
  apply nofail_cons in H. destruct H as [H _]. discriminate.
Qed.

(* ------------------------------------------------------------------ read_exact *)
Lemma read_exact_fuel_spec : forall fuel k s acc,
    nofail (sched s) = true -> k <= fuel ->
    exists sc', read_exact_fuel fuel k s acc =
                if k <=? length (rest s)
                then Ok (acc ++ firstn k (rest s), mkSt (data s) (skipn k (rest s)) sc' (out s))
                else Err EEof.
Proof.
  induction fuel as [|f IH]; intros k s acc Hn Hk.
  - assert (k = 0) by lia. subst. cbn. exists (sched s). rewrite app_nil_r. destruct s; reflexivity.
  - destruct k as [|k'].
    + cbn. exists (sched s). rewrite app_nil_r. destruct s; reflexivity.
    + cbn [read_exact_fuel].
      destruct (prim_read_nofail (S k') s Hn) as [bs [s' E]]. rewrite E.
      destruct (prim_read_ok _ _ _ _ E) as [Hc [Hs [m [M1 [M2 [M3 [Hbs [Hd [Hr Ho]]]]]]]]].
      destruct bs as [|b bs'].
      * symmetry in Hbs. apply firstn_nil_iff in Hbs; [|exact M2]. subst m.
        assert (length (rest s) = 0) by lia.
        exists []. destruct (S k' <=? length (rest s)) eqn:L; [apply Nat.leb_le in L; lia | reflexivity].
      * assert (Hm : length (b :: bs') = m) by (rewrite Hbs; apply firstn_length_le; exact M2).
        assert (0 < m) by (rewrite <- Hm; cbn; lia).
        assert (Hn' : nofail (sched s') = true) by (rewrite Hs; apply nofail_tl; exact Hn).
        destruct (IH (S k' - length (b :: bs')) s' (acc ++ b :: bs') Hn') as [sc' E2]; [rewrite Hm; lia|].
        exists sc'. rewrite E2. rewrite Hm, Hr, Hd, Ho, Hbs. rewrite skipn_length'.
        destruct (S k' <=? length (rest s)) eqn:L.
        -- apply Nat.leb_le in L.
           replace (S k' - m <=? length (rest s) - m) with true by (symmetry; apply Nat.leb_le; lia).
           rewrite skipn_add. rewrite <- app_assoc. rewrite <- firstn_add.
           replace (m + (S k' - m)) with (S k') by lia. reflexivity.
        -- apply Nat.leb_gt in L.
           replace (S k' - m <=? length (rest s) - m) with false by (symmetry; apply Nat.leb_gt; lia).
           reflexivity.
Qed.

Lemma read_exact_fuel_consumed : forall fuel k s acc bs s',
    read_exact_fuel fuel k s acc = Ok (bs, s') -> consumed s s'.
Proof.
  induction fuel as [|f IH]; intros k s acc bs s' H; destruct k as [|k']; cbn [read_exact_fuel] in H;
    try discriminate; try (inversion H; subst; apply consumed_refl).
  destruct (prim_read (S k') s) as [[b1 s1]|] eqn:E; [|discriminate].
  destruct b1 as [|x b1]; [discriminate|].
  apply prim_read_ok in E. destruct E as [Hc _]. eapply consumed_trans; [exact Hc|]. eapply IH. exact H.
Qed.

(* ------------------------------------------------------------------ read_to_end *)
Lemma read_to_end_fuel_spec : forall fuel s acc,
    nofail (sched s) = true -> length (rest s) < fuel ->
    exists sc', read_to_end_fuel fuel s acc = Ok (acc ++ rest s, mkSt (data s) [] sc' (out s)).
Proof.
  induction fuel as [|f IH]; intros s acc Hn Hl; [lia|].
  cbn [read_to_end_fuel].
  destruct (prim_read_nofail CHUNK s Hn) as [bs [s' E]]. rewrite E.
  destruct (prim_read_ok _ _ _ _ E) as [Hc [Hs [m [M1 [M2 [M3 [Hbs [Hd [Hr Ho]]]]]]]]].
  destruct bs as [|b bs'].
  - symmetry in Hbs. apply firstn_nil_iff in Hbs; [|exact M2]. subst m.
    assert (L0 : length (rest s) = 0) by (unfold CHUNK in M3; lia).
    assert (R0 : rest s = []) by (destruct (rest s); [reflexivity | discriminate]).
    exists (sched s'). rewrite R0, app_nil_r. destruct s' as [d' r' sc' o']. cbn in *. subst. rewrite R0. reflexivity.
  - assert (Hm : length (b :: bs') = m) by (rewrite Hbs; apply firstn_length_le; exact M2).
    assert (0 < m) by (rewrite <- Hm; cbn; lia).
    assert (Hn' : nofail (sched s') = true) by (rewrite Hs; apply nofail_tl; exact Hn).
    destruct (IH s' (acc ++ b :: bs') Hn') as [sc' E2]; [rewrite Hr, skipn_length'; lia|].
    exists sc'. rewrite E2, Hr, Hd, Ho, Hbs. rewrite <- app_assoc. rewrite firstn_skipn. reflexivity.
Qed.

Lemma read_to_end_fuel_consumed : forall fuel s acc bs s',
    read_to_end_fuel fuel s acc = Ok (bs, s') -> consumed s s'.
Proof.
  induction fuel as [|f IH]; intros s acc bs s' H; cbn [read_to_end_fuel] in H; [discriminate|].
  destruct (prim_read CHUNK s) as [[b1 s1]|] eqn:E; [|discriminate].
  apply prim_read_ok in E. destruct E as [Hc _].
  destruct b1 as [|x b1].
  - inversion H; subst. exact Hc.
  - eapply consumed_trans; [exact Hc|]. eapply IH. exact H.
Qed.

(* ------------------------------------------------------------------ write_all *)
Lemma write_all_fuel_spec : forall fuel bs s,
    nofail (sched s) = true -> length bs <= fuel ->
    exists sc', write_all_fuel fuel bs s = Ok (mkSt (data s) (rest s) sc' (out s ++ bs)).
Proof.
  induction fuel as [|f IH]; intros bs s Hn Hl.
  - destruct bs; [|cbn in Hl; lia]. cbn. exists (sched s). rewrite app_nil_r. destruct s; reflexivity.
  - destruct bs as [|b bs'].
    + cbn. exists (sched s). rewrite app_nil_r. destruct s; reflexivity.
    + cbn [write_all_fuel].
      destruct (prim_write_nofail (b :: bs') s Hn) as [m [s' E]]. rewrite E.
      destruct (prim_write_ok _ _ _ _ E) as [Hc [Hs [M1 [M2 [Hd [Hr Ho]]]]]].
      destruct m as [|m']; [cbn in M2; lia|].
      assert (Hn' : nofail (sched s') = true) by (rewrite Hs; apply nofail_tl; exact Hn).
      destruct (IH (skipn (S m') (b :: bs')) s' Hn') as [sc' E2]; [rewrite skipn_length'; cbn in *; lia|].
      exists sc'. rewrite E2, Hd, Hr, Ho. rewrite <- app_assoc. rewrite firstn_skipn. reflexivity.
Qed.

Lemma write_all_fuel_consumed : forall fuel bs s s', write_all_fuel fuel bs s = Ok s' -> consumed s s'.
Proof.
  induction fuel as [|f IH]; intros bs s s' H; destruct bs as [|b bs']; cbn [write_all_fuel] in H;
    try discriminate; try (inversion H; subst; apply consumed_refl).
  destruct (prim_write (b :: bs') s) as [[m s1]|] eqn:E; [|discriminate].
  destruct m as [|m']; [discriminate|].
  apply prim_write_ok in E. destruct E as [Hc _]. eapply consumed_trans; [exact Hc|]. eapply IH. exact H.
Qed.

(* ------------------------------------------------------------------ stream_len *)
Lemma stream_len_spec : forall s,
    nofail (sched s) = true -> length (rest s) <= length (data s) ->
    exists sc', stream_len s = Ok (length (data s), mkSt (data s) (skipn (length (data s) - length (rest s)) (data s)) sc' (out s)).
Proof.
  intros s Hn Hl. unfold stream_len.
  destruct (prim_seek_nofail (length (data s)) s Hn) as [s1 E1]. rewrite E1.
  destruct (prim_seek_ok _ _ _ E1) as [_ [Hs1 [Hd1 [Hr1 Ho1]]]].
  assert (Hn1 : nofail (sched s1) = true) by (rewrite Hs1; apply nofail_tl; exact Hn).
  destruct (prim_seek_nofail (length (data s) - length (rest s)) s1 Hn1) as [s2 E2]. rewrite E2.
  destruct (prim_seek_ok _ _ _ E2) as [_ [Hs2 [Hd2 [Hr2 Ho2]]]].
  exists (sched s2). destruct s2 as [d2 r2 sc2 o2]. cbn in *. subst. rewrite Hd1, Ho1. reflexivity.
Qed.

Lemma stream_len_consumed : forall s n s', stream_len s = Ok (n, s') -> consumed s s'.
Proof.
  intros s n s' H. unfold stream_len in H.
  destruct (prim_seek (length (data s)) s) as [s1|] eqn:E1; [|discriminate].
  destruct (prim_seek (length (data s) - length (rest s)) s1) as [s2|] eqn:E2; [|discriminate].
  inversion H; subst. apply prim_seek_ok in E1. apply prim_seek_ok in E2.
  eapply consumed_trans; [apply E1 | apply E2].
Qed.

(* ------------------------------------------------------------------ programs *)
(* invariant of a state: the position is inside the data *)
Definition wf (s : st) : Prop := exists p, p <= length (data s) /\ rest s = skipn p (data s).

Lemma wf_skip : forall (d : list N) p k, exists q, q <= length d /\ skipn k (skipn p d) = skipn q d.
Proof.
  intros d p k. rewrite skipn_add. destruct (Nat.le_gt_cases (p + k) (length d)).
  - exists (p + k). split; [assumption | reflexivity].
  - exists (length d). split; [lia|]. rewrite (skipn_all2 d) by lia. rewrite (skipn_all2 d) by lia. reflexivity.
Qed.

(* T1: on every non-failing schedule a program of exact primitives behaves as on the ideal stream *)
Lemma run_matches_ideal : forall (A : Type) (p : prog A) s,
    nofail (sched s) = true -> wf s ->
    observe (run p s) = run_ideal p (data s) (rest s) (out s).
Proof.
  induction p as [a|e|k c IH|c IH|q c IH|c IH|bs c IH]; intros s Hn Hw; cbn [run run_ideal].
  - reflexivity.
  - reflexivity.
  - unfold read_exact. destruct (read_exact_fuel_spec k k s [] Hn (le_n k)) as [sc' E].
    destruct (k <=? length (rest s)) eqn:L; rewrite E; [|reflexivity].
    pose proof (read_exact_fuel_consumed _ _ _ _ _ _ E) as Hc.
    cbn [app]. rewrite IH; cbn [sched data rest out].
    + reflexivity.
    + apply (consumed_nofail _ _ Hc Hn).
    + destruct Hw as [p0 [Hp Hr]]. unfold wf. cbn [data rest]. rewrite Hr.
      destruct (wf_skip (data s) p0 k) as [q [Hq Eq]]. exists q. split; assumption.
  - unfold read_to_end. destruct (read_to_end_fuel_spec (S (length (rest s))) s [] Hn (Nat.lt_succ_diag_r _)) as [sc' E].
    rewrite E. pose proof (read_to_end_fuel_consumed _ _ _ _ _ E) as Hc.
    cbn [app]. rewrite IH; cbn [sched data rest out].
    + reflexivity.
    + apply (consumed_nofail _ _ Hc Hn).
    + exists (length (data s)). cbn [data rest]. split; [lia|]. rewrite (skipn_all2 (data s)) by lia. reflexivity.
  - destruct (prim_seek_nofail q s Hn) as [s' E]. rewrite E.
    destruct (prim_seek_ok _ _ _ E) as [Hc [Hs [Hd [Hr Ho]]]].
    rewrite IH.
    + rewrite Hd, Hr, Ho. reflexivity.
    + apply (consumed_nofail _ _ Hc Hn).
    + unfold wf. rewrite Hd, Hr. destruct (wf_skip (data s) 0 q) as [q' [Hq Eq]]. exists q'. split; [assumption|].
      cbn [skipn] in Eq. exact Eq.
  - assert (Hl : length (rest s) <= length (data s)).
    { destruct Hw as [p0 [Hp Hr]]. rewrite Hr, skipn_length'. lia. }
    destruct (stream_len_spec s Hn Hl) as [sc' E]. rewrite E.
    pose proof (stream_len_consumed _ _ _ E) as Hc.
    rewrite IH; cbn [sched data rest out].
    + reflexivity.
    + apply (consumed_nofail _ _ Hc Hn).
    + exists (length (data s) - length (rest s)). cbn [data rest]. split; [lia | reflexivity].
  - unfold write_all. destruct (write_all_fuel_spec (length bs) bs s Hn (le_n _)) as [sc' E]. rewrite E.
    pose proof (write_all_fuel_consumed _ _ _ _ E) as Hc.
    rewrite IH; cbn [sched data rest out].
    + reflexivity.
    + apply (consumed_nofail _ _ Hc Hn).
    + exact Hw.
Qed.

Theorem exact_sched_independent : forall (A : Type) (p : prog A) d pos o s1 s2,
    pos <= length d -> nofail s1 = true -> nofail s2 = true ->
    observe (run p (mkSt d (skipn pos d) s1 o)) = observe (run p (mkSt d (skipn pos d) s2 o)).
Proof.
  intros A p d pos o s1 s2 Hp H1 H2.
  assert (W1 : wf (mkSt d (skipn pos d) s1 o)) by (exists pos; split; [exact Hp | reflexivity]).
  assert (W2 : wf (mkSt d (skipn pos d) s2 o)) by (exists pos; split; [exact Hp | reflexivity]).
  rewrite (run_matches_ideal A p (mkSt d (skipn pos d) s1 o) H1 W1).
  rewrite (run_matches_ideal A p (mkSt d (skipn pos d) s2 o) H2 W2).
  reflexivity.
Qed.

(* T2: a value is returned only if every event consumed was a non-failing one *)
Theorem run_consumed : forall (A : Type) (p : prog A) s a s', run p s = Ok (a, s') -> consumed s s'.
Proof.
  induction p as [a0|e|k c IH|c IH|q c IH|c IH|bs c IH]; intros s a s' H; cbn [run] in H.
  - inversion H; subst. apply consumed_refl.
  - discriminate.
  - destruct (read_exact k s) as [[b1 s1]|] eqn:E; [|discriminate].
    eapply consumed_trans; [eapply read_exact_fuel_consumed; exact E | eapply IH; exact H].
  - destruct (read_to_end s) as [[b1 s1]|] eqn:E; [|discriminate].
    eapply consumed_trans; [eapply read_to_end_fuel_consumed; exact E | eapply IH; exact H].
  - destruct (prim_seek q s) as [s1|] eqn:E; [|discriminate].
    eapply consumed_trans; [apply (prim_seek_ok _ _ _ E) | eapply IH; exact H].
  - destruct (stream_len s) as [[n s1]|] eqn:E; [|discriminate].
    eapply consumed_trans; [eapply stream_len_consumed; exact E | eapply IH; exact H].
  - destruct (write_all bs s) as [s1|] eqn:E; [|discriminate].
    eapply consumed_trans; [eapply write_all_fuel_consumed; exact E | eapply IH; exact H].
Qed.

(* the same, read the other way: a run that returns a value has not reached the failing call *)
Lemma prefix_of_nofail : forall used x before after,
    nofail used = true -> used ++ x = before ++ FailEv :: after ->
    exists mid, before = used ++ mid /\ x = mid ++ FailEv :: after.
Proof.
  induction used as [|u us IH]; intros x before after Hn E.
  - exists before. split; [reflexivity | exact E].
  - destruct before as [|b bs]; cbn in E; inversion E; subst.
    + apply nofail_cons in Hn. destruct Hn as [Hn _]. discriminate.
    + apply nofail_cons in Hn. destruct Hn as [_ Hn]. destruct (IH _ _ _ Hn H1) as [mid [E1 E2]].
      exists mid. split; [rewrite E1; reflexivity | exact E2].
Qed.

Theorem error_propagates : forall (A : Type) (p : prog A) d r o before after a s',
    run p (mkSt d r (before ++ FailEv :: after) o) = Ok (a, s') ->
    exists mid, sched s' = mid ++ FailEv :: after.
Proof.
  intros A p d r o before after a s' H. apply run_consumed in H. destruct H as [used [E Hn]]. cbn [sched] in E.
  symmetry in E. destruct (prefix_of_nofail _ _ _ _ Hn E) as [mid [_ E2]]. exists mid. exact E2.
Qed.

(* ------------------------------------------------------------------ a bare read depends on the schedule *)
Lemma single_read_dependent :
  let d := [255; 216; 255; 224; 0; 16; 74; 70; 73; 70; 0; 1; 1; 0; 0; 1]%N in
  nofail [] = true /\ nofail [Short 0; Short 0; Short 0] = true
  /\ observe (match prim_read 16 (mkSt d d [] []) with Ok (bs, s) => Ok (bs, s) | Err e => Err e end)
     <> observe (match prim_read 16 (mkSt d d [Short 0] []) with Ok (bs, s) => Ok (bs, s) | Err e => Err e end)
  /\ fst (container_from_stream nat classify_jpeg (mkSt d d [] [])) = Some 1
  /\ fst (container_from_stream nat classify_jpeg (mkSt d d [Short 0; Short 0; Short 0] [])) = None.
Proof. cbn. repeat split; try reflexivity. intro H. discriminate. Qed.

(* with the hint naming the true container the dependence is harmless: whatever one read returned, if the tests
   on a prefix never name a *different* container, the format used is the hint *)
Lemma hint_absorbs_sniff : forall (C : Type) (classify : list N -> option C) (h : C) (eqb : C -> C -> bool) s,
    (forall c, eqb h c = true <-> h = c) ->
    (forall bs, classify bs = None \/ classify bs = Some h) ->
    fst (format_from_stream C classify (Some h) eqb s) = inl tt.
Proof.
  intros C classify h eqb s Heq Hcl. unfold format_from_stream.
  destruct (container_from_stream C classify s) as [dd s'] eqn:E.
  assert (dd = None \/ dd = Some h).
  { unfold container_from_stream in E.
    destruct (prim_seek 0 s) as [s1|]; [|inversion E; auto].
    destruct (prim_read 16 s1) as [[bs s2]|]; [|inversion E; auto].
    destruct (prim_seek 0 s2) as [s3|]; inversion E; auto. }
  destruct H as [H|H]; subst dd; cbn; [reflexivity|].
  destruct (eqb h h) eqn:E1; [reflexivity|]. assert (eqb h h = true) by (apply Heq; reflexivity). congruence.
Qed.

(* but it hides I/O errors: a failing rewind or read is turned into "not detected" and the operation goes on *)
Lemma sniff_hides_errors :
  let d := [255; 216; 255; 224]%N in
  forall after,
    fst (format_from_stream nat classify_jpeg (Some 1) Nat.eqb (mkSt d d (FailEv :: after) [])) = inl tt
    /\ fst (format_from_stream nat classify_jpeg (Some 1) Nat.eqb (mkSt d d (Short 9 :: FailEv :: after) [])) = inl tt.
Proof. intros d after. split; reflexivity. Qed.

(* non-vacuity: a small parser (length-prefixed record, then the rest) run under three schedules *)
Definition ex_prog : prog (list N * list N * nat) :=
  PLen (fun n => PReadExact 1 (fun h => match h with
     | [k] => PReadExact (N.to_nat k) (fun body => PReadToEnd (fun tail => PWriteAll body (PRet (body, tail, n))))
     | _ => PFail EParse end)).

Lemma example_runs :
  let d := [3; 10; 11; 12; 20; 21]%N in
  observe (run ex_prog (mkSt d d [] [])) = Ok (([10; 11; 12]%N, [20; 21]%N, 6), ([], [10; 11; 12]%N))
  /\ observe (run ex_prog (mkSt d d [Short 5; Short 0; Short 0; Short 0; Short 1; Short 0; Short 0; Short 0; Short 0; Short 0] []))
     = Ok (([10; 11; 12]%N, [20; 21]%N, 6), ([], [10; 11; 12]%N))
  /\ run ex_prog (mkSt d d [Short 5; Short 0; Short 0; Short 0; FailEv] []) = Err EIo
  /\ run ex_prog (mkSt [9; 1]%N [9; 1]%N [] []) = Err EEof.
Proof. cbn. repeat split; reflexivity. Qed.

(* ------------------------------------------------------------------ the inventory *)
From Coq Require Import String.
From C2PA Require Import Generated.C35_facts.

Lemma inventory_is_modelled : sites_eqb io_sites modelled_io_sites = true.
Proof. vm_compute. reflexivity. Qed.

Lemma inventory_classified : forallb classified io_sites = true.
Proof. vm_compute. reflexivity. Qed.

Lemma inventory_run_exercised : run_exercised io_sites = [("jumbf_io.rs", "container_from_stream")]%string.
Proof. vm_compute. reflexivity. Qed.

Lemma boxreader_entries_modelled :
  boxreader_entries = [("jumbf/boxes.rs", "from"); ("store.rs", "from_jumbf_impl")]%string.
Proof. vm_compute. reflexivity. Qed.
