(* Proofs/C10Summary.v — the C10 statements in the form used by Properties/C10.v (corollaries). *)
From Coq Require Import List NArith Bool Lia Arith ZifyBool ZifyNat ZifyN.
From C2PA Require Import Base.Bytes Generated.C10_facts Model.C10Mach Model.C10Jumbf Model.C10Png Model.C10Bmff
     Proofs.C10MachProofs Proofs.C10JumbfProofs Proofs.C10JumbfLoop Proofs.C10PngProofs Proofs.C10BmffProofs.
Import ListNotations.
Open Scope N_scope.

Definition is_result {E A} (r : out E A) : Prop :=
  match r with Ok _ => True | Err _ => True | Panic _ _ _ => False | OutOfFuel => False end.

(* the known class of the JUMBF reader: a 5..7-byte tail with a size field in 8 .. 16 - (tail length) *)
Definition known_short_tail (buf : bytes) : Prop := short_tailb buf = true.

Lemma not_known_advancing strict buf : ~ known_short_tail buf -> advancing strict buf.
Proof. unfold known_short_tail, advancing. intro H. right. destruct (short_tailb buf); [exfalso; auto|reflexivity]. Qed.

Lemma jumbf_total_refuted :
  exists buf, known_short_tail buf /\ forall cadd dbg fuel, jread_super_box false cadd dbg fuel buf = OutOfFuel.
Proof. exists hang_witness. split; [exact hang_witness_known|]. intros. apply hang_forever. Qed.

Lemma jumbf_no_panic_refuted :
  exists buf, ~ known_short_tail buf /\
              jread_super_box false false true (jfuel buf) buf = Panic SITE_DEST_POS 43 U64MAX.
Proof.
  exists overflow_witness. split; [|exact overflow_panics].
  unfold known_short_tail. vm_compute. discriminate.
Qed.

(* totality outside the known class, for the reader as coded; a panic can only be the dest_pos overflow of a debug build *)
Lemma jumbf_total strict cadd dbg buf :
  len buf <= U64MAX -> ~ known_short_tail buf ->
  match jread_super_box strict cadd dbg (jfuel buf) buf with
  | Ok _ => True
  | Err _ => True
  | Panic s x y => cadd = false /\ dbg = true /\ s = SITE_DEST_POS /\ x <= len buf /\ U64MAX < x + y
  | OutOfFuel => False
  end.
Proof.
  intros HL HK. pose proof (jumbf_safe strict cadd dbg buf HL (not_known_advancing strict buf HK)) as H.
  destruct (jread_super_box strict cadd dbg (jfuel buf) buf) as [[[[p b] a] d]| | |]; auto.
Qed.

Lemma jumbf_release_total strict cadd buf :
  len buf <= U64MAX -> ~ known_short_tail buf ->
  is_result (jread_super_box strict cadd false (jfuel buf) buf).
Proof.
  intros HL HK. pose proof (jumbf_total strict cadd false buf HL HK) as H. unfold is_result.
  destruct (jread_super_box strict cadd false (jfuel buf) buf); auto.
  destruct H as (_ & H & _). discriminate.
Qed.

(* with both proposed repairs (strict header read, checked dest_pos) the reader is total on every byte string *)
Lemma jumbf_repaired_total dbg buf :
  len buf <= U64MAX -> is_result (jread_super_box true true dbg (jfuel buf) buf).
Proof.
  intros HL. pose proof (jumbf_safe true true dbg buf HL (or_introl eq_refl)) as H. unfold is_result.
  destruct (jread_super_box true true dbg (jfuel buf) buf) as [[[[p b] a] d]| | |]; auto.
  destruct H as (H & _). discriminate.
Qed.

Lemma jumbf_alloc strict cadd dbg buf p b a d :
  len buf <= U64MAX -> ~ known_short_tail buf ->
  jread_super_box strict cadd dbg (jfuel buf) buf = Ok (p, b, a, d) ->
  8 * b + a <= len buf /\ p <= len buf.
Proof.
  intros HL HK E. pose proof (jumbf_safe strict cadd dbg buf HL (not_known_advancing strict buf HK)) as H.
  rewrite E in H. lia.
Qed.

Lemma jumbf_depth strict cadd dbg buf p b a d :
  len buf <= U64MAX -> ~ known_short_tail buf ->
  jread_super_box strict cadd dbg (jfuel buf) buf = Ok (p, b, a, d) -> d < MAX_JUMB_DEPTH.
Proof.
  intros HL HK E. pose proof (jumbf_safe strict cadd dbg buf HL (not_known_advancing strict buf HK)) as H.
  rewrite E in H. lia.
Qed.

Lemma png_total dbg buf : len buf <= U64MAX -> is_result (png_read dbg buf).
Proof.
  intro HL. pose proof (png_read_safe dbg buf HL) as H. unfold is_result.
  destruct (png_read dbg buf); auto.
Qed.

Lemma png_alloc dbg buf n p c :
  len buf <= U64MAX -> png_read dbg buf = Ok (n, p, c) ->
  8 + 12 * n <= len buf /\ is_result c /\ (forall l, c = Ok l -> l <= len buf).
Proof.
  intros HL E. pose proof (png_read_safe dbg buf HL) as H. rewrite E in H. destruct H as (A & B).
  split; [exact A|]. split.
  - unfold is_result. destruct c; auto.
  - intros l ->. exact B.
Qed.

Lemma bmff_total dbg buf : len buf <= U64MAX -> is_result (bmff_read dbg buf).
Proof.
  intro HL. pose proof (bmff_read_safe dbg buf HL) as H. unfold is_result.
  destruct (bmff_read dbg buf); auto.
Qed.

Lemma bmff_alloc_depth dbg buf nodes deep brands :
  len buf <= U64MAX -> bmff_read dbg buf = Ok (nodes, deep, brands) ->
  len nodes <= len buf /\ 4 * brands <= len buf /\ deep <= MAX_BOX_DEPTH.
Proof.
  intros HL E. pose proof (bmff_read_safe dbg buf HL) as H. rewrite E in H. lia.
Qed.

(* ------------------------------------------------------------------ the reader as it stands in the source
   (commit 7b268693b: read_header fills the header or fails; dest_pos by checked_add): both generated flags are
   true, so the statements hold for every byte string, without a known class *)

Lemma flags_repaired : SHORT_HEADER_IS_ERROR = true /\ DEST_POS_IS_CHECKED = true.
Proof. split; reflexivity. Qed.

Lemma jumbf_as_coded_total dbg buf : len buf <= U64MAX -> is_result (jread_as_coded dbg buf).
Proof.
  intro HL. unfold jread_as_coded. destruct flags_repaired as (-> & ->). apply jumbf_repaired_total. exact HL.
Qed.

Lemma jumbf_as_coded_bounds dbg buf p b a d :
  len buf <= U64MAX -> jread_as_coded dbg buf = Ok (p, b, a, d) ->
  8 * b + a <= len buf /\ p <= len buf /\ d < MAX_JUMB_DEPTH.
Proof.
  intros HL E. unfold jread_as_coded in E. destruct flags_repaired as (F1 & F2). rewrite F1, F2 in E.
  pose proof (jumbf_safe true true dbg buf HL (or_introl eq_refl)) as H. rewrite E in H. lia.
Qed.

(* the two inputs that defeated the reader before the repair are now plain errors *)
Lemma old_witnesses_rejected dbg :
  jread_as_coded dbg hang_witness = Err EInvalidJumbfHeader /\
  jread_as_coded dbg overflow_witness = Err EInvalidJumbBox.
Proof. destruct dbg; split; vm_compute; reflexivity. Qed.
