(* Proofs/StoreIntegrityProofs.v — C02: what a store that validates can contain. *)
From Coq Require Import List NArith Bool Lia Arith ZifyBool ZifyNat ZifyN.
From C2PA Require Import Base.Bytes Model.Bind Model.StoreIntegrity Proofs.BindProofs.
Import ListNotations.
Open Scope N_scope.
Arguments N.eqb : simpl never.

Lemma abox_eq_dec (a b : abox) : {a = b} + {a <> b}.
Proof. decide equality; [apply bytes_eq_dec|apply N.eq_dec]. Qed.

Lemma manifest_eq_dec (a b : manifest) : {a = b} + {a <> b}.
Proof.
  decide equality; try apply bytes_eq_dec; try apply N.eq_dec; try apply Bool.bool_dec.
  apply list_eq_dec. apply abox_eq_dec.
Qed.

Lemma filter_nil_all {A} (f : A -> bool) l : filter f l = [] -> forall x, In x l -> f x = false.
Proof.
  induction l as [|y l IH]; intros E x Hin; [inversion Hin|].
  cbn [filter] in E. destruct (f y) eqn:Ey; [discriminate|].
  destruct Hin as [<-|Hin]; [exact Ey|apply IH; assumption].
Qed.

Lemma remove_first_in l : forall bs b, In b bs -> In b (remove_first l bs) \/ a_label b = l.
Proof.
  induction bs as [|x t IH]; intros b Hb; [inversion Hb|]. cbn [remove_first].
  destruct (a_label x =? l) eqn:E.
  - destruct Hb as [<-|Hb]; [right; apply N.eqb_eq; exact E|left; exact Hb].
  - destruct Hb as [<-|Hb]; [left; left; reflexivity|].
    destruct (IH b Hb) as [H1|H1]; [left; right; exact H1|right; exact H1].
Qed.

Lemma tracking_empty_declared {B} (refs : list (N * B)) : forall bs,
  fold_left (fun tr r => remove_first (fst r) tr) refs bs = [] ->
  forall b, In b bs -> exists r, In r refs /\ fst r = a_label b.
Proof.
  induction refs as [|r t IH]; intros bs E b Hb; cbn [fold_left] in E.
  - subst bs. inversion Hb.
  - destruct (remove_first_in (fst r) bs b Hb) as [H1|H1].
    + destruct (IH _ E b H1) as (r' & Hr' & Er'). exists r'. split; [right; exact Hr'|exact Er'].
    + exists r. split; [left; reflexivity|symmetry; exact H1].
Qed.

Lemma forall_or_list {A} (P : A -> Prop) (C : Prop) (l : list A) :
  (forall x, In x l -> P x \/ C) -> (forall x, In x l -> P x) \/ C.
Proof.
  induction l as [|y l IH]; intro Hx; [left; intros x []|].
  destruct (Hx y (or_introl eq_refl)) as [Py|c]; [|right; exact c].
  destruct IH as [Pl|c]; [intros x Hin; apply Hx; right; exact Hin| |right; exact c].
  left. intros x [<-|Hin]; auto.
Qed.

(* the active manifest: the last one *)
Definition last_opt {A} (l : list A) : option A := match rev l with [] => None | x :: _ => Some x end.

Section StoreP.
  Variable H : bytes -> bytes.
  Variable Hm : manifest -> bytes.
  Variable Verify : bytes -> bytes -> bool.
  Variable claim_refs : bytes -> list (N * bytes).
  Variable claim_redactions : bytes -> list (N * N).
  Variable ingredient_of : N -> bytes -> ing.
  Variable max_depth : nat.

  Notation verify_claim := (verify_claim H Verify claim_refs).
  Notation check_ref := (check_ref H).
  Notation link_ok := (link_ok H Hm).
  Notation ing_checks := (ing_checks H Hm Verify claim_refs ingredient_of).
  Notation validate_store := (validate_store H Hm Verify claim_refs claim_redactions ingredient_of max_depth).

  (* the (claim bytes, signature box) pair is the one of a manifest of the signed store *)
  Definition occurs (s : list manifest) (c g : bytes) : Prop := exists m, In m s /\ m_claim m = c /\ m_sig m = g.
  (* a pair that verifies and was never produced by the signers of s *)
  Definition forgery (s : list manifest) : Prop := exists c g, Verify c g = true /\ ~ occurs s c g.
  Definition collisionM : Prop := exists m1 m2 : manifest, m1 <> m2 /\ Hm m1 = Hm m2.
  (* a claim whose digest equals the digest of a manifest box (legacy-hash branch meeting a 1.3+ hash) *)
  Definition cross : Prop := exists (c : bytes) (m : manifest), H c = Hm m.

  Lemma occurs_dec s c g : occurs s c g \/ ~ occurs s c g.
  Proof.
    induction s as [|m s IH]; [right; intros (x & [] & _)|].
    destruct (bytes_eq_dec (m_claim m) c) as [Ec|Nc].
    - destruct (bytes_eq_dec (m_sig m) g) as [Eg|Ng].
      + left. exists m. split; [left; reflexivity|auto].
      + destruct IH as [(x & Hx & E1 & E2)|No]; [left; exists x; split; [right; exact Hx|auto]|].
        right. intros (x & [<-|Hx] & E1 & E2); [contradiction|apply No; exists x; auto].
    - destruct IH as [(x & Hx & E1 & E2)|No]; [left; exists x; split; [right; exact Hx|auto]|].
      right. intros (x & [<-|Hx] & E1 & E2); [contradiction|apply No; exists x; auto].
  Qed.

  (* every assertion the claim lists and neither side redacts is present in both with identical box contents *)
  Definition same_payloads (reds reds' : list (N * N)) (m m' : manifest) : Prop :=
    forall r, In r (claim_refs (m_claim m)) ->
      redacted reds (m_label m) (fst r) = false -> redacted reds' (m_label m') (fst r) = false ->
      exists b b', find_box (fst r) (m_boxes m) = Some b /\ find_box (fst r) (m_boxes m') = Some b'
                   /\ a_data b' = a_data b.
  (* and the assertion store holds nothing else *)
  Definition all_declared (m' : manifest) : Prop :=
    forall b, In b (m_boxes m') -> exists r, In r (claim_refs (m_claim m')) /\ fst r = a_label b.

  Definition reports_signed (s : list manifest) (reds reds' : list (N * N)) (m' : manifest) : Prop :=
    exists m, In m s /\ m_claim m = m_claim m' /\ m_sig m = m_sig m' /\ same_payloads reds reds' m m' /\ all_declared m'.

  Lemma verify_claim_parts reds m :
    verify_claim reds m = true ->
    Verify (m_claim m) (m_sig m) = true /\
    (forall r, In r (claim_refs (m_claim m)) -> check_ref reds m r = true) /\
    undeclared claim_refs m = [].
  Proof.
    unfold StoreIntegrity.verify_claim. intro E.
    apply andb_true_iff in E. destruct E as [E E3]. apply andb_true_iff in E. destruct E as [E1 E2].
    split; [exact E1|]. split; [apply forallb_forall; exact E2|].
    destruct (undeclared claim_refs m); [reflexivity|discriminate].
  Qed.

  (* C02, one manifest: a claim that verifies inside the tampered store reports the claim, signature and
     assertion payloads of a manifest of the signed store — or a collision / forgery is exhibited *)
  Theorem claim_integrity s reds reds' m' :
    (forall m, In m s -> verify_claim reds m = true) ->
    verify_claim reds' m' = true ->
    reports_signed s reds reds' m' \/ collision H \/ forgery s.
  Proof.
    intros Hs Hv.
    destruct (verify_claim_parts _ _ Hv) as (Hsig & Hrefs & Hund).
    destruct (occurs_dec s (m_claim m') (m_sig m')) as [(m & Hin & Ec & Eg)|No].
    2:{ right. right. exists (m_claim m'), (m_sig m'). split; assumption. }
    destruct (verify_claim_parts _ _ (Hs m Hin)) as (_ & Hrefs0 & _).
    assert (Hp : (forall r, In r (claim_refs (m_claim m)) ->
                   (redacted reds (m_label m) (fst r) = false -> redacted reds' (m_label m') (fst r) = false ->
                    exists b b', find_box (fst r) (m_boxes m) = Some b /\ find_box (fst r) (m_boxes m') = Some b'
                                 /\ a_data b' = a_data b)) \/ collision H).
    { apply forall_or_list. intros r Hr.
      pose proof (Hrefs0 r Hr) as C0. rewrite Ec in Hr. pose proof (Hrefs r Hr) as C1.
      unfold StoreIntegrity.check_ref in C0, C1.
      destruct (redacted reds (m_label m) (fst r)); [left; intros; discriminate|].
      destruct (redacted reds' (m_label m') (fst r)); [left; intros; discriminate|].
      destruct (find_box (fst r) (m_boxes m)) as [b|]; [|discriminate].
      destruct (find_box (fst r) (m_boxes m')) as [b'|]; [|discriminate].
      apply vec_compare_eq in C0. apply vec_compare_eq in C1.
      destruct (hash_eq_inv H (a_data b') (a_data b) ltac:(congruence)) as [E|c]; [left|right; exact c].
      intros _ _. exists b, b'. auto. }
    destruct Hp as [Hp|c]; [left|right; left; exact c].
    exists m. split; [exact Hin|]. split; [exact Ec|]. split; [exact Eg|]. split; [exact Hp|].
    intros b Hb. exact (tracking_empty_declared _ _ Hund b Hb).
  Qed.

  (* a changed assertion payload is never accepted: the contrapositive, per assertion *)
  Corollary payload_change_detected s reds reds' m m' r b b' :
    (forall x, In x s -> verify_claim reds x = true) ->
    In m s -> m_claim m' = m_claim m -> In r (claim_refs (m_claim m)) ->
    redacted reds (m_label m) (fst r) = false -> redacted reds' (m_label m') (fst r) = false ->
    find_box (fst r) (m_boxes m) = Some b -> find_box (fst r) (m_boxes m') = Some b' ->
    a_data b' <> a_data b ->
    verify_claim reds' m' = true -> collision H.
  Proof.
    intros Hs Hin Ec Hr R0 R1 F0 F1 Hne Hv.
    destruct (verify_claim_parts _ _ (Hs m Hin)) as (_ & Hrefs0 & _).
    destruct (verify_claim_parts _ _ Hv) as (_ & Hrefs & _).
    pose proof (Hrefs0 r Hr) as C0. rewrite <- Ec in Hr. pose proof (Hrefs r Hr) as C1.
    unfold StoreIntegrity.check_ref in C0, C1. rewrite R0, F0 in C0. rewrite R1, F1 in C1.
    apply vec_compare_eq in C0. apply vec_compare_eq in C1.
    exists (a_data b'), (a_data b). split; [exact Hne|congruence].
  Qed.

  (* an assertion box the claim does not list makes validation fail (assertion.undeclared) *)
  Theorem undeclared_rejected reds m b :
    In b (m_boxes m) -> (forall r, In r (claim_refs (m_claim m)) -> fst r <> a_label b) ->
    verify_claim reds m = false.
  Proof.
    intros Hb Hno. destruct (verify_claim reds m) eqn:E; [|reflexivity]. exfalso.
    destruct (verify_claim_parts _ _ E) as (_ & _ & Hund).
    destruct (tracking_empty_declared _ _ Hund b Hb) as (r & Hr & Er). exact (Hno r Hr Er).
  Qed.

  (* the ingredient walk: every ingredient link of a manifest on which the walk succeeded resolves to a
     manifest of the store that passes the link test and verify_claim *)
  Lemma ing_checks_link s reds fuel m vis v :
    ing_checks s reds fuel m vis = Some v ->
    forall b t h sh, In b (m_boxes m) -> ingredient_of (a_label b) (a_data b) = IngRef t h sh ->
      exists mi, find_manifest t s = Some mi /\ link_ok reds t h sh mi = true /\ verify_claim reds mi = true.
  Proof.
    destruct fuel as [|k]; [discriminate|]. cbn [StoreIntegrity.ing_checks].
    generalize (m_boxes m) as bs. intro bs. revert vis v.
    induction bs as [|b0 bs IH]; intros vis v E b t h sh Hin Hi; [inversion Hin|].
    destruct Hin as [<-|Hin].
    - rewrite Hi in E.
      destruct (find_manifest t s) as [mi|]; [|discriminate].
      destruct (link_ok reds t h sh mi && verify_claim reds mi) eqn:El; [|discriminate].
      apply andb_true_iff in El. exists mi. split; [reflexivity|exact El].
    - destruct (ingredient_of (a_label b0) (a_data b0)) as [| |t0 h0 sh0]; [eapply IH; eassumption|discriminate|].
      destruct (find_manifest t0 s) as [mi0|]; [|discriminate].
      destruct (link_ok reds t0 h0 sh0 mi0 && verify_claim reds mi0); [|discriminate].
      destruct (existsb (N.eqb t0) vis); [eapply IH; eassumption|].
      destruct (ing_checks s reds k mi0 (t0 :: vis)) as [v0|]; [eapply IH; eassumption|discriminate].
  Qed.

  (* the link test without redaction pins the whole ingredient manifest box when the signer recorded the 1.3+
     manifest box hash *)
  Theorem ingredient_covered reds t sh mi mi' :
    existsb (fun r => fst r =? t) reds = false ->
    link_ok reds t (Hm mi) sh mi' = true ->
    mi' = mi \/ collisionM \/ cross.
  Proof.
    intros Hr E. unfold StoreIntegrity.link_ok in E. rewrite Hr in E.
    apply orb_true_iff in E. destruct E as [E|E]; apply vec_compare_eq in E.
    - destruct (manifest_eq_dec mi' mi) as [Em|Ne]; [left; exact Em|right; left; exists mi', mi; auto].
    - right. right. exists (m_claim mi'), mi. auto.
  Qed.

  (* with redactions of the ingredient (claim v2+): the signature box is pinned through the claimSignature hash *)
  Theorem ingredient_redacted_sig reds t h mi mi' :
    existsb (fun r => fst r =? t) reds = true -> m_v2 mi' = true ->
    link_ok reds t h (Some (H (m_sig mi))) mi' = true ->
    m_sig mi' = m_sig mi \/ collision H.
  Proof.
    intros Hr Hv E. unfold StoreIntegrity.link_ok in E. rewrite Hr, Hv in E.
    apply vec_compare_eq in E. destruct (hash_eq_inv H _ _ E) as [Es|c]; [left; symmetry; exact Es|right; exact c].
  Qed.

  (* C02, store level: s is a consistently signed store, s' any store (the result of arbitrary byte edits) that
     validates.  Then the active manifest of s' reports claim, signature and payloads of a manifest of s, every
     ingredient link of it resolves inside s' to a manifest that passes the link hashes and itself reports a
     manifest of s — or a collision of H / a forged (claim, signature) pair is exhibited. *)
  Theorem store_integrity s s' :
    (forall m, In m s -> verify_claim (store_redactions claim_redactions s) m = true) ->
    validate_store s' = true ->
    exists act', last_opt s' = Some act' /\
      ((reports_signed s (store_redactions claim_redactions s) (store_redactions claim_redactions s') act' /\
        forall b t h sh, In b (m_boxes act') -> ingredient_of (a_label b) (a_data b) = IngRef t h sh ->
          exists mi', find_manifest t s' = Some mi'
                      /\ link_ok (store_redactions claim_redactions s') t h sh mi' = true
                      /\ (reports_signed s (store_redactions claim_redactions s) (store_redactions claim_redactions s') mi'
                          \/ collision H \/ forgery s))
       \/ collision H \/ forgery s).
  Proof.
    intros Hs Hv. unfold StoreIntegrity.validate_store in Hv. unfold last_opt.
    destruct (rev s') as [|act rest]; [discriminate|].
    exists act. split; [reflexivity|].
    apply andb_true_iff in Hv. destruct Hv as [Hc Hi].
    destruct (claim_integrity s _ _ act Hs Hc) as [Hr|[c|f]]; [left|right; left; exact c|right; right; exact f].
    split; [exact Hr|].
    destruct (ing_checks s' (store_redactions claim_redactions s') max_depth act []) as [v|] eqn:Ei; [|discriminate].
    intros b t h sh Hb Hing.
    destruct (ing_checks_link _ _ _ _ _ _ Ei b t h sh Hb Hing) as (mi & Hf & Hl & Hvc).
    exists mi. split; [exact Hf|]. split; [exact Hl|].
    exact (claim_integrity s _ _ mi Hs Hvc).
  Qed.
End StoreP.
