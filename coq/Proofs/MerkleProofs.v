(* Proofs/MerkleProofs.v — lemmas about Model/Merkle.v (C16). *)
From Coq Require Import List NArith Bool Arith Lia ZifyBool ZifyNat ZifyN Sorted.
From C2PA Require Import Base.Bytes Model.Merkle.
Import ListNotations.
Open Scope nat_scope.

Lemma bytes_eqb_eq a b : bytes_eqb a b = true <-> a = b.
Proof.
  revert b. induction a as [|x a IH]; intros [|y b]; cbn [bytes_eqb]; split; intro H; try congruence; try discriminate.
  - apply andb_true_iff in H. destruct H as [H1 H2]. apply N.eqb_eq in H1. apply IH in H2. congruence.
  - injection H as -> ->. rewrite N.eqb_refl. cbn. apply IH. reflexivity.
Qed.

Lemma bytes_eqb_refl a : bytes_eqb a a = true.
Proof. apply bytes_eqb_eq. reflexivity. Qed.

Definition bytes_eq_dec : forall a b : bytes, {a = b} + {a <> b} := list_eq_dec N.eq_dec.

Lemma nth_error_nil' {A} n : nth_error (@nil A) n = None.
Proof. destruct n; reflexivity. Qed.

Lemma list_ind2 {A} (P : list A -> Prop) :
  P [] -> (forall a, P [a]) -> (forall a b t, P t -> P (a :: b :: t)) -> forall l, P l.
Proof.
  intros H0 H1 H2. fix IH 1. intros [|a [|b t]]; [exact H0 | apply H1 | apply H2, IH].
Qed.

(* ---- layout ---- *)

Lemma pcnt_half n : pcnt n = (n + 1) / 2.
Proof.
  assert (H : pcnt n = (n + 1) / 2 /\ pcnt (S n) = (S n + 1) / 2).
  { induction n as [|n [IH1 IH2]].
    - split; reflexivity.
    - split; [exact IH2|]. change (pcnt (S (S n))) with (S (pcnt n)). rewrite IH1. lia. }
  apply H.
Qed.

Lemma pcnt_lt n : 2 <= n -> pcnt n < n.
Proof.
  intro H. rewrite pcnt_half. lia.
Qed.

Lemma pcnt_pos n : 1 <= n -> 1 <= pcnt n.
Proof.
  intro H. rewrite pcnt_half. lia.
Qed.

Lemma pcnt_le n : pcnt n <= n.
Proof.
  rewrite pcnt_half. lia.
Qed.

Lemma layout_f_le f n : Forall (fun x => x <= n) (layout_f f n).
Proof.
  revert n. induction f as [|f IH]; intro n; cbn [layout_f].
  - constructor; [lia|constructor].
  - constructor; [lia|]. destruct (n <=? 1); [constructor|].
    eapply Forall_impl; [|apply IH]. cbn. intros a Ha. pose proof (pcnt_le n). lia.
Qed.

Lemma layout_f_sorted f n : StronglySorted (fun a b => b < a) (layout_f f n).
Proof.
  revert n. induction f as [|f IH]; intro n; cbn [layout_f].
  - constructor; constructor.
  - destruct (n <=? 1) eqn:E.
    + constructor; constructor.
    + constructor; [apply IH|].
      eapply Forall_impl; [|apply layout_f_le]. cbn. intros a Ha.
      pose proof (pcnt_lt n). lia.
Qed.

Lemma layout_f_last f n : 1 <= n -> n <= f -> last (layout_f f n) 0 = 1.
Proof.
  revert n. induction f as [|f IH]; intros n H1 Hf; [lia|].
  cbn [layout_f]. destruct (n <=? 1) eqn:E.
  - cbn. lia.
  - assert (Hn : 2 <= n) by lia.
    pose proof (pcnt_lt n Hn). pose proof (pcnt_pos n H1).
    specialize (IH (pcnt n) ltac:(lia) ltac:(lia)).
    destruct (layout_f f (pcnt n)) eqn:El.
    + destruct f; discriminate El.
    + cbn [last]. exact IH.
Qed.

Lemma layout_f_nonempty f n : layout_f f n <> [].
Proof. destruct f; discriminate. Qed.

Section MerkleProofs.
  Variable Hn : bytes -> bytes -> bytes.

  Notation parent := (parent Hn).
  Notation layers_f := (layers_f Hn).
  Notation gen_tree := (gen_tree Hn).
  Notation play := (play Hn).
  Notation proof_f := proof_f.

  (* a collision of the binary node hash, exhibited *)
  Definition collision : Prop :=
    exists a b a' b', (a <> a' \/ b <> b') /\ Hn a b = Hn a' b'.

  Lemma parent_length l : length (parent l) = pcnt (length l).
  Proof.
    induction l as [| a | a b t IH] using list_ind2; [reflexivity | reflexivity |].
    cbn [Merkle.parent length pcnt]. rewrite IH. reflexivity.
  Qed.

  Lemma parent_nth_error l : forall j,
    nth_error (parent l) j =
    match nth_error l (2 * j) with
    | None => None
    | Some a => match nth_error l (2 * j + 1) with Some b => Some (Hn a b) | None => Some a end
    end.
  Proof.
    induction l as [| a | a b t IH] using list_ind2; intro j.
    - cbn [Merkle.parent]. rewrite !nth_error_nil'. reflexivity.
    - destruct j as [|j]; cbn [Merkle.parent].
      + reflexivity.
      + replace (2 * S j) with (S (S (2 * j))) by lia. cbn [nth_error]. rewrite !nth_error_nil'. reflexivity.
    - destruct j as [|j]; cbn [Merkle.parent].
      + reflexivity.
      + replace (2 * S j) with (S (S (2 * j))) by lia.
        replace (S (S (2 * j)) + 1) with (S (S (2 * j + 1))) by lia.
        cbn [nth_error]. apply IH.
  Qed.

  Lemma nth_error_nth_d (l : list bytes) i : i < length l -> nth_error l i = Some (nth i l []).
  Proof. intro H. apply nth_error_nth'. exact H. Qed.

  Lemma odd_half i : Nat.odd i = true -> i = 2 * (i / 2) + 1.
  Proof.
    intro H. apply Nat.odd_spec in H. destruct H as [k ->].
    replace (2 * k + 1) with (1 + k * 2) at 2 by lia. rewrite Nat.div_add by lia. cbn. lia.
  Qed.

  Lemma even_half i : Nat.odd i = false -> i = 2 * (i / 2).
  Proof.
    intro H. rewrite <- Nat.negb_even in H. apply negb_false_iff in H.
    apply Nat.even_spec in H. destruct H as [k ->].
    replace (2 * k) with (k * 2) at 2 by lia. rewrite Nat.div_mul by lia. reflexivity.
  Qed.

  Lemma half_lt i n : i < n -> i / 2 < pcnt n.
  Proof.
    intro H. rewrite pcnt_half.
    destruct (Nat.odd i) eqn:E.
    - pose proof (odd_half i E) as Hi. apply Nat.div_le_lower_bound; lia.
    - pose proof (even_half i E) as Hi. apply Nat.div_le_lower_bound; lia.
  Qed.

  (* the three shapes of a parent node *)
  Lemma parent_odd l i : Nat.odd i = true -> i < length l ->
    nth (i / 2) (parent l) [] = Hn (nth (i - 1) l []) (nth i l []).
  Proof.
    intros Ho Hi. pose proof (odd_half i Ho) as E.
    assert (Hp : nth_error (parent l) (i / 2) = Some (Hn (nth (i - 1) l []) (nth i l []))).
    { rewrite parent_nth_error. replace (2 * (i / 2)) with (i - 1) by lia.
      replace (i - 1 + 1) with i by lia.
      rewrite (nth_error_nth_d l (i - 1)) by lia. rewrite (nth_error_nth_d l i) by lia. reflexivity. }
    apply nth_error_nth with (d := []) in Hp. exact Hp.
  Qed.

  Lemma parent_even_pair l i : Nat.odd i = false -> i + 1 < length l ->
    nth (i / 2) (parent l) [] = Hn (nth i l []) (nth (i + 1) l []).
  Proof.
    intros Ho Hi. pose proof (even_half i Ho) as E.
    assert (Hp : nth_error (parent l) (i / 2) = Some (Hn (nth i l []) (nth (i + 1) l []))).
    { rewrite parent_nth_error. replace (2 * (i / 2)) with i by lia.
      rewrite (nth_error_nth_d l i) by lia. rewrite (nth_error_nth_d l (i + 1)) by lia. reflexivity. }
    apply nth_error_nth with (d := []) in Hp. exact Hp.
  Qed.

  Lemma parent_even_single l i : Nat.odd i = false -> i < length l -> ~ i + 1 < length l ->
    nth (i / 2) (parent l) [] = nth i l [].
  Proof.
    intros Ho Hi Hl. pose proof (even_half i Ho) as E.
    assert (Hp : nth_error (parent l) (i / 2) = Some (nth i l [])).
    { rewrite parent_nth_error. replace (2 * (i / 2)) with i by lia.
      rewrite (nth_error_nth_d l i) by lia.
      assert (Hnone : nth_error l (i + 1) = None) by (apply nth_error_None; lia).
      rewrite Hnone. reflexivity. }
    apply nth_error_nth with (d := []) in Hp. exact Hp.
  Qed.

  (* ---- layers ---- *)

  Lemma layers_f_layout f l : map (@length bytes) (layers_f f l) = layout_f f (length l).
  Proof.
    revert l. induction f as [|f IH]; intro l; cbn [Merkle.layers_f layout_f map]; [reflexivity|].
    destruct (length l <=? 1); [reflexivity|]. rewrite IH, parent_length. reflexivity.
  Qed.

  Lemma gen_tree_layout l : map (@length bytes) (gen_tree l) = layout (length l).
  Proof. apply layers_f_layout. Qed.

  Lemma layers_f_le f l : Forall (fun x => length x <= length l) (layers_f f l).
  Proof.
    pose proof (layout_f_le f (length l)) as H. rewrite <- layers_f_layout in H.
    rewrite Forall_map in H. exact H.
  Qed.

  Lemma layers_f_nonempty f l : layers_f f l <> [].
  Proof. destruct f; discriminate. Qed.

  Lemma layers_f_length_pos f l : 1 <= length (layers_f f l).
  Proof. destruct f; cbn; lia. Qed.

  Lemma nth_layers_lt f l r :
    2 <= length l -> r < length (layers_f f (parent l)) ->
    length (nth r (layers_f f (parent l)) []) < length l.
  Proof.
    intros Hl Hr. pose proof (layers_f_le f (parent l)) as H.
    rewrite Forall_forall in H. specialize (H (nth r (layers_f f (parent l)) []) (nth_In _ _ Hr)).
    rewrite parent_length in H. pose proof (pcnt_lt _ Hl). lia.
  Qed.

  (* ---- completeness ---- *)

  Lemma complete_gen : forall f l i m extra,
    i < length l -> length l <= f ->
    let Ls := layers_f f l in
    let r := Nat.min m (length Ls - 1) in
    let row := nth r Ls [] in
    play (map (@length bytes) Ls) (length row) i (nth i l []) (proof_f Ls i m ++ extra)
      = Some (i / 2 ^ r, nth (i / 2 ^ r) row [])
    /\ i / 2 ^ r < length row.
  Proof.
    induction f as [|f IH]; intros l i m extra Hi Hf; [lia|].
    cbn zeta. cbn [Merkle.layers_f].
    destruct (length l <=? 1) eqn:E1.
    - (* single layer *)
      cbn [length Nat.sub Nat.min map Merkle.play nth]. rewrite Nat.min_0_r. cbn [nth].
      rewrite Nat.eqb_refl. cbn [Nat.pow]. rewrite Nat.div_1_r. split; [reflexivity|exact Hi].
    - assert (Hl : 2 <= length l) by lia.
      set (Ls' := layers_f f (parent l)).
      pose proof (layers_f_length_pos f (parent l)) as Hpos. fold Ls' in Hpos.
      destruct m as [|m].
      + cbn [Nat.min nth map Merkle.play]. rewrite Nat.eqb_refl. cbn [Nat.pow]. rewrite Nat.div_1_r.
        split; [reflexivity|exact Hi].
      + replace (Nat.min (S m) (length (l :: Ls') - 1)) with (S (Nat.min m (length Ls' - 1)))
          by (cbn [length]; lia).
        set (r' := Nat.min m (length Ls' - 1)).
        cbn [nth]. set (row := nth r' Ls' []).
        assert (Hrow : length row < length l) by (apply nth_layers_lt; [exact Hl | fold Ls'; unfold r'; lia]).
        assert (Hhalf : i / 2 < length (parent l)) by (rewrite parent_length; apply half_lt; exact Hi).
        assert (Hfuel : length (parent l) <= f)
          by (rewrite parent_length; pose proof (pcnt_lt _ Hl); lia).
        destruct (IH (parent l) (i / 2) m extra Hhalf Hfuel) as [IHp IHb].
        fold Ls' in IHp, IHb. fold r' in IHp, IHb. fold row in IHp, IHb.
        replace (i / 2 ^ S r') with (i / 2 / 2 ^ r')
          by (rewrite Nat.div_div by (try apply Nat.pow_nonzero; lia); reflexivity).
        split; [|exact IHb].
        cbn [map Merkle.play Merkle.proof_f].
        replace (length l =? length row) with false by (symmetry; apply Nat.eqb_neq; lia).
        destruct (Nat.odd i) eqn:Eo.
        * replace (i - 1 <? length l) with true by (symmetry; apply Nat.ltb_lt; lia).
          cbn [app]. rewrite <- (parent_odd l i Eo Hi). exact IHp.
        * destruct (i + 1 <? length l) eqn:E2.
          -- apply Nat.ltb_lt in E2. cbn [app]. rewrite <- (parent_even_pair l i Eo E2). exact IHp.
          -- apply Nat.ltb_ge in E2. cbn [app].
             rewrite <- (parent_even_single l i Eo Hi ltac:(lia)). exact IHp.
  Qed.

  (* the None path succeeds only where playing the empty proof succeeds, with the same index and no hashing *)
  Lemma skip_play ls rl : forall i h j,
    skip_rows ls rl i = Some j -> play ls rl i h [] = Some (j, h).
  Proof.
    induction ls as [|layer rest IH]; intros i h j H; cbn [Merkle.play skip_rows] in *.
    - congruence.
    - destruct (layer =? rl); [congruence|].
      destruct (Nat.odd i); cbn [orb] in H; [discriminate|].
      destruct (i + 1 <? layer); [discriminate|]. apply IH. exact H.
  Qed.

  (* when the generated proof is empty the None path reaches the row node above the leaf *)
  Lemma skip_complete : forall f l i m,
    i < length l -> length l <= f ->
    let Ls := layers_f f l in
    let r := Nat.min m (length Ls - 1) in
    proof_f Ls i m = [] ->
    skip_rows (map (@length bytes) Ls) (length (nth r Ls [])) i = Some (i / 2 ^ r).
  Proof.
    induction f as [|f IH]; intros l i m Hi Hf; [lia|].
    cbn zeta. cbn [Merkle.layers_f].
    destruct (length l <=? 1) eqn:E1.
    - cbn [length Nat.sub map skip_rows nth]. rewrite Nat.min_0_r. cbn [nth].
      rewrite Nat.eqb_refl. cbn [Nat.pow]. rewrite Nat.div_1_r. reflexivity.
    - assert (Hl : 2 <= length l) by lia.
      set (Ls' := layers_f f (parent l)).
      pose proof (layers_f_length_pos f (parent l)) as Hpos. fold Ls' in Hpos.
      destruct m as [|m].
      + cbn [Nat.min nth map skip_rows]. rewrite Nat.eqb_refl. cbn [Nat.pow]. rewrite Nat.div_1_r. reflexivity.
      + replace (Nat.min (S m) (length (l :: Ls') - 1)) with (S (Nat.min m (length Ls' - 1)))
          by (cbn [length]; lia).
        set (r' := Nat.min m (length Ls' - 1)).
        cbn [nth]. set (row := nth r' Ls' []).
        assert (Hrow : length row < length l) by (apply nth_layers_lt; [exact Hl | fold Ls'; unfold r'; lia]).
        assert (Hhalf : i / 2 < length (parent l)) by (rewrite parent_length; apply half_lt; exact Hi).
        assert (Hfuel : length (parent l) <= f)
          by (rewrite parent_length; pose proof (pcnt_lt _ Hl); lia).
        cbn [map skip_rows Merkle.proof_f].
        replace (length l =? length row) with false by (symmetry; apply Nat.eqb_neq; lia).
        replace (i / 2 ^ S r') with (i / 2 / 2 ^ r')
          by (rewrite Nat.div_div by (try apply Nat.pow_nonzero; lia); reflexivity).
        destruct (Nat.odd i) eqn:Eo.
        * replace (i - 1 <? length l) with true by (symmetry; apply Nat.ltb_lt; lia).
          cbn [app]. discriminate.
        * destruct (i + 1 <? length l) eqn:E2; [cbn [app]; discriminate|].
          cbn [app orb]. intro Hp.
          pose proof (IH (parent l) (i / 2) m Hhalf Hfuel) as IH'. cbn zeta in IH'.
          fold Ls' in IH'. fold r' in IH'. fold row in IH'. apply IH'. exact Hp.
  Qed.

  Lemma proof_f_min : forall f l i m,
    i < length l -> length l <= f ->
    proof_f (layers_f f l) i m = proof_f (layers_f f l) i (Nat.min m (length (layers_f f l) - 1)).
  Proof.
    induction f as [|f IH]; intros l i m Hi Hf; [lia|].
    cbn [Merkle.layers_f]. destruct (length l <=? 1) eqn:E1.
    - cbn [length Nat.sub]. rewrite Nat.min_0_r.
      destruct m as [|m]; [reflexivity|]. cbn [Merkle.proof_f].
      assert (i = 0) by lia. subst i. cbn [Nat.odd Nat.even negb Nat.add].
      replace (1 <? length l) with false by (symmetry; apply Nat.ltb_ge; lia).
      destruct m; reflexivity.
    - assert (Hl : 2 <= length l) by lia.
      set (Ls' := layers_f f (parent l)).
      pose proof (layers_f_length_pos f (parent l)) as Hpos. fold Ls' in Hpos.
      destruct m as [|m]; [reflexivity|].
      replace (Nat.min (S m) (length (l :: Ls') - 1)) with (S (Nat.min m (length Ls' - 1)))
        by (cbn [length]; lia).
      cbn [Merkle.proof_f]. f_equal. unfold Ls'. apply IH.
      + rewrite parent_length. apply half_lt. exact Hi.
      + rewrite parent_length. pose proof (pcnt_lt _ Hl). lia.
  Qed.

  (* ---- soundness of the Some(proof) path ---- *)

  Lemma sound_gen : forall f l i m h ps j h',
    i < length l -> length l <= f ->
    let Ls := layers_f f l in
    let r := Nat.min m (length Ls - 1) in
    let row := nth r Ls [] in
    play (map (@length bytes) Ls) (length row) i h ps = Some (j, h') ->
    nth_error row j = Some h' ->
    collision \/ (h = nth i l [] /\ exists extra, ps = proof_f Ls i r ++ extra).
  Proof.
    induction f as [|f IH]; intros l i m h ps j h' Hi Hf; [lia|].
    cbn zeta. cbn [Merkle.layers_f].
    destruct (length l <=? 1) eqn:E1.
    - cbn [length Nat.sub map Merkle.play nth]. rewrite Nat.min_0_r. cbn [nth].
      rewrite Nat.eqb_refl. intros Hp Hrow. injection Hp as <- <-.
      right. split.
      + rewrite (nth_error_nth_d l i Hi) in Hrow. congruence.
      + exists ps. reflexivity.
    - assert (Hl : 2 <= length l) by lia.
      set (Ls' := layers_f f (parent l)).
      pose proof (layers_f_length_pos f (parent l)) as Hpos. fold Ls' in Hpos.
      destruct m as [|m].
      + cbn [Nat.min nth map Merkle.play]. rewrite Nat.eqb_refl.
        intros Hp Hrow. injection Hp as <- <-. right. split.
        * rewrite (nth_error_nth_d l i Hi) in Hrow. congruence.
        * exists ps. reflexivity.
      + replace (Nat.min (S m) (length (l :: Ls') - 1)) with (S (Nat.min m (length Ls' - 1)))
          by (cbn [length]; lia).
        set (r' := Nat.min m (length Ls' - 1)).
        cbn [nth]. set (row := nth r' Ls' []).
        assert (Hrow : length row < length l) by (apply nth_layers_lt; [exact Hl | fold Ls'; unfold r'; lia]).
        assert (Hhalf : i / 2 < length (parent l)) by (rewrite parent_length; apply half_lt; exact Hi).
        assert (Hfuel : length (parent l) <= f)
          by (rewrite parent_length; pose proof (pcnt_lt _ Hl); lia).
        cbn [map Merkle.play Merkle.proof_f].
        replace (length l =? length row) with false by (symmetry; apply Nat.eqb_neq; lia).
        pose proof (IH (parent l) (i / 2) m) as IH'. cbn zeta in IH'.
        fold Ls' in IH'. fold r' in IH'. fold row in IH'.
        destruct (Nat.odd i) eqn:Eo.
        * replace (i - 1 <? length l) with true by (symmetry; apply Nat.ltb_lt; lia).
          destruct ps as [|p ps]; [discriminate|].
          intros Hp Hr. destruct (IH' _ _ _ _ Hhalf Hfuel Hp Hr) as [C | [Hh [extra ->]]]; [left; exact C|].
          rewrite (parent_odd l i Eo Hi) in Hh.
          destruct (bytes_eq_dec p (nth (i - 1) l [])) as [-> | Hne].
          -- destruct (bytes_eq_dec h (nth i l [])) as [-> | Hne2].
             ++ right. split; [reflexivity|]. exists extra. reflexivity.
             ++ left. exists (nth (i - 1) l []), h, (nth (i - 1) l []), (nth i l []). split; [right; exact Hne2|exact Hh].
          -- left. exists p, h, (nth (i - 1) l []), (nth i l []). split; [left; exact Hne|exact Hh].
        * destruct (i + 1 <? length l) eqn:E2.
          -- apply Nat.ltb_lt in E2.
             destruct ps as [|p ps]; [discriminate|].
             intros Hp Hr. destruct (IH' _ _ _ _ Hhalf Hfuel Hp Hr) as [C | [Hh [extra ->]]]; [left; exact C|].
             rewrite (parent_even_pair l i Eo E2) in Hh.
             destruct (bytes_eq_dec p (nth (i + 1) l [])) as [-> | Hne].
             ++ destruct (bytes_eq_dec h (nth i l [])) as [-> | Hne2].
                ** right. split; [reflexivity|]. exists extra. reflexivity.
                ** left. exists h, (nth (i + 1) l []), (nth i l []), (nth (i + 1) l []). split; [left; exact Hne2|exact Hh].
             ++ left. exists h, p, (nth i l []), (nth (i + 1) l []). split; [right; exact Hne|exact Hh].
          -- apply Nat.ltb_ge in E2.
             intros Hp Hr. destruct (IH' _ _ _ _ Hhalf Hfuel Hp Hr) as [C | [Hh [extra ->]]]; [left; exact C|].
             rewrite (parent_even_single l i Eo Hi ltac:(lia)) in Hh.
             right. split; [exact Hh|]. exists extra. reflexivity.
  Qed.

  (* ---- the checker as called by the SDK ---- *)
  Notation check := (check_merkle_tree Hn).
  Notation stored_row := (stored_row Hn).
  Notation row_index := (row_index Hn).

  Lemma hash_check_true row j h : hash_check row j h = true <-> nth_error row j = Some h.
  Proof.
    unfold hash_check. destruct (nth_error row j) as [x|]; split; intro H; try discriminate.
    - apply bytes_eqb_eq in H. congruence.
    - injection H as ->. apply bytes_eqb_refl.
  Qed.

  Lemma check_in_range n row h loc p : check n row h loc p = true -> (loc < N.of_nat n)%N.
  Proof. unfold check_merkle_tree. destruct (N.of_nat n <=? loc)%N eqn:E; [discriminate|]. lia. Qed.

  Lemma index_bound n row h loc p : (N.of_nat n <= loc)%N -> check n row h loc p = false.
  Proof. intro H. unfold check_merkle_tree. destruct (N.of_nat n <=? loc)%N eqn:E; [reflexivity|lia]. Qed.

  Lemma complete_surplus : forall leaves m i extra,
    i < length leaves ->
    check (length leaves) (stored_row leaves m) (nth i leaves [])
          (N.of_nat i) (Some (proof_f (gen_tree leaves) i m ++ extra)) = true.
  Proof.
    intros leaves m i extra Hi. unfold check_merkle_tree.
    destruct (N.of_nat (length leaves) <=? N.of_nat i)%N eqn:E; [lia|].
    rewrite Nat2N.id. rewrite <- gen_tree_layout.
    destruct (complete_gen (length leaves) leaves i m extra Hi (le_n _)) as [Hp Hb].
    unfold Merkle.stored_row, Merkle.row_index, Merkle.gen_tree in *. rewrite Hp.
    apply hash_check_true. apply nth_error_nth_d. exact Hb.
  Qed.

  Lemma complete : forall leaves m i,
    i < length leaves ->
    exists p, proof_by_index Hn leaves i m = Some p
      /\ check (length leaves) (stored_row leaves m) (nth i leaves []) (N.of_nat i) (Some p) = true
      /\ check (length leaves) (stored_row leaves m) (nth i leaves []) (N.of_nat i) (wrap_proof p) = true.
  Proof.
    intros leaves m i Hi. exists (proof_f (gen_tree leaves) i m). split; [|split].
    - unfold proof_by_index. destruct (length leaves =? 0) eqn:E0; [lia|].
      destruct (length leaves <=? i) eqn:E1; [lia|]. reflexivity.
    - pose proof (complete_surplus leaves m i [] Hi) as H. rewrite app_nil_r in H. exact H.
    - destruct (proof_f (gen_tree leaves) i m) eqn:Ep.
      + cbn [wrap_proof]. unfold check_merkle_tree.
        destruct (N.of_nat (length leaves) <=? N.of_nat i)%N eqn:E; [lia|].
        rewrite Nat2N.id. rewrite <- gen_tree_layout.
        destruct (complete_gen (length leaves) leaves i m [] Hi (le_n _)) as [Hp Hb].
        pose proof (skip_complete (length leaves) leaves i m Hi (le_n _)) as Hs. cbn zeta in Hs.
        unfold Merkle.stored_row, Merkle.row_index, Merkle.gen_tree in *.
        specialize (Hs Ep). rewrite Hs.
        rewrite Ep in Hp. cbn [app] in Hp.
        rewrite (skip_play _ _ _ (nth i leaves []) _ Hs) in Hp. injection Hp as Hh.
        apply hash_check_true. rewrite Hh. apply nth_error_nth_d. exact Hb.
      + cbn [wrap_proof]. rewrite <- Ep.
        pose proof (complete_surplus leaves m i [] Hi) as H. rewrite app_nil_r in H. exact H.
  Qed.

  Lemma sound_some : forall leaves m h loc ps,
    check (length leaves) (stored_row leaves m) h loc (Some ps) = true ->
    (loc < N.of_nat (length leaves))%N
    /\ (collision \/ (h = nth (N.to_nat loc) leaves []
                      /\ exists extra, ps = proof_f (gen_tree leaves) (N.to_nat loc) m ++ extra)).
  Proof.
    intros leaves m h loc ps H. pose proof (check_in_range _ _ _ _ _ H) as Hr. split; [exact Hr|].
    unfold check_merkle_tree in H.
    destruct (N.of_nat (length leaves) <=? loc)%N eqn:E; [discriminate|].
    set (i := N.to_nat loc) in *. assert (Hi : i < length leaves) by lia.
    rewrite <- gen_tree_layout in H.
    destruct (Merkle.play Hn (map (@length bytes) (gen_tree leaves)) (length (stored_row leaves m)) i h ps)
      as [[j h']|] eqn:Hp; [|discriminate].
    apply hash_check_true in H.
    unfold Merkle.stored_row, Merkle.row_index, Merkle.gen_tree in *.
    destruct (sound_gen (length leaves) leaves i m h ps j h' Hi (le_n _) Hp H) as [C | [Hh [extra He]]].
    - left. exact C.
    - right. split; [exact Hh|]. exists extra.
      rewrite (proof_f_min (length leaves) leaves i m Hi (le_n _)). exact He.
  Qed.

  (* an absent proof is accepted only where the empty proof is: the None path adds nothing to the Some path
     (any count, any row) *)
  Lemma none_as_empty : forall n row h loc,
    check n row h loc None = true -> check n row h loc (Some []) = true.
  Proof.
    intros n row h loc H. unfold check_merkle_tree in *.
    destruct (N.of_nat n <=? loc)%N; [discriminate|].
    destruct (skip_rows (layout n) (length row) (N.to_nat loc)) as [j|] eqn:Es; [|discriminate].
    rewrite (skip_play _ _ _ h _ Es). exact H.
  Qed.

  Lemma sound : forall leaves m h loc proof,
    check (length leaves) (stored_row leaves m) h loc proof = true ->
    (loc < N.of_nat (length leaves))%N
    /\ (collision \/ (h = nth (N.to_nat loc) leaves []
                      /\ exists extra, match proof with Some ps => ps | None => [] end
                                       = proof_f (gen_tree leaves) (N.to_nat loc) m ++ extra)).
  Proof.
    intros leaves m h loc [ps|] H.
    - exact (sound_some _ _ _ _ _ H).
    - exact (sound_some _ _ _ _ _ (none_as_empty _ _ _ _ H)).
  Qed.

  (* so an absent proof is accepted only when the generated proof is empty (or a collision is exhibited) *)
  Lemma none_only_when_empty : forall leaves m h loc,
    check (length leaves) (stored_row leaves m) h loc None = true ->
    collision \/ (h = nth (N.to_nat loc) leaves [] /\ proof_f (gen_tree leaves) (N.to_nat loc) m = []).
  Proof.
    intros leaves m h loc H. destruct (sound _ _ _ _ _ H) as [_ [C | [Hh [extra He]]]]; [left; exact C|].
    right. split; [exact Hh|]. symmetry in He. apply app_eq_nil in He. apply He.
  Qed.
End MerkleProofs.
