(* Proofs/FfiApiProofs.v — facts about the generated table of exported functions (Generated/C31_facts.v). *)
From Coq Require Import NArith List Bool String.
From C2PA Require Import Model.Registry Model.FfiGuards Proofs.RegistryProofs Proofs.FfiGuardsProofs Generated.C31_facts.
Import ListNotations.
Open Scope string_scope.
Open Scope N_scope.

(* exported functions in which the translator still finds a pointer parameter used without a checking macro
   (known finding F-FFI-STRARRAY, known_findings.d/C31.json).  The unguarded stream / count / signer-info pointers
   and the silent error of c2pa_builder_hash_type (F-FFI-RAWSTREAM, -OUTNULL, -INFONULL, -SILENT) were repaired by
   fix commit 8b6120a89 and are covered by the theorems below like every other function. *)
Definition known_unguarded : list string :=
  [ "c2pa_free_string_array" ].                   (* the array is not tracked: Vec::from_raw_parts on the argument *)

Definition table_ok : bool :=
  forallb (fun nf => fn_guarded (snd nf) || existsb (String.eqb (fst nf)) known_unguarded) api_table.

Lemma table_ok_true : table_ok = true.
Proof. vm_compute. reflexivity. Qed.

Theorem api_guarded_except_known : forall name f,
  In (name, f) api_table -> ~ In name known_unguarded -> fn_guarded f = true.
Proof.
  intros name f IN NK. pose proof table_ok_true as T. unfold table_ok in T. rewrite forallb_forall in T.
  specialize (T _ IN). cbn [fst snd] in T. apply orb_true_iff in T. destruct T as [T|T]; [assumption|].
  exfalso. apply NK. apply existsb_exists in T. destruct T as [x [Hx E]]. apply String.eqb_eq in E. subst. assumption.
Qed.

(* every exported function outside the known list rejects a NULL / wrong-type / freed / foreign pointer in any of
   its handle parameters with an error that carries a message, without running its body or any cleanup *)
Theorem api_bad_handle_rejected : forall name f k t args b s,
  In (name, f) api_table -> ~ In name known_unguarded ->
  nth_error (f_params f) k = Some (PHandle t) ->
  validate (s_reg s) (argn args k) t <> ROk ->
  exists s' c own,
    step MAX_CSTRING_LEN s (CApi (f_guards f) args b) = (s', OErr c, map Consumed own) /\
    c <> CSilent /\ c <> CBody /\ s_next s' = s_next s /\
    (forall x e, lookup x (s_reg s') = Some e -> lookup x (s_reg s) = Some e) /\
    (forallb (fun g => negb (is_untrack g)) (f_guards f) = true -> s' = s /\ own = []).
Proof.
  intros name f k t args b s IN NK N BAD.
  apply (guarded_fn_rejects_bad_handle MAX_CSTRING_LEN f k t args b s); try assumption. eapply api_guarded_except_known; eassumption.
Qed.

(* optional handle parameters (NULL documented as allowed): any non-NULL pointer that is not a live handle of the
   type is rejected in the same way *)
Theorem api_bad_opt_handle_rejected : forall name f k t args b s,
  In (name, f) api_table -> ~ In name known_unguarded ->
  nth_error (f_params f) k = Some (PHandleOpt t) ->
  argn args k <> 0 ->
  validate (s_reg s) (argn args k) t <> ROk ->
  exists s' c own,
    step MAX_CSTRING_LEN s (CApi (f_guards f) args b) = (s', OErr c, map Consumed own) /\
    c <> CSilent /\ c <> CBody /\ s_next s' = s_next s /\
    (forall x e, lookup x (s_reg s') = Some e -> lookup x (s_reg s) = Some e) /\
    (forallb (fun g => negb (is_untrack g)) (f_guards f) = true -> s' = s /\ own = []).
Proof.
  intros name f k t args b s IN NK N NZ BAD.
  apply (guarded_fn_rejects_bad_opt_handle MAX_CSTRING_LEN f k t args b s); try assumption. eapply api_guarded_except_known; eassumption.
Qed.

Theorem api_no_ub : forall name f args b s s' o ev,
  In (name, f) api_table -> ~ In name known_unguarded ->
  step MAX_CSTRING_LEN s (CApi (f_guards f) args b) = (s', o, ev) -> o <> OUB.
Proof.
  intros name f args b s s' o ev IN NK H.
  pose proof (api_guarded_except_known _ _ IN NK) as G. unfold fn_guarded in G. apply andb_true_iff in G. destruct G as [C _].
  eapply no_undefined_behaviour; [apply checked_no_undef; eassumption|eassumption].
Qed.

(* the repaired class, as a statement about the old table: the guard sequence c2pa_builder_add_resource had before
   fix 8b6120a89 (deref builder, cstr uri, raw stream) reaches the unvalidated dereference when the stream argument
   is NULL, freed or foreign; with the macro in place (GDeref, today's table) the same call is an error *)
Definition raw_stream_guards : list guard := [GDeref 0 T_C2paBuilder; GCstr 1; GRaw 2 T_C2paStream].
Definition fixed_stream_guards : list guard := [GDeref 0 T_C2paBuilder; GCstr 1; GDeref 2 T_C2paStream].
Definition one_builder : state := St [(500, E T_C2paBuilder 0%nat)] 1%nat.

Theorem raw_stream_refuted :
  step MAX_CSTRING_LEN one_builder (CApi raw_stream_guards [500; 4; 0] BErr) = (one_builder, OUB, []) /\
  step MAX_CSTRING_LEN one_builder (CApi raw_stream_guards [500; 4; 777] BErr) = (one_builder, OUB, []) /\
  step MAX_CSTRING_LEN one_builder (CApi fixed_stream_guards [500; 4; 0] BErr) = (one_builder, OErr CNull, []) /\
  step MAX_CSTRING_LEN one_builder (CApi fixed_stream_guards [500; 4; 777] BErr) = (one_builder, OErr CUntracked, []).
Proof. vm_compute. repeat split; reflexivity. Qed.

Theorem free_null_noop : forall maxstr s, step maxstr s (CFree 0) = (s, OOk, []).
Proof. intros maxstr [r n]. reflexivity. Qed.
