(* Proofs/RangeHashMarkers.v — C13, exclusion mode with BMFF offset markers. *)
From Coq Require Import List NArith Bool Lia Arith Permutation Sorted ZifyBool ZifyNat ZifyN.
From C2PA Require Import Base.Bytes Model.RangeHash Proofs.BytesProofs Proofs.RangeHashProofs.
Import ListNotations.
Open Scope N_scope.
Arguments N.add : simpl never.
Arguments N.sub : simpl never.
Arguments N.eqb : simpl never.
Arguments N.ltb : simpl never.
Arguments N.leb : simpl never.

Definition inb (x : N) (l : list N) : bool := existsb (N.eqb x) l.

(* specification: the non-excluded bytes in file order, each marker position contributing be64(position) just before its byte *)
Fixpoint selm (hr : list hrange) (ms : list N) (p : N) (data : bytes) : bytes :=
  match data with
  | [] => []
  | b :: t => (if inb p ms then be 8 p else []) ++ (if covered hr p then [] else [b]) ++ selm hr ms (p + 1) t
  end.

Definition markers_of (hr : list hrange) : list N :=
  flat_map (fun r => match hmark r with Some o => [o] | None => [] end) hr.
Definition plain_of (hr : list hrange) : list hrange :=
  filter (fun r => match hmark r with Some _ => false | None => true end) hr.

(* ------------------------------------------------------------------ exclusion pass with markers *)

Lemma excl_pass_general hr : forall rs st,
  Forall (fun r => hstart r + hlen r < U64) hr ->
  excl_pass hr rs st = Ok (remove_all (plain_of hr) rs, st ++ markers_of hr).
Proof.
  induction hr as [|r t IH]; intros rs st Hb.
  - cbn. rewrite app_nil_r. reflexivity.
  - inversion Hb as [|? ? Hb1 Hb2]; subst.
    cbn [excl_pass markers_of plain_of flat_map filter].
    destruct (hmark r) as [o|] eqn:Em.
    + rewrite IH by assumption. cbn [app]. rewrite <- app_assoc. reflexivity.
    + cbn [app remove_all fold_left]. unfold remove_step at 2.
      destruct (hlen r =? 0) eqn:E0; [apply IH; assumption|].
      replace (U64 <=? hstart r + hlen r) with false by lia. apply IH; assumption.
Qed.

(* ------------------------------------------------------------------ splitting one range at the markers *)

Fixpoint pieces (cur : rng) (ms : list N) : list rng :=
  match ms with
  | [] => [cur]
  | o :: t =>
      if contains cur o then
        if fst cur =? o then (o, o) :: pieces cur t
        else (fst cur, o - 1) :: (o, o) :: pieces (o, snd cur) t
      else pieces cur t
  end.

Lemma split_at_pieces ms : forall cur acc,
  let '(acc', c) := split_at cur ms acc in acc' ++ [c] = acc ++ pieces cur ms.
Proof.
  induction ms as [|o t IH]; intros cur acc; cbn [split_at pieces]; [reflexivity|].
  destruct (contains cur o).
  - destruct (fst cur =? o).
    + specialize (IH cur (acc ++ [(o, o)])). destruct (split_at cur t (acc ++ [(o, o)])) as [a c].
      rewrite IH, <- app_assoc. reflexivity.
    + specialize (IH (o, snd cur) (acc ++ [(fst cur, o - 1); (o, o)])).
      destruct (split_at (o, snd cur) t _) as [a c]. rewrite IH, <- app_assoc. reflexivity.
  - apply IH.
Qed.

Lemma split_all_pieces ms rs : forall acc,
  split_all rs ms acc = acc ++ concat (map (fun r => pieces r ms) rs).
Proof.
  induction rs as [|r t IH]; intro acc; cbn [split_all map concat]; [rewrite app_nil_r; reflexivity|].
  pose proof (split_at_pieces ms r acc) as H. destruct (split_at r ms acc) as [a c].
  rewrite IH, H, <- app_assoc. reflexivity.
Qed.

(* ------------------------------------------------------------------ what the hashing loop absorbs *)

Definition D (data : bytes) (r : rng) : bytes := slice data (N.to_nat (fst r)) (N.to_nat (snd r - fst r + 1)).
Definition readv1 (st : list N) (data : bytes) (r : rng) : bytes :=
  if is_marker st r then be 8 (fst r) else D data r.
Definition readv (st : list N) (data : bytes) (vec : list rng) : bytes := concat (map (readv1 st data) vec).

Lemma hash_loop_readv data buf st : 1 <= buf -> forall vec,
  Forall (fun r => fst r <= snd r /\ snd r < len data) vec ->
  exists u k, hash_loop data buf st vec = Some (u, k) /\ concat u = readv st data vec.
Proof.
  intros Hbuf vec H. induction H as [|r t [H1 H2] _ IH].
  - exists [], 0. split; reflexivity.
  - destruct IH as (u' & k' & E1 & E2). cbn [hash_loop]. unfold hash_range, readv. cbn [map concat].
    fold (readv st data t). unfold readv1 at 1.
    destruct (is_marker st r) eqn:Em.
    + rewrite E1. eexists _, _. split; [reflexivity|]. cbn [app concat]. rewrite E2. reflexivity.
    + replace (fst r + (snd r - fst r + 1) <=? len data) with true by lia.
      rewrite E1. eexists _, _. split; [reflexivity|]. rewrite concat_app, E2. f_equal.
      unfold D. apply chunks_concat; lia.
Qed.

(* indexed data and marker insertion *)
Fixpoint idx (p : N) (l : bytes) : list (N * N) :=
  match l with [] => [] | x :: t => (p, x) :: idx (p + 1) t end.
Definition g (ms : list N) (px : N * N) : bytes :=
  (if inb (fst px) ms then be 8 (fst px) else []) ++ [snd px].

Lemma idx_app p l1 l2 : idx p (l1 ++ l2) = idx p l1 ++ idx (p + len l1) l2.
Proof.
  revert p. induction l1 as [|x t IH]; intro p; cbn [app idx].
  - rewrite len_nil, N.add_0_r. reflexivity.
  - rewrite IH, len_cons. f_equal. f_equal. f_equal. lia.
Qed.

Lemma idx_length p l : length (idx p l) = length l.
Proof. revert p. induction l as [|x t IH]; intro p; cbn [idx length]; [reflexivity|]. rewrite IH. reflexivity. Qed.

Lemma flat_g_ext ms ms' l : forall p,
  (forall q, p <= q -> q < p + len l -> inb q ms = inb q ms') ->
  flat_map (g ms) (idx p l) = flat_map (g ms') (idx p l).
Proof.
  induction l as [|x t IH]; intros p H; [reflexivity|].
  cbn [idx flat_map]. rewrite len_cons in H. unfold g at 1 3. cbn [fst snd]. rewrite (H p) by lia.
  f_equal. apply IH. intros q H1 H2. apply H; lia.
Qed.

Lemma flat_g_nil l p : flat_map (g []) (idx p l) = l.
Proof. revert p. induction l as [|x t IH]; intro p; cbn [idx flat_map]; [reflexivity|]. unfold g at 1. cbn. rewrite IH. reflexivity. Qed.

Lemma flat_g_none ms l p : (forall q, p <= q -> q < p + len l -> inb q ms = false) ->
  flat_map (g ms) (idx p l) = l.
Proof. intro H. rewrite (flat_g_ext ms [] l p); [apply flat_g_nil|]. intros q H1 H2. rewrite H by assumption. reflexivity. Qed.

Lemma inb_In x l : inb x l = true <-> In x l.
Proof. apply existsb_eqb_In. Qed.

Lemma inb_false x l : inb x l = false <-> ~ In x l.
Proof. rewrite <- inb_In. destruct (inb x l); split; intro H; try congruence; try (intro; congruence); exfalso; apply H; reflexivity. Qed.

(* slices *)
Lemma firstn_add_skip {A} n1 n2 : forall (l : list A),
  firstn (n1 + n2) l = firstn n1 l ++ firstn n2 (skipn n1 l).
Proof.
  induction n1 as [|n IH]; intro l; [reflexivity|].
  destruct l as [|x t]; cbn [Nat.add firstn skipn app]; [rewrite firstn_nil; reflexivity|].
  rewrite IH. reflexivity.
Qed.

Lemma skipn_add {A} o n : forall (l : list A), skipn n (skipn o l) = skipn (o + n) l.
Proof.
  induction o as [|o IH]; intro l; [reflexivity|].
  destruct l as [|x t]; cbn [Nat.add skipn]; [apply skipn_nil|]. apply IH.
Qed.

Lemma slice_split {A} (l : list A) o n1 n2 :
  slice l o (n1 + n2) = slice l o n1 ++ slice l (o + n1) n2.
Proof. unfold slice. rewrite firstn_add_skip, skipn_add. reflexivity. Qed.

Lemma D_split data a o b : a < o -> o <= b ->
  D data (a, b) = D data (a, o - 1) ++ D data (o, b).
Proof.
  intros H1 H2. unfold D. cbn [fst snd].
  replace (N.to_nat (b - a + 1)) with (N.to_nat (o - 1 - a + 1) + N.to_nat (b - o + 1))%nat by lia.
  rewrite slice_split. f_equal. f_equal. lia.
Qed.

Lemma D_len data a b : a <= b -> b < len data -> len (D data (a, b)) = b - a + 1.
Proof. intros. unfold D, len. cbn [fst snd]. rewrite slice_length; unfold len in *; lia. Qed.

Lemma D_cons data a b : a <= b -> b < len data -> exists x t, D data (a, b) = x :: t.
Proof.
  intros H1 H2. pose proof (D_len data a b H1 H2) as Hl.
  destruct (D data (a, b)) as [|x t]; [rewrite len_nil in Hl; lia|eauto].
Qed.

(* ------------------------------------------------------------------ the pieces of one range hash to the range with markers inserted *)

(* no one-byte run starts at a marker inside [a,b] (negation of the F-MARKER1 class, relative to a range) *)
Definition no_one_byte (ms_all : list N) (a b : N) : Prop :=
  forall o, In o ms_all -> a <= o -> o <= b -> o + 1 <= b /\ ~ In (o + 1) ms_all.

Lemma no_one_byte_sub ms_all a b a' : no_one_byte ms_all a b -> a <= a' -> no_one_byte ms_all a' b.
Proof. intros H Ha o Ho H1 H2. apply H; auto; lia. Qed.

Lemma pieces_read ms_all data : forall ms a b,
  StronglySorted N.lt ms -> (forall o, In o ms -> In o ms_all) ->
  a <= b -> b < len data -> no_one_byte ms_all a b ->
  readv ms_all data (pieces (a, b) ms) = flat_map (g ms) (idx a (D data (a, b))).
Proof.
  induction ms as [|o t IH]; intros a b Hs Hsub Hab Hb HK.
  - cbn [pieces]. unfold readv. cbn [map concat]. rewrite app_nil_r, flat_g_nil.
    unfold readv1, is_marker. cbn [fst snd]. change (existsb (N.eqb a) ms_all) with (inb a ms_all).
    destruct (inb a ms_all) eqn:Ea; [|reflexivity].
    apply inb_In in Ea. destruct (HK a Ea) as [H1 _]; try lia.
    replace (b =? a) with false by lia. reflexivity.
  - inversion Hs as [|? ? Hs' Hlt]; subst. rewrite Forall_forall in Hlt.
    assert (Hsub' : forall o', In o' t -> In o' ms_all) by (intros; apply Hsub; right; assumption).
    assert (Ho : In o ms_all) by (apply Hsub; left; reflexivity).
    cbn [pieces]. unfold contains. cbn [fst snd].
    destruct ((a <=? o) && (o <=? b)) eqn:Ec.
    + destruct (a =? o) eqn:Ea.
      * (* the range starts at the marker *)
        assert (a = o) by lia. subst a.
        unfold readv. cbn [map concat]. fold (readv ms_all data (pieces (o, b) t)).
        rewrite IH by assumption.
        unfold readv1 at 1, is_marker. cbn [fst snd]. change (existsb (N.eqb o) ms_all) with (inb o ms_all).
        replace (inb o ms_all) with true by (symmetry; apply inb_In; exact Ho).
        rewrite N.eqb_refl. cbn [andb].
        destruct (D_cons data o b Hab Hb) as (x & tl & Ed). rewrite Ed. cbn [idx flat_map].
        unfold g at 1 3. cbn [fst snd].
        assert (Hnt : inb o t = false).
        { apply inb_false. intro Hin. specialize (Hlt o Hin). lia. }
        rewrite Hnt. unfold inb at 1. cbn [existsb]. rewrite N.eqb_refl. cbn [orb app].
        rewrite <- app_assoc. cbn [app]. f_equal. f_equal.
        apply flat_g_ext. intros q H1 H2. unfold inb. cbn [existsb]. replace (q =? o) with false by lia. reflexivity.
      * (* split at the marker *)
        assert (Hao : a < o) by lia. assert (Hob : o <= b) by lia.
        unfold readv. cbn [map concat]. fold (readv ms_all data (pieces (o, b) t)).
        rewrite IH; try assumption; [|eapply no_one_byte_sub; [exact HK|lia]].
        (* first piece: plain data *)
        assert (Hp1 : readv1 ms_all data (a, o - 1) = D data (a, o - 1)).
        { unfold readv1, is_marker. cbn [fst snd]. change (existsb (N.eqb a) ms_all) with (inb a ms_all).
          destruct (inb a ms_all) eqn:Eia; [|reflexivity].
          apply inb_In in Eia. destruct (HK a Eia) as [_ Hn]; try lia.
          destruct (o - 1 =? a) eqn:E1; [|reflexivity].
          exfalso. apply Hn. replace (a + 1) with o by lia. exact Ho. }
        rewrite Hp1.
        unfold readv1 at 1, is_marker. cbn [fst snd]. change (existsb (N.eqb o) ms_all) with (inb o ms_all).
        replace (inb o ms_all) with true by (symmetry; apply inb_In; exact Ho).
        rewrite N.eqb_refl. cbn [andb].
        rewrite (D_split data a o b Hao Hob), idx_app, flat_map_app.
        rewrite (D_len data a (o - 1)) by lia.
        rewrite (flat_g_none (o :: t) (D data (a, o - 1)) a).
        2:{ intros q H1 H2. rewrite D_len in H2 by lia. apply inb_false. intro Hin. destruct Hin as [Hq|Hq]; [lia|]. specialize (Hlt q Hq). lia. }
        f_equal. replace (a + (o - 1 - a + 1)) with o by lia.
        destruct (D_cons data o b Hob Hb) as (x & tl & Ed). rewrite Ed. cbn [idx flat_map].
        unfold g at 1 3. cbn [fst snd].
        assert (Hnt : inb o t = false).
        { apply inb_false. intro Hin. specialize (Hlt o Hin). lia. }
        rewrite Hnt. unfold inb at 1. cbn [existsb]. rewrite N.eqb_refl. cbn [orb app].
        rewrite <- app_assoc. cbn [app]. f_equal. f_equal.
        apply flat_g_ext. intros q H1 H2. unfold inb. cbn [existsb]. replace (q =? o) with false by lia. reflexivity.
    + (* marker outside the range *)
      rewrite IH by assumption.
      symmetry. apply flat_g_ext. intros q H1 H2. rewrite D_len in H2 by lia.
      unfold inb. cbn [existsb]. replace (q =? o) with false by lia. reflexivity.
Qed.

(* ------------------------------------------------------------------ shape of the split vector *)

Definition lef (x y : rng) : Prop := fst x <= fst y.

Lemma pieces_bounds ms : forall a b r, a <= b -> In r (pieces (a, b) ms) ->
  a <= fst r /\ fst r <= snd r /\ snd r <= b.
Proof.
  induction ms as [|o t IH]; intros a b r Hab Hin; cbn [pieces] in Hin.
  - destruct Hin as [<-|[]]. cbn. lia.
  - unfold contains in Hin. cbn [fst snd] in Hin.
    destruct ((a <=? o) && (o <=? b)) eqn:Ec; [|apply IH; assumption].
    destruct (a =? o) eqn:Ea.
    + destruct Hin as [<-|Hin]; [cbn; lia|apply IH; assumption].
    + destruct Hin as [<-|[<-|Hin]]; [cbn; lia|cbn; lia|].
      destruct (IH o b r ltac:(lia) Hin). lia.
Qed.

Lemma pieces_sorted ms : forall a b, a <= b -> StronglySorted lef (pieces (a, b) ms).
Proof.
  induction ms as [|o t IH]; intros a b Hab; cbn [pieces].
  - repeat constructor.
  - unfold contains. cbn [fst snd].
    destruct ((a <=? o) && (o <=? b)) eqn:Ec; [|apply IH; assumption].
    destruct (a =? o) eqn:Ea.
    + constructor; [apply IH; assumption|].
      apply Forall_forall. intros r Hr. destruct (pieces_bounds t a b r Hab Hr). unfold lef. cbn. lia.
    + constructor; [constructor; [apply IH; lia|]|].
      * apply Forall_forall. intros r Hr. destruct (pieces_bounds t o b r ltac:(lia) Hr). unfold lef. cbn. lia.
      * constructor; [unfold lef; cbn; lia|].
        apply Forall_forall. intros r Hr. destruct (pieces_bounds t o b r ltac:(lia) Hr). unfold lef. cbn. lia.
Qed.

Lemma ss_app {A} (R : A -> A -> Prop) l1 l2 :
  StronglySorted R l1 -> StronglySorted R l2 -> (forall x y, In x l1 -> In y l2 -> R x y) ->
  StronglySorted R (l1 ++ l2).
Proof.
  intros H1 H2 H. induction H1 as [|x t Ht IH Hx]; [exact H2|].
  cbn [app]. constructor.
  - apply IH. intros; apply H; auto. right; assumption.
  - apply Forall_app. split; [exact Hx|]. apply Forall_forall. intros y Hy. apply H; [left; reflexivity|exact Hy].
Qed.

Definition vec_of (rs : list rng) (ms : list N) : list rng := concat (map (fun r => pieces r ms) rs).

Lemma vec_bounds ms rs : forall lb ub r, sd lb ub rs -> In r (vec_of rs ms) ->
  lb <= fst r /\ fst r <= snd r /\ snd r < ub.
Proof.
  induction rs as [|[a b] t IH]; intros lb ub r Hsd Hin; [inversion Hin|].
  cbn [sd] in Hsd. destruct Hsd as (H1 & H2 & H3 & H4).
  unfold vec_of in Hin. cbn [map concat] in Hin. apply in_app_or in Hin. destruct Hin as [Hin|Hin].
  - destruct (pieces_bounds ms a b r H2 Hin). lia.
  - destruct (IH (b + 1) ub r H4 Hin). lia.
Qed.

Lemma vec_sorted ms rs : forall lb ub, sd lb ub rs -> StronglySorted lef (vec_of rs ms).
Proof.
  induction rs as [|[a b] t IH]; intros lb ub Hsd; [constructor|].
  cbn [sd] in Hsd. destruct Hsd as (H1 & H2 & H3 & H4).
  unfold vec_of. cbn [map concat]. apply ss_app.
  - apply pieces_sorted. exact H2.
  - apply (IH (b + 1) ub). exact H4.
  - intros x y Hx Hy. destruct (pieces_bounds ms a b x H2 Hx). destruct (vec_bounds ms t (b + 1) ub y H4 Hy).
    unfold lef. lia.
Qed.

Lemma marker_in_pieces ms : forall a b o,
  StronglySorted N.lt ms -> In o ms -> a <= o -> o <= b -> In (o, o) (pieces (a, b) ms).
Proof.
  induction ms as [|o' t IH]; intros a b o Hs Hin Ha Hb; [inversion Hin|].
  inversion Hs as [|? ? Hs' Hlt]; subst. rewrite Forall_forall in Hlt.
  cbn [pieces]. unfold contains. cbn [fst snd].
  destruct Hin as [->|Hin].
  - replace ((a <=? o) && (o <=? b)) with true by lia.
    destruct (a =? o); [left; reflexivity|right; left; reflexivity].
  - specialize (Hlt o Hin).
    destruct ((a <=? o') && (o' <=? b)) eqn:Ec; [|apply IH; assumption].
    destruct (a =? o'); [right; apply IH; assumption|].
    right; right. apply IH; try assumption; lia.
Qed.

Lemma extra_markers_noop ms before after vec :
  (forall o, In o ms -> existsb (fun r => contains r o) vec = true) ->
  extra_markers ms before after vec = vec.
Proof.
  induction ms as [|o t IH]; intro H; [reflexivity|].
  cbn [extra_markers]. rewrite (H o) by (left; reflexivity). cbn [negb andb].
  apply IH. intros; apply H; right; assumption.
Qed.

Lemma sort_by_sorted_id {A} (key : A -> N) l :
  StronglySorted (fun x y => key x <= key y) l -> sort_by key l = l.
Proof.
  induction 1 as [|x t Ht IH Hx]; [reflexivity|].
  cbn [sort_by fold_right]. fold (sort_by key t). rewrite IH.
  destruct t as [|y t']; [reflexivity|]. cbn [insert_by].
  inversion Hx; subst. replace (key x <=? key y) with true by lia. reflexivity.
Qed.

Lemma insert_by_sorted {A} (key : A -> N) x l :
  StronglySorted (fun x y => key x <= key y) l -> StronglySorted (fun x y => key x <= key y) (insert_by key x l).
Proof.
  induction 1 as [|y t Ht IH Hy]; cbn [insert_by]; [repeat constructor|].
  destruct (key x <=? key y) eqn:E.
  - constructor; [constructor; assumption|].
    constructor; [lia|]. eapply Forall_impl; [|exact Hy]. cbn. intros; lia.
  - constructor; [exact IH|].
    eapply Permutation_Forall; [symmetry; apply insert_by_perm|].
    constructor; [lia|exact Hy].
Qed.

Lemma sort_by_is_sorted {A} (key : A -> N) l : StronglySorted (fun x y => key x <= key y) (sort_by key l).
Proof.
  induction l as [|x t IH]; [constructor|]. cbn [sort_by fold_right]. apply insert_by_sorted. exact IH.
Qed.

Lemma sorted_nodup_strict l : StronglySorted (fun x y : N => x <= y) l -> NoDup l -> StronglySorted N.lt l.
Proof.
  induction 1 as [|x t Ht IH Hx]; intro Hnd; [constructor|].
  inversion Hnd as [|? ? Hnin Hnd']; subst. constructor; [apply IH; exact Hnd'|].
  rewrite Forall_forall in *. intros y Hy. specialize (Hx y Hy).
  assert (x <> y) by (intro; subst; contradiction). lia.
Qed.

(* ------------------------------------------------------------------ assembling the ranges *)

Lemma idx_slice data : forall p o n,
  slice (idx p data) o n = idx (p + N.of_nat o) (slice data o n).
Proof.
  induction data as [|x t IH]; intros p o n.
  - unfold slice. rewrite !skipn_nil, !firstn_nil. reflexivity.
  - destruct o as [|o].
    + destruct n as [|n]; [reflexivity|].
      change (slice (idx p (x :: t)) 0 (S n)) with ((p, x) :: slice (idx (p + 1) t) 0 n).
      change (slice (x :: t) 0 (S n)) with (x :: slice t 0 n). cbn [idx].
      rewrite IH. cbn [N.of_nat]. rewrite !N.add_0_r. reflexivity.
    + change (slice (idx p (x :: t)) (S o) n) with (slice (idx (p + 1) t) o n).
      change (slice (x :: t) (S o) n) with (slice t o n).
      rewrite IH. f_equal. lia.
Qed.

Lemma readv_vec ms data rs : forall lb,
  StronglySorted N.lt ms -> sd lb (len data) rs ->
  (forall r, In r rs -> no_one_byte ms (fst r) (snd r)) ->
  readv ms data (vec_of rs ms) = flat_map (g ms) (read_all 0 (idx 0 data) rs).
Proof.
  induction rs as [|[a b] t IH]; intros lb Hs Hsd HK; [reflexivity|].
  cbn [sd] in Hsd. destruct Hsd as (H1 & H2 & H3 & H4).
  unfold vec_of, readv, read_all. cbn [map concat]. rewrite map_app, concat_app, flat_map_app.
  f_equal.
  - change (concat (map (readv1 ms data) (pieces (a, b) ms))) with (readv ms data (pieces (a, b) ms)).
    rewrite (pieces_read ms data ms a b Hs (fun o H => H) H2 H3 (HK (a, b) (or_introl eq_refl))).
    unfold read_one, D. cbn [fst snd]. rewrite idx_slice. rewrite N.sub_0_r, N.add_0_l, N2Nat.id. reflexivity.
  - apply (IH (b + 1)); auto. intros r Hr. apply HK. right; exact Hr.
Qed.

Lemma flat_filt_selm rs plain ms data : forall p,
  (forall q, p <= q -> q < p + len data -> mem rs q = negb (covered plain q)) ->
  (forall o, In o ms -> p <= o -> o < p + len data -> covered plain o = false) ->
  flat_map (g ms) (filt rs p (idx p data)) = selm plain ms p data.
Proof.
  induction data as [|x t IH]; intros p Hm Ho; [reflexivity|].
  rewrite len_cons in Hm, Ho. cbn [idx filt selm]. rewrite (Hm p) by lia.
  assert (IH' : flat_map (g ms) (filt rs (p + 1) (idx (p + 1) t)) = selm plain ms (p + 1) t).
  { apply IH; intros; [apply Hm|apply Ho]; auto; lia. }
  destruct (covered plain p) eqn:Ec; cbn [negb app].
  - destruct (inb p ms) eqn:Ei.
    + apply inb_In in Ei. rewrite (Ho p Ei) in Ec by lia. discriminate.
    + cbn [app]. exact IH'.
  - cbn [flat_map]. unfold g at 1. cbn [fst snd]. rewrite IH', <- app_assoc. reflexivity.
Qed.

Lemma idx_len p l : len (idx p l) = len l.
Proof. unfold len. rewrite idx_length. reflexivity. Qed.

Lemma selm_ext plain ms ms' data : forall p,
  (forall q, inb q ms = inb q ms') -> selm plain ms p data = selm plain ms' p data.
Proof.
  induction data as [|x t IH]; intros p H; [reflexivity|]. cbn [selm]. rewrite (H p), (IH (p + 1) H). reflexivity.
Qed.

Lemma markers_of_perm l l' : Permutation l l' -> Permutation (markers_of l) (markers_of l').
Proof.
  induction 1; cbn [markers_of flat_map] in *.
  - reflexivity.
  - apply Permutation_app_head. assumption.
  - rewrite !app_assoc. apply Permutation_app_tail. apply Permutation_app_comm.
  - etransitivity; eassumption.
Qed.

Lemma plain_of_perm l l' : Permutation l l' -> Permutation (plain_of l) (plain_of l').
Proof.
  induction 1; cbn [plain_of filter] in *.
  - reflexivity.
  - destruct (hmark x); [assumption|constructor; assumption].
  - destruct (hmark x), (hmark y); try reflexivity. apply perm_swap.
  - etransitivity; eassumption.
Qed.

Lemma inb_perm q l l' : Permutation l l' -> inb q l = inb q l'.
Proof.
  intro P. destruct (inb q l) eqn:E1; destruct (inb q l') eqn:E2; try reflexivity.
  - apply inb_In in E1. apply inb_false in E2. exfalso. apply E2. eapply Permutation_in; eauto.
  - apply inb_In in E2. apply inb_false in E1. exfalso. apply E1. eapply Permutation_in; [symmetry|]; eauto.
Qed.

(* ranges produced by successive removals from one range are separated by gaps *)
Fixpoint sdg (lb ub : N) (rs : list rng) : Prop :=
  match rs with
  | [] => True
  | (a, b) :: t => lb <= a /\ a <= b /\ b < ub /\ sdg (b + 2) ub t
  end.

Lemma sdg_weaken lb lb' ub rs : lb' <= lb -> sdg lb ub rs -> sdg lb' ub rs.
Proof. destruct rs as [|[a b] t]; cbn [sdg]; [auto|]. intros; intuition lia. Qed.

Lemma sdg_sd rs : forall lb ub, sdg lb ub rs -> sd lb ub rs.
Proof.
  induction rs as [|[a b] t IH]; intros lb ub H; [exact I|].
  cbn [sdg] in H. cbn [sd]. destruct H as (H1 & H2 & H3 & H4). repeat split; auto.
  apply IH. eapply sdg_weaken; [|exact H4]. lia.
Qed.

Lemma remove_sdg s lo hi : lo <= hi -> forall lb ub, sdg lb ub s -> sdg lb ub (remove s lo hi).
Proof.
  intro Hle. induction s as [|[a b] t IH]; intros lb ub H; [exact I|].
  cbn [sdg] in H. destruct H as (H1 & H2 & H3 & H4). cbn [remove].
  destruct ((b <? lo) || (hi <? a)) eqn:E.
  - cbn [sdg]. repeat split; try lia. apply IH. exact H4.
  - destruct (a <? lo) eqn:E1; destruct (hi <? b) eqn:E2; cbn [app sdg].
    + repeat split; try lia. apply sdg_weaken with (lb := b + 2); [lia|]. apply IH; exact H4.
    + repeat split; try lia. apply sdg_weaken with (lb := b + 2); [lia|]. apply IH; exact H4.
    + repeat split; try lia. apply IH; exact H4.
    + apply sdg_weaken with (lb := b + 2); [lia|]. apply IH; exact H4.
Qed.

Lemma remove_all_sdg hr : forall rs lb ub, sdg lb ub rs -> sdg lb ub (remove_all hr rs).
Proof.
  induction hr as [|r t IH]; intros rs lb ub H; [exact H|].
  cbn [remove_all fold_left]. apply IH. unfold remove_step.
  destruct (hlen r =? 0) eqn:E; [exact H|]. apply remove_sdg; [lia|exact H].
Qed.

Lemma sdg_after rs : forall lb ub r, sdg lb ub rs -> In r rs -> mem rs (snd r + 1) = false.
Proof.
  induction rs as [|[a b] t IH]; intros lb ub r H Hin; [inversion Hin|].
  cbn [sdg] in H. destruct H as (H1 & H2 & H3 & H4). rewrite mem_cons.
  destruct Hin as [<-|Hin].
  - cbn [snd]. rewrite (mem_below (b + 2) ub t) by (try lia; apply sdg_sd; exact H4). lia.
  - rewrite (IH (b + 2) ub r H4 Hin).
    destruct (sd_in _ _ _ _ (sdg_sd _ _ _ H4) Hin). lia.
Qed.

(* the class of F-MARKER1 in exclusion mode: some marker sits on a one-byte hashed run *)
Definition known_excl (dl : N) (hr : list hrange) : Prop :=
  exists o, In o (markers_of hr) /\
            (dl <= o + 1 \/ covered (plain_of hr) (o + 1) = true \/ In (o + 1) (markers_of hr)).

Lemma sel_selm_nil hr data : forall p, sel hr p data = selm hr [] p data.
Proof. induction data as [|x t IH]; intro p; [reflexivity|]. cbn [sel selm inb existsb app]. rewrite IH. reflexivity. Qed.

Lemma plain_of_nomark hr : Forall no_marker hr -> plain_of hr = hr.
Proof.
  induction 1 as [|r t Hr _ IH]; [reflexivity|].
  cbn [plain_of filter]. unfold no_marker in Hr. rewrite Hr. f_equal. exact IH.
Qed.

Theorem exclusion_markers_spec debug data hr buf :
  1 <= len data -> len data < U64 -> 1 <= buf ->
  Forall (in_bounds (len data)) hr ->
  NoDup (markers_of hr) ->
  (forall o, In o (markers_of hr) -> o < len data /\ covered (plain_of hr) o = false) ->
  ~ known_excl (len data) hr ->
  match hash_model debug data hr true buf with
  | Ok r => hasher_input r = selm (plain_of hr) (markers_of hr) 0 data
  | Err _ => False
  | Panic => debug = true
  end.
Proof.
  intros H1 H64 Hbuf Hb Hnd Hpos Hnk.
  destruct (markers_of hr) as [|m0 mt] eqn:Emk.
  { (* no markers at all: the plain theorem applies *)
    assert (Hm : Forall no_marker hr).
    { apply Forall_forall. intros r Hr. unfold no_marker. destruct (hmark r) as [o|] eqn:E; [|reflexivity].
      exfalso. assert (Hin : In o (markers_of hr)).
      { unfold markers_of. apply in_flat_map. exists r. split; [exact Hr|]. rewrite E. left; reflexivity. }
      rewrite Emk in Hin. inversion Hin. }
    rewrite (plain_of_nomark hr Hm).
    unfold hash_model. replace (len data <? 1) with false by lia.
    destruct (build_ranges_excl (len data) hr H1 H64 Hm Hb) as (rs & E & Hsd & Hmem). rewrite E.
    destruct (hash_loop_nomark data buf Hbuf rs 0 Hsd) as (u & k & EL & EC & EK). rewrite EL.
    destruct debug; cbn [andb]; [destruct (U32 <=? total_ticks buf rs); [reflexivity|]|];
      unfold hasher_input; cbn [updates]; rewrite EC, (read_filt data 0 rs (len data)) by (auto; lia);
      rewrite (filt_sel rs hr data 0) by (intros q _ Hq; apply Hmem; lia); apply sel_selm_nil. }
  rewrite <- Emk in *.
  assert (Hne : hr <> []) by (intro; subst; discriminate).
  set (shr := sort_by hstart hr).
  assert (Hperm : Permutation shr hr) by apply sort_by_perm.
  assert (Hb' : Forall (in_bounds (len data)) shr) by (eapply Permutation_Forall; [symmetry; exact Hperm|exact Hb]).
  assert (Pms0 : Permutation (markers_of shr) (markers_of hr)) by (apply markers_of_perm; exact Hperm).
  destruct (markers_of shr) as [|m1 mt'] eqn:Ems0.
  { exfalso. apply Permutation_nil in Pms0. rewrite Emk in Pms0. discriminate. }
  set (ms0 := m1 :: mt') in *.
  assert (Pms : Permutation ms0 (markers_of hr)) by exact Pms0.
  set (ms := sort_by (fun x => x) ms0).
  assert (Pms2 : Permutation ms (markers_of hr)) by (etransitivity; [apply sort_by_perm|exact Pms]).
  assert (Hss : StronglySorted N.lt ms).
  { apply sorted_nodup_strict; [apply (sort_by_is_sorted (fun x : N => x))|].
    eapply Permutation_NoDup; [symmetry; exact Pms2|exact Hnd]. }
  set (rs := remove_all (plain_of shr) [(0, len data - 1)]).
  assert (Hsdg : sdg 0 (len data) rs) by (apply remove_all_sdg; cbn [sdg]; repeat split; lia).
  assert (Hsd : sd 0 (len data) rs) by (apply sdg_sd; exact Hsdg).
  assert (Hmem : forall p, p < len data -> mem rs p = negb (covered (plain_of hr) p)).
  { intros p Hp. unfold rs. rewrite remove_all_mem, mem_cons, mem_nil.
    rewrite (covered_perm (plain_of shr) (plain_of hr) p (plain_of_perm _ _ Hperm)).
    destruct (covered (plain_of hr) p); lia. }
  assert (Hin_ms : forall o, In o ms <-> In o (markers_of hr)).
  { intro o. split; intro H; [eapply Permutation_in; [exact Pms2|exact H]|eapply Permutation_in; [symmetry; exact Pms2|exact H]]. }
  assert (HK : forall r, In r rs -> no_one_byte ms (fst r) (snd r)).
  { intros r Hr o Ho Ha Hbb. apply Hin_ms in Ho.
    destruct (sd_in _ _ _ _ Hsd Hr) as (K1 & K2 & K3).
    destruct (N.le_gt_cases (o + 1) (snd r)) as [Hle|Hgt].
    - split; [exact Hle|]. intro Hn. apply Hnk. exists o. split; [exact Ho|]. right; right. apply Hin_ms. exact Hn.
    - exfalso. apply Hnk. exists o. split; [exact Ho|].
      destruct (N.le_gt_cases (len data) (o + 1)) as [Hend|Hin]; [left; exact Hend|]. right; left.
      assert (Eo : o = snd r) by lia.
      pose proof (sdg_after rs 0 (len data) r Hsdg Hr) as Hm1. rewrite <- Eo in Hm1.
      rewrite Hmem in Hm1 by lia. destruct (covered (plain_of hr) (o + 1)); [reflexivity|discriminate]. }
  (* the model's computation *)
  unfold hash_model. replace (len data <? 1) with false by lia.
  unfold build_ranges. destruct hr as [|r0 t0]; [congruence|]. fold shr.
  rewrite check_ends_ok by assumption.
  rewrite excl_pass_general by (eapply Forall_impl; [|exact Hb']; unfold in_bounds; intros; lia).
  rewrite Ems0. cbn [app]. fold rs. unfold ms0 at 1. cbv iota.
  unfold merge_markers. fold ms. rewrite split_all_pieces. cbn [app]. fold (vec_of rs ms).
  (* the extra-marker pass adds nothing *)
  rewrite extra_markers_noop.
  2:{ intros o Ho. pose proof Ho as Ho'. apply Hin_ms in Ho'. destruct (Hpos o Ho') as [Hlt Hcov].
      assert (Hmo : mem rs o = true) by (rewrite Hmem by lia; rewrite Hcov; reflexivity).
      unfold mem in Hmo. apply existsb_exists in Hmo. destruct Hmo as (r & Hr & Hc).
      apply existsb_exists. exists (o, o). split.
      - unfold vec_of. apply in_concat. exists (pieces r ms). split; [apply (in_map (fun r => pieces r ms)); exact Hr|].
        destruct r as [a b]. unfold contains in Hc. cbn [fst snd] in Hc. apply marker_in_pieces; auto; lia.
      - unfold contains. cbn [fst snd]. lia. }
  (* the final sort is the identity *)
  rewrite (sort_by_sorted_id fst (vec_of rs ms)) by (apply (vec_sorted ms rs 0 (len data)); exact Hsd).
  cbn [fst snd].
  destruct (hash_loop_readv data buf ms Hbuf (vec_of rs ms)) as (u & k & EL & EC).
  { apply Forall_forall. intros r Hr. destruct (vec_bounds ms rs 0 (len data) r Hsd Hr). lia. }
  rewrite EL.
  assert (Hfinal : concat u = selm (plain_of (r0 :: t0)) (markers_of (r0 :: t0)) 0 data).
  { rewrite EC, (readv_vec ms data rs 0 Hss Hsd HK).
    rewrite (read_filt (idx 0 data) 0 rs (len data)) by (auto; rewrite idx_len; lia).
    rewrite (flat_filt_selm rs (plain_of (r0 :: t0)) ms data 0).
    - apply selm_ext. intro q. apply inb_perm. exact Pms2.
    - intros q _ Hq. apply Hmem. lia.
    - intros o Ho _ _. apply Hin_ms in Ho. apply (Hpos o Ho). }
  destruct debug; cbn [andb]; [destruct (U32 <=? _); [reflexivity|]|]; unfold hasher_input; cbn [updates]; exact Hfinal.
Qed.
